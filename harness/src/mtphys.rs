//! R6 tie: the PHYSICAL multitree column model (lean/Pdb/Model/MultiTreePhys.lean, driver command `mtphys`) against
//! the real column.  The driver gets the same InsertTree / ReferenceTree / DereferenceTree transactions and the same
//! process steps and predicts REAL addresses ((index << 8) | tier: per-tier LIFO reuse, parent-before-children claim
//! order per tier, root value slots taken from the same tables), the raw bytes of every slot of every tier used
//! (`Db::verif_table_entry`), the table headers (`Db::verif_table_state`: filled, last_removed, free-list length), the
//! ref-count table entries and what `get_root` / `get_node` return (`Db::verif_multitree_dump`).
//!
//! Op lines (see the header of MultiTreePhys.lean):
//!   mtphys init <variant> | tx <op> ; <op> .. | process | root <hashed key> | node <addr> | rc <addr> | hdr <tier> |
//!   slot <tier> <index>
//! Observed addresses of NEW nodes of a transaction are read back through the commit overlay right after
//! `commit_changes` returned (`get_root` / `get_node`), walking the real children in parallel with the submitted tree.
//! Independent oracle at the end of a case: after every tree is dereferenced the dump holds no root and no node and in
//! every table `free list length + 1 == filled`.
use crate::util::*;
use parity_db::{ColumnOptions, CompressionType, Db, NewNode, NodeRef, Operation, Options};
use std::collections::{BTreeMap, BTreeSet};
use std::path::{Path, PathBuf};

const TOMBSTONE: [u8; 2] = [0xff, 0xff];
const MULTIPART: [u8; 2] = [0xfe, 0xff];
const MULTIHEAD: [u8; 2] = [0xfd, 0xff];
const MULTIHEAD_COMPRESSED: [u8; 2] = [0xfc, 0xff];
const FNV_INIT: u64 = 0xcbf29ce484222325;

fn fnv(bytes: &[u8], mut h: u64) -> u64 {
	for b in bytes {
		h ^= *b as u64;
		h = h.wrapping_mul(0x100000001b3);
	}
	h
}

#[derive(Clone, Copy, PartialEq, Eq, Debug)]
enum Variant {
	AppendOnly,
	Rc,
	Plain,
}

impl Variant {
	fn name(self) -> &'static str {
		match self {
			Variant::AppendOnly => "append_only",
			Variant::Rc => "rc",
			Variant::Plain => "plain",
		}
	}
}

fn options(v: Variant, path: &Path, salt: [u8; 32]) -> Options {
	let mut o = Options::with_columns(path, 1);
	o.columns[0] = ColumnOptions {
		preimage: v == Variant::Rc,
		uniform: false,
		ref_counted: v == Variant::Rc,
		compression: CompressionType::NoCompression,
		btree_index: false,
		multitree: true,
		append_only: v == Variant::AppendOnly,
		allow_direct_node_access: v != Variant::AppendOnly,
	};
	o.salt = Some(salt);
	o.with_background_thread = false;
	o.always_flush = true;
	o.stats = false;
	o.sync_wal = false;
	o.sync_data = false;
	o
}

/// stepping discipline of c10::Sut
struct Sut {
	v: Variant,
	salt: [u8; 32],
	dir: PathBuf,
	db: Option<Db>,
	queued: usize,
	logged: usize,
	flushed: usize,
	unread_files: usize,
	dirty: usize,
}

impl Sut {
	fn create(v: Variant, salt: [u8; 32], dir: PathBuf) -> Sut {
		parity_db::verif::set_min_ref_count_bits(0);
		let db = Db::open_or_create(&options(v, &dir, salt)).expect("create");
		Sut { v, salt, dir, db: Some(db), queued: 0, logged: 0, flushed: 0, unread_files: 0, dirty: 0 }
	}
	fn db(&self) -> &Db {
		self.db.as_ref().unwrap()
	}
	fn process(&mut self) -> Result<(), parity_db::Error> {
		self.db().process_commits()?;
		if self.queued > 0 {
			self.queued -= 1;
			self.logged += 1;
		}
		Ok(())
	}
	fn flush(&mut self) -> Result<(), parity_db::Error> {
		self.db().flush_logs()?;
		if self.logged > self.flushed {
			self.flushed = self.logged;
			self.unread_files += 1;
		}
		Ok(())
	}
	fn enact_all(&mut self) -> Result<(), parity_db::Error> {
		let mut guard = 0;
		while self.unread_files > 0 || guard == 0 {
			if self.dirty >= 3 {
				self.clean()?;
			}
			self.db().enact_logs()?;
			if self.unread_files > 0 {
				self.unread_files -= 1;
				self.dirty += 1;
			}
			guard += 1;
			if guard > 64 {
				break
			}
		}
		self.logged -= self.flushed;
		self.flushed = 0;
		Ok(())
	}
	fn clean(&mut self) -> Result<(), parity_db::Error> {
		self.db().clean_logs()?;
		self.dirty = 0;
		Ok(())
	}
	fn settle(&mut self) -> Result<(), parity_db::Error> {
		self.flush()?;
		self.enact_all()?;
		self.clean()
	}
	fn reopen(&mut self) -> Result<(), parity_db::Error> {
		if self.dirty >= 3 {
			let _ = self.clean();
		}
		self.db = None;
		self.queued = 0;
		self.logged = 0;
		self.flushed = 0;
		self.unread_files = 0;
		self.dirty = 0;
		parity_db::verif::set_min_ref_count_bits(0);
		self.db = Some(Db::open(&options(self.v, &self.dir, self.salt))?);
		Ok(())
	}
}

enum MyOp {
	Ins,
	Ref(Vec<u8>),
	Deref(Vec<u8>),
}

/// generated tree
#[derive(Clone, Debug)]
enum GRef {
	New(GNode),
	Existing(u64),
}

#[derive(Clone, Debug)]
struct GNode {
	tok: String,
	children: Vec<GRef>,
}

fn data_len(rng: &mut Rng, small: bool, narrow: &[usize]) -> usize {
	if !narrow.is_empty() && !rng.chance(1, 10) {
		return *rng.pick(narrow)
	}
	if small {
		return rng.below(24) as usize
	}
	let r = rng.below(60);
	if r < 5 {
		rng.range(33_000, 70_000) as usize
	} else if r < 9 {
		rng.range(3_000, 32_760) as usize
	} else if r < 19 {
		rng.range(200, 3_000) as usize
	} else if r < 22 {
		// around the boundaries of the last fixed tier and of the first tiers
		*rng.pick(&[0usize, 1, 20, 21, 22, 29, 30, 31, 32_700, 32_740, 32_749, 32_750, 32_753, 32_757, 32_758, 32_759, 32_760])
	} else {
		rng.below(200) as usize
	}
}

struct Gen<'a> {
	rng: &'a mut Rng,
	cands: &'a [u64],
	budget: &'a mut i64,
	next_tok: &'a mut u64,
	existing_used: u64,
	narrow: &'a [usize],
}

impl<'a> Gen<'a> {
	fn tok(&mut self, small: bool) -> String {
		*self.next_tok += 1;
		let len = data_len(self.rng, small, self.narrow);
		*self.budget -= 1 + (len as i64) / 4096;
		format!("v{}_{}", len, *self.next_tok * 7 + self.rng.below(7))
	}
	fn node(&mut self, depth: u32, wide: &mut Option<usize>) -> GNode {
		let tok = self.tok(false);
		let mut children = Vec::new();
		if let Some(n) = wide.take() {
			for _ in 0..n {
				if !self.cands.is_empty() && self.rng.chance(1, 12) {
					self.existing_used += 1;
					children.push(GRef::Existing(*self.rng.pick(self.cands)));
				} else {
					let tok = self.tok(true);
					children.push(GRef::New(GNode { tok, children: vec![] }));
				}
			}
			return GNode { tok, children }
		}
		let fan = if depth == 0 || *self.budget <= 0 { 0 } else { self.rng.below(5) };
		for _ in 0..fan {
			if !self.cands.is_empty() && self.rng.chance(1, 4) {
				self.existing_used += 1;
				children.push(GRef::Existing(*self.rng.pick(self.cands)));
			} else {
				children.push(GRef::New(self.node(depth - 1, wide)));
			}
		}
		GNode { tok, children }
	}
}

fn to_real(g: &GNode) -> NewNode {
	NewNode {
		data: expand_token(&g.tok),
		children: g
			.children
			.iter()
			.map(|c| match c {
				GRef::New(n) => NodeRef::New(to_real(n)),
				GRef::Existing(a) => NodeRef::Existing(*a),
			})
			.collect(),
	}
}

fn tokens(g: &GNode, out: &mut Vec<String>) {
	out.push(format!("n{}:{}", g.children.len(), g.tok));
	for c in &g.children {
		match c {
			GRef::New(n) => tokens(n, out),
			GRef::Existing(a) => out.push(format!("#{}", a)),
		}
	}
}

fn count_new(g: &GNode) -> u64 {
	g.children.iter().map(|c| if let GRef::New(n) = c { 1 + count_new(n) } else { 0 }).sum()
}

fn addrs(l: &[u64]) -> String {
	if l.is_empty() {
		"-".to_string()
	} else {
		l.iter().map(|a| a.to_string()).collect::<Vec<_>>().join(",")
	}
}

struct Case {
	sut: Sut,
	v: Variant,
	failed: bool,
	/// logical root count per raw key, queued operations included
	live: BTreeMap<Vec<u8>, u64>,
	dead: Vec<Vec<u8>>,
	/// node addresses of each live tree (new nodes of its insert)
	tree_nodes: BTreeMap<Vec<u8>, Vec<u64>>,
	hashed: BTreeMap<Vec<u8>, Vec<u8>>,
	raw_of: BTreeMap<Vec<u8>, Vec<u8>>,
	seen_addrs: BTreeSet<u64>,
	tiers: BTreeSet<u8>,
	reused: u64,
	existing_used: u64,
}

impl Case {
	fn fail(&mut self, t: &mut Trace, msg: String) {
		t.comment(&format!("FAIL {}", msg));
		self.failed = true;
	}

	fn hkey(&mut self, raw: &[u8]) -> Vec<u8> {
		if let Some(h) = self.hashed.get(raw) {
			return h.clone()
		}
		let h = self.sut.db().verif_hash_key(0, raw).expect("hash column").to_vec();
		self.hashed.insert(raw.to_vec(), h.clone());
		self.raw_of.insert(h.clone(), raw.to_vec());
		h
	}

	/// post-order addresses of the new nodes below (data, children) read through the overlay
	fn new_addrs(&self, g: &GNode, children: &[u64], out: &mut Vec<u64>) -> Result<(), String> {
		if children.len() != g.children.len() {
			return Err(format!("{} children read, {} submitted", children.len(), g.children.len()))
		}
		for (c, a) in g.children.iter().zip(children.iter()) {
			if let GRef::New(n) = c {
				match self.sut.db().get_node(0, *a) {
					Ok(Some((_d, kids))) => {
						self.new_addrs(n, &kids, out)?;
						out.push(*a);
					},
					Ok(None) => return Err(format!("get_node({}) = None right after the commit", a)),
					Err(e) => return Err(format!("get_node({}): {:?}", a, e)),
				}
			}
		}
		Ok(())
	}

	fn process_one(&mut self, t: &mut Trace) {
		match self.sut.process() {
			Ok(()) => t.op("mtphys process", "ok"),
			Err(e) => {
				t.op("mtphys process", &format!("err:{}", err_kind(&e)));
				self.fail(t, format!("process_commits: {:?}", e));
			},
		}
	}

	fn slot_prefix(raw: &[u8], tier: u8) -> String {
		if raw.len() < 10 {
			return "-".into()
		}
		let m = [raw[0], raw[1]];
		let n = if m == TOMBSTONE {
			10
		} else if tier == 255 && (m == MULTIPART || m == MULTIHEAD || m == MULTIHEAD_COMPRESSED) {
			raw.len()
		} else {
			std::cmp::min(raw.len(), 2 + (u16::from_le_bytes(m) & 0x7fff) as usize)
		};
		hex(&raw[..n])
	}

	/// all queued commits processed: settle and compare
	fn compare(&mut self, t: &mut Trace, ctr: &mut Counters, rng: &mut Rng) -> Option<(usize, usize, Vec<(u8, u64, u64)>)> {
		while self.sut.queued > 0 {
			self.process_one(t);
			if self.failed {
				return None
			}
		}
		if let Err(e) = self.sut.settle() {
			self.fail(t, format!("settle: {:?}", e));
			return None
		}
		let d = match self.sut.db().verif_multitree_dump(0) {
			Ok(Some(d)) => d,
			other => {
				self.fail(t, format!("verif_multitree_dump: {:?}", other.map(|_| ())));
				return None
			},
		};
		for (hk, addr, count, children) in d.roots.iter() {
			let raw = match self.raw_of.get(&hk.to_vec()) {
				Some(r) => r.clone(),
				None => {
					self.fail(t, format!("root {} in the dump was never inserted", hex(hk)));
					continue
				},
			};
			self.tiers.insert((*addr & 0xff) as u8);
			let obs = match (self.sut.db().get_root(0, &raw), children) {
				(Ok(Some((data, kids))), Some(ch)) if &kids == ch =>
					format!("some {} {} {} {} {}", addr, count, data.len(), fnv(&data, FNV_INIT), addrs(&kids)),
				(r, ch) => {
					self.fail(t, format!("root {}: get_root {:?} vs dump children {:?}", hex(hk), r.map(|x| x.map(|y| y.1)), ch));
					"none".to_string()
				},
			};
			t.op(&format!("mtphys root {}", hex(hk)), &obs);
			ctr.inc("roots_compared");
		}
		let dead: Vec<Vec<u8>> = self.dead.iter().rev().take(3).cloned().collect();
		for raw in dead {
			if self.live.get(&raw).copied().unwrap_or(0) == 0 {
				let hk = self.hkey(&raw);
				let obs = match self.sut.db().get_root(0, &raw) {
					Ok(None) => "none".to_string(),
					other => {
						self.fail(t, format!("dead root {} reads {:?}", hex(&hk), other.map(|x| x.map(|y| y.1))));
						"?".to_string()
					},
				};
				t.op(&format!("mtphys root {}", hex(&hk)), &obs);
			}
		}
		let mut rc: BTreeMap<u64, u64> = BTreeMap::new();
		for (_bits, entries) in d.ref_count_tables.iter().rev() {
			for (a, c) in entries {
				rc.insert(*a, *c);
			}
		}
		if let Some(cache) = &d.ref_count_cache {
			for (a, c) in cache {
				rc.insert(*a, *c);
			}
		}
		let mut nodes = d.nodes.clone();
		nodes.sort();
		let cap = 150usize;
		let skip = if nodes.len() > cap { rng.below((nodes.len() - cap) as u64 + 1) as usize } else { 0 };
		for (a, children) in nodes.iter().skip(skip).take(cap) {
			self.tiers.insert((*a & 0xff) as u8);
			let obs = match (self.sut.db().get_node(0, *a), children) {
				(Ok(Some((data, kids))), Some(ch)) if &kids == ch => format!("some {} {} {}", data.len(), fnv(&data, FNV_INIT), addrs(&kids)),
				(r, ch) => {
					self.fail(t, format!("node {}: get_node {:?} vs dump children {:?}", a, r.map(|x| x.map(|y| y.1)), ch));
					"none".to_string()
				},
			};
			t.op(&format!("mtphys node {}", a), &obs);
			ctr.inc("nodes_compared");
			if (a & 0xff) == 255 {
				ctr.inc("multipart_nodes_compared");
			}
			if self.v != Variant::AppendOnly {
				t.op(&format!("mtphys rc {}", a), &rc.get(a).copied().unwrap_or(1).to_string());
				if rc.contains_key(a) {
					ctr.inc("rc_entries_compared");
				}
			}
		}
		let st = match self.sut.db().verif_table_state(0) {
			Ok(s) => s,
			Err(e) => {
				self.fail(t, format!("verif_table_state: {:?}", e));
				return None
			},
		};
		let mut hdrs = Vec::new();
		for (tier, _es, filled, _lr, free) in st.iter() {
			self.tiers.insert(*tier);
			hdrs.push((*tier, *filled, *free));
		}
		let tiers: Vec<u8> = self.tiers.iter().cloned().collect();
		for tier in tiers {
			let (filled, lr, free) = st.iter().find(|x| x.0 == tier).map(|x| (x.2, x.3, x.4)).unwrap_or((1, 0, 0));
			t.op(&format!("mtphys hdr {}", tier), &format!("{} {} {}", filled, lr, free));
			ctr.inc("hdr_compared");
			let cap = if tier == 255 { 60 } else { 40 };
			let start = if filled - 1 > cap { 1 + rng.below(filled - 1 - cap + 1) } else { 1 };
			for i in start..std::cmp::min(filled, start + cap) {
				match self.sut.db().verif_table_entry(0, tier, i) {
					Ok(raw) => {
						t.op(&format!("mtphys slot {} {}", tier, i), &Self::slot_prefix(&raw, tier));
						ctr.inc("slots_compared");
						if raw.len() >= 2 && raw[0..2] == TOMBSTONE {
							ctr.inc("slots_compared_tombstone");
						}
						if tier == 255 {
							ctr.inc("slots_compared_multipart");
						}
					},
					Err(e) => self.fail(t, format!("verif_table_entry({}, {}): {:?}", tier, i, e)),
				}
			}
		}
		Some((d.roots.len(), d.nodes.len(), hdrs.into_iter().map(|(a, b, c)| (a, b, c)).collect()))
	}
}

pub fn run_case(seed: u64, _thorough: bool, root: &Path, t: &mut Trace, ctr: &mut Counters, prop: &str) -> bool {
	let mut rng = Rng::new(seed);
	let v = *rng.pick(&[Variant::Plain, Variant::Plain, Variant::Rc, Variant::Rc, Variant::AppendOnly]);
	let mut salt = [0u8; 32];
	for b in salt.iter_mut() {
		*b = rng.below(256) as u8;
	}
	let dir = fresh_dir(root, &format!("mtphys-{}", seed));
	t.begin_case(&format!("seed={} mtphys variant={}", seed, v.name()));
	ctr.inc(&format!("cases_{}", v.name()));
	let mut c = Case {
		sut: Sut::create(v, salt, dir.clone()),
		v,
		failed: false,
		live: BTreeMap::new(),
		dead: Vec::new(),
		tree_nodes: BTreeMap::new(),
		hashed: BTreeMap::new(),
		raw_of: BTreeMap::new(),
		seen_addrs: BTreeSet::new(),
		tiers: BTreeSet::new(),
		reused: 0,
		existing_used: 0,
	};
	t.op(&format!("mtphys init {}", v.name()), "ok");
	let ntx = rng.range(4, 14);
	// narrow cases: few distinct node sizes, so that freed slots of a tier are claimed again (per-tier LIFO reuse)
	let narrow: Vec<usize> = if rng.chance(1, 2) {
		let mut l = vec![rng.below(40) as usize, rng.below(40) as usize, rng.range(40, 400) as usize];
		if rng.chance(1, 3) {
			l.push(rng.range(33_000, 45_000) as usize);
		}
		ctr.inc("cases_narrow");
		l
	} else {
		vec![]
	};
	let mut budget: i64 = 300;
	let mut next_tok: u64 = seed % 1000;
	let mut next_key: u64 = 0;
	let mut until_compare = rng.range(1, 4);
	let mut max_queued = 0usize;
	let mut final_phase = false;
	let mut txi = 0;
	loop {
		if c.failed {
			break
		}
		if !final_phase && txi >= ntx {
			final_phase = true;
		}
		txi += 1;
		// ---- build one transaction
		let mut ops: Vec<(String, MyOp, Option<(Vec<u8>, GNode)>)> = Vec::new();
		let mut used: BTreeSet<Vec<u8>> = BTreeSet::new();
		let mut expect_err: Option<&'static str> = None;
		let mut tx_deref = false;
		let mut tx_existing = false;
		if final_phase {
			// dereference everything that is left, up to 4 roots per transaction
			if v == Variant::AppendOnly {
				break
			}
			let keys: Vec<Vec<u8>> = c.live.iter().filter(|(_, n)| **n > 0).map(|(k, _)| k.clone()).take(4).collect();
			if keys.is_empty() {
				break
			}
			for k in keys {
				let hk = c.hkey(&k);
				ops.push((format!("deref {}", hex(&hk)), MyOp::Deref(k.clone()), None));
				ctr.inc("ops_deref");
			}
		} else {
			let nops = if rng.chance(2, 5) { rng.range(2, 4) } else { 1 };
			for _ in 0..nops {
				let r = rng.below(100);
				let live_keys: Vec<Vec<u8>> = c.live.iter().filter(|(k, n)| **n > 0 && !used.contains(*k)).map(|(k, _)| k.clone()).collect();
				if r < 55 || live_keys.is_empty() {
					// insert
					next_key += 1;
					let raw = format!("k{}-{}", seed, next_key).into_bytes();
					used.insert(raw.clone());
					let hk = c.hkey(&raw);
					// candidates: nodes of live trees without queued dereference
					let cands: Vec<u64> = c
						.tree_nodes
						.iter()
						.filter(|(k, _)| c.live.get(*k).copied().unwrap_or(0) > 0)
						.flat_map(|(_, a)| a.iter().cloned())
						.filter(|_| !tx_deref)
						.collect();
					let mut wide = if rng.chance(1, 40) {
						Some(255)
					} else if rng.chance(1, 10) {
						Some(rng.range(20, 60) as usize)
					} else {
						None
					};
					let too_wide = rng.chance(1, 25);
					if too_wide {
						wide = Some(rng.range(256, 260) as usize);
					}
					let mut g = Gen { rng: &mut rng, cands: &cands, budget: &mut budget, next_tok: &mut next_tok, existing_used: 0, narrow: &narrow };
					let depth = g.rng.below(4) as u32;
					let tree = if wide.is_some() && depth > 0 && !g.rng.chance(1, 3) {
						// the wide node somewhere below the root
						let tok = g.tok(false);
						let inner = g.node(0, &mut wide);
						GNode { tok, children: vec![GRef::New(inner)] }
					} else {
						g.node(depth, &mut wide)
					};
					c.existing_used += g.existing_used;
					tx_existing |= g.existing_used > 0;
					ctr.add("existing_refs", g.existing_used);
					if too_wide {
						expect_err = Some("InvalidInput");
					}
					let mut toks = Vec::new();
					tokens(&tree, &mut toks);
					ops.push((format!("insert {} {}", hex(&hk), toks.join(" ")), MyOp::Ins, Some((raw, tree))));
					ctr.inc("ops_insert");
				} else if r < 70 && (v == Variant::Rc || v == Variant::AppendOnly || rng.chance(1, 8)) {
					let k = rng.pick(&live_keys).clone();
					used.insert(k.clone());
					let hk = c.hkey(&k);
					if v == Variant::Plain {
						expect_err = expect_err.or(Some("InvalidInput"));
					}
					ops.push((format!("ref {}", hex(&hk)), MyOp::Ref(k), None));
					ctr.inc("ops_ref");
				} else if !tx_existing && (v != Variant::AppendOnly || rng.chance(1, 8)) {
					tx_deref = true;
					let k = rng.pick(&live_keys).clone();
					used.insert(k.clone());
					let hk = c.hkey(&k);
					if v == Variant::AppendOnly {
						expect_err = expect_err.or(Some("InvalidConfiguration"));
					}
					ops.push((format!("deref {}", hex(&hk)), MyOp::Deref(k), None));
					ctr.inc("ops_deref");
				}
			}
			if ops.is_empty() {
				continue
			}
		}
		// a transaction must not reference (Existing) nodes of a tree it dereferences: drop such transactions
		// ---- commit
		let line = format!("mtphys tx {}", ops.iter().map(|o| o.0.clone()).collect::<Vec<_>>().join(" ; "));
		let real: Vec<(u8, Operation<Vec<u8>, Vec<u8>>)> = ops
			.iter()
			.map(|o| {
				(0u8, match (&o.1, &o.2) {
					(MyOp::Ins, Some((raw, tree))) => Operation::InsertTree(raw.clone(), to_real(tree)),
					(MyOp::Ref(k), _) => Operation::ReferenceTree(k.clone()),
					(MyOp::Deref(k), _) => Operation::DereferenceTree(k.clone()),
					_ => unreachable!(),
				})
			})
			.collect();
		let r = c.sut.db().commit_changes(real);
		ctr.inc("tx");
		match r {
			Err(e) => {
				t.op(&line, &format!("err:{}", err_kind(&e)));
				ctr.inc(&format!("tx_rejected_{}", err_kind(&e)));
				if expect_err.is_none() {
					c.fail(t, format!("unexpected rejection {:?}", e));
				}
				continue
			},
			Ok(()) => {
				c.sut.queued += 1;
				max_queued = std::cmp::max(max_queued, c.sut.queued);
				let mut out = Vec::new();
				for (_, _, ins) in ops.iter() {
					if let Some((raw, tree)) = ins {
						let before = out.len();
						match c.sut.db().get_root(0, raw) {
							Ok(Some((_d, kids))) =>
								if let Err(m) = c.new_addrs(tree, &kids, &mut out) {
									c.fail(t, m);
								},
							other => c.fail(t, format!("get_root after commit: {:?}", other.map(|x| x.map(|y| y.1)))),
						}
						let mine: Vec<u64> = out[before..].to_vec();
						ctr.add("nodes_new", mine.len() as u64);
						if mine.len() as u64 != count_new(tree) {
							c.fail(t, format!("{} new addresses for {} new nodes", mine.len(), count_new(tree)));
						}
						for a in mine.iter() {
							c.tiers.insert((*a & 0xff) as u8);
							if (*a & 0xff) == 255 {
								ctr.inc("multipart_nodes_new");
							}
							if !c.seen_addrs.insert(*a) {
								c.reused += 1;
								ctr.inc("reused_addresses");
							}
						}
						c.tree_nodes.insert(raw.clone(), mine);
						*c.live.entry(raw.clone()).or_insert(0) += 1;
					}
				}
				t.op(&line, &format!("ok {}", addrs(&out)));
				if expect_err.is_some() {
					c.fail(t, format!("transaction accepted, expected {:?}", expect_err));
				}
				for (_, o, _) in ops.iter() {
					match o {
						MyOp::Ref(k) =>
							if v == Variant::Rc {
								*c.live.entry(k.clone()).or_insert(0) += 1;
							},
						MyOp::Deref(k) => {
							let n = c.live.entry(k.clone()).or_insert(0);
							if *n > 0 {
								*n -= 1;
							}
							if *n == 0 {
								c.dead.push(k.clone());
								c.tree_nodes.remove(k);
							}
						},
						_ => {},
					}
				}
			},
		}
		// ---- process now or let it queue
		if c.sut.queued >= 3 || rng.chance(1, 2) {
			while c.sut.queued > 0 && !c.failed {
				c.process_one(t);
			}
		}
		until_compare -= 1;
		if until_compare == 0 && !final_phase {
			until_compare = rng.range(1, 4);
			c.compare(t, ctr, &mut rng);
			if rng.chance(1, 6) && !c.failed {
				if let Err(e) = c.sut.reopen() {
					c.fail(t, format!("reopen: {:?}", e));
				}
				ctr.inc("reopen");
			}
		}
	}
	if !c.failed {
		if let Some((nroots, nnodes, hdrs)) = c.compare(t, ctr, &mut rng) {
			if v != Variant::AppendOnly {
				if nroots != 0 || nnodes != 0 {
					t.oracle_fail(prop, &format!("seed={} after all dereferences: {} roots, {} nodes left", seed, nroots, nnodes));
					c.failed = true;
				}
				for (tier, filled, free) in hdrs {
					if free + 1 != filled {
						t.oracle_fail(prop, &format!("seed={} tier {}: filled {} free {} after all dereferences", seed, tier, filled, free));
						c.failed = true;
					}
				}
			}
		}
	}
	for tier in c.tiers.iter() {
		ctr.inc(&format!("tier_hit_{:03}", tier));
	}
	ctr.add("tiers_hit_per_case_sum", c.tiers.len() as u64);
	ctr.add("queued_before_process_max", max_queued as u64);
	let nontrivial = c.reused > 0 || c.existing_used > 0;
	let ok = !c.failed;
	drop(c);
	let _ = std::fs::remove_dir_all(&dir);
	t.end_case(nontrivial);
	ok
}

pub fn run(seeds: &[u64], thorough: bool, root: &Path, t: &mut Trace, ctr: &mut Counters, prop: &str) -> u64 {
	let mut fails = 0;
	for seed in seeds {
		let before = t.oracle_failures;
		let r = std::panic::catch_unwind(std::panic::AssertUnwindSafe(|| run_case(*seed, thorough, root, t, ctr, prop)));
		match r {
			Ok(true) => {},
			Ok(false) => {
				fails += 1;
				continue
			},
			Err(_) => {
				t.comment(&format!("FAIL seed={} panic in the harness or the crate", seed));
				t.end_case(false);
				fails += 1;
				continue
			},
		}
		if t.oracle_failures > before {
			fails += 1;
		}
	}
	fails
}
