//! R5: ref-counted and preimage hash columns at the physical level, on the real `Db`.
//!
//! One uniform hash column with the all-zero salt (identity hash on 32-byte keys, as in c09.rs:
//! the harness chooses index pages and partial keys), of kind plain / preimage / ref-counted.
//! Histories: repeated Sets of the same key (with the same and with DIFFERENT values),
//! References, Dereferences down to zero and below, operations on absent keys, values in several
//! size tiers including the multipart tier, an overflowing index page (growth, reindex batches,
//! DropTable), clean reopen, and - on ref-counted columns - counters moved into the saturation
//! range by editing the table file of the closed database (`poke`; the stored counter of the
//! poked key is compared with oracle and model by a `getrc` line RIGHT BEFORE it is overwritten,
//! so that an error in the last records before a poke is not masked).
//!
//! Trace protocol: command `r5` of the Lean driver (lean/Pdb/Model/RefineRc.lean).  The
//! `set` / `deref` / `ref` lines of a transaction are emitted when the transaction is PLANNED
//! (`process_commits`), followed by `mark` (record verdict) and `stat`.  Values are read with
//! `Db::get` (`get` lines, whenever nothing is queued in front of the planner); the stored counter
//! is read from the table files through the existing hooks `verif_dump` / `verif_table_entry` on a
//! drained handle (`getrc` lines), together with fill mark, free-list head and free-list length of
//! every value table (`slots` line).
//!
//! Independent oracle: a BTreeMap key -> (value, count) updated by the documented semantics of the
//! three operations per column kind; every read at a point where everything is planned returns the
//! oracle's value, every drained state has exactly the oracle's counters, and
//! `iter_column_while` yields exactly the oracle's (count, value) multiset.
use crate::util::*;
use parity_db::{ColumnOptions, Db, Operation, Options};
use std::collections::{BTreeMap, HashMap, VecDeque};
use std::path::{Path, PathBuf};

type Key = [u8; 32];

const LOCKED: u64 = u32::MAX as u64;

#[derive(Clone, Copy, PartialEq, Eq, Debug)]
enum Kind {
	Plain,
	Preimage,
	Rc,
}

impl Kind {
	fn name(self) -> &'static str {
		match self {
			Kind::Plain => "plain",
			Kind::Preimage => "preimage",
			Kind::Rc => "rc",
		}
	}
}

fn options(path: &Path, kind: Kind) -> Options {
	let mut o = Options::with_columns(path, 1);
	o.columns[0] = ColumnOptions {
		uniform: true,
		preimage: kind != Kind::Plain,
		ref_counted: kind == Kind::Rc,
		..Default::default()
	};
	o.salt = Some([0u8; 32]);
	o.with_background_thread = false;
	o.always_flush = true;
	o.stats = false;
	o.sync_wal = true;
	o.sync_data = true;
	o
}

/// prefix = big-endian u64 of bytes 0..8; the unique id sits in the tail (A-tail).
fn mk_key(prefix: u64, id: u32) -> Key {
	let mut k = [0u8; 32];
	k[0..8].copy_from_slice(&prefix.to_be_bytes());
	k[8..12].copy_from_slice(&id.to_be_bytes());
	let mut r = Rng::new(id as u64 ^ 0x7272);
	for i in 3..5 {
		k[i * 4..i * 4 + 4].copy_from_slice(&(r.next() as u32).to_le_bytes());
	}
	k
}

fn fnv(bytes: &[u8]) -> u64 {
	let mut h: u64 = 0xcbf2_9ce4_8422_2325;
	for b in bytes {
		h ^= *b as u64;
		h = h.wrapping_mul(0x100_0000_01b3);
	}
	h
}

fn show_val(v: &[u8]) -> String {
	format!("{}:{}", v.len(), fnv(v))
}

#[derive(Clone, Debug)]
enum Op {
	Set(Key, String),
	Deref(Key),
	Ref(Key),
}

type Tx = Vec<Op>;

/// oracle cell: (value token, count)
type Content = BTreeMap<Key, (String, u64)>;

/// The documented semantics of one operation (independent of the Lean model).
fn oracle_apply(kind: Kind, c: &mut Content, op: &Op) {
	match op {
		Op::Set(k, v) => match kind {
			Kind::Plain => {
				c.insert(*k, (v.clone(), 1));
			},
			Kind::Preimage => {
				c.entry(*k).or_insert((v.clone(), 1));
			},
			Kind::Rc => match c.get_mut(k) {
				Some(e) => e.1 = if e.1 >= LOCKED - 1 { LOCKED } else { e.1 + 1 },
				None => {
					c.insert(*k, (v.clone(), 1));
				},
			},
		},
		Op::Ref(k) =>
			if kind == Kind::Rc {
				if let Some(e) = c.get_mut(k) {
					e.1 = if e.1 >= LOCKED - 1 { LOCKED } else { e.1 + 1 };
				}
			},
		Op::Deref(k) => match kind {
			Kind::Plain | Kind::Preimage => {
				c.remove(k);
			},
			Kind::Rc => {
				let gone = match c.get_mut(k) {
					Some(e) =>
						if e.1 == LOCKED {
							false
						} else if e.1 <= 1 {
							true
						} else {
							e.1 -= 1;
							false
						},
					None => false,
				};
				if gone {
					c.remove(k);
				}
			},
		},
	}
}

#[derive(Clone, Debug, PartialEq, Eq)]
struct Stat {
	cur: (u8, usize),
	older: Vec<(u8, usize)>,
	prog: u64,
}

impl Stat {
	fn line(&self) -> String {
		let old = if self.older.is_empty() {
			"-".to_string()
		} else {
			self.older.iter().map(|x| x.1.to_string()).collect::<Vec<_>>().join(",")
		};
		format!("bits={} older={} prog={} cur={} old={}", self.cur.0, self.older.len(), self.prog, self.cur.1, old)
	}
	fn drop_pending(&self) -> bool {
		!self.older.is_empty() && self.prog == 1u64 << self.older[0].0
	}
}

fn obs_stat(db: &Db) -> Stat {
	let d = db.verif_dump(0, false).expect("verif_dump");
	Stat {
		cur: (d.index[0].0, d.index[0].1.len()),
		older: d.index[1..].iter().map(|(b, e)| (*b, e.len())).collect(),
		prog: d.progress,
	}
}

struct Sut {
	dir: PathBuf,
	db: Option<Db>,
	pending: VecDeque<Tx>,
	logged_unflushed: usize,
	files: VecDeque<usize>,
	dirty: usize,
	n_records: usize,
	n_enacted: usize,
	pending_drop: Option<usize>,
	dead: bool,
}

impl Sut {
	fn create(dir: PathBuf, kind: Kind) -> Sut {
		let db = Db::open_or_create(&options(&dir, kind)).expect("create");
		Sut {
			dir,
			db: Some(db),
			pending: Default::default(),
			logged_unflushed: 0,
			files: Default::default(),
			dirty: 0,
			n_records: 0,
			n_enacted: 0,
			pending_drop: None,
			dead: false,
		}
	}
	fn db(&self) -> &Db {
		self.db.as_ref().unwrap()
	}
	fn flush(&mut self) {
		self.db().flush_logs().expect("flush_logs");
		if self.logged_unflushed > 0 {
			self.files.push_back(self.logged_unflushed);
			self.logged_unflushed = 0;
		}
	}
	fn clean(&mut self) {
		self.db().clean_logs().expect("clean_logs");
		self.dirty = 0;
	}
	fn enact_one(&mut self) -> bool {
		if self.dirty >= 3 {
			self.clean();
		}
		self.db().enact_logs().expect("enact_logs");
		if let Some(c) = self.files.pop_front() {
			self.n_enacted += c;
			self.dirty += 1;
			true
		} else {
			false
		}
	}
	fn gate_open(&self) -> bool {
		let (next, last) = self.db().verif_reindex_state();
		next != 0 && next <= last
	}
	fn abandon(&mut self) {
		if let Some(db) = self.db.take() {
			if self.dead {
				std::mem::forget(db);
			} else {
				if self.dirty >= 3 {
					let _ = db.clean_logs();
				}
				drop(db);
			}
		}
	}
	fn quiescent(&self) -> bool {
		!self.dead && self.pending.is_empty() && self.logged_unflushed == 0 && self.files.is_empty()
	}
}

struct Case<'a> {
	t: &'a mut Trace,
	ctr: &'a mut Counters,
	prop: String,
	kind: Kind,
	sut: Sut,
	vals: HashMap<String, Vec<u8>>,
	/// oracle: content after every planned transaction
	planned: Content,
	keys: Vec<Key>,
	ok: bool,
	max_bits: u8,
	batches: usize,
	last_stat: Stat,
	max_count: u64,
	removed_at_zero: u64,
	slot_reuse: u64,
	iter_stop_salt: u64,
}

impl<'a> Case<'a> {
	fn emit(&mut self, op: &str, obs: &str) {
		self.t.op(op, obs);
	}
	fn fail(&mut self, msg: &str) {
		let p = self.prop.clone();
		self.t.oracle_fail(&p, msg);
		self.ok = false;
	}
	fn bytes(&mut self, tok: &str) -> Vec<u8> {
		if let Some(b) = self.vals.get(tok) {
			return b.clone()
		}
		let b = expand_token(tok);
		self.vals.insert(tok.to_string(), b.clone());
		b
	}

	fn commit(&mut self, tx: Tx) {
		if self.sut.dead {
			return
		}
		let mut dbtx: Vec<(u8, Operation<Vec<u8>, Vec<u8>>)> = vec![];
		for op in &tx {
			dbtx.push((
				0u8,
				match op {
					Op::Set(k, v) => Operation::Set(k.to_vec(), self.bytes(v)),
					Op::Deref(k) => Operation::Dereference(k.to_vec()),
					Op::Ref(k) => Operation::Reference(k.to_vec()),
				},
			));
		}
		self.sut.db().commit_changes(dbtx).expect("commit");
		self.ctr.inc("op.commit");
		self.ctr.add("ops.in_tx", tx.len() as u64);
		self.sut.pending.push_back(tx);
	}

	/// a Reference on a column without counters is refused as a whole (nothing is queued)
	fn commit_refused_ref(&mut self, k: Key) {
		if self.sut.dead || self.kind == Kind::Rc {
			return
		}
		let r = self.sut.db().commit_changes(vec![
			(0u8, Operation::Set(k.to_vec(), vec![1, 2, 3])),
			(0u8, Operation::Reference(k.to_vec())),
		]);
		self.ctr.inc("op.commit.reference_on_non_rc");
		if r.is_ok() {
			self.fail("a transaction with a Reference on a column without ref counts was accepted");
			self.sut.dead = true;
		}
	}

	/// `process_commits`: plan one transaction = one log record
	fn process(&mut self) {
		if self.sut.dead {
			return
		}
		let tx = match self.sut.pending.pop_front() {
			Some(tx) => tx,
			None => {
				self.sut.db().process_commits().expect("process_commits");
				return
			},
		};
		let mut content = self.planned.clone();
		for op in &tx {
			let before = content.get(match op {
				Op::Set(k, _) | Op::Deref(k) | Op::Ref(k) => k,
			})
			.cloned();
			match op {
				Op::Set(k, v) => {
					self.emit(&format!("r5 set {} {}", hex(k), v), "ok");
					self.ctr.inc(match &before {
						None => "op.set.absent",
						Some((old, _)) if old == v => "op.set.present_same_value",
						Some(_) => "op.set.present_other_value",
					});
					let len = self.vals.get(v).map(|b| b.len()).unwrap_or(0);
					self.ctr.inc(&format!(
						"op.set.len.{}",
						match len {
							0..=4 => "0-4",
							5..=100 => "5-100",
							101..=6000 => "101-6000",
							_ => "multipart",
						}
					));
				},
				Op::Deref(k) => {
					self.emit(&format!("r5 deref {}", hex(k)), "ok");
					self.ctr.inc(match &before {
						None => "op.deref.absent",
						Some((_, c)) if *c == LOCKED => "op.deref.locked",
						Some((_, c)) if *c <= 1 => "op.deref.to_zero",
						Some(_) => "op.deref.count_down",
					});
				},
				Op::Ref(k) => {
					self.emit(&format!("r5 ref {}", hex(k)), "ok");
					self.ctr.inc(match &before {
						None => "op.ref.absent",
						Some((_, c)) if *c >= LOCKED - 1 => "op.ref.saturating",
						Some(_) => "op.ref.present",
					});
				},
			}
			oracle_apply(self.kind, &mut content, op);
			let k = match op {
				Op::Set(k, _) | Op::Deref(k) | Op::Ref(k) => k,
			};
			if let Some((_, c)) = content.get(k) {
				if *c > self.max_count && *c < LOCKED - 10 {
					self.max_count = *c;
				}
			} else if before.is_some() {
				self.removed_at_zero += 1;
			}
		}
		let r = std::panic::catch_unwind(std::panic::AssertUnwindSafe(|| self.sut.db().process_commits()));
		match r {
			Ok(Ok(())) => {
				self.emit("r5 mark", "ok");
				self.sut.n_records += 1;
				self.sut.logged_unflushed += 1;
				self.planned = content;
				self.after_record(false);
			},
			Ok(Err(e)) => {
				self.emit("r5 mark", &format!("err:{}", err_kind(&e)));
				self.fail(&format!("process_commits failed: {:?}", e));
				self.sut.dead = true;
			},
			Err(_) => {
				self.emit("r5 mark", "panic");
				self.fail("commit worker panicked while planning");
				self.sut.dead = true;
			},
		}
	}

	fn after_record(&mut self, is_batch: bool) {
		let st = obs_stat(self.sut.db());
		self.emit("r5 stat", &st.line());
		if st.cur.0 > self.last_stat.cur.0 {
			self.ctr.inc(if is_batch { "growth.triggered_by_batch" } else { "growth.triggered_by_commit" });
		}
		if st.cur.0 > self.max_bits {
			self.max_bits = st.cur.0;
		}
		if st.drop_pending() && self.sut.pending_drop.is_none() {
			self.sut.pending_drop = Some(self.sut.n_records);
		}
		self.last_stat = st;
	}

	fn reindex(&mut self) {
		if self.sut.dead {
			return
		}
		if !self.sut.gate_open() {
			self.sut.db().process_reindex().expect("process_reindex");
			self.ctr.inc("op.reindex.gate_closed");
			return
		}
		let before = self.last_stat.clone();
		let r = std::panic::catch_unwind(std::panic::AssertUnwindSafe(|| self.sut.db().process_reindex()));
		match r {
			Ok(Ok(())) => {},
			Ok(Err(e)) => {
				self.fail(&format!("process_reindex failed: {:?}", e));
				self.sut.dead = true;
				return
			},
			Err(_) => {
				self.emit("r5 reindex", "ok");
				self.emit("r5 mark", "panic");
				self.fail("process_reindex panicked");
				self.sut.dead = true;
				return
			},
		}
		let planned = !before.older.is_empty() && !before.drop_pending();
		self.emit("r5 reindex", "ok");
		if planned {
			self.emit("r5 mark", "ok");
			self.sut.n_records += 1;
			self.sut.logged_unflushed += 1;
			self.batches += 1;
			self.ctr.inc("op.reindex.batch");
			self.after_record(true);
		} else {
			self.ctr.inc("op.reindex.noop");
		}
	}

	fn note_enacted(&mut self) {
		if let Some(r) = self.sut.pending_drop {
			if self.sut.n_enacted >= r {
				self.emit("r5 enact", "ok");
				self.sut.pending_drop = None;
				let st = obs_stat(self.sut.db());
				self.emit("r5 stat", &st.line());
				self.last_stat = st;
				self.ctr.inc("growth.drop_enacted");
			}
		}
	}

	fn enact_one(&mut self) {
		if self.sut.dead {
			return
		}
		if self.sut.enact_one() {
			self.ctr.inc("op.enact");
			self.note_enacted();
		}
	}

	fn drain(&mut self) {
		while !self.sut.pending.is_empty() && !self.sut.dead {
			self.process();
		}
		if self.sut.dead {
			return
		}
		self.sut.flush();
		while !self.sut.files.is_empty() {
			self.enact_one();
		}
		self.sut.clean();
	}

	/// one read through `Db::get`, at a point where everything committed has been planned
	fn check_get(&mut self, k: &Key) {
		if self.sut.dead {
			return
		}
		if !self.sut.pending.is_empty() {
			self.check_get_pending(k);
			return
		}
		let obs = match self.sut.db().get(0, k) {
			Ok(Some(v)) => format!("some {}", show_val(&v)),
			Ok(None) => "none".to_string(),
			Err(e) => format!("err:{}", err_kind(&e)),
		};
		let exp = match self.planned.get(k).map(|x| x.0.clone()) {
			Some(tok) => {
				let b = self.bytes(&tok);
				format!("some {}", show_val(&b))
			},
			None => "none".to_string(),
		};
		self.ctr.inc("op.get");
		if obs != exp {
			self.ctr.inc("finding.wrong_read");
			self.fail(&format!("get {} expected {} observed {} ({})", hex(k), exp, obs, self.last_stat.line()));
		}
		self.emit(&format!("r5 get {}", hex(k)), &obs);
	}

	/// a read while commits are queued (oracle only; the model is driven at planning time): the
	/// commit overlay answers with the newest queued Set of the key - on a column without counters
	/// also with the newest queued Dereference -, otherwise the planned content is visible
	fn check_get_pending(&mut self, k: &Key) {
		let mut overlay: Option<Option<String>> = None;
		'outer: for tx in self.sut.pending.iter().rev() {
			for op in tx.iter().rev() {
				match op {
					Op::Set(k2, v) if k2 == k => {
						overlay = Some(Some(v.clone()));
						break 'outer
					},
					Op::Deref(k2) if k2 == k && self.kind != Kind::Rc => {
						overlay = Some(None);
						break 'outer
					},
					_ => {},
				}
			}
		}
		let tok = match overlay {
			Some(x) => x,
			None => self.planned.get(k).map(|x| x.0.clone()),
		};
		let exp = match tok {
			Some(tok) => {
				let b = self.bytes(&tok);
				format!("some {}", show_val(&b))
			},
			None => "none".to_string(),
		};
		let obs = match self.sut.db().get(0, k) {
			Ok(Some(v)) => format!("some {}", show_val(&v)),
			Ok(None) => "none".to_string(),
			Err(e) => format!("err:{}", err_kind(&e)),
		};
		self.ctr.inc("op.get.with_queued_commits");
		if obs != exp {
			self.ctr.inc("finding.wrong_read_with_queued_commits");
			self.fail(&format!(
				"get {} with {} queued commits expected {} observed {}",
				hex(k),
				self.sut.pending.len(),
				exp,
				obs
			));
		}
	}

	fn check_all(&mut self) {
		let keys = self.keys.clone();
		for k in &keys {
			self.check_get(k);
		}
	}

	/// counters by stored key tail, and (tier, slot) of every live value (drained handle)
	fn stored_counts(&mut self) -> Option<HashMap<Vec<u8>, (u64, u8, u64, u16, bool)>> {
		let d = match self.sut.db().verif_dump(0, true) {
			Ok(d) => d,
			Err(e) => {
				self.fail(&format!("verif_dump failed: {:?}", e));
				return None
			},
		};
		let mut out = HashMap::new();
		for tb in &d.tables {
			for s in &tb.slots {
				if s.1 == 1 {
					let rc = if self.kind == Kind::Rc {
						let raw = match self.sut.db().verif_table_entry(0, tb.tier, s.0) {
							Ok(r) => r,
							Err(e) => {
								self.fail(&format!("verif_table_entry failed: {:?}", e));
								return None
							},
						};
						let off = if tb.multipart { 10 } else { 2 };
						u32::from_le_bytes(raw[off..off + 4].try_into().unwrap()) as u64
					} else {
						1
					};
					if out.insert(s.3.clone(), (rc, tb.tier, s.0, tb.entry_size, tb.multipart)).is_some() {
						self.fail(&format!("two live values with the key tail {}", hex(&s.3)));
					}
				}
			}
		}
		Some(out)
	}

	/// drained handle: value + stored counter of ONE key against the oracle (failure) and the model
	/// (`r5 getrc` line); returns whether the oracle holds the key live
	fn getrc(&mut self, at: &str, k: &Key, counts: &HashMap<Vec<u8>, (u64, u8, u64, u16, bool)>) -> bool {
		let val = self.sut.db().get(0, k);
		let rc = counts.get(&k[6..32].to_vec()).map(|x| x.0);
		let obs = match (&val, rc) {
			(Ok(Some(v)), Some(rc)) => format!("some {} rc={}", show_val(v), rc),
			(Ok(Some(v)), None) => format!("some {} rc=?", show_val(v)),
			(Ok(None), _) => "none".to_string(),
			(Err(e), _) => format!("err:{}", err_kind(e)),
		};
		let (exp, live) = match self.planned.get(k).cloned() {
			Some((tok, c)) => {
				let b = self.bytes(&tok);
				(format!("some {} rc={}", show_val(&b), c), true)
			},
			None => ("none".to_string(), false),
		};
		self.ctr.inc("op.getrc");
		if obs != exp {
			self.ctr.inc("finding.wrong_count_or_value");
			self.fail(&format!("{}: key {} expected {} observed {}", at, hex(k), exp, obs));
		}
		self.emit(&format!("r5 getrc {}", hex(k)), &obs);
		live
	}

	/// drained handle: value + stored counter of every key, allocator state of every table,
	/// value iteration
	fn structure(&mut self, at: &str) {
		if !self.sut.quiescent() {
			return
		}
		let counts = match self.stored_counts() {
			Some(c) => c,
			None => return,
		};
		self.ctr.inc("drained_states");
		let keys = self.keys.clone();
		let mut live = 0usize;
		for k in &keys {
			if self.getrc(at, k, &counts) {
				live += 1;
			}
		}
		if counts.len() != live {
			self.ctr.inc("finding.leak");
			self.fail(&format!("{}: {} live value chains for {} live keys", at, counts.len(), live));
		}
		// allocator state of every table
		match self.sut.db().verif_table_state(0) {
			Ok(ts) => {
				let line = if ts.is_empty() {
					"tiers=-".to_string()
				} else {
					format!(
						"tiers={}",
						ts.iter().map(|t| format!("{}:{}:{}:{}", t.0, t.2, t.3, t.4)).collect::<Vec<_>>().join(",")
					)
				};
				for t in &ts {
					if t.4 > 0 {
						self.slot_reuse += 1;
					}
				}
				self.emit("r5 slots", &line);
			},
			Err(e) => self.fail(&format!("{}: verif_table_state failed: {:?}", at, e)),
		}
		// value iteration: exactly the live (count, value) pairs
		let mut want: Vec<(u32, Vec<u8>)> = vec![];
		let planned = self.planned.clone();
		for (tok, c) in planned.values() {
			want.push((*c as u32, self.bytes(tok)));
		}
		want.sort();
		let mut got: Vec<(u32, Vec<u8>)> = vec![];
		let r = self.sut.db().iter_column_while(0, |s| {
			got.push((s.rc, s.value));
			true
		});
		got.sort();
		if r.is_err() || got != want {
			self.ctr.inc("finding.iteration");
			self.fail(&format!("{}: iter_column_while yields {} values, {} live ({:?})", at, got.len(), want.len(), r.err()));
		}
		self.iter_tie(at);
	}

	/// C07 / C14 value iteration against the byte-level model (`ValueIter.pIterValues` on the
	/// driver's physical column): the callback sequence of the REAL `iter_column_while` in callback
	/// order (`r5 iter`), what the scan skipped and which head slots it reported, read from the
	/// read-only dump (`r5 iterd`), and a callback that returns `false` from its k-th call on
	/// (`r5 iterstop k`).
	fn iter_tie(&mut self, at: &str) {
		self.ctr.inc("iter.cases");
		// 1. the real callback sequence
		let mut seq: Vec<String> = vec![];
		let r = self.sut.db().iter_column_while(0, |s| {
			seq.push(format!("{}:{}", s.rc, show_val(&s.value)));
			true
		});
		let n = seq.len();
		let obs = match r {
			Ok(()) => format!("n={} {}", n, if seq.is_empty() { "-".to_string() } else { seq.join(",") }),
			Err(e) => format!("err:{}", err_kind(&e)),
		};
		self.ctr.add("iter.items", n as u64);
		self.emit("r5 iter", &obs);
		// 2. skipped slots and reported head slots, from the dump of the table files
		match self.sut.db().verif_dump(0, true) {
			Ok(d) => {
				let (mut tomb, mut parts) = (0u64, 0u64);
				let mut heads: Vec<(u8, u64, String)> = vec![];
				for tb in &d.tables {
					for s in &tb.slots {
						match s.1 {
							0 => tomb += 1,
							1 => heads.push((tb.tier, s.0, hex(&s.3))),
							_ => parts += 1,
						}
					}
				}
				heads.sort();
				let mut tiers: Vec<u8> = heads.iter().map(|h| h.0).collect();
				tiers.dedup();
				self.ctr.add("iter.tombstones_skipped", tomb);
				self.ctr.add("iter.parts_skipped", parts);
				self.ctr.add("iter.tiers_hit", tiers.len() as u64);
				if tomb > 0 {
					self.ctr.inc("iter.cases_with_tombstone");
				}
				if parts > 0 {
					self.ctr.inc("iter.cases_with_multipart");
				}
				if heads.len() != n {
					self.ctr.inc("finding.iteration_heads");
					self.fail(&format!("{}: iter_column_while reports {} values, the table files hold {} live heads", at, n, heads.len()));
				}
				let hs: Vec<String> = heads.iter().map(|h| format!("{}:{}:{}", h.0, h.1, h.2)).collect();
				self.emit(
					"r5 iterd",
					&format!("tomb={} parts={} tiers={} {}", tomb, parts, tiers.len(), if hs.is_empty() { "-".to_string() } else { hs.join(",") }),
				);
			},
			Err(e) => self.fail(&format!("{}: verif_dump failed: {:?}", at, e)),
		}
		// 3. early stop: `false` from the k-th call on
		let ks: Vec<usize> = if n == 0 { vec![1] } else { vec![1, 1 + (self.iter_stop_salt as usize % n)] };
		self.iter_stop_salt = self.iter_stop_salt.wrapping_mul(6364136223846793005).wrapping_add(1442695040888963407);
		for k in ks {
			let mut calls = 0usize;
			let mut seq: Vec<String> = vec![];
			let r = self.sut.db().iter_column_while(0, |s| {
				calls += 1;
				seq.push(format!("{}:{}", s.rc, show_val(&s.value)));
				calls < k
			});
			let obs = match r {
				Ok(()) => format!("n={} calls={} {}", seq.len(), calls, if seq.is_empty() { "-".to_string() } else { seq.join(",") }),
				Err(e) => format!("err:{}", err_kind(&e)),
			};
			self.ctr.inc("iter.stop_cases");
			if calls > k {
				// the callback was called again after it had returned `false`
				self.ctr.inc("iter.stop_called_again_after_false");
			}
			self.emit(&format!("r5 iterstop {}", k), &obs);
		}
	}

	fn reopen(&mut self) {
		self.drain();
		if self.sut.dead {
			return
		}
		self.sut.abandon();
		match Db::open(&options(&self.sut.dir, self.kind)) {
			Ok(db) => self.sut.db = Some(db),
			Err(e) => {
				self.fail(&format!("clean reopen failed: {:?}", e));
				self.sut.dead = true;
				return
			},
		}
		self.ctr.inc("op.reopen");
		self.emit("r5 reopen", "ok");
		let st = obs_stat(self.sut.db());
		self.emit("r5 stat", &st.line());
		self.last_stat = st;
		self.check_all();
		self.structure("reopen");
	}

	/// move the stored counter of a live key into the saturation range: drain, close, edit the
	/// table file, open
	fn poke(&mut self, rng: &mut Rng) {
		if self.kind != Kind::Rc {
			return
		}
		self.drain();
		if self.sut.dead {
			return
		}
		let live: Vec<Key> = self.planned.keys().cloned().collect();
		if live.is_empty() {
			return
		}
		let k = *rng.pick(&live);
		let counts = match self.stored_counts() {
			Some(c) => c,
			None => return,
		};
		let (_, tier, slot, entry_size, multipart) = match counts.get(&k[6..32].to_vec()) {
			Some(x) => *x,
			None => {
				self.fail(&format!("poke: live key {} has no slot", hex(&k)));
				return
			},
		};
		let cnt: u64 = *rng.pick(&[LOCKED - 2, LOCKED - 1, LOCKED - 1, LOCKED, 2, 3]);
		// The poke OVERWRITES the stored counter: whatever the last records before it did to this
		// key would be masked (oracle and model are both reset to `cnt`), so the counter as it is
		// now is compared first, with the oracle and with the model.
		if !self.sut.quiescent() {
			// not drained (cannot happen after a successful `drain`): no counter to compare, no poke
			self.ctr.inc("op.poke.skipped_not_drained");
			return
		}
		self.ctr.inc("op.poke.getrc_before");
		self.getrc("before-poke", &k, &counts);
		self.sut.abandon();
		{
			use std::io::{Seek, SeekFrom, Write};
			let p = self.sut.dir.join(format!("table_00_{:02x}", tier));
			let mut f = std::fs::OpenOptions::new().write(true).open(&p).expect("open table file");
			let off = slot * entry_size as u64 + if multipart { 10 } else { 2 };
			f.seek(SeekFrom::Start(off)).unwrap();
			f.write_all(&(cnt as u32).to_le_bytes()).unwrap();
			f.sync_all().unwrap();
		}
		match Db::open(&options(&self.sut.dir, self.kind)) {
			Ok(db) => self.sut.db = Some(db),
			Err(e) => {
				self.fail(&format!("reopen after poke failed: {:?}", e));
				self.sut.dead = true;
				return
			},
		}
		self.planned.get_mut(&k).unwrap().1 = cnt;
		self.ctr.inc("op.poke");
		self.ctr.inc(&format!("op.poke.count.{}", if cnt >= LOCKED - 2 { "near_locked" } else { "small" }));
		self.emit(&format!("r5 poke {} {}", hex(&k), cnt), "ok");
		self.emit("r5 reopen", "ok");
		let st = obs_stat(self.sut.db());
		self.emit("r5 stat", &st.line());
		self.last_stat = st;
		self.structure("poke");
		// exercise the saturation right away
		let mut tx: Tx = vec![];
		for _ in 0..rng.range(1, 5) {
			tx.push(match rng.below(3) {
				0 => Op::Ref(k),
				1 => Op::Deref(k),
				_ => Op::Set(k, "v5_77".to_string()),
			});
		}
		self.commit(tx);
		self.drain();
		self.structure("after-poke");
	}
}

// ----------------------------------------------------------------------------- generators

const LENS: [usize; 9] = [0, 3, 4, 20, 45, 100, 300, 1500, 6000];

struct KeyGen {
	next_id: u32,
	classes: HashMap<u64, usize>,
}

impl KeyGen {
	fn key(&mut self, prefix: u64) -> Option<Key> {
		let c = self.classes.entry(prefix >> 14).or_insert(0);
		if *c >= 8 {
			return None
		}
		*c += 1;
		let id = self.next_id;
		self.next_id += 1;
		Some(mk_key(prefix, id))
	}
}

/// (keys, hot keys, description): an overflowing page (growth) in most cases, a class sharing
/// all 50 index-visible bits, background keys
fn gen_keys(rng: &mut Rng, ctr: &mut Counters) -> (Vec<Key>, String) {
	let mut g = KeyGen { next_id: 1, classes: Default::default() };
	let mut keys = vec![];
	let page: u64 = rng.below(1 << 16) << 48;
	let grow = rng.chance(3, 5);
	let mut desc = String::new();
	if grow {
		let share = *rng.pick(&[16u32, 16, 17]);
		let low_mask = (1u64 << (64 - share)) - 1;
		let fixed = page | ((rng.next() >> 16) & !low_mask);
		let n_over = rng.range(66, 90);
		for _ in 0..n_over {
			if let Some(k) = g.key(fixed | (rng.next() & low_mask)) {
				keys.push(k);
			}
		}
		desc.push_str(&format!("share={} over={}", share, n_over));
		ctr.inc("keys.overflowing_page");
	} else {
		desc.push_str("no-overflow");
	}
	if rng.chance(1, 2) {
		let base = page | ((rng.next() >> 16) & !0x3fff);
		let m = rng.range(2, 8);
		for _ in 0..m {
			if let Some(k) = g.key(base | rng.below(1 << 14)) {
				keys.push(k);
			}
		}
		desc.push_str(" shared50");
		ctr.inc("keys.shared50_class");
	}
	for _ in 0..rng.range(6, 24) {
		if let Some(k) = g.key(rng.next()) {
			keys.push(k);
		}
	}
	(keys, desc)
}

fn gen_token(rng: &mut Rng, multipart: bool) -> String {
	let len = if multipart && rng.chance(1, 8) {
		*rng.pick(&[33000usize, 40000, 70000])
	} else {
		*rng.pick(&LENS)
	};
	format!("v{}_{}", len, rng.below(1 << 20))
}

/// the value a key is "supposed" to have (preimage contract): most Sets use it, some do not
fn contract_token(k: &Key, multipart: bool) -> String {
	let mut r = Rng::new(u32::from_be_bytes(k[8..12].try_into().unwrap()) as u64 ^ 0xabcd);
	gen_token(&mut r, multipart)
}

fn random_case(seed: u64, thorough: bool, root: &Path, t: &mut Trace, ctr: &mut Counters, prop: &str, purge: bool) -> bool {
	let mut rng = Rng::new(seed);
	let kind = match seed % 5 {
		0 => Kind::Plain,
		1 | 2 => Kind::Preimage,
		_ => Kind::Rc,
	};
	let multipart = rng.chance(1, 2);
	let (keys, desc) = gen_keys(&mut rng, ctr);
	t.begin_case(&format!("seed={} kind={} {} multipart={}", seed, kind.name(), desc, multipart));
	ctr.inc(&format!("cases.kind.{}", kind.name()));
	let dir = fresh_dir(root, &format!("r5-{}", seed));
	let sut = Sut::create(dir, kind);
	let st = obs_stat(sut.db());
	let mut c = Case {
		t,
		ctr,
		prop: prop.to_string(),
		kind,
		sut,
		vals: Default::default(),
		planned: Default::default(),
		keys: keys.clone(),
		ok: true,
		max_bits: 16,
		batches: 0,
		last_stat: st,
		max_count: 0,
		removed_at_zero: 0,
		slot_reuse: 0,
		iter_stop_salt: seed,
	};
	c.emit(&format!("r5 init 16 {} {}", kind.name(), if purge { "purge" } else { "nopurge" }), "ok");
	// a small set of hot keys takes most of the repeated operations
	let hot: Vec<Key> = (0..std::cmp::min(keys.len(), rng.range(3, 8) as usize))
		.map(|_| *rng.pick(&keys))
		.collect();
	let pick_key = |rng: &mut Rng| -> Key {
		if rng.chance(3, 5) {
			*rng.pick(&hot)
		} else {
			*rng.pick(&keys)
		}
	};
	let set_token = |rng: &mut Rng, k: &Key| -> String {
		if rng.chance(3, 4) {
			contract_token(k, multipart)
		} else {
			gen_token(rng, multipart)
		}
	};
	// fill phase: most of the pool in a few transactions (growth inside a multi-op commit)
	let mut order: Vec<usize> = (0..keys.len()).collect();
	for i in (1..order.len()).rev() {
		order.swap(i, rng.below(i as u64 + 1) as usize);
	}
	let fill = order.len() * rng.range(50, 100) as usize / 100;
	let mut i = 0;
	while i < fill {
		let n = std::cmp::min(rng.range(1, 40) as usize, fill - i);
		let tx: Tx = order[i..i + n].iter().map(|j| Op::Set(keys[*j], set_token(&mut rng, &keys[*j]))).collect();
		c.commit(tx);
		i += n;
		if rng.chance(1, 2) {
			c.process();
		}
		if c.sut.dead {
			break
		}
	}
	let nact = rng.range(30, if thorough { 140 } else { 70 });
	let mut pokes = 0;
	for _ in 0..nact {
		if c.sut.dead {
			break
		}
		let a = rng.below(100);
		if a < 34 {
			let nops = rng.range(1, 6);
			let mut tx: Tx = vec![];
			for _ in 0..nops {
				let k = pick_key(&mut rng);
				let r = rng.below(100);
				if r < 40 {
					tx.push(Op::Set(k, set_token(&mut rng, &k)));
				} else if r < 75 {
					tx.push(Op::Deref(k));
				} else if kind == Kind::Rc {
					tx.push(Op::Ref(k));
				} else {
					tx.push(Op::Deref(k));
				}
			}
			// the same key several times inside one transaction
			if rng.chance(1, 4) {
				let k = pick_key(&mut rng);
				for _ in 0..rng.range(2, 5) {
					tx.push(match rng.below(3) {
						0 => Op::Set(k, set_token(&mut rng, &k)),
						1 if kind == Kind::Rc => Op::Ref(k),
						_ => Op::Deref(k),
					});
				}
			}
			c.commit(tx);
		} else if a < 52 {
			c.process();
		} else if a < 58 {
			c.sut.flush();
			c.ctr.inc("op.flush");
		} else if a < 66 {
			c.enact_one();
		} else if a < 69 {
			c.sut.clean();
			c.ctr.inc("op.clean");
		} else if a < 80 {
			if rng.chance(1, 3) {
				c.drain();
			}
			c.reindex();
		} else if a < 86 {
			c.drain();
			c.structure("drain");
		} else if a < 91 {
			c.reopen();
		} else if a < 95 && pokes < 2 {
			pokes += 1;
			c.poke(&mut rng);
		} else if a < 97 {
			let k = pick_key(&mut rng);
			c.commit_refused_ref(k);
		} else {
			c.check_all();
		}
		for _ in 0..4 {
			let k = pick_key(&mut rng);
			c.check_get(&k);
		}
	}
	for _ in 0..40 {
		if c.sut.dead || c.last_stat.older.is_empty() {
			break
		}
		c.drain();
		c.reindex();
	}
	if !c.sut.dead {
		c.drain();
	}
	if !c.sut.dead {
		c.check_all();
		c.structure("final");
		// totality tie (R3_total / R5_total): the crate planned and enacted every record of this case
		// without error; the model's physical run (`rStep` / `pStep`) must have been `.ok` at every step
		c.emit("r5 total", "ok");
		c.ctr.inc("total.cases_crate_ok");
		c.ctr.add("total.records_crate_ok", c.sut.n_records as u64);
	}
	c.ctr.inc(&format!("growth.max_bits.{}", c.max_bits));
	c.ctr.inc(&format!("count.max_reached.{}", std::cmp::min(c.max_count, 9)));
	c.ctr.add("count.removed_at_zero", c.removed_at_zero);
	c.ctr.add("slots.tables_with_free_list_at_drain", c.slot_reuse);
	c.sut.abandon();
	let _ = std::fs::remove_dir_all(&c.sut.dir);
	let nt = c.sut.n_records > 3;
	c.t.end_case(nt);
	c.ctr.inc("cases");
	if nt {
		c.ctr.inc("cases.nontrivial");
	}
	c.ok
}

pub fn run(seeds: &[u64], thorough: bool, root: &Path, t: &mut Trace, ctr: &mut Counters, prop: &str) -> u64 {
	let hook = std::panic::take_hook();
	std::panic::set_hook(Box::new(|_| {}));
	// the model follows the crate under test (fix-c09-stale-index-entries)
	let purge = crate::c09::crate_purges_stale_entries(root);
	t.comment(&format!("crate under test: purge_stale_entries={}", purge));
	t.stat("crate.fix.stale_index_entries", if purge { "1" } else { "0" });
	let mut fails = 0;
	for &seed in seeds {
		if !random_case(seed, thorough, root, t, ctr, prop, purge) {
			fails += 1;
			t.comment(&format!("FAILED-CASE seed={}", seed));
		}
	}
	std::panic::set_hook(hook);
	fails
}
