//! C05: concurrent readers against committing threads and the four background workers.
//!
//! Four kinds of cases, chosen by `seed % 6` (4 | 5: deep queue with diverged commit / record ids, see `deepqueue`):
//!   0 | 1  threaded stress on the real `Db` WITH background threads: one writer bumps a version
//!          in ALL keys of a small set per transaction (value sizes move the entries between
//!          size tiers, incl. multipart), a filler thread inserts new keys into the same index
//!          chunk so that the index grows while the readers run, 4..6 readers check every point
//!          read against floor / ceiling / per-reader monotonicity / atomic visibility.  The
//!          yield-point hook stretches the hand-over windows with seeded delays.
//!   2      deterministic reproduction of pre-finding F11 with the yield hook: a reader is parked
//!          between the lookup in the current index and the lookup in the older one while the
//!          final reindex batch is published, flushed, enacted and the old index dropped.
//!   3      deterministic hand-over windows: the processing thread parked after `end_record`
//!          (record published, commit overlay not cleaned), the enacting thread parked before
//!          `end_read` (tables written, log overlay not cleaned), reads / further commits /
//!          further pipeline steps from the main thread in between.
//!
//! Oracles are plain Rust (version arithmetic, a BTreeMap of the latest committed values);
//! nothing is derived from the Lean model.
//!
//! Model correspondence (driver command word `c05`, lean/Pdb/Model/ConcReadDriver.lean): the
//! deterministic kinds 2, 3, 4 | 5 replay every API call as actions of the key-level interleaving
//! LTS `Pdb.CRd.cstep` (Model/ConcRead.lean Part 1) and compare EVERY answer of `get` / `get_size`
//! with the model's:
//!   commit(tx)                        c05 commit set:<k>:<v> | del:<k> ...
//!   process_commits() (commit queued) c05 process            (= pop; publish; cleanOverlay)
//!     parked after end_record         c05 pop, c05 publish at park time; c05 cleanOverlay after the release
//!   flush_logs()                      c05 flush
//!   enact_logs() (one log FILE)       c05 enactRecord per KEY-LEVEL record of that file (`Pipe` tracks which
//!                                     commits / reindex batches went into which file)
//!     parked before end_read          c05 enactWrites at park time; c05 endRead (+ the rest of the file) after
//!   clean_logs(), process_reindex()   nothing (index layer / file recycling)
//!   get(k) / get_size(k)              c05 get <k> / c05 size <k>  -> none | some <token> | some <len>
//!   reader parked at get_in_index.miss  c05 rBegin 1 k, rOverlay 1, rLog 1 before; c05 rTable 1, rEnd 1 after
//!   Db::open (crash image or reopen)  the LTS has no reopen: c05 init + ONE transaction with the oracle's
//!                                     expected content (commit; process; flush; enactRecord)
//!   pipeline drained (mirror)         c05 drained -> ok enacted=<records ended> hist=<commits>  (a model stage
//!                                     lagging behind is invisible to reads; this line pins it)
//! Keys `k<space>_<id>`; value tokens `v<version>_<keyindex>_<len>` / `f<id>_<len>` (fillers); a value that does
//! not decode is reported as `some CORRUPT`.  Kinds 0 | 1 (threaded) emit comments only.
use crate::util::*;
use parity_db::{ColumnOptions, Db, Options};
use std::collections::{BTreeMap, VecDeque};
use std::path::Path;
use std::sync::atomic::{AtomicBool, AtomicU64, Ordering};
use std::sync::{Arc, Condvar, Mutex};
use std::time::{Duration, Instant};

const PREFIX: [u8; 2] = [0x5a, 0xc3];

fn options(path: &Path, background: bool, cols: u8) -> Options {
	let mut o = Options::with_columns(path, cols);
	for c in 0..cols as usize {
		o.columns[c] = ColumnOptions { uniform: true, ..Default::default() };
	}
	// zero salt + uniform + instrumentation = identity hashing: the first 16 bits of a key
	// select the index chunk, so the harness can fill one chunk and force index growth.
	o.salt = Some([0u8; 32]);
	o.with_background_thread = background;
	o.always_flush = true;
	o.stats = false;
	o.sync_wal = !background;
	o.sync_data = !background;
	o
}

/// 32-byte key in the hot index chunk; bytes 2.. are pseudo-random and embed `id`.
fn hot_key(space: u8, id: u64) -> [u8; 32] {
	let mut r = Rng::new(id.wrapping_mul(0x9e37_79b9).wrapping_add(space as u64 * 0x1_0000_0001));
	let mut k = [0u8; 32];
	for i in 0..4 {
		k[i * 8..i * 8 + 8].copy_from_slice(&r.next().to_le_bytes());
	}
	k[0] = PREFIX[0];
	k[1] = PREFIX[1];
	k[24] = space;
	k[25..32].copy_from_slice(&id.to_be_bytes()[1..8]);
	k
}

const SIZE_CLASSES: [usize; 16] =
	[16, 24, 40, 16, 100, 300, 33, 1000, 64, 5000, 17, 128, 20000, 48, 2200, 40000];

fn size_for(v: u64, i: usize, spread: u64) -> usize {
	SIZE_CLASSES[((v / spread.max(1)) as usize + i * 3) % SIZE_CLASSES.len()]
}

/// value of key `i` at version `v`
fn enc(v: u64, i: usize, spread: u64) -> Vec<u8> {
	let len = size_for(v, i, spread);
	let mut b = Vec::with_capacity(len);
	b.extend_from_slice(&v.to_le_bytes());
	b.push(i as u8);
	let mut j = 0u64;
	while b.len() < len {
		b.push((v.wrapping_mul(31).wrapping_add(j * 7).wrapping_add(i as u64)) as u8);
		j += 1;
	}
	b
}

fn dec(bytes: &[u8], i: usize, spread: u64) -> Result<u64, String> {
	if bytes.len() < 9 {
		return Err(format!("value too short ({} bytes)", bytes.len()))
	}
	let v = u64::from_le_bytes(bytes[0..8].try_into().unwrap());
	if enc(v, i, spread) != bytes {
		return Err(format!(
			"torn or foreign value: claims version {} key {} len {} (expected len {})",
			v,
			bytes[8],
			bytes.len(),
			size_for(v, i, spread)
		))
	}
	Ok(v)
}

fn filler_value(id: u64) -> Vec<u8> {
	let mut b = id.to_le_bytes().to_vec();
	b.extend_from_slice(&[0xf1; 20]);
	b
}

#[derive(Default)]
struct ReaderReport {
	reads: u64,
	filler_reads: u64,
	lag0: u64,     // observed version == floor
	ahead: u64,    // observed version > floor (commit in progress already visible)
	violations: Vec<String>,
}

struct HookStats {
	after_end_record: AtomicU64,
	before_end_read: AtomicU64,
	index_miss: AtomicU64,
	delays: AtomicU64,
}

fn index_files(dir: &Path) -> Vec<String> {
	let mut v = vec![];
	if let Ok(rd) = std::fs::read_dir(dir) {
		for e in rd.flatten() {
			let n = e.file_name().to_string_lossy().to_string();
			if n.starts_with("index_") {
				v.push(n);
			}
		}
	}
	v.sort();
	v
}

// ------------------------------------------------------------------------------------------
// (i) threaded stress

fn stress(seed: u64, thorough: bool, root: &Path, t: &mut Trace, ctr: &mut Counters, prop: &str) -> bool {
	let mut rng = Rng::new(seed);
	let nkeys = rng.range(4, 8) as usize;
	let nreaders = rng.range(4, 6) as usize;
	let spread = *rng.pick(&[1u64, 1, 2, 5]);
	let fillers_per_tx = rng.range(1, 4);
	let filler_target: u64 = if thorough { 1400 } else { rng.range(150, 420) };
	let millis = if thorough { 20_000 } else { 1_500 };
	let hook_delay = rng.below(3); // 0: no delays, 1: rare, 2: frequent
	t.begin_case(&format!(
		"seed={} stress keys={} readers={} spread={} fillers={} x{} ms={} delay={}",
		seed, nkeys, nreaders, spread, filler_target, fillers_per_tx, millis, hook_delay
	));
	let dir = fresh_dir(root, &format!("c05-{}", seed));
	let db = match Db::open_or_create(&options(&dir, true, 1)) {
		Ok(db) => Arc::new(db),
		Err(e) => {
			t.oracle_fail(prop, &format!("open failed: {:?}", e));
			t.end_case(false);
			return false
		},
	};
	let keys: Vec<[u8; 32]> = (0..nkeys).map(|i| hot_key(1, i as u64)).collect();
	// version 1 of every key exists before any reader starts
	db.commit((0..nkeys).map(|i| (0u8, keys[i].to_vec(), Some(enc(1, i, spread))))).unwrap();

	let hs = Arc::new(HookStats {
		after_end_record: AtomicU64::new(0),
		before_end_read: AtomicU64::new(0),
		index_miss: AtomicU64::new(0),
		delays: AtomicU64::new(0),
	});
	{
		let hs = hs.clone();
		let salt = AtomicU64::new(seed | 1);
		parity_db::verif::set_yield_hook(Some(Arc::new(move |name: &'static str| {
			let ctr = match name {
				"process_commits.after_end_record" => &hs.after_end_record,
				"enact_logs.before_end_read" => &hs.before_end_read,
				_ => &hs.index_miss,
			};
			ctr.fetch_add(1, Ordering::Relaxed);
			if hook_delay == 0 {
				return
			}
			// cheap seeded choice (xorshift on a shared word; races only perturb the schedule)
			let mut x = salt.load(Ordering::Relaxed);
			x ^= x << 13;
			x ^= x >> 7;
			x ^= x << 17;
			salt.store(x, Ordering::Relaxed);
			let den = if hook_delay == 1 { 64 } else { 8 };
			if x % den == 0 {
				hs.delays.fetch_add(1, Ordering::Relaxed);
				if x & 0x100 == 0 {
					std::thread::yield_now();
				} else {
					std::thread::sleep(Duration::from_micros(20 + (x >> 20) % 300));
				}
			}
		})));
	}

	let floor = Arc::new(AtomicU64::new(1)); // last version whose commit returned
	let started = Arc::new(AtomicU64::new(1)); // last version whose commit was started
	let fillers_done = Arc::new(AtomicU64::new(0)); // filler ids < this are committed
	let stop = Arc::new(AtomicBool::new(false));
	let t0 = Instant::now();

	let writer = {
		let (db, keys, floor, started, stop) = (db.clone(), keys.clone(), floor.clone(), started.clone(), stop.clone());
		std::thread::spawn(move || {
			let mut v = 1u64;
			while !stop.load(Ordering::Relaxed) {
				v += 1;
				started.store(v, Ordering::SeqCst);
				let tx: Vec<(u8, Vec<u8>, Option<Vec<u8>>)> =
					(0..keys.len()).map(|i| (0u8, keys[i].to_vec(), Some(enc(v, i, spread)))).collect();
				if let Err(e) = db.commit(tx) {
					return Err(format!("writer commit failed at version {}: {:?}", v, e))
				}
				floor.store(v, Ordering::SeqCst);
			}
			Ok(v)
		})
	};
	let filler = {
		let (db, fillers_done, stop) = (db.clone(), fillers_done.clone(), stop.clone());
		std::thread::spawn(move || {
			let mut next = 0u64;
			while !stop.load(Ordering::Relaxed) && next < filler_target {
				let n = fillers_per_tx.min(filler_target - next);
				let tx: Vec<(u8, Vec<u8>, Option<Vec<u8>>)> =
					(next..next + n).map(|id| (0u8, hot_key(2, id).to_vec(), Some(filler_value(id)))).collect();
				if let Err(e) = db.commit(tx) {
					return Err(format!("filler commit failed at {}: {:?}", next, e))
				}
				next += n;
				fillers_done.store(next, Ordering::SeqCst);
				std::thread::sleep(Duration::from_micros(300));
			}
			Ok(next)
		})
	};
	let mut readers = vec![];
	for r in 0..nreaders {
		let (db, keys, floor, started, fillers_done, stop) =
			(db.clone(), keys.clone(), floor.clone(), started.clone(), fillers_done.clone(), stop.clone());
		let mut rr = Rng::new(seed ^ (0x1000 + r as u64));
		readers.push(std::thread::spawn(move || {
			let mut rep = ReaderReport::default();
			let mut max_seen = 0u64; // highest version seen on ANY key of the set
			let mut last = vec![0u64; keys.len()];
			while !stop.load(Ordering::Relaxed) && rep.violations.len() < 5 {
				if rr.chance(1, 5) {
					let done = fillers_done.load(Ordering::SeqCst);
					if done > 0 {
						let id = rr.below(done);
						rep.filler_reads += 1;
						match db.get(0, &hot_key(2, id)) {
							Ok(Some(v)) if v == filler_value(id) => {},
							Ok(Some(v)) => rep.violations.push(format!("filler {} returned foreign value of {} bytes", id, v.len())),
							Ok(None) => rep.violations.push(format!("filler {} committed (done={}) but read as absent", id, done)),
							Err(e) => rep.violations.push(format!("filler {} read error {:?}", id, e)),
						}
					}
					continue
				}
				let i = rr.below(keys.len() as u64) as usize;
				let lo = floor.load(Ordering::SeqCst);
				let got = db.get(0, &keys[i]);
				let hi = started.load(Ordering::SeqCst);
				rep.reads += 1;
				match got {
					Ok(Some(bytes)) => match dec(&bytes, i, spread) {
						Ok(w) => {
							if w < lo {
								rep.violations.push(format!("key {} returned version {} older than the last completed commit {}", i, w, lo));
							}
							if w > hi {
								rep.violations.push(format!("key {} returned version {} of a commit that had not started (max started {})", i, w, hi));
							}
							if w < last[i] {
								rep.violations.push(format!("key {} went back in time: {} after {}", i, w, last[i]));
							}
							if w < max_seen {
								rep.violations.push(format!("partial transaction: key {} returned {} after version {} was seen on another key", i, w, max_seen));
							}
							if w == lo { rep.lag0 += 1 } else { rep.ahead += 1 }
							last[i] = last[i].max(w);
							max_seen = max_seen.max(w);
						},
						Err(m) => rep.violations.push(format!("key {}: {}", i, m)),
					},
					Ok(None) => rep.violations.push(format!("key {} read as absent (floor {})", i, lo)),
					Err(e) => rep.violations.push(format!("key {} read error {:?}", i, e)),
				}
			}
			rep
		}));
	}

	// run, watching the index files for growth
	let mut max_index_files = 0usize;
	let mut seen_idx: std::collections::BTreeSet<String> = Default::default();
	while t0.elapsed() < Duration::from_millis(millis) {
		std::thread::sleep(Duration::from_millis(20));
		let f = index_files(&dir);
		max_index_files = max_index_files.max(f.len());
		for n in f {
			seen_idx.insert(n);
		}
	}
	stop.store(true, Ordering::SeqCst);
	// watchdog: all threads must come back
	let deadline = Instant::now() + Duration::from_secs(60);
	let mut ok = true;
	let mut hung = false;
	fn wait<T>(h: &std::thread::JoinHandle<T>, deadline: Instant) -> bool {
		while !h.is_finished() && Instant::now() < deadline {
			std::thread::sleep(Duration::from_millis(5));
		}
		h.is_finished()
	}
	let mut reads = 0u64;
	if !wait(&writer, deadline) { hung = true }
	if !wait(&filler, deadline) { hung = true }
	for h in &readers {
		if !wait(h, deadline) { hung = true }
	}
	if hung {
		t.oracle_fail(prop, "watchdog: a writer / reader thread did not finish within 60 s of the stop signal");
		t.end_case(true);
		t.flush();
		std::process::exit(3);
	}
	let last_v = match writer.join().unwrap() {
		Ok(v) => v,
		Err(m) => {
			t.oracle_fail(prop, &m);
			ok = false;
			floor.load(Ordering::SeqCst)
		},
	};
	let nfill = match filler.join().unwrap() {
		Ok(n) => n,
		Err(m) => {
			t.oracle_fail(prop, &m);
			ok = false;
			fillers_done.load(Ordering::SeqCst)
		},
	};
	for h in readers {
		let rep = h.join().unwrap();
		reads += rep.reads;
		ctr.add("stress.reads", rep.reads);
		ctr.add("stress.filler_reads", rep.filler_reads);
		ctr.add("stress.reads.at_floor", rep.lag0);
		ctr.add("stress.reads.ahead_of_floor", rep.ahead);
		for m in rep.violations {
			t.oracle_fail(prop, &m);
			ok = false;
		}
	}
	// let the workers drain the pipeline before the handle is dropped (a drop with many
	// un-enacted log files runs into pre-finding F7, which is not this property's subject)
	{
		let snap = |hs: &HookStats| (hs.after_end_record.load(Ordering::SeqCst), hs.before_end_read.load(Ordering::SeqCst));
		let mut last = snap(&hs);
		let mut stable = 0;
		let td = Instant::now();
		while stable < 8 && td.elapsed() < Duration::from_secs(20) {
			std::thread::sleep(Duration::from_millis(25));
			let now = snap(&hs);
			if now == last { stable += 1 } else { stable = 0 }
			last = now;
		}
	}
	parity_db::verif::set_yield_hook(None);
	// quiescent check on the live handle, then close and reopen without workers
	for i in 0..nkeys {
		match db.get(0, &keys[i]) {
			Ok(Some(b)) if dec(&b, i, spread) == Ok(last_v) => {},
			other => {
				t.oracle_fail(prop, &format!("after the run key {} is {:?}, expected version {}", i, other.map(|o| o.map(|b| b.len())), last_v));
				ok = false;
			},
		}
	}
	let db = Arc::try_unwrap(db).ok().expect("all threads joined");
	let td = Instant::now();
	let dropper = std::thread::spawn(move || drop(db));
	if !wait(&dropper, Instant::now() + Duration::from_secs(30)) {
		t.comment("stress: drop(Db) did not return within 30 s (pre-finding F7, drop waits for log cleanup after the cleanup worker is gone); reopen check skipped");
		ctr.inc("stress.drop_hang_F7");
		ctr.inc("cases.stress");
		t.end_case(reads > 1000);
		return ok
	}
	let drop_ms = td.elapsed().as_millis();
	match Db::open(&options(&dir, false, 1)) {
		Ok(db2) => {
			for i in 0..nkeys {
				match db2.get(0, &keys[i]) {
					Ok(Some(b)) if dec(&b, i, spread) == Ok(last_v) => {},
					other => {
						t.oracle_fail(prop, &format!("after reopen key {} is {:?}, expected version {}", i, other.map(|o| o.map(|b| b.len())), last_v));
						ok = false;
					},
				}
			}
			let mut missing = 0;
			for id in 0..nfill {
				if db2.get(0, &hot_key(2, id)).ok().flatten() != Some(filler_value(id)) {
					missing += 1;
				}
			}
			if missing > 0 {
				t.oracle_fail(prop, &format!("after reopen {} of {} filler keys are missing", missing, nfill));
				ok = false;
			}
		},
		Err(e) => {
			t.oracle_fail(prop, &format!("reopen failed: {:?}", e));
			ok = false;
		},
	}
	let growths = seen_idx.len().saturating_sub(1);
	t.comment(&format!(
		"stress: versions={} fillers={} reads={} index tables seen={:?} max simultaneous={} drop_ms={} hook: end_record={} end_read={} index_miss={} delays={}",
		last_v, nfill, reads, seen_idx, max_index_files, drop_ms,
		hs.after_end_record.load(Ordering::Relaxed), hs.before_end_read.load(Ordering::Relaxed),
		hs.index_miss.load(Ordering::Relaxed), hs.delays.load(Ordering::Relaxed)
	));
	ctr.inc("cases.stress");
	ctr.add("stress.commits.versions", last_v);
	ctr.add("stress.commits.fillers", nfill);
	ctr.add("stress.index_growths", growths as u64);
	if max_index_files >= 2 {
		ctr.inc("stress.cases_with_two_live_indexes");
	}
	ctr.add("stress.hook.after_end_record", hs.after_end_record.load(Ordering::Relaxed));
	ctr.add("stress.hook.before_end_read", hs.before_end_read.load(Ordering::Relaxed));
	ctr.add("stress.hook.index_miss", hs.index_miss.load(Ordering::Relaxed));
	ctr.add("stress.hook.delays", hs.delays.load(Ordering::Relaxed));
	ctr.inc(&format!("stress.keys.{}", nkeys));
	ctr.inc(&format!("stress.readers.{}", nreaders));
	let _ = std::fs::remove_dir_all(&dir);
	t.end_case(reads > 1000 && last_v > 10);
	ok
}

// ------------------------------------------------------------------------------------------
// parking gate used by the deterministic scenarios

#[derive(Default)]
struct GateState {
	parked: bool,
	release: bool,
	armed: bool,
	hits: u64,
}

pub(crate) struct Gate {
	point: &'static str,
	st: Mutex<GateState>,
	cv: Condvar,
}

thread_local! {
	pub(crate) static PARK_ME: std::cell::Cell<bool> = const { std::cell::Cell::new(false) };
}

impl Gate {
	pub(crate) fn new(point: &'static str) -> Arc<Gate> {
		Arc::new(Gate { point, st: Mutex::new(GateState::default()), cv: Condvar::new() })
	}
	/// install: the first thread flagged PARK_ME that reaches `point` while armed parks
	pub(crate) fn install(self: &Arc<Gate>) {
		let g = self.clone();
		parity_db::verif::set_yield_hook(Some(Arc::new(move |name: &'static str| {
			if name != g.point || !PARK_ME.with(|p| p.get()) {
				return
			}
			let mut st = g.st.lock().unwrap();
			st.hits += 1;
			if !st.armed {
				return
			}
			st.armed = false;
			st.parked = true;
			g.cv.notify_all();
			while !st.release {
				st = g.cv.wait(st).unwrap();
			}
			st.parked = false;
			st.release = false;
			g.cv.notify_all();
		})));
	}
	pub(crate) fn arm(&self) {
		let mut st = self.st.lock().unwrap();
		st.armed = true;
		st.release = false;
	}
	pub(crate) fn wait_parked(&self, ms: u64) -> bool {
		let st = self.st.lock().unwrap();
		let (st, _) = self.cv.wait_timeout_while(st, Duration::from_millis(ms), |s| !s.parked).unwrap();
		st.parked
	}
	pub(crate) fn release(&self) {
		let mut st = self.st.lock().unwrap();
		st.release = true;
		st.armed = false;
		self.cv.notify_all();
	}
}

// ------------------------------------------------------------------------------------------
// model correspondence: tokens and the mirror of the log-file structure

/// model key name
fn kname(space: u8, id: u64) -> String {
	format!("k{}_{}", space, id)
}

/// model token of `enc(v, i, spread)`
fn vtok(v: u64, i: usize, spread: u64) -> String {
	format!("v{}_{}_{}", v, i, size_for(v, i, spread))
}

/// observed answer of `get` for key index `i`, decoded back to the token
fn obs_value(got: &Result<Option<Vec<u8>>, parity_db::Error>, i: usize, spread: u64) -> String {
	match got {
		Ok(None) => "none".into(),
		Ok(Some(b)) => match dec(b, i, spread) {
			Ok(v) => format!("some v{}_{}_{}", v, i, b.len()),
			Err(_) => "some CORRUPT".into(),
		},
		Err(e) => format!("err:{}", err_kind(e)),
	}
}

fn obs_size(got: &Result<Option<u32>, parity_db::Error>) -> String {
	match got {
		Ok(None) => "none".into(),
		Ok(Some(n)) => format!("some {}", n),
		Err(e) => format!("err:{}", err_kind(e)),
	}
}

/// observed answer for a filler key whose only legal value is `want` (token `f<id>_<len>`)
fn obs_filler(got: &Result<Option<Vec<u8>>, parity_db::Error>, id: u64, want: &[u8]) -> String {
	match got {
		Ok(None) => "none".into(),
		Ok(Some(b)) if b == want => format!("some f{}_{}", id, b.len()),
		Ok(Some(_)) => "some CORRUPT".into(),
		Err(e) => format!("err:{}", err_kind(e)),
	}
}

/// Mirror of the write pipeline as far as the key-level model needs it: how many commits are
/// queued, and which records (true: planned from a commit, false: reindex batch, no key-level
/// counterpart) sit in the appending log file and in every flushed log file, in order.
/// `Db::enact_logs` (stepping API) enacts all records of ONE log file.
struct Pipe {
	queued: usize,
	appending: Vec<bool>,
	files: VecDeque<Vec<bool>>,
	parked_file: Option<Vec<bool>>,
	/// a handle opened without replay starts with last_enacted = 1 AND first record id = 1: the
	/// first enacted record does not move `verif_last_enacted` (only used by the mirror self-check)
	first_record_pending: bool,
	/// commits accepted / key-level records ended since the last `c05 init`
	commits: u64,
	ended: u64,
}

impl Pipe {
	fn new(t: &mut Trace, readers: u32) -> Pipe {
		t.op(&format!("c05 init {}", readers), "ok");
		Pipe { queued: 0, appending: vec![], files: VecDeque::new(), parked_file: None, first_record_pending: true, commits: 0, ended: 0 }
	}
	/// `ops`: (model key, real key, Some((token, bytes)) | None = removal)
	fn commit(&mut self, db: &Db, t: &mut Trace, ops: Vec<(String, [u8; 32], Option<(String, Vec<u8>)>)>) {
		let mut line = String::from("c05 commit");
		let mut tx: Vec<(u8, Vec<u8>, Option<Vec<u8>>)> = Vec::with_capacity(ops.len());
		for (k, key, v) in ops {
			match v {
				Some((tok, bytes)) => {
					line.push_str(&format!(" set:{}:{}", k, tok));
					tx.push((0u8, key.to_vec(), Some(bytes)));
				},
				None => {
					line.push_str(&format!(" del:{}", k));
					tx.push((0u8, key.to_vec(), None));
				},
			}
		}
		let r = db.commit(tx);
		t.op(&line, &match &r { Ok(()) => "ok".to_string(), Err(e) => format!("err:{}", err_kind(e)) });
		r.unwrap();
		self.queued += 1;
		self.commits += 1;
	}
	/// the mirror says everything has reached the tables: the model must agree (catches a
	/// model stage lagging behind, which reads alone cannot see)
	fn drained(&mut self, t: &mut Trace) {
		if self.queued == 0 && self.appending.iter().all(|k| !*k) && self.files.iter().all(|f| f.iter().all(|k| !*k)) && self.parked_file.is_none() {
			t.op("c05 drained", &format!("ok enacted={} hist={}", self.ended, self.commits));
		} else {
			t.comment(&format!("c05 mirror: not drained: queued={} appending={:?} files={:?}", self.queued, self.appending, self.files));
		}
	}
	fn process(&mut self, db: &Db, t: &mut Trace) {
		db.process_commits().unwrap();
		if self.queued > 0 {
			self.queued -= 1;
			self.appending.push(true);
			t.op("c05 process", "ok");
		}
	}
	/// the processing thread is parked after `end_record`: record published, overlay not cleaned
	fn process_parked(&mut self, t: &mut Trace) {
		self.queued -= 1;
		self.appending.push(true);
		t.op("c05 pop", "ok");
		t.op("c05 publish", "ok");
	}
	fn process_resumed(&mut self, t: &mut Trace) {
		t.op("c05 cleanOverlay", "ok");
	}
	fn flush(&mut self, db: &Db, t: &mut Trace) {
		db.flush_logs().unwrap();
		if !self.appending.is_empty() {
			self.files.push_back(std::mem::take(&mut self.appending));
		}
		t.op("c05 flush", "ok");
	}
	fn enact(&mut self, db: &Db, t: &mut Trace, ctr: &mut Counters) {
		let before = db.verif_last_enacted();
		db.enact_logs().unwrap();
		let after = db.verif_last_enacted();
		let file = self.files.pop_front().unwrap_or_default();
		let mut expected = file.len() as u64;
		if self.first_record_pending && before == 1 && expected > 0 {
			expected -= 1;
		}
		if !file.is_empty() {
			self.first_record_pending = false;
		}
		if after - before != expected {
			// the mirror is wrong (or the crate enacted something else than one whole file)
			t.comment(&format!("c05 mirror: enact_logs enacted {} records, mirror expected {:?}", after - before, file));
			ctr.inc("model.mirror_mismatch");
		}
		for key_level in file {
			if key_level {
				t.op("c05 enactRecord", "ok");
				ctr.inc("model.enact.records");
				self.ended += 1;
			} else {
				ctr.inc("model.enact.reindex_records");
			}
		}
	}
	/// the enacting thread is parked before `end_read` of the FIRST record of the next file
	fn enact_parked(&mut self, t: &mut Trace) {
		let file = self.files.pop_front().unwrap_or_default();
		if !file.is_empty() {
			self.first_record_pending = false;
		}
		if file.first() == Some(&true) {
			t.op("c05 enactWrites", "ok");
		}
		self.parked_file = Some(file);
	}
	fn enact_resumed(&mut self, t: &mut Trace, ctr: &mut Counters) {
		if let Some(file) = self.parked_file.take() {
			for (n, key_level) in file.into_iter().enumerate() {
				if key_level {
					t.op(if n == 0 { "c05 endRead" } else { "c05 enactRecord" }, "ok");
					ctr.inc("model.enact.records");
					self.ended += 1;
				}
			}
		}
	}
	fn clean(&mut self, db: &Db) {
		db.clean_logs().unwrap();
	}
	/// a reindex batch is a log record without a key-level counterpart
	fn reindex(&mut self, db: &Db, ctr: &mut Counters) {
		let pre = db.verif_reindex_state();
		db.process_reindex().unwrap();
		let post = db.verif_reindex_state();
		// `process_reindex` plans iff next_reindex != 0 && next_reindex <= last_enacted; it resets
		// next_reindex to 0 exactly when it found nothing to write
		if pre.0 != 0 && pre.0 <= pre.1 && post.0 != 0 {
			self.appending.push(false);
			ctr.inc("model.reindex_records");
		}
	}
	fn step_all(&mut self, db: &Db, t: &mut Trace, ctr: &mut Counters) {
		self.process(db, t);
		self.flush(db, t);
		self.enact(db, t, ctr);
		self.clean(db);
	}
	/// `Db::open` happened (crash image or clean reopen): the key-level LTS has no such action;
	/// start a fresh model and establish `content` (what the oracle expects) as one transaction
	fn reopened(&mut self, t: &mut Trace, readers: u32, replayed: bool, content: Vec<(String, String)>) {
		t.op(&format!("c05 init {}", readers), "ok");
		self.first_record_pending = !replayed;
		self.queued = 0;
		self.appending.clear();
		self.files.clear();
		self.parked_file = None;
		self.commits = 0;
		self.ended = 0;
		if content.is_empty() {
			return
		}
		self.commits = 1;
		self.ended = 1;
		let mut line = String::from("c05 commit");
		for (k, tok) in content {
			line.push_str(&format!(" set:{}:{}", k, tok));
		}
		t.op(&line, "ok");
		t.op("c05 process", "ok");
		t.op("c05 flush", "ok");
		t.op("c05 enactRecord", "ok");
	}
}

// ------------------------------------------------------------------------------------------
// (ii) F11: reader parked between the index lookups across the final reindex batch

fn f11(seed: u64, root: &Path, t: &mut Trace, ctr: &mut Counters, prop: &str) -> bool {
	let mut rng = Rng::new(seed);
	let nfill = rng.range(70, 110); // > 64 keys in one chunk: one index growth
	let target_pos = rng.below(40); // the observed key is one of the early ones: it lives in the old index
	let vlen = *rng.pick(&[20usize, 100, 3000]);
	t.begin_case(&format!("seed={} f11 keys={} target={} vlen={}", seed, nfill, target_pos, vlen));
	let dir = fresh_dir(root, &format!("c05-f11-{}", seed));
	let db = Db::open_or_create(&options(&dir, false, 1)).expect("create");
	// model: reader 0 = the main thread's reads, reader 1 = the parked reader
	let mut pipe = Pipe::new(t, 2);
	let val = |id: u64| {
		let mut v = filler_value(id);
		v.resize(vlen.max(28), 0x33);
		v
	};
	let ftok = |id: u64| format!("f{}_{}", id, vlen.max(28));
	let mut ok = true;
	// fill the hot chunk until the index has grown: the old table is then queued for reindexing
	// (the filler keys are ordinary commits: they are part of the model)
	let mut inserted = 0u64;
	while inserted < nfill {
		let n = 8.min(nfill - inserted);
		pipe.commit(
			&db,
			t,
			(inserted..inserted + n).map(|id| (kname(3, id), hot_key(3, id), Some((ftok(id), val(id))))).collect(),
		);
		inserted += n;
		pipe.process(&db, t);
		pipe.flush(&db, t);
		pipe.enact(&db, t, ctr);
		pipe.clean(&db);
		if index_files(&dir).len() >= 2 {
			break
		}
	}
	pipe.drained(t);
	let idx_before = index_files(&dir);
	if idx_before.len() < 2 {
		t.comment(&format!("f11: no reindex in progress after {} keys (index files {:?}); scenario not reached", inserted, idx_before));
		ctr.inc("f11.not_reached");
		t.end_case(false);
		return true
	}
	let target = hot_key(3, target_pos);
	let tname = kname(3, target_pos);
	let expected = val(target_pos);
	{
		let got = db.get(0, &target);
		t.op(&format!("c05 get {}", tname), &obs_filler(&got, target_pos, &expected));
		ctr.inc("model.reads");
		if got.unwrap() != Some(expected.clone()) {
			t.oracle_fail(prop, "f11 setup: target key not readable while the reindex is pending");
			ok = false;
		}
	}
	let gate = Gate::new("get_in_index.miss");
	gate.install();
	gate.arm();
	let mut stepper_blocked = false;
	let mut reader_result = None;
	let mut parked = false;
	std::thread::scope(|s| {
		let g2 = gate.clone();
		let dbr = &db;
		let tgt = target;
		let reader = s.spawn(move || {
			PARK_ME.with(|p| p.set(true));
			let r = dbr.get(0, &tgt);
			PARK_ME.with(|p| p.set(false));
			let _ = g2;
			r
		});
		parked = gate.wait_parked(5000);
		if parked {
			// the reader holds the commit-overlay read lock, missed the commit overlay and has looked into
			// the current index (through the log overlay) and missed: key level = before the table read
			t.op(&format!("c05 rBegin 1 {}", tname), "ok");
			t.op("c05 rOverlay 1", "ok");
			t.op("c05 rLog 1", "ok");
			// now finish the reindex (index layer only: no key-level action)
			let done = Arc::new(AtomicBool::new(false));
			let d2 = done.clone();
			let dir2 = dir.clone();
			let stepper = s.spawn(move || {
				for _ in 0..8 {
					dbr.process_reindex().unwrap();
					dbr.flush_logs().unwrap();
					dbr.enact_logs().unwrap();
					dbr.clean_logs().unwrap();
					if index_files(&dir2).len() < 2 {
						break
					}
				}
				d2.store(true, Ordering::SeqCst);
			});
			let t0 = Instant::now();
			while !done.load(Ordering::SeqCst) && t0.elapsed() < Duration::from_millis(1500) {
				std::thread::sleep(Duration::from_millis(5));
			}
			// with the fix the drop of the old index waits for the parked reader
			stepper_blocked = !done.load(Ordering::SeqCst);
			gate.release();
			stepper.join().unwrap();
		} else {
			gate.release();
		}
		reader_result = Some(reader.join().unwrap());
	});
	parity_db::verif::set_yield_hook(None);
	let idx_after = index_files(&dir);
	if !parked {
		t.comment("f11: reader did not reach the yield point (key found in the current index); scenario not reached");
		ctr.inc("f11.not_reached");
		if let Some(r) = &reader_result {
			t.op(&format!("c05 get {}", tname), &obs_filler(r, target_pos, &expected));
			ctr.inc("model.reads");
		}
	} else {
		ctr.inc("f11.reader_parked");
		ctr.inc(if stepper_blocked { "f11.drop_waited_for_reader" } else { "f11.drop_completed_while_parked" });
		t.comment(&format!(
			"f11: index files before={:?} after={:?} drop blocked by parked reader={}",
			idx_before, idx_after, stepper_blocked
		));
		if let Some(r) = &reader_result {
			t.op("c05 rTable 1", "ok");
			t.op("c05 rEnd 1", &obs_filler(r, target_pos, &expected));
			ctr.inc("model.reads");
			ctr.inc("model.reads.parked_reader");
		}
		match reader_result {
			Some(Ok(Some(v))) if v == expected => ctr.inc("f11.key_found"),
			Some(Ok(None)) => {
				t.oracle_fail(
					prop,
					&format!(
						"F11 reindex hand-over: get() of a key that was never absent returned None: reader parked between the lookup in the current index and reindex.read(); final reindex batch + drop of {:?} ran meanwhile",
						idx_before.first()
					),
				);
				ok = false;
			},
			other => {
				t.oracle_fail(prop, &format!("f11: unexpected read result {:?}", other.map(|r| r.map(|o| o.map(|v| v.len())))));
				ok = false;
			},
		}
	}
	// the key is there for a fresh read in any case
	{
		let got = db.get(0, &target);
		t.op(&format!("c05 get {}", tname), &obs_filler(&got, target_pos, &expected));
		ctr.inc("model.reads");
		if got.unwrap() != Some(expected) {
			t.oracle_fail(prop, "f11: target key not readable after the reindex completed");
			ok = false;
		}
	}
	// a few more keys through the model: the first, the last and one in the middle
	for id in [0, inserted / 2, inserted - 1] {
		let got = db.get(0, &hot_key(3, id));
		let size = db.get_size(0, &hot_key(3, id));
		t.op(&format!("c05 get {}", kname(3, id)), &obs_filler(&got, id, &val(id)));
		t.op(&format!("c05 size {}", kname(3, id)), &obs_size(&size));
		ctr.add("model.reads", 2);
		if got.ok().flatten() != Some(val(id)) || size.ok().flatten() != Some(val(id).len() as u32) {
			t.oracle_fail(prop, &format!("f11: filler key {} not readable after the reindex completed", id));
			ok = false;
		}
	}
	if idx_after.len() != 1 {
		t.comment(&format!("f11: reindex did not complete: {:?}", idx_after));
	}
	drop(db);
	let _ = std::fs::remove_dir_all(&dir);
	ctr.inc("cases.f11");
	t.end_case(parked);
	ok
}

// ------------------------------------------------------------------------------------------
// (iii) hand-over windows held open

fn handover(seed: u64, root: &Path, t: &mut Trace, ctr: &mut Counters, prop: &str) -> bool {
	let mut rng = Rng::new(seed);
	let nkeys = rng.range(3, 8) as usize;
	let spread = 1;
	let rounds = rng.range(3, 6);
	t.begin_case(&format!("seed={} handover keys={} rounds={}", seed, nkeys, rounds));
	let dir = fresh_dir(root, &format!("c05-ho-{}", seed));
	let db = Db::open_or_create(&options(&dir, false, 1)).expect("create");
	let mut pipe = Pipe::new(t, 1);
	let keys: Vec<[u8; 32]> = (0..nkeys).map(|i| hot_key(4, i as u64)).collect();
	let mut oracle: BTreeMap<usize, Option<u64>> = BTreeMap::new(); // key -> latest committed version
	let mut ok = true;
	let mut v = 0u64;
	let check = |db: &Db, oracle: &BTreeMap<usize, Option<u64>>, what: &str, t: &mut Trace, ctr: &mut Counters| -> bool {
		let mut good = true;
		for i in 0..nkeys {
			let want = oracle.get(&i).cloned().flatten().map(|w| enc(w, i, spread));
			let got = db.get(0, &keys[i]);
			t.op(&format!("c05 get {}", kname(4, i as u64)), &obs_value(&got, i, spread));
			ctr.inc("model.reads");
			let got = got.unwrap();
			ctr.inc("handover.reads");
			if got != want {
				t.oracle_fail(
					prop,
					&format!("handover [{}]: key {} expected version {:?} got {:?}", what, i, oracle.get(&i), got.as_ref().map(|b| dec(b, i, spread))),
				);
				good = false;
			}
		}
		good
	};
	// one transaction: every key gets the next version, one random key is removed now and then
	let commit = |db: &Db, oracle: &mut BTreeMap<usize, Option<u64>>, rng: &mut Rng, v: &mut u64, pipe: &mut Pipe, t: &mut Trace| {
		*v += 1;
		let del = if rng.chance(1, 3) { Some(rng.below(nkeys as u64) as usize) } else { None };
		pipe.commit(
			db,
			t,
			(0..nkeys)
				.map(|i| {
					(kname(4, i as u64), keys[i], if Some(i) == del { None } else { Some((vtok(*v, i, spread), enc(*v, i, spread))) })
				})
				.collect(),
		);
		for i in 0..nkeys {
			oracle.insert(i, if Some(i) == del { None } else { Some(*v) });
		}
	};
	for round in 0..rounds {
		let which = rng.below(2);
		let point = if which == 0 { "process_commits.after_end_record" } else { "enact_logs.before_end_read" };
		commit(&db, &mut oracle, &mut rng, &mut v, &mut pipe, t);
		if rng.chance(1, 2) {
			commit(&db, &mut oracle, &mut rng, &mut v, &mut pipe, t);
		}
		if which == 1 {
			pipe.process(&db, t);
			pipe.flush(&db, t);
		}
		let gate = Gate::new(point);
		gate.install();
		gate.arm();
		let extra = rng.below(3);
		std::thread::scope(|s| {
			let dbr = &db;
			let worker = s.spawn(move || {
				PARK_ME.with(|p| p.set(true));
				let r = if which == 0 { dbr.process_commits() } else { dbr.enact_logs() };
				PARK_ME.with(|p| p.set(false));
				r
			});
			let parked = gate.wait_parked(5000);
			if parked {
				ctr.inc(if which == 0 { "handover.parked.after_end_record" } else { "handover.parked.before_end_read" });
				if which == 0 {
					pipe.process_parked(t);
				} else {
					pipe.enact_parked(t);
				}
				ok &= check(&db, &oracle, &format!("round {} parked at {}", round, point), t, ctr);
				// more traffic while the window is open
				commit(&db, &mut oracle, &mut rng, &mut v, &mut pipe, t);
				ok &= check(&db, &oracle, &format!("round {} parked at {} + commit", round, point), t, ctr);
				if which == 0 && extra > 0 {
					// the published record travels on to the tables while its commit-overlay
					// entries are still there (stale hit path)
					pipe.flush(&db, t);
					pipe.enact(&db, t, ctr);
					pipe.clean(&db);
					ctr.inc("handover.enacted_before_clean_overlay");
					ok &= check(&db, &oracle, &format!("round {} enacted before clean_overlay", round), t, ctr);
				}
				if which == 1 && extra > 0 {
					// the next commit is planned against (log overlay, half-ended record, tables)
					pipe.process(&db, t);
					ctr.inc("handover.planned_before_end_read");
					ok &= check(&db, &oracle, &format!("round {} planned before end_read", round), t, ctr);
				}
			} else {
				ctr.inc("handover.not_parked");
			}
			gate.release();
			worker.join().unwrap().unwrap();
			if parked {
				if which == 0 {
					pipe.process_resumed(t);
				} else {
					pipe.enact_resumed(t, ctr);
				}
			} else if which == 0 {
				// the worker ran `process_commits` to its end
				if pipe.queued > 0 {
					pipe.queued -= 1;
					pipe.appending.push(true);
					t.op("c05 process", "ok");
				}
			} else {
				// the worker enacted one whole file
				pipe.enact_parked(t);
				pipe.enact_resumed(t, ctr);
			}
		});
		parity_db::verif::set_yield_hook(None);
		ok &= check(&db, &oracle, &format!("round {} resumed", round), t, ctr);
		for _ in 0..3 {
			pipe.step_all(&db, t, ctr);
		}
		ok &= check(&db, &oracle, &format!("round {} drained", round), t, ctr);
		pipe.drained(t);
	}
	drop(db);
	let db = Db::open(&options(&dir, false, 1)).expect("reopen");
	pipe.reopened(
		t,
		1,
		false,
		(0..nkeys)
			.filter_map(|i| oracle.get(&i).cloned().flatten().map(|w| (kname(4, i as u64), vtok(w, i, spread))))
			.collect(),
	);
	ok &= check(&db, &oracle, "reopened", t, ctr);
	drop(db);
	let _ = std::fs::remove_dir_all(&dir);
	ctr.inc("cases.handover");
	t.end_case(true);
	ok
}

// ------------------------------------------------------------------------------------------
// (iv) deep queue with diverged ids: commit ids and log record ids are separate counters; they
// drift apart when something other than a commit consumes a record id (reindex batches, replay at
// open). The case first makes them differ by d = 1..3 (index growth + reindex records, or a crash
// image reopened with pending log records), then queues 3..12 transactions that all write the same
// keys and steps the pipeline one call at a time, reading every key after every call: every read
// must return the LAST committed version whatever stage the transactions are in.

const DQ_FILLERS: u64 = 70;

fn deepqueue(seed: u64, root: &Path, t: &mut Trace, ctr: &mut Counters, prop: &str) -> bool {
	let mut rng = Rng::new(seed);
	let nkeys = rng.range(2, 6) as usize;
	let spread = *rng.pick(&[1u64, 1, 2]);
	let via_crash = rng.chance(1, 2);
	t.begin_case(&format!("seed={} deepqueue keys={} spread={} divergence={}", seed, nkeys, spread, if via_crash { "replay" } else { "reindex" }));
	let dir = fresh_dir(root, &format!("c05-dq-{}", seed));
	let mut db = Db::open_or_create(&options(&dir, false, 1)).expect("create");
	let mut pipe = Pipe::new(t, 1);
	let keys: Vec<[u8; 32]> = (0..nkeys).map(|i| hot_key(5, i as u64)).collect();
	let mut v = 0u64;
	let mut ok = true;
	let bump = |db: &Db, v: &mut u64, pipe: &mut Pipe, t: &mut Trace| {
		*v += 1;
		pipe.commit(
			db,
			t,
			(0..nkeys).map(|i| (kname(5, i as u64), keys[i], Some((vtok(*v, i, spread), enc(*v, i, spread))))).collect(),
		);
	};
	// filler keys exist in the model too (reindex divergence only); one of them is read per check
	let mut filler_cursor: Option<u64> = None;
	let mut check = |db: &Db, v: u64, what: &str, t: &mut Trace, ctr: &mut Counters, fillers: bool| -> bool {
		let mut good = true;
		for i in 0..nkeys {
			let got = db.get(0, &keys[i]);
			let size = db.get_size(0, &keys[i]);
			t.op(&format!("c05 get {}", kname(5, i as u64)), &obs_value(&got, i, spread));
			t.op(&format!("c05 size {}", kname(5, i as u64)), &obs_size(&size));
			ctr.add("model.reads", 2);
			let got = got.unwrap();
			let size = size.unwrap();
			ctr.inc("deepqueue.reads");
			let want = enc(v, i, spread);
			if got.as_ref() != Some(&want) || size != Some(want.len() as u32) {
				t.oracle_fail(
					prop,
					&format!("deepqueue [{}]: key {} expected version {} got {:?} (size {:?})", what, i, v, got.as_ref().map(|b| dec(b, i, spread)), size),
				);
				good = false;
			}
		}
		if fillers {
			let id = filler_cursor.map_or(0, |c| (c + 13) % DQ_FILLERS);
			filler_cursor = Some(id);
			let got = db.get(0, &hot_key(6, id));
			t.op(&format!("c05 get {}", kname(6, id)), &obs_filler(&got, id, &filler_value(id)));
			ctr.inc("model.reads");
			ctr.inc("deepqueue.filler_reads");
			if got.ok().flatten() != Some(filler_value(id)) {
				t.oracle_fail(prop, &format!("deepqueue [{}]: filler key {} not readable", what, id));
				good = false;
			}
		}
		good
	};
	// phase 1: make the counters differ
	if via_crash {
		// d records in flushed log files, crash image, reopen: replay consumes record ids 1..d,
		// the commit counter of the new handle starts again
		let d = rng.range(1, 3);
		for _ in 0..d {
			bump(&db, &mut v, &mut pipe, t);
			pipe.process(&db, t);
		}
		pipe.flush(&db, t);
		let img = root.join(format!("c05-dq-{}-img", seed));
		let _ = std::fs::remove_dir_all(&img);
		copy_dir(&dir, &img);
		drop(db);
		let _ = std::fs::remove_dir_all(&dir);
		std::fs::rename(&img, &dir).unwrap();
		let _ = std::fs::remove_file(dir.join("lock"));
		db = Db::open(&options(&dir, false, 1)).expect("recovery");
		// the flushed records are replayed: the recovered content is version v of every key
		pipe.reopened(t, 1, true, (0..nkeys).map(|i| (kname(5, i as u64), vtok(v, i, spread))).collect());
		ctr.inc("deepqueue.divergence.replay");
	} else {
		// 65+ keys of one index chunk: growth; every process_reindex call that finds work writes a record
		bump(&db, &mut v, &mut pipe, t);
		pipe.commit(
			&db,
			t,
			(0..DQ_FILLERS)
				.map(|id| (kname(6, id), hot_key(6, id), Some((format!("f{}_{}", id, filler_value(id).len()), filler_value(id)))))
				.collect(),
		);
		for _ in 0..3 {
			pipe.step_all(&db, t, ctr);
		}
		let batches = rng.range(1, 3);
		for _ in 0..batches {
			pipe.reindex(&db, ctr);
			if rng.chance(1, 2) {
				pipe.flush(&db, t);
				pipe.enact(&db, t, ctr);
				pipe.clean(&db);
			}
		}
		ctr.inc("deepqueue.divergence.reindex");
	}
	let fillers = !via_crash;
	ok &= check(&db, v, "after divergence", t, ctr, fillers);
	// phase 2: deep queue on the same keys, one pipeline call at a time
	let rounds = rng.range(1, 3);
	for round in 0..rounds {
		let depth = rng.range(3, 12);
		for _ in 0..depth {
			bump(&db, &mut v, &mut pipe, t);
		}
		ok &= check(&db, v, &format!("round {} queued {}", round, depth), t, ctr, fillers);
		let mut processed = 0;
		let mut guard = 0;
		while processed < depth && guard < 200 {
			guard += 1;
			match rng.below(10) {
				0..=5 => {
					pipe.process(&db, t);
					processed += 1;
					ctr.inc("deepqueue.process");
					ok &= check(&db, v, &format!("round {} processed {}/{}", round, processed, depth), t, ctr, fillers);
				},
				6 => {
					pipe.flush(&db, t);
					ok &= check(&db, v, &format!("round {} flush", round), t, ctr, fillers);
				},
				7 => {
					pipe.flush(&db, t);
					pipe.enact(&db, t, ctr);
					ok &= check(&db, v, &format!("round {} enact", round), t, ctr, fillers);
				},
				8 => {
					pipe.clean(&db);
					pipe.reindex(&db, ctr);
					ok &= check(&db, v, &format!("round {} clean+reindex", round), t, ctr, fillers);
				},
				_ => {
					// one more transaction while the queue drains
					bump(&db, &mut v, &mut pipe, t);
					ok &= check(&db, v, &format!("round {} extra commit", round), t, ctr, fillers);
					pipe.process(&db, t);
					ok &= check(&db, v, &format!("round {} extra commit, one processed", round), t, ctr, fillers);
				},
			}
			if !ok {
				break
			}
		}
		for _ in 0..(depth + 4) {
			pipe.step_all(&db, t, ctr);
		}
		ok &= check(&db, v, &format!("round {} drained", round), t, ctr, fillers);
		if !ok {
			break
		}
		pipe.drained(t);
	}
	drop(db);
	let db = Db::open(&options(&dir, false, 1)).expect("reopen");
	{
		let mut content: Vec<(String, String)> = (0..nkeys).map(|i| (kname(5, i as u64), vtok(v, i, spread))).collect();
		if fillers {
			content.extend((0..DQ_FILLERS).map(|id| (kname(6, id), format!("f{}_{}", id, filler_value(id).len()))));
		}
		pipe.reopened(t, 1, false, content);
	}
	ok &= check(&db, v, "reopened", t, ctr, fillers);
	drop(db);
	let _ = std::fs::remove_dir_all(&dir);
	ctr.inc("cases.deepqueue");
	t.end_case(true);
	ok
}

pub fn run(seeds: &[u64], thorough: bool, root: &Path, t: &mut Trace, ctr: &mut Counters, prop: &str) -> u64 {
	let mut fails = 0;
	for (i, s) in seeds.iter().copied().enumerate() {
		// a run of several cases covers every kind in turn (the adjusted seed is the one printed, so
		// `--case-seed` replays it)
		let s = if seeds.len() > 1 { s - (s % 6) + (i as u64 % 6) } else { s };
		let ok = match s % 6 {
			0 | 1 => stress(s, thorough, root, t, ctr, prop),
			2 => f11(s, root, t, ctr, prop),
			3 => handover(s, root, t, ctr, prop),
			_ => deepqueue(s, root, t, ctr, prop),
		};
		ctr.inc("cases");
		if !ok {
			fails += 1;
			t.comment(&format!("FAILED-CASE seed={}", s));
		}
	}
	fails
}
