//! C05: concurrent readers against committing threads and the four background workers.
//!
//! Four kinds of cases, chosen by `seed % 6` (4 | 5: deep queue with diverged commit / record ids, see `deepqueue`):
//!   0 | 1  threaded stress on the real `Db` WITH background threads: one writer bumps a version
//!          in ALL keys of a small set per transaction (value sizes move the entries between
//!          size tiers, incl. multipart), a filler thread inserts new keys into the same index
//!          chunk so that the index grows while the readers run, 4..6 readers check every point
//!          read against floor / ceiling / per-reader monotonicity / atomic visibility.  The
//!          yield-point hook stretches the hand-over windows with seeded delays.
//!   2      deterministic reproduction of pre-finding F11 with the yield hook: a reader is parked
//!          between the lookup in the current index and the lookup in the older one while the
//!          final reindex batch is published, flushed, enacted and the old index dropped.
//!   3      deterministic hand-over windows: the processing thread parked after `end_record`
//!          (record published, commit overlay not cleaned), the enacting thread parked before
//!          `end_read` (tables written, log overlay not cleaned), reads / further commits /
//!          further pipeline steps from the main thread in between.
//!
//! Oracles are plain Rust (version arithmetic, a BTreeMap of the latest committed values);
//! nothing is derived from the Lean model. No model op lines: everything is emitted as comments.
use crate::util::*;
use parity_db::{ColumnOptions, Db, Options};
use std::collections::BTreeMap;
use std::path::Path;
use std::sync::atomic::{AtomicBool, AtomicU64, Ordering};
use std::sync::{Arc, Condvar, Mutex};
use std::time::{Duration, Instant};

const PREFIX: [u8; 2] = [0x5a, 0xc3];

fn options(path: &Path, background: bool, cols: u8) -> Options {
	let mut o = Options::with_columns(path, cols);
	for c in 0..cols as usize {
		o.columns[c] = ColumnOptions { uniform: true, ..Default::default() };
	}
	// zero salt + uniform + instrumentation = identity hashing: the first 16 bits of a key
	// select the index chunk, so the harness can fill one chunk and force index growth.
	o.salt = Some([0u8; 32]);
	o.with_background_thread = background;
	o.always_flush = true;
	o.stats = false;
	o.sync_wal = !background;
	o.sync_data = !background;
	o
}

/// 32-byte key in the hot index chunk; bytes 2.. are pseudo-random and embed `id`.
fn hot_key(space: u8, id: u64) -> [u8; 32] {
	let mut r = Rng::new(id.wrapping_mul(0x9e37_79b9).wrapping_add(space as u64 * 0x1_0000_0001));
	let mut k = [0u8; 32];
	for i in 0..4 {
		k[i * 8..i * 8 + 8].copy_from_slice(&r.next().to_le_bytes());
	}
	k[0] = PREFIX[0];
	k[1] = PREFIX[1];
	k[24] = space;
	k[25..32].copy_from_slice(&id.to_be_bytes()[1..8]);
	k
}

const SIZE_CLASSES: [usize; 16] =
	[16, 24, 40, 16, 100, 300, 33, 1000, 64, 5000, 17, 128, 20000, 48, 2200, 40000];

fn size_for(v: u64, i: usize, spread: u64) -> usize {
	SIZE_CLASSES[((v / spread.max(1)) as usize + i * 3) % SIZE_CLASSES.len()]
}

/// value of key `i` at version `v`
fn enc(v: u64, i: usize, spread: u64) -> Vec<u8> {
	let len = size_for(v, i, spread);
	let mut b = Vec::with_capacity(len);
	b.extend_from_slice(&v.to_le_bytes());
	b.push(i as u8);
	let mut j = 0u64;
	while b.len() < len {
		b.push((v.wrapping_mul(31).wrapping_add(j * 7).wrapping_add(i as u64)) as u8);
		j += 1;
	}
	b
}

fn dec(bytes: &[u8], i: usize, spread: u64) -> Result<u64, String> {
	if bytes.len() < 9 {
		return Err(format!("value too short ({} bytes)", bytes.len()))
	}
	let v = u64::from_le_bytes(bytes[0..8].try_into().unwrap());
	if enc(v, i, spread) != bytes {
		return Err(format!(
			"torn or foreign value: claims version {} key {} len {} (expected len {})",
			v,
			bytes[8],
			bytes.len(),
			size_for(v, i, spread)
		))
	}
	Ok(v)
}

fn filler_value(id: u64) -> Vec<u8> {
	let mut b = id.to_le_bytes().to_vec();
	b.extend_from_slice(&[0xf1; 20]);
	b
}

#[derive(Default)]
struct ReaderReport {
	reads: u64,
	filler_reads: u64,
	lag0: u64,     // observed version == floor
	ahead: u64,    // observed version > floor (commit in progress already visible)
	violations: Vec<String>,
}

struct HookStats {
	after_end_record: AtomicU64,
	before_end_read: AtomicU64,
	index_miss: AtomicU64,
	delays: AtomicU64,
}

fn index_files(dir: &Path) -> Vec<String> {
	let mut v = vec![];
	if let Ok(rd) = std::fs::read_dir(dir) {
		for e in rd.flatten() {
			let n = e.file_name().to_string_lossy().to_string();
			if n.starts_with("index_") {
				v.push(n);
			}
		}
	}
	v.sort();
	v
}

// ------------------------------------------------------------------------------------------
// (i) threaded stress

fn stress(seed: u64, thorough: bool, root: &Path, t: &mut Trace, ctr: &mut Counters, prop: &str) -> bool {
	let mut rng = Rng::new(seed);
	let nkeys = rng.range(4, 8) as usize;
	let nreaders = rng.range(4, 6) as usize;
	let spread = *rng.pick(&[1u64, 1, 2, 5]);
	let fillers_per_tx = rng.range(1, 4);
	let filler_target: u64 = if thorough { 1400 } else { rng.range(150, 420) };
	let millis = if thorough { 20_000 } else { 1_500 };
	let hook_delay = rng.below(3); // 0: no delays, 1: rare, 2: frequent
	t.begin_case(&format!(
		"seed={} stress keys={} readers={} spread={} fillers={} x{} ms={} delay={}",
		seed, nkeys, nreaders, spread, filler_target, fillers_per_tx, millis, hook_delay
	));
	let dir = fresh_dir(root, &format!("c05-{}", seed));
	let db = match Db::open_or_create(&options(&dir, true, 1)) {
		Ok(db) => Arc::new(db),
		Err(e) => {
			t.oracle_fail(prop, &format!("open failed: {:?}", e));
			t.end_case(false);
			return false
		},
	};
	let keys: Vec<[u8; 32]> = (0..nkeys).map(|i| hot_key(1, i as u64)).collect();
	// version 1 of every key exists before any reader starts
	db.commit((0..nkeys).map(|i| (0u8, keys[i].to_vec(), Some(enc(1, i, spread))))).unwrap();

	let hs = Arc::new(HookStats {
		after_end_record: AtomicU64::new(0),
		before_end_read: AtomicU64::new(0),
		index_miss: AtomicU64::new(0),
		delays: AtomicU64::new(0),
	});
	{
		let hs = hs.clone();
		let salt = AtomicU64::new(seed | 1);
		parity_db::verif::set_yield_hook(Some(Arc::new(move |name: &'static str| {
			let ctr = match name {
				"process_commits.after_end_record" => &hs.after_end_record,
				"enact_logs.before_end_read" => &hs.before_end_read,
				_ => &hs.index_miss,
			};
			ctr.fetch_add(1, Ordering::Relaxed);
			if hook_delay == 0 {
				return
			}
			// cheap seeded choice (xorshift on a shared word; races only perturb the schedule)
			let mut x = salt.load(Ordering::Relaxed);
			x ^= x << 13;
			x ^= x >> 7;
			x ^= x << 17;
			salt.store(x, Ordering::Relaxed);
			let den = if hook_delay == 1 { 64 } else { 8 };
			if x % den == 0 {
				hs.delays.fetch_add(1, Ordering::Relaxed);
				if x & 0x100 == 0 {
					std::thread::yield_now();
				} else {
					std::thread::sleep(Duration::from_micros(20 + (x >> 20) % 300));
				}
			}
		})));
	}

	let floor = Arc::new(AtomicU64::new(1)); // last version whose commit returned
	let started = Arc::new(AtomicU64::new(1)); // last version whose commit was started
	let fillers_done = Arc::new(AtomicU64::new(0)); // filler ids < this are committed
	let stop = Arc::new(AtomicBool::new(false));
	let t0 = Instant::now();

	let writer = {
		let (db, keys, floor, started, stop) = (db.clone(), keys.clone(), floor.clone(), started.clone(), stop.clone());
		std::thread::spawn(move || {
			let mut v = 1u64;
			while !stop.load(Ordering::Relaxed) {
				v += 1;
				started.store(v, Ordering::SeqCst);
				let tx: Vec<(u8, Vec<u8>, Option<Vec<u8>>)> =
					(0..keys.len()).map(|i| (0u8, keys[i].to_vec(), Some(enc(v, i, spread)))).collect();
				if let Err(e) = db.commit(tx) {
					return Err(format!("writer commit failed at version {}: {:?}", v, e))
				}
				floor.store(v, Ordering::SeqCst);
			}
			Ok(v)
		})
	};
	let filler = {
		let (db, fillers_done, stop) = (db.clone(), fillers_done.clone(), stop.clone());
		std::thread::spawn(move || {
			let mut next = 0u64;
			while !stop.load(Ordering::Relaxed) && next < filler_target {
				let n = fillers_per_tx.min(filler_target - next);
				let tx: Vec<(u8, Vec<u8>, Option<Vec<u8>>)> =
					(next..next + n).map(|id| (0u8, hot_key(2, id).to_vec(), Some(filler_value(id)))).collect();
				if let Err(e) = db.commit(tx) {
					return Err(format!("filler commit failed at {}: {:?}", next, e))
				}
				next += n;
				fillers_done.store(next, Ordering::SeqCst);
				std::thread::sleep(Duration::from_micros(300));
			}
			Ok(next)
		})
	};
	let mut readers = vec![];
	for r in 0..nreaders {
		let (db, keys, floor, started, fillers_done, stop) =
			(db.clone(), keys.clone(), floor.clone(), started.clone(), fillers_done.clone(), stop.clone());
		let mut rr = Rng::new(seed ^ (0x1000 + r as u64));
		readers.push(std::thread::spawn(move || {
			let mut rep = ReaderReport::default();
			let mut max_seen = 0u64; // highest version seen on ANY key of the set
			let mut last = vec![0u64; keys.len()];
			while !stop.load(Ordering::Relaxed) && rep.violations.len() < 5 {
				if rr.chance(1, 5) {
					let done = fillers_done.load(Ordering::SeqCst);
					if done > 0 {
						let id = rr.below(done);
						rep.filler_reads += 1;
						match db.get(0, &hot_key(2, id)) {
							Ok(Some(v)) if v == filler_value(id) => {},
							Ok(Some(v)) => rep.violations.push(format!("filler {} returned foreign value of {} bytes", id, v.len())),
							Ok(None) => rep.violations.push(format!("filler {} committed (done={}) but read as absent", id, done)),
							Err(e) => rep.violations.push(format!("filler {} read error {:?}", id, e)),
						}
					}
					continue
				}
				let i = rr.below(keys.len() as u64) as usize;
				let lo = floor.load(Ordering::SeqCst);
				let got = db.get(0, &keys[i]);
				let hi = started.load(Ordering::SeqCst);
				rep.reads += 1;
				match got {
					Ok(Some(bytes)) => match dec(&bytes, i, spread) {
						Ok(w) => {
							if w < lo {
								rep.violations.push(format!("key {} returned version {} older than the last completed commit {}", i, w, lo));
							}
							if w > hi {
								rep.violations.push(format!("key {} returned version {} of a commit that had not started (max started {})", i, w, hi));
							}
							if w < last[i] {
								rep.violations.push(format!("key {} went back in time: {} after {}", i, w, last[i]));
							}
							if w < max_seen {
								rep.violations.push(format!("partial transaction: key {} returned {} after version {} was seen on another key", i, w, max_seen));
							}
							if w == lo { rep.lag0 += 1 } else { rep.ahead += 1 }
							last[i] = last[i].max(w);
							max_seen = max_seen.max(w);
						},
						Err(m) => rep.violations.push(format!("key {}: {}", i, m)),
					},
					Ok(None) => rep.violations.push(format!("key {} read as absent (floor {})", i, lo)),
					Err(e) => rep.violations.push(format!("key {} read error {:?}", i, e)),
				}
			}
			rep
		}));
	}

	// run, watching the index files for growth
	let mut max_index_files = 0usize;
	let mut seen_idx: std::collections::BTreeSet<String> = Default::default();
	while t0.elapsed() < Duration::from_millis(millis) {
		std::thread::sleep(Duration::from_millis(20));
		let f = index_files(&dir);
		max_index_files = max_index_files.max(f.len());
		for n in f {
			seen_idx.insert(n);
		}
	}
	stop.store(true, Ordering::SeqCst);
	// watchdog: all threads must come back
	let deadline = Instant::now() + Duration::from_secs(60);
	let mut ok = true;
	let mut hung = false;
	fn wait<T>(h: &std::thread::JoinHandle<T>, deadline: Instant) -> bool {
		while !h.is_finished() && Instant::now() < deadline {
			std::thread::sleep(Duration::from_millis(5));
		}
		h.is_finished()
	}
	let mut reads = 0u64;
	if !wait(&writer, deadline) { hung = true }
	if !wait(&filler, deadline) { hung = true }
	for h in &readers {
		if !wait(h, deadline) { hung = true }
	}
	if hung {
		t.oracle_fail(prop, "watchdog: a writer / reader thread did not finish within 60 s of the stop signal");
		t.end_case(true);
		t.flush();
		std::process::exit(3);
	}
	let last_v = match writer.join().unwrap() {
		Ok(v) => v,
		Err(m) => {
			t.oracle_fail(prop, &m);
			ok = false;
			floor.load(Ordering::SeqCst)
		},
	};
	let nfill = match filler.join().unwrap() {
		Ok(n) => n,
		Err(m) => {
			t.oracle_fail(prop, &m);
			ok = false;
			fillers_done.load(Ordering::SeqCst)
		},
	};
	for h in readers {
		let rep = h.join().unwrap();
		reads += rep.reads;
		ctr.add("stress.reads", rep.reads);
		ctr.add("stress.filler_reads", rep.filler_reads);
		ctr.add("stress.reads.at_floor", rep.lag0);
		ctr.add("stress.reads.ahead_of_floor", rep.ahead);
		for m in rep.violations {
			t.oracle_fail(prop, &m);
			ok = false;
		}
	}
	// let the workers drain the pipeline before the handle is dropped (a drop with many
	// un-enacted log files runs into pre-finding F7, which is not this property's subject)
	{
		let snap = |hs: &HookStats| (hs.after_end_record.load(Ordering::SeqCst), hs.before_end_read.load(Ordering::SeqCst));
		let mut last = snap(&hs);
		let mut stable = 0;
		let td = Instant::now();
		while stable < 8 && td.elapsed() < Duration::from_secs(20) {
			std::thread::sleep(Duration::from_millis(25));
			let now = snap(&hs);
			if now == last { stable += 1 } else { stable = 0 }
			last = now;
		}
	}
	parity_db::verif::set_yield_hook(None);
	// quiescent check on the live handle, then close and reopen without workers
	for i in 0..nkeys {
		match db.get(0, &keys[i]) {
			Ok(Some(b)) if dec(&b, i, spread) == Ok(last_v) => {},
			other => {
				t.oracle_fail(prop, &format!("after the run key {} is {:?}, expected version {}", i, other.map(|o| o.map(|b| b.len())), last_v));
				ok = false;
			},
		}
	}
	let db = Arc::try_unwrap(db).ok().expect("all threads joined");
	let td = Instant::now();
	let dropper = std::thread::spawn(move || drop(db));
	if !wait(&dropper, Instant::now() + Duration::from_secs(30)) {
		t.comment("stress: drop(Db) did not return within 30 s (pre-finding F7, drop waits for log cleanup after the cleanup worker is gone); reopen check skipped");
		ctr.inc("stress.drop_hang_F7");
		ctr.inc("cases.stress");
		t.end_case(reads > 1000);
		return ok
	}
	let drop_ms = td.elapsed().as_millis();
	match Db::open(&options(&dir, false, 1)) {
		Ok(db2) => {
			for i in 0..nkeys {
				match db2.get(0, &keys[i]) {
					Ok(Some(b)) if dec(&b, i, spread) == Ok(last_v) => {},
					other => {
						t.oracle_fail(prop, &format!("after reopen key {} is {:?}, expected version {}", i, other.map(|o| o.map(|b| b.len())), last_v));
						ok = false;
					},
				}
			}
			let mut missing = 0;
			for id in 0..nfill {
				if db2.get(0, &hot_key(2, id)).ok().flatten() != Some(filler_value(id)) {
					missing += 1;
				}
			}
			if missing > 0 {
				t.oracle_fail(prop, &format!("after reopen {} of {} filler keys are missing", missing, nfill));
				ok = false;
			}
		},
		Err(e) => {
			t.oracle_fail(prop, &format!("reopen failed: {:?}", e));
			ok = false;
		},
	}
	let growths = seen_idx.len().saturating_sub(1);
	t.comment(&format!(
		"stress: versions={} fillers={} reads={} index tables seen={:?} max simultaneous={} drop_ms={} hook: end_record={} end_read={} index_miss={} delays={}",
		last_v, nfill, reads, seen_idx, max_index_files, drop_ms,
		hs.after_end_record.load(Ordering::Relaxed), hs.before_end_read.load(Ordering::Relaxed),
		hs.index_miss.load(Ordering::Relaxed), hs.delays.load(Ordering::Relaxed)
	));
	ctr.inc("cases.stress");
	ctr.add("stress.commits.versions", last_v);
	ctr.add("stress.commits.fillers", nfill);
	ctr.add("stress.index_growths", growths as u64);
	if max_index_files >= 2 {
		ctr.inc("stress.cases_with_two_live_indexes");
	}
	ctr.add("stress.hook.after_end_record", hs.after_end_record.load(Ordering::Relaxed));
	ctr.add("stress.hook.before_end_read", hs.before_end_read.load(Ordering::Relaxed));
	ctr.add("stress.hook.index_miss", hs.index_miss.load(Ordering::Relaxed));
	ctr.add("stress.hook.delays", hs.delays.load(Ordering::Relaxed));
	ctr.inc(&format!("stress.keys.{}", nkeys));
	ctr.inc(&format!("stress.readers.{}", nreaders));
	let _ = std::fs::remove_dir_all(&dir);
	t.end_case(reads > 1000 && last_v > 10);
	ok
}

// ------------------------------------------------------------------------------------------
// parking gate used by the deterministic scenarios

#[derive(Default)]
struct GateState {
	parked: bool,
	release: bool,
	armed: bool,
	hits: u64,
}

pub(crate) struct Gate {
	point: &'static str,
	st: Mutex<GateState>,
	cv: Condvar,
}

thread_local! {
	pub(crate) static PARK_ME: std::cell::Cell<bool> = const { std::cell::Cell::new(false) };
}

impl Gate {
	pub(crate) fn new(point: &'static str) -> Arc<Gate> {
		Arc::new(Gate { point, st: Mutex::new(GateState::default()), cv: Condvar::new() })
	}
	/// install: the first thread flagged PARK_ME that reaches `point` while armed parks
	pub(crate) fn install(self: &Arc<Gate>) {
		let g = self.clone();
		parity_db::verif::set_yield_hook(Some(Arc::new(move |name: &'static str| {
			if name != g.point || !PARK_ME.with(|p| p.get()) {
				return
			}
			let mut st = g.st.lock().unwrap();
			st.hits += 1;
			if !st.armed {
				return
			}
			st.armed = false;
			st.parked = true;
			g.cv.notify_all();
			while !st.release {
				st = g.cv.wait(st).unwrap();
			}
			st.parked = false;
			st.release = false;
			g.cv.notify_all();
		})));
	}
	pub(crate) fn arm(&self) {
		let mut st = self.st.lock().unwrap();
		st.armed = true;
		st.release = false;
	}
	pub(crate) fn wait_parked(&self, ms: u64) -> bool {
		let st = self.st.lock().unwrap();
		let (st, _) = self.cv.wait_timeout_while(st, Duration::from_millis(ms), |s| !s.parked).unwrap();
		st.parked
	}
	pub(crate) fn release(&self) {
		let mut st = self.st.lock().unwrap();
		st.release = true;
		st.armed = false;
		self.cv.notify_all();
	}
}

fn step_all(db: &Db) -> Result<(), parity_db::Error> {
	db.process_commits()?;
	db.flush_logs()?;
	db.enact_logs()?;
	db.clean_logs()?;
	Ok(())
}

// ------------------------------------------------------------------------------------------
// (ii) F11: reader parked between the index lookups across the final reindex batch

fn f11(seed: u64, root: &Path, t: &mut Trace, ctr: &mut Counters, prop: &str) -> bool {
	let mut rng = Rng::new(seed);
	let nfill = rng.range(70, 110); // > 64 keys in one chunk: one index growth
	let target_pos = rng.below(40); // the observed key is one of the early ones: it lives in the old index
	let vlen = *rng.pick(&[20usize, 100, 3000]);
	t.begin_case(&format!("seed={} f11 keys={} target={} vlen={}", seed, nfill, target_pos, vlen));
	let dir = fresh_dir(root, &format!("c05-f11-{}", seed));
	let db = Db::open_or_create(&options(&dir, false, 1)).expect("create");
	let val = |id: u64| {
		let mut v = filler_value(id);
		v.resize(vlen.max(28), 0x33);
		v
	};
	let mut ok = true;
	// fill the hot chunk until the index has grown: the old table is then queued for reindexing
	let mut inserted = 0u64;
	while inserted < nfill {
		let n = 8.min(nfill - inserted);
		db.commit((inserted..inserted + n).map(|id| (0u8, hot_key(3, id).to_vec(), Some(val(id))))).unwrap();
		inserted += n;
		db.process_commits().unwrap();
		db.flush_logs().unwrap();
		db.enact_logs().unwrap();
		db.clean_logs().unwrap();
		if index_files(&dir).len() >= 2 {
			break
		}
	}
	let idx_before = index_files(&dir);
	if idx_before.len() < 2 {
		t.comment(&format!("f11: no reindex in progress after {} keys (index files {:?}); scenario not reached", inserted, idx_before));
		ctr.inc("f11.not_reached");
		t.end_case(false);
		return true
	}
	let target = hot_key(3, target_pos);
	let expected = val(target_pos);
	if db.get(0, &target).unwrap() != Some(expected.clone()) {
		t.oracle_fail(prop, "f11 setup: target key not readable while the reindex is pending");
		ok = false;
	}
	let gate = Gate::new("get_in_index.miss");
	gate.install();
	gate.arm();
	let mut stepper_blocked = false;
	let mut reader_result = None;
	let mut parked = false;
	std::thread::scope(|s| {
		let g2 = gate.clone();
		let dbr = &db;
		let tgt = target;
		let reader = s.spawn(move || {
			PARK_ME.with(|p| p.set(true));
			let r = dbr.get(0, &tgt);
			PARK_ME.with(|p| p.set(false));
			let _ = g2;
			r
		});
		parked = gate.wait_parked(5000);
		if parked {
			// the reader has looked into the current index and missed; now finish the reindex
			let done = Arc::new(AtomicBool::new(false));
			let d2 = done.clone();
			let dir2 = dir.clone();
			let stepper = s.spawn(move || {
				for _ in 0..8 {
					dbr.process_reindex().unwrap();
					dbr.flush_logs().unwrap();
					dbr.enact_logs().unwrap();
					dbr.clean_logs().unwrap();
					if index_files(&dir2).len() < 2 {
						break
					}
				}
				d2.store(true, Ordering::SeqCst);
			});
			let t0 = Instant::now();
			while !done.load(Ordering::SeqCst) && t0.elapsed() < Duration::from_millis(1500) {
				std::thread::sleep(Duration::from_millis(5));
			}
			// with the fix the drop of the old index waits for the parked reader
			stepper_blocked = !done.load(Ordering::SeqCst);
			gate.release();
			stepper.join().unwrap();
		} else {
			gate.release();
		}
		reader_result = Some(reader.join().unwrap());
	});
	parity_db::verif::set_yield_hook(None);
	let idx_after = index_files(&dir);
	if !parked {
		t.comment("f11: reader did not reach the yield point (key found in the current index); scenario not reached");
		ctr.inc("f11.not_reached");
	} else {
		ctr.inc("f11.reader_parked");
		ctr.inc(if stepper_blocked { "f11.drop_waited_for_reader" } else { "f11.drop_completed_while_parked" });
		t.comment(&format!(
			"f11: index files before={:?} after={:?} drop blocked by parked reader={}",
			idx_before, idx_after, stepper_blocked
		));
		match reader_result {
			Some(Ok(Some(v))) if v == expected => ctr.inc("f11.key_found"),
			Some(Ok(None)) => {
				t.oracle_fail(
					prop,
					&format!(
						"F11 reindex hand-over: get() of a key that was never absent returned None: reader parked between the lookup in the current index and reindex.read(); final reindex batch + drop of {:?} ran meanwhile",
						idx_before.first()
					),
				);
				ok = false;
			},
			other => {
				t.oracle_fail(prop, &format!("f11: unexpected read result {:?}", other.map(|r| r.map(|o| o.map(|v| v.len())))));
				ok = false;
			},
		}
	}
	// the key is there for a fresh read in any case
	if db.get(0, &target).unwrap() != Some(expected) {
		t.oracle_fail(prop, "f11: target key not readable after the reindex completed");
		ok = false;
	}
	if idx_after.len() != 1 {
		t.comment(&format!("f11: reindex did not complete: {:?}", idx_after));
	}
	drop(db);
	let _ = std::fs::remove_dir_all(&dir);
	ctr.inc("cases.f11");
	t.end_case(parked);
	ok
}

// ------------------------------------------------------------------------------------------
// (iii) hand-over windows held open

fn handover(seed: u64, root: &Path, t: &mut Trace, ctr: &mut Counters, prop: &str) -> bool {
	let mut rng = Rng::new(seed);
	let nkeys = rng.range(3, 8) as usize;
	let spread = 1;
	let rounds = rng.range(3, 6);
	t.begin_case(&format!("seed={} handover keys={} rounds={}", seed, nkeys, rounds));
	let dir = fresh_dir(root, &format!("c05-ho-{}", seed));
	let db = Db::open_or_create(&options(&dir, false, 1)).expect("create");
	let keys: Vec<[u8; 32]> = (0..nkeys).map(|i| hot_key(4, i as u64)).collect();
	let mut oracle: BTreeMap<usize, Option<u64>> = BTreeMap::new(); // key -> latest committed version
	let mut ok = true;
	let mut v = 0u64;
	let mut check = |db: &Db, oracle: &BTreeMap<usize, Option<u64>>, what: &str, t: &mut Trace, ctr: &mut Counters| -> bool {
		let mut good = true;
		for i in 0..nkeys {
			let want = oracle.get(&i).cloned().flatten().map(|w| enc(w, i, spread));
			let got = db.get(0, &keys[i]).unwrap();
			ctr.inc("handover.reads");
			if got != want {
				t.oracle_fail(
					prop,
					&format!("handover [{}]: key {} expected version {:?} got {:?}", what, i, oracle.get(&i), got.as_ref().map(|b| dec(b, i, spread))),
				);
				good = false;
			}
		}
		good
	};
	// one transaction: every key gets the next version, one random key is removed now and then
	let mut commit = |db: &Db, oracle: &mut BTreeMap<usize, Option<u64>>, rng: &mut Rng, v: &mut u64| {
		*v += 1;
		let del = if rng.chance(1, 3) { Some(rng.below(nkeys as u64) as usize) } else { None };
		let tx: Vec<(u8, Vec<u8>, Option<Vec<u8>>)> = (0..nkeys)
			.map(|i| (0u8, keys[i].to_vec(), if Some(i) == del { None } else { Some(enc(*v, i, spread)) }))
			.collect();
		db.commit(tx).unwrap();
		for i in 0..nkeys {
			oracle.insert(i, if Some(i) == del { None } else { Some(*v) });
		}
	};
	for round in 0..rounds {
		let which = rng.below(2);
		let point = if which == 0 { "process_commits.after_end_record" } else { "enact_logs.before_end_read" };
		commit(&db, &mut oracle, &mut rng, &mut v);
		if rng.chance(1, 2) {
			commit(&db, &mut oracle, &mut rng, &mut v);
		}
		if which == 1 {
			db.process_commits().unwrap();
			db.flush_logs().unwrap();
		}
		let gate = Gate::new(point);
		gate.install();
		gate.arm();
		let extra = rng.below(3);
		std::thread::scope(|s| {
			let dbr = &db;
			let worker = s.spawn(move || {
				PARK_ME.with(|p| p.set(true));
				let r = if which == 0 { dbr.process_commits() } else { dbr.enact_logs() };
				PARK_ME.with(|p| p.set(false));
				r
			});
			if gate.wait_parked(5000) {
				ctr.inc(if which == 0 { "handover.parked.after_end_record" } else { "handover.parked.before_end_read" });
				ok &= check(&db, &oracle, &format!("round {} parked at {}", round, point), t, ctr);
				// more traffic while the window is open
				commit(&db, &mut oracle, &mut rng, &mut v);
				ok &= check(&db, &oracle, &format!("round {} parked at {} + commit", round, point), t, ctr);
				if which == 0 && extra > 0 {
					// the published record travels on to the tables while its commit-overlay
					// entries are still there (stale hit path)
					db.flush_logs().unwrap();
					db.enact_logs().unwrap();
					db.clean_logs().unwrap();
					ctr.inc("handover.enacted_before_clean_overlay");
					ok &= check(&db, &oracle, &format!("round {} enacted before clean_overlay", round), t, ctr);
				}
				if which == 1 && extra > 0 {
					// the next commit is planned against (log overlay, half-ended record, tables)
					db.process_commits().unwrap();
					ctr.inc("handover.planned_before_end_read");
					ok &= check(&db, &oracle, &format!("round {} planned before end_read", round), t, ctr);
				}
			} else {
				ctr.inc("handover.not_parked");
			}
			gate.release();
			worker.join().unwrap().unwrap();
		});
		parity_db::verif::set_yield_hook(None);
		ok &= check(&db, &oracle, &format!("round {} resumed", round), t, ctr);
		for _ in 0..3 {
			step_all(&db).unwrap();
		}
		ok &= check(&db, &oracle, &format!("round {} drained", round), t, ctr);
	}
	drop(db);
	let db = Db::open(&options(&dir, false, 1)).expect("reopen");
	ok &= check(&db, &oracle, "reopened", t, ctr);
	drop(db);
	let _ = std::fs::remove_dir_all(&dir);
	ctr.inc("cases.handover");
	t.end_case(true);
	ok
}

// ------------------------------------------------------------------------------------------
// (iv) deep queue with diverged ids: commit ids and log record ids are separate counters; they
// drift apart when something other than a commit consumes a record id (reindex batches, replay at
// open). The case first makes them differ by d = 1..3 (index growth + reindex records, or a crash
// image reopened with pending log records), then queues 3..12 transactions that all write the same
// keys and steps the pipeline one call at a time, reading every key after every call: every read
// must return the LAST committed version whatever stage the transactions are in.

fn deepqueue(seed: u64, root: &Path, t: &mut Trace, ctr: &mut Counters, prop: &str) -> bool {
	let mut rng = Rng::new(seed);
	let nkeys = rng.range(2, 6) as usize;
	let spread = *rng.pick(&[1u64, 1, 2]);
	let via_crash = rng.chance(1, 2);
	t.begin_case(&format!("seed={} deepqueue keys={} spread={} divergence={}", seed, nkeys, spread, if via_crash { "replay" } else { "reindex" }));
	let dir = fresh_dir(root, &format!("c05-dq-{}", seed));
	let mut db = Db::open_or_create(&options(&dir, false, 1)).expect("create");
	let keys: Vec<[u8; 32]> = (0..nkeys).map(|i| hot_key(5, i as u64)).collect();
	let mut v = 0u64;
	let mut ok = true;
	let mut bump = |db: &Db, v: &mut u64| {
		*v += 1;
		db.commit((0..nkeys).map(|i| (0u8, keys[i].to_vec(), Some(enc(*v, i, spread))))).unwrap();
	};
	let check = |db: &Db, v: u64, what: &str, t: &mut Trace, ctr: &mut Counters| -> bool {
		let mut good = true;
		for i in 0..nkeys {
			let got = db.get(0, &keys[i]).unwrap();
			let size = db.get_size(0, &keys[i]).unwrap();
			ctr.inc("deepqueue.reads");
			let want = enc(v, i, spread);
			if got.as_ref() != Some(&want) || size != Some(want.len() as u32) {
				t.oracle_fail(
					prop,
					&format!("deepqueue [{}]: key {} expected version {} got {:?} (size {:?})", what, i, v, got.as_ref().map(|b| dec(b, i, spread)), size),
				);
				good = false;
			}
		}
		good
	};
	// phase 1: make the counters differ
	if via_crash {
		// d records in flushed log files, crash image, reopen: replay consumes record ids 1..d,
		// the commit counter of the new handle starts again
		let d = rng.range(1, 3);
		for _ in 0..d {
			bump(&db, &mut v);
			db.process_commits().unwrap();
		}
		db.flush_logs().unwrap();
		let img = root.join(format!("c05-dq-{}-img", seed));
		let _ = std::fs::remove_dir_all(&img);
		copy_dir(&dir, &img);
		drop(db);
		let _ = std::fs::remove_dir_all(&dir);
		std::fs::rename(&img, &dir).unwrap();
		let _ = std::fs::remove_file(dir.join("lock"));
		db = Db::open(&options(&dir, false, 1)).expect("recovery");
		ctr.inc("deepqueue.divergence.replay");
	} else {
		// 65+ keys of one index chunk: growth; every process_reindex call that finds work writes a record
		bump(&db, &mut v);
		db.commit((0..70u64).map(|id| (0u8, hot_key(6, id).to_vec(), Some(filler_value(id))))).unwrap();
		for _ in 0..3 {
			step_all(&db).unwrap();
		}
		let batches = rng.range(1, 3);
		for _ in 0..batches {
			db.process_reindex().unwrap();
			if rng.chance(1, 2) {
				db.flush_logs().unwrap();
				db.enact_logs().unwrap();
				db.clean_logs().unwrap();
			}
		}
		ctr.inc("deepqueue.divergence.reindex");
	}
	ok &= check(&db, v, "after divergence", t, ctr);
	// phase 2: deep queue on the same keys, one pipeline call at a time
	let rounds = rng.range(1, 3);
	for round in 0..rounds {
		let depth = rng.range(3, 12);
		for _ in 0..depth {
			bump(&db, &mut v);
		}
		ok &= check(&db, v, &format!("round {} queued {}", round, depth), t, ctr);
		let mut processed = 0;
		let mut guard = 0;
		while processed < depth && guard < 200 {
			guard += 1;
			match rng.below(10) {
				0..=5 => {
					db.process_commits().unwrap();
					processed += 1;
					ctr.inc("deepqueue.process");
					ok &= check(&db, v, &format!("round {} processed {}/{}", round, processed, depth), t, ctr);
				},
				6 => {
					db.flush_logs().unwrap();
					ok &= check(&db, v, &format!("round {} flush", round), t, ctr);
				},
				7 => {
					db.flush_logs().unwrap();
					db.enact_logs().unwrap();
					ok &= check(&db, v, &format!("round {} enact", round), t, ctr);
				},
				8 => {
					db.clean_logs().unwrap();
					db.process_reindex().unwrap();
					ok &= check(&db, v, &format!("round {} clean+reindex", round), t, ctr);
				},
				_ => {
					// one more transaction while the queue drains
					bump(&db, &mut v);
					ok &= check(&db, v, &format!("round {} extra commit", round), t, ctr);
					db.process_commits().unwrap();
					ok &= check(&db, v, &format!("round {} extra commit, one processed", round), t, ctr);
				},
			}
			if !ok {
				break
			}
		}
		for _ in 0..(depth + 4) {
			step_all(&db).unwrap();
		}
		ok &= check(&db, v, &format!("round {} drained", round), t, ctr);
		if !ok {
			break
		}
	}
	drop(db);
	let db = Db::open(&options(&dir, false, 1)).expect("reopen");
	ok &= check(&db, v, "reopened", t, ctr);
	drop(db);
	let _ = std::fs::remove_dir_all(&dir);
	ctr.inc("cases.deepqueue");
	t.end_case(true);
	ok
}

pub fn run(seeds: &[u64], thorough: bool, root: &Path, t: &mut Trace, ctr: &mut Counters, prop: &str) -> u64 {
	let mut fails = 0;
	for (i, s) in seeds.iter().copied().enumerate() {
		// a run of several cases covers every kind in turn (the adjusted seed is the one printed, so
		// `--case-seed` replays it)
		let s = if seeds.len() > 1 { s - (s % 6) + (i as u64 % 6) } else { s };
		let ok = match s % 6 {
			0 | 1 => stress(s, thorough, root, t, ctr, prop),
			2 => f11(s, root, t, ctr, prop),
			3 => handover(s, root, t, ctr, prop),
			_ => deepqueue(s, root, t, ctr, prop),
		};
		ctr.inc("cases");
		if !ok {
			fails += 1;
			t.comment(&format!("FAILED-CASE seed={}", s));
		}
	}
	fails
}
