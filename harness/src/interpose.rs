//! libc symbol interposition inside the harness binary (no change to /repo): the executable
//! defines `fdatasync`, `fsync`, `msync`, `ftruncate`, `ftruncate64`, `unlink`, `unlinkat`,
//! `mmap`, `mmap64`, `munmap`; the dynamic linker resolves every call of these symbols made by
//! code linked into the binary (std, memmap2, parity-db) to the definitions below, which record
//! an event and forward to the real function found with `dlsym(RTLD_NEXT, ..)`.
//!
//! Recording is off until `enable(true)`. File descriptors are resolved to paths through
//! `/proc/self/fd/<fd>` at call time, mapped address ranges through a registry of the `mmap`
//! calls seen while tracking was on. All buffers are plain `Mutex<Vec<..>>`; the hooks never
//! call an interposed function themselves.
#![allow(clippy::missing_safety_doc)]
use libc::{c_char, c_int, c_void, off_t, size_t};
use std::sync::atomic::{AtomicBool, AtomicU64, AtomicUsize, Ordering};
use std::sync::Mutex;

#[derive(Clone, Debug, PartialEq, Eq)]
pub enum Call {
	Fdatasync,
	Fsync,
	/// msync of a mapped range: file offset, length
	Msync { off: u64, len: u64 },
	/// ftruncate: new length
	Truncate { len: u64 },
	Unlink,
	/// mmap of a file: file offset, length
	Mmap { off: u64, len: u64 },
}

#[derive(Clone, Debug)]
pub struct Event {
	pub seq: u64,
	pub call: Call,
	/// absolute path of the file ("?" when it cannot be resolved)
	pub path: String,
	pub ret: i64,
}

impl Event {
	pub fn file_name(&self) -> &str {
		self.path.rsplit('/').next().unwrap_or("")
	}
}

static ENABLED: AtomicBool = AtomicBool::new(false);
static SEQ: AtomicU64 = AtomicU64::new(0);
static JOURNAL: Mutex<Vec<Event>> = Mutex::new(Vec::new());
/// (base address, length, path, file offset)
static MAPS: Mutex<Vec<(usize, usize, String, u64)>> = Mutex::new(Vec::new());

/// Switch recording (and tracking of new mappings) on or off.
pub fn enable(on: bool) {
	ENABLED.store(on, Ordering::SeqCst);
}

pub fn enabled() -> bool {
	ENABLED.load(Ordering::SeqCst)
}

/// Take all events recorded so far.
pub fn drain() -> Vec<Event> {
	let mut j = JOURNAL.lock().unwrap_or_else(|e| e.into_inner());
	std::mem::take(&mut *j)
}

/// Forget everything (events and the mapping registry).
pub fn reset() {
	drain();
	MAPS.lock().unwrap_or_else(|e| e.into_inner()).clear();
}

/// Number of live tracked mappings (diagnostics).
pub fn live_maps() -> usize {
	MAPS.lock().unwrap_or_else(|e| e.into_inner()).len()
}

fn record(call: Call, path: String, ret: i64) {
	let seq = SEQ.fetch_add(1, Ordering::SeqCst);
	let mut j = JOURNAL.lock().unwrap_or_else(|e| e.into_inner());
	j.push(Event { seq, call, path, ret });
}

fn fd_path(fd: c_int) -> String {
	let link = format!("/proc/self/fd/{}\0", fd);
	let mut buf = [0u8; 1024];
	let n = unsafe { libc::readlink(link.as_ptr() as *const c_char, buf.as_mut_ptr() as *mut c_char, buf.len()) };
	if n <= 0 {
		return "?".into()
	}
	let mut s = String::from_utf8_lossy(&buf[..n as usize]).to_string();
	if let Some(p) = s.strip_suffix(" (deleted)") {
		s = p.to_string();
	}
	s
}

unsafe fn real(name: &'static [u8], slot: &AtomicUsize) -> usize {
	let mut p = slot.load(Ordering::Relaxed);
	if p == 0 {
		p = libc::dlsym(libc::RTLD_NEXT, name.as_ptr() as *const c_char) as usize;
		slot.store(p, Ordering::Relaxed);
	}
	p
}

macro_rules! real_fn {
	($name:literal, $ty:ty) => {{
		static SLOT: AtomicUsize = AtomicUsize::new(0);
		let p = real(concat!($name, "\0").as_bytes(), &SLOT);
		if p == 0 {
			// cannot happen on glibc; fail loudly rather than jump to 0
			libc::abort();
		}
		std::mem::transmute::<usize, $ty>(p)
	}};
}

#[no_mangle]
pub unsafe extern "C" fn fdatasync(fd: c_int) -> c_int {
	let f = real_fn!("fdatasync", unsafe extern "C" fn(c_int) -> c_int);
	let r = f(fd);
	if enabled() {
		record(Call::Fdatasync, fd_path(fd), r as i64);
	}
	r
}

#[no_mangle]
pub unsafe extern "C" fn fsync(fd: c_int) -> c_int {
	let f = real_fn!("fsync", unsafe extern "C" fn(c_int) -> c_int);
	let r = f(fd);
	if enabled() {
		record(Call::Fsync, fd_path(fd), r as i64);
	}
	r
}

#[no_mangle]
pub unsafe extern "C" fn ftruncate(fd: c_int, len: off_t) -> c_int {
	let f = real_fn!("ftruncate", unsafe extern "C" fn(c_int, off_t) -> c_int);
	let r = f(fd, len);
	if enabled() {
		record(Call::Truncate { len: len as u64 }, fd_path(fd), r as i64);
	}
	r
}

#[no_mangle]
pub unsafe extern "C" fn ftruncate64(fd: c_int, len: libc::off64_t) -> c_int {
	let f = real_fn!("ftruncate64", unsafe extern "C" fn(c_int, libc::off64_t) -> c_int);
	let r = f(fd, len);
	if enabled() {
		record(Call::Truncate { len: len as u64 }, fd_path(fd), r as i64);
	}
	r
}

unsafe fn cstr(p: *const c_char) -> String {
	if p.is_null() {
		return "?".into()
	}
	std::ffi::CStr::from_ptr(p).to_string_lossy().to_string()
}

#[no_mangle]
pub unsafe extern "C" fn unlink(path: *const c_char) -> c_int {
	let f = real_fn!("unlink", unsafe extern "C" fn(*const c_char) -> c_int);
	let name = if enabled() { Some(cstr(path)) } else { None };
	let r = f(path);
	if let Some(n) = name {
		record(Call::Unlink, n, r as i64);
	}
	r
}

#[no_mangle]
pub unsafe extern "C" fn unlinkat(dirfd: c_int, path: *const c_char, flags: c_int) -> c_int {
	let f = real_fn!("unlinkat", unsafe extern "C" fn(c_int, *const c_char, c_int) -> c_int);
	let name = if enabled() && flags & libc::AT_REMOVEDIR == 0 {
		let p = cstr(path);
		Some(if p.starts_with('/') || dirfd == libc::AT_FDCWD { p } else { format!("{}/{}", fd_path(dirfd), p) })
	} else {
		None
	};
	let r = f(dirfd, path, flags);
	if let Some(n) = name {
		record(Call::Unlink, n, r as i64);
	}
	r
}

unsafe fn note_mmap(ret: *mut c_void, len: size_t, flags: c_int, fd: c_int, off: u64) {
	if !enabled() || fd < 0 || ret == libc::MAP_FAILED || flags & libc::MAP_ANONYMOUS != 0 {
		return
	}
	let path = fd_path(fd);
	MAPS.lock().unwrap_or_else(|e| e.into_inner()).push((ret as usize, len, path.clone(), off));
	record(Call::Mmap { off, len: len as u64 }, path, 0);
}

#[no_mangle]
pub unsafe extern "C" fn mmap(addr: *mut c_void, len: size_t, prot: c_int, flags: c_int, fd: c_int, off: off_t) -> *mut c_void {
	let f = real_fn!("mmap", unsafe extern "C" fn(*mut c_void, size_t, c_int, c_int, c_int, off_t) -> *mut c_void);
	let r = f(addr, len, prot, flags, fd, off);
	note_mmap(r, len, flags, fd, off as u64);
	r
}

#[no_mangle]
pub unsafe extern "C" fn mmap64(addr: *mut c_void, len: size_t, prot: c_int, flags: c_int, fd: c_int, off: libc::off64_t) -> *mut c_void {
	let f = real_fn!("mmap64", unsafe extern "C" fn(*mut c_void, size_t, c_int, c_int, c_int, libc::off64_t) -> *mut c_void);
	let r = f(addr, len, prot, flags, fd, off);
	note_mmap(r, len, flags, fd, off as u64);
	r
}

#[no_mangle]
pub unsafe extern "C" fn munmap(addr: *mut c_void, len: size_t) -> c_int {
	let f = real_fn!("munmap", unsafe extern "C" fn(*mut c_void, size_t) -> c_int);
	let r = f(addr, len);
	if enabled() {
		let mut m = MAPS.lock().unwrap_or_else(|e| e.into_inner());
		let a = addr as usize;
		m.retain(|(base, l, _, _)| !(a <= *base && *base + *l <= a + len));
	}
	r
}

#[no_mangle]
pub unsafe extern "C" fn msync(addr: *mut c_void, len: size_t, flags: c_int) -> c_int {
	let f = real_fn!("msync", unsafe extern "C" fn(*mut c_void, size_t, c_int) -> c_int);
	let r = f(addr, len, flags);
	if enabled() {
		let a = addr as usize;
		let hit = {
			let m = MAPS.lock().unwrap_or_else(|e| e.into_inner());
			m.iter().rev().find(|(base, l, _, _)| *base <= a && a < *base + *l).map(|(base, _, p, off)| (p.clone(), off + (a - *base) as u64))
		};
		let (path, off) = hit.unwrap_or_else(|| ("?".into(), 0));
		record(Call::Msync { off, len: len as u64 }, path, r as i64);
	}
	r
}
