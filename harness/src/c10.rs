//! C10: multitree columns. Histories of TRANSACTIONS of InsertTree / ReferenceTree / DereferenceTree
//! (one or several operations, same or different roots, one or several multitree columns of the
//! variants append_only / ref-counted roots / plain, optionally a plain key-value column in the
//! same transaction, with and without value compression) on a real `Db`, interleaved with pipeline
//! stage steps, ref-count table reindexing and reopen; one protocol line per call for the Lean
//! model (`c10 ...`, logical paths instead of addresses) and an independent oracle: one logical
//! forest per column with explicit multiset reference counting (plain Rust, not derived from the
//! model).
//!
//! Oracle reading of a transaction (the property's, not the implementation's planning order): the
//! operations take effect in the order given, except that the ReferenceTrees of a transaction are
//! counted before its DereferenceTrees (net count: `[Deref k, Ref k]` on a root with count 1 keeps
//! the tree; admissible, see Pdb/Props/C10.lean).  A transaction is rejected as a whole iff one
//! operation is invalid for its column or names a root that is not readable when the call is made.
//! Generated transactions name every root key at most once per transaction (the conflicting forms
//! are the scenarios at the end of a case: `[DereferenceTree k, InsertTree k]` was finding F41 - fixed,
//! its scenario now REQUIRES the result of the order given and fails otherwise; so does the deep
//! chain scenario of finding F42).
//!
//! T2 (C14 "node reference counts equal the number of referencing parents"): whenever the handle is
//! quiescent (after an `enact` that leaves nothing queued or logged, after every reopen, at drain
//! points drawn from a separate random stream, after the final drain and the final reopen) the
//! node forest of every tree column is dumped through the hook `Db::verif_multitree_dump` (live
//! slots, children decoded by the crate, roots, ref-count tables and cache) and sent as one op line
//! `t2rc ...` to the Lean dump checker (Pdb/Model/DumpCheckRc.lean, expected answer `ok`); the same
//! dump is compared with the forest oracle (`dump_matches_forest`: same roots, addresses, children,
//! counts).  c02x.rs uses the same functions after every crash recovery, with the slots predicted
//! to leak (finding F19) as the checker's allowed orphans.
//!
//! Ref-count table growth: `mass` cases lower the initial size of the ref-count table through the
//! hook `parity_db::verif::set_min_ref_count_bits` (2..16 chunks of 32 entries instead of 65536
//! chunks) so that mass sharing fills chunks, `trigger_ref_count_reindex` queues the table and the
//! `table.id != current` branches, `write_ref_count_reindex_plan` and `drop_ref_count` run
//! (`c10 reindex` steps); the dumps then hold several tables (counter `t2rc.with_queued_rc_table`).
use crate::util::*;
use parity_db::{ColumnOptions, CompressionType, Db, NewNode, NodeRef, Operation, Options};
use std::collections::{BTreeMap, HashMap, VecDeque};
use std::path::{Path, PathBuf};

#[derive(Clone, Copy, PartialEq, Eq, Debug)]
enum Variant {
	AppendOnly,
	Rc,
	Plain,
}

impl Variant {
	fn name(self) -> &'static str {
		match self {
			Variant::AppendOnly => "append_only",
			Variant::Rc => "rc",
			Variant::Plain => "plain",
		}
	}
}

#[derive(Clone, Copy, PartialEq, Eq, Debug)]
enum ColKind {
	Tree(Variant),
	Kv,
}

impl ColKind {
	fn name(self) -> &'static str {
		match self {
			ColKind::Tree(v) => v.name(),
			ColKind::Kv => "kv",
		}
	}
	fn variant(self) -> Option<Variant> {
		match self {
			ColKind::Tree(v) => Some(v),
			ColKind::Kv => None,
		}
	}
}

#[derive(Clone)]
struct Cfg {
	cols: Vec<ColKind>,
	compression: CompressionType,
	threshold: Option<u32>,
	/// index bits of a new ref-count table (hook; 0 = the production value 16)
	rcbits: u8,
}

fn compression_name(c: CompressionType) -> &'static str {
	match c {
		CompressionType::NoCompression => "none",
		CompressionType::Lz4 => "lz4",
		CompressionType::Snappy => "snappy",
	}
}

fn options(cfg: &Cfg, path: &Path, salt: [u8; 32]) -> Options {
	let mut o = Options::with_columns(path, cfg.cols.len() as u8);
	for (i, c) in cfg.cols.iter().enumerate() {
		o.columns[i] = match c {
			ColKind::Tree(v) => ColumnOptions {
				preimage: *v == Variant::Rc,
				uniform: false,
				ref_counted: *v == Variant::Rc,
				// `ColumnOptions::is_valid` refuses multitree + compression (Db::open asserts it)
				compression: CompressionType::NoCompression,
				btree_index: false,
				multitree: true,
				append_only: *v == Variant::AppendOnly,
				allow_direct_node_access: *v != Variant::AppendOnly,
			},
			ColKind::Kv => ColumnOptions {
				preimage: false,
				uniform: false,
				ref_counted: false,
				compression: cfg.compression,
				btree_index: false,
				multitree: false,
				append_only: false,
				allow_direct_node_access: false,
			},
		};
		if let Some(t) = cfg.threshold {
			o.compression_threshold.insert(i as u8, t);
		}
	}
	o.salt = Some(salt);
	o.with_background_thread = false;
	o.always_flush = true;
	o.stats = false;
	o.sync_wal = false;
	o.sync_data = false;
	o
}

/// The real database plus the stage mirror needed to drive the stepping API safely
/// (same discipline as p1::Sut).
struct Sut {
	cfg: Cfg,
	salt: [u8; 32],
	dir: PathBuf,
	db: Option<Db>,
	queued: usize,
	logged: usize,
	flushed: usize,
	unread_files: usize,
	dirty: usize,
}

impl Sut {
	fn create(cfg: Cfg, salt: [u8; 32], dir: PathBuf) -> Sut {
		parity_db::verif::set_min_ref_count_bits(cfg.rcbits);
		let db = Db::open_or_create(&options(&cfg, &dir, salt)).expect("create");
		Sut { cfg, salt, dir, db: Some(db), queued: 0, logged: 0, flushed: 0, unread_files: 0, dirty: 0 }
	}
	fn db(&self) -> &Db {
		self.db.as_ref().unwrap()
	}
	fn process(&mut self) -> Result<(), parity_db::Error> {
		self.db().process_commits()?;
		if self.queued > 0 {
			self.queued -= 1;
			self.logged += 1;
		}
		Ok(())
	}
	/// a ref-count (or index) table is queued for reindexing in some column
	fn reindex_pending(&self) -> bool {
		// `<v>/h,<index bits>,<rc bits>,<queue>/...`
		self.db().verif_table_cfg().split('/').skip(1).any(|c| c.split(',').nth(3).map_or(false, |q| !q.is_empty()))
	}
	/// one `process_reindex` call; returns true if it wrote a record
	fn reindex(&mut self) -> Result<bool, parity_db::Error> {
		let (next, last) = self.db().verif_reindex_state();
		let planned = next != 0 && next <= last && self.reindex_pending();
		self.db().process_reindex()?;
		if planned {
			self.logged += 1;
		}
		Ok(planned)
	}
	fn flush(&mut self) -> Result<(), parity_db::Error> {
		self.db().flush_logs()?;
		if self.logged > self.flushed {
			self.flushed = self.logged;
			self.unread_files += 1;
		}
		Ok(())
	}
	fn enact_all(&mut self) -> Result<(), parity_db::Error> {
		let mut guard = 0;
		while self.unread_files > 0 || guard == 0 {
			if self.dirty >= 3 {
				self.clean()?;
			}
			self.db().enact_logs()?;
			if self.unread_files > 0 {
				self.unread_files -= 1;
				self.dirty += 1;
			}
			guard += 1;
			if guard > 64 {
				break
			}
		}
		self.logged -= self.flushed;
		self.flushed = 0;
		Ok(())
	}
	fn clean(&mut self) -> Result<(), parity_db::Error> {
		self.db().clean_logs()?;
		self.dirty = 0;
		Ok(())
	}
	fn drain(&mut self) -> Result<(), parity_db::Error> {
		let mut guard = 0;
		while self.queued > 0 && guard < 10_000 {
			self.process()?;
			guard += 1;
		}
		self.flush()?;
		self.enact_all()?;
		self.clean()
	}
	fn close(&mut self) {
		if self.dirty >= 3 {
			let _ = self.clean();
		}
		self.db = None;
		self.queued = 0;
		self.logged = 0;
		self.flushed = 0;
		self.unread_files = 0;
		self.dirty = 0;
	}
	fn reopen(&mut self) -> Result<(), parity_db::Error> {
		self.close();
		parity_db::verif::set_min_ref_count_bits(self.cfg.rcbits);
		self.db = Some(Db::open(&options(&self.cfg, &self.dir, self.salt))?);
		Ok(())
	}
}

// ------------------------------------------------------------------------------------------
// Independent oracle: logical forest with multiset reference counting.

#[derive(Clone, Debug)]
pub(crate) struct ONode {
	pub(crate) data: String,         // value token
	pub(crate) children: Vec<usize>, // oracle node ids, in order (same id may repeat)
	pub(crate) refs: u64,            // number of references from live nodes and live roots, with multiplicity
	pub(crate) addr: Option<u64>,    // real address learned from reading the implementation back
	pub(crate) expanded: usize,      // number of nodes of the logical expansion
	pub(crate) depth: usize,
}

#[derive(Clone, Debug)]
pub(crate) struct ORoot {
	pub(crate) data: String,
	pub(crate) children: Vec<usize>,
	pub(crate) count: u64,
}

#[derive(Default, Clone)]
pub(crate) struct Forest {
	pub(crate) nodes: HashMap<usize, ONode>,
	pub(crate) roots: BTreeMap<Vec<u8>, ORoot>,
	pub(crate) next_id: usize,
}

/// Generated tree: new nodes and references to existing oracle nodes.
#[derive(Clone, Debug)]
pub(crate) enum GRef {
	New(GNode),
	Existing(usize),
}

#[derive(Clone, Debug)]
pub(crate) struct GNode {
	pub(crate) data: String,
	pub(crate) children: Vec<GRef>,
}

impl Forest {
	fn add_node(&mut self, g: &GNode, counting: bool) -> usize {
		let mut children = vec![];
		let mut expanded = 1;
		let mut depth = 0;
		for c in &g.children {
			let id = self.add_ref(c, counting);
			expanded += self.nodes[&id].expanded;
			depth = std::cmp::max(depth, self.nodes[&id].depth + 1);
			children.push(id);
		}
		let id = self.next_id;
		self.next_id += 1;
		self.nodes.insert(id, ONode { data: g.data.clone(), children, refs: 1, addr: None, expanded, depth });
		id
	}
	fn add_ref(&mut self, r: &GRef, counting: bool) -> usize {
		match r {
			GRef::New(g) => self.add_node(g, counting),
			GRef::Existing(id) => {
				if counting {
					self.nodes.get_mut(id).unwrap().refs += 1;
				}
				*id
			},
		}
	}
	pub(crate) fn insert(&mut self, key: &[u8], g: &GNode, counting: bool) {
		let children = g.children.iter().map(|c| self.add_ref(c, counting)).collect();
		self.roots.insert(key.to_vec(), ORoot { data: g.data.clone(), children, count: 1 });
	}
	fn release(&mut self, id: usize) {
		let n = self.nodes.get_mut(&id).unwrap();
		n.refs -= 1;
		if n.refs == 0 {
			let n = self.nodes.remove(&id).unwrap();
			for c in n.children {
				self.release(c);
			}
		}
	}
	/// returns true when the tree is gone
	pub(crate) fn deref(&mut self, key: &[u8]) -> bool {
		let r = self.roots.get_mut(key).unwrap();
		r.count -= 1;
		if r.count == 0 {
			let r = self.roots.remove(key).unwrap();
			for c in r.children {
				self.release(c);
			}
			true
		} else {
			false
		}
	}
	fn render_node(&self, id: usize, out: &mut String) {
		let n = &self.nodes[&id];
		out.push('(');
		out.push_str(&n.data);
		for c in &n.children {
			out.push(' ');
			self.render_node(*c, out);
		}
		out.push(')');
	}
	pub(crate) fn render(&self, key: &[u8]) -> String {
		match self.roots.get(key) {
			None => "none".into(),
			Some(r) => {
				let mut s = String::from("some (");
				s.push_str(&r.data);
				for c in &r.children {
					s.push(' ');
					self.render_node(*c, &mut s);
				}
				s.push(')');
				s
			},
		}
	}
	/// a path (root key, child indices) to every live node, by breadth-first search
	pub(crate) fn paths(&self) -> HashMap<usize, (Vec<u8>, Vec<usize>)> {
		let mut out: HashMap<usize, (Vec<u8>, Vec<usize>)> = HashMap::new();
		let mut queue = std::collections::VecDeque::new();
		for (k, r) in &self.roots {
			for (i, c) in r.children.iter().enumerate() {
				if !out.contains_key(c) {
					out.insert(*c, (k.clone(), vec![i]));
					queue.push_back(*c);
				}
			}
		}
		while let Some(id) = queue.pop_front() {
			let (k, p) = out[&id].clone();
			for (i, c) in self.nodes[&id].children.iter().enumerate() {
				if !out.contains_key(c) {
					let mut p2 = p.clone();
					p2.push(i);
					out.insert(*c, (k.clone(), p2));
					queue.push_back(*c);
				}
			}
		}
		out
	}
}

// ------------------------------------------------------------------------------------------
// Generation

struct GenStats {
	new_nodes: usize,
	existing: usize,
	max_fan: usize,
	multipart: usize,
	depth: usize,
	expanded: usize,
	repeated_existing: bool,
}

fn data_token(rng: &mut Rng, vals: &mut Values, big_ok: bool) -> String {
	let len = match rng.below(if big_ok { 40 } else { 30 }) {
		0 => 0,
		1..=14 => rng.range(1, 24),
		15..=22 => rng.range(24, 200),
		23..=26 => rng.range(200, 3000),
		27..=29 => rng.range(3000, 9000),
		30..=32 => rng.range(32600, 32800), // around the single-part limit
		33..=35 => rng.range(33000, 40960), // multipart
		36 => rng.range(4080, 4100),
		_ => rng.range(9000, 32000),
	};
	vals.canon(format!("v{}_{}", len, rng.below(1 << 30)))
}

#[allow(clippy::too_many_arguments)]
fn gen_node(
	rng: &mut Rng,
	vals: &mut Values,
	forest: &Forest,
	live: &[usize],
	depth_left: usize,
	budget: &mut isize,
	fan_mode: u64,
	wide_slot: &mut Option<usize>,
	st: &mut GenStats,
	level: usize,
	used: &mut HashMap<usize, usize>,
) -> GNode {
	st.depth = std::cmp::max(st.depth, level);
	let big_ok = rng.chance(1, 3) && *budget > 0;
	let data = data_token(rng, vals, big_ok);
	let mut children = vec![];
	let fan = if let Some(w) = wide_slot.take() {
		w
	} else if depth_left == 0 || *budget <= 0 {
		0
	} else {
		(match fan_mode {
			0 => rng.below(3),
			1 => rng.below(5),
			_ => rng.range(1, 6),
		}) as usize
	};
	st.max_fan = std::cmp::max(st.max_fan, fan);
	for _ in 0..fan {
		let share = !live.is_empty() && rng.chance(if fan > 50 { 1 } else { 3 }, 10);
		if share {
			// an existing node of a live tree; sometimes the one used before (same node twice)
			let id = if !used.is_empty() && rng.chance(1, 3) {
				*used.keys().next().unwrap()
			} else {
				*rng.pick(live)
			};
			let e = forest.nodes[&id].expanded;
			if (*budget as i64) - (e as i64) > -3000 {
				*budget -= e as isize;
				st.existing += 1;
				st.expanded += e;
				let u = used.entry(id).or_insert(0);
				*u += 1;
				if *u > 1 {
					st.repeated_existing = true;
				}
				children.push(GRef::Existing(id));
				continue
			}
		}
		*budget -= 1;
		let child = if fan > 50 {
			// children of a wide node: leaves, now and then a small subtree
			let dl = if rng.chance(1, 40) { 1 } else { 0 };
			gen_node(rng, vals, forest, live, dl, budget, 0, wide_slot, st, level + 1, used)
		} else {
			gen_node(rng, vals, forest, live, depth_left - 1, budget, fan_mode, wide_slot, st, level + 1, used)
		};
		children.push(GRef::New(child));
	}
	st.new_nodes += 1;
	st.expanded += 1;
	GNode { data, children }
}

fn ctr_inc_mass(ctr: &mut Counters) {
	ctr.inc("cases.mass_sharing");
}

/// root -> 2..3 inner nodes -> 150..255 children each: new leaves with small data when `live` is
/// empty, otherwise DISTINCT existing nodes of live trees (as many as there are).
fn mass_tree(rng: &mut Rng, vals: &mut Values, forest: &Forest, live: &[usize], st: &mut GenStats) -> GNode {
	// the reader renders at most 200 000 nodes of a tree's logical expansion: stay well below
	const MAX_EXPANDED: usize = 60_000;
	let inner = rng.range(2, 3) as usize;
	let mut pool: Vec<usize> = live.to_vec();
	// seeded shuffle
	for i in (1..pool.len()).rev() {
		let j = rng.below(i as u64 + 1) as usize;
		pool.swap(i, j);
	}
	let mut children = vec![];
	for _ in 0..inner {
		let fan = rng.range(150, 255) as usize;
		let mut ch = vec![];
		for _ in 0..fan {
			if live.is_empty() {
				let len = rng.range(1, 40);
				ch.push(GRef::New(GNode { data: vals.canon(format!("v{}_{}", len, rng.below(1 << 30))), children: vec![] }));
				st.new_nodes += 1;
				st.expanded += 1;
			} else if let Some(id) = pool.pop() {
				let e = forest.nodes[&id].expanded;
				if st.expanded + e > MAX_EXPANDED {
					continue
				}
				ch.push(GRef::Existing(id));
				st.existing += 1;
				st.expanded += e;
			}
		}
		st.max_fan = std::cmp::max(st.max_fan, ch.len());
		let len = rng.range(1, 60);
		children.push(GRef::New(GNode { data: vals.canon(format!("v{}_{}", len, rng.below(1 << 30))), children: ch }));
		st.new_nodes += 1;
		st.expanded += 1;
	}
	st.depth = 2;
	st.new_nodes += 1;
	st.expanded += 1;
	let len = rng.range(1, 60);
	GNode { data: vals.canon(format!("v{}_{}", len, rng.below(1 << 30))), children }
}

pub(crate) fn to_real(g: &GNode, forest: &Forest, vals: &mut Values) -> NewNode {
	NewNode {
		data: vals.bytes(&g.data),
		children: g
			.children
			.iter()
			.map(|c| match c {
				GRef::New(n) => NodeRef::New(to_real(n, forest, vals)),
				GRef::Existing(id) => NodeRef::Existing(forest.nodes[id].addr.expect("address of live node known")),
			})
			.collect(),
	}
}

fn model_tokens(g: &GNode, paths: &HashMap<usize, (Vec<u8>, Vec<usize>)>, out: &mut String) {
	out.push_str(&format!(" n{}:{}", g.children.len(), g.data));
	for c in &g.children {
		match c {
			GRef::New(n) => model_tokens(n, paths, out),
			GRef::Existing(id) => {
				let (k, p) = &paths[id];
				out.push_str(&format!(" @{}", hex(k)));
				for i in p {
					out.push_str(&format!("/{}", i));
				}
			},
		}
	}
}

fn max_fan(g: &GNode) -> usize {
	let mut m = g.children.len();
	for c in &g.children {
		if let GRef::New(n) = c {
			m = std::cmp::max(m, max_fan(n));
		}
	}
	m
}

fn packed_len(data_tok: &str, nchildren: usize) -> usize {
	let len: usize = data_tok[1..].split('_').next().unwrap().parse().unwrap();
	len + 8 * nchildren + 1
}

fn is_multipart(v: Variant, root: bool, data_tok: &str, nchildren: usize) -> bool {
	// largest fixed entry 32760, 2 bytes size field, 4 bytes rc on ref-counted columns,
	// 26 bytes partial key for hash-indexed (root) entries
	let cap = 32760 - 2 - if v == Variant::Rc { 4 } else { 0 } - if root { 26 } else { 0 };
	packed_len(data_tok, nchildren) > cap
}

// ------------------------------------------------------------------------------------------
// Reading the implementation

type NodeVal = (Vec<u8>, Vec<u64>);
type Tr<'a> = &'a (dyn parity_db::TreeReader + Send + Sync);

/// One tree reader (read lock held while the closure runs; never across a commit) plus the
/// direct-access API; both must agree.
struct Reader<'a> {
	db: &'a Db,
	col: u8,
	tr: Option<Tr<'a>>,
}

fn with_reader<R>(db: &Db, col: u8, key: &[u8], f: impl FnOnce(&Reader) -> R) -> Result<R, String> {
	match db.get_tree(col, key) {
		Err(e) => Err(format!("get_tree: {:?}", e)),
		Ok(None) => Ok(f(&Reader { db, col, tr: None })),
		Ok(Some(tree)) => {
			let g = tree.read();
			let r = f(&Reader { db, col, tr: Some(&**g) });
			drop(g);
			Ok(r)
		},
	}
}

impl<'a> Reader<'a> {
	fn root(&self, key: &[u8]) -> Result<Option<NodeVal>, String> {
		let via_reader = match self.tr {
			None => None,
			Some(g) => match g.get_root() {
				Ok(r) => r,
				Err(e) => return Err(format!("TreeReader::get_root: {:?}", e)),
			},
		};
		match self.db.get_root(self.col, key) {
			Ok(r) =>
				if r != via_reader {
					return Err(format!("get_root differs from TreeReader::get_root for key {}", hex(key)))
				},
			Err(e) => return Err(format!("get_root: {:?}", e)),
		}
		Ok(via_reader)
	}
	fn node(&self, addr: u64) -> Result<Option<NodeVal>, String> {
		let g = match self.tr {
			None => return Err("tree vanished while reading".into()),
			Some(g) => g,
		};
		let via_reader = g.get_node(addr).map_err(|e| format!("TreeReader::get_node: {:?}", e))?;
		let c = g.get_node_children(addr).map_err(|e| format!("TreeReader::get_node_children: {:?}", e))?;
		if via_reader.as_ref().map(|x| &x.1) != c.as_ref() {
			return Err(format!("get_node_children differs from get_node at {}", addr))
		}
		match self.db.get_node(self.col, addr) {
			Ok(r) =>
				if r != via_reader {
					return Err(format!("get_node differs from TreeReader::get_node at {}", addr))
				},
			Err(e) => return Err(format!("get_node: {:?}", e)),
		}
		match self.db.get_node_children(self.col, addr) {
			Ok(r) =>
				if r.as_ref() != via_reader.as_ref().map(|x| &x.1) {
					return Err(format!("get_node_children differs at {}", addr))
				},
			Err(e) => return Err(format!("get_node_children: {:?}", e)),
		}
		Ok(via_reader)
	}
	fn render_node(&self, addr: u64, vals: &Values, out: &mut String, budget: &mut usize) -> Result<(), String> {
		if *budget == 0 {
			out.push('!');
			return Ok(())
		}
		*budget -= 1;
		match self.node(addr)? {
			None => out.push('?'),
			Some((d, cs)) => {
				out.push('(');
				out.push_str(&vals.render(&d));
				for c in cs {
					out.push(' ');
					self.render_node(c, vals, out, budget)?;
				}
				out.push(')');
			},
		}
		Ok(())
	}
	/// canonical rendering of the whole tree by logical content
	fn render(&self, key: &[u8], vals: &Values) -> Result<String, String> {
		match self.root(key)? {
			None => Ok("none".into()),
			Some((d, cs)) => {
				let mut s = String::from("some (");
				s.push_str(&vals.render(&d));
				let mut budget = 200_000;
				for c in cs {
					s.push(' ');
					self.render_node(c, vals, &mut s, &mut budget)?;
				}
				s.push(')');
				Ok(s)
			},
		}
	}
}

/// After an accepted insertion: walk the generated tree and the stored tree in parallel, learn
/// the addresses of the new nodes, check data / child order / that `Existing` children are the
/// addresses that were supplied.
fn learn_addresses(
	rd: &Reader,
	g: &GNode,
	got: &NodeVal,
	ids: &[usize],
	forest: &mut Forest,
	vals: &mut Values,
) -> Result<(), String> {
	if got.0 != vals.bytes(&g.data) {
		return Err(format!("node data differs: expected {} got {}", g.data, vals.render(&got.0)))
	}
	if got.1.len() != g.children.len() {
		return Err(format!("child count differs: supplied {} stored {}", g.children.len(), got.1.len()))
	}
	for (i, c) in g.children.iter().enumerate() {
		let addr = got.1[i];
		match c {
			GRef::Existing(id) => {
				if forest.nodes[id].addr != Some(addr) {
					return Err(format!("existing child {} stored as address {} but {:?} was supplied", i, addr, forest.nodes[id].addr))
				}
			},
			GRef::New(n) => {
				let id = ids[i];
				forest.nodes.get_mut(&id).unwrap().addr = Some(addr);
				let sub = rd.node(addr)?.ok_or_else(|| format!("new node at {} not readable", addr))?;
				let sub_ids = forest.nodes[&id].children.clone();
				learn_addresses(rd, n, &sub, &sub_ids, forest, vals)?;
			},
		}
	}
	Ok(())
}

fn res(r: &Result<(), parity_db::Error>) -> String {
	match r {
		Ok(()) => "ok".into(),
		Err(e) => format!("err:{}", err_kind(e)),
	}
}

fn fan_class(f: usize) -> &'static str {
	match f {
		0 => "0",
		1..=4 => "1-4",
		5..=254 => "5-254",
		255 => "255",
		_ => "256+",
	}
}

struct Case<'a> {
	sut: Sut,
	/// one logical forest per column (empty and unused for the key-value column)
	forests: Vec<Forest>,
	/// the key-value column: plain map of what the accepted commits produce
	kv: BTreeMap<Vec<u8>, String>,
	vals: Values,
	t: &'a mut Trace,
	ctr: &'a mut Counters,
	prop: &'a str,
	ok: bool,
	/// per queued commit: the roots its DereferenceTrees remove (still readable until processed)
	pending_dead: VecDeque<Vec<(usize, Vec<u8>)>>,
	/// reads of big trees so far (every fourth one is a full rendering)
	big_reads: usize,
}

/// model token of a root key / path prefix: column 0 is the default column of the protocol
fn kname(ci: usize, key: &[u8]) -> String {
	if ci == 0 {
		hex(key)
	} else {
		format!("{}:{}", ci, hex(key))
	}
}

impl<'a> Case<'a> {
	fn fail(&mut self, msg: &str) {
		self.t.oracle_fail(self.prop, msg);
		self.ok = false;
	}

	fn variant(&self, ci: usize) -> Variant {
		self.sut.cfg.cols[ci].variant().expect("tree column")
	}

	fn tree_cols(&self) -> Vec<usize> {
		(0..self.sut.cfg.cols.len()).filter(|i| self.sut.cfg.cols[*i].variant().is_some()).collect()
	}

	/// the root is readable when a commit call is made: live, or dead with the removing commit
	/// still queued
	fn visible(&self, ci: usize, key: &[u8]) -> bool {
		self.forests[ci].roots.contains_key(key) ||
			self.pending_dead.iter().any(|v| v.iter().any(|(c, k)| *c == ci && k.as_slice() == key))
	}

	fn note_processed(&mut self) {
		self.pending_dead.pop_front();
	}

	fn stage_ctr(&mut self) {
		let s = if self.sut.queued > 0 {
			"read.stage.queued"
		} else if self.sut.logged > self.sut.flushed {
			"read.stage.logged"
		} else if self.sut.flushed > 0 {
			"read.stage.flushed"
		} else {
			"read.stage.tables"
		};
		self.ctr.inc(s);
	}

	/// `c10 tree <key>`: observed rendering, oracle comparison, model line.  Trees of several hundred
	/// nodes (mass sharing) are rendered in full every fourth time only, otherwise their root is read.
	fn check_tree(&mut self, ci: usize, key: &[u8]) {
		if let Some(r) = self.forests[ci].roots.get(key) {
			let size: usize = r.children.iter().map(|c| self.forests[ci].nodes[c].expanded).sum();
			if size > 150_000 {
				// the reader renders at most 200 000 nodes of the logical expansion: a tree this large
				// (many shared subtrees) is compared through its root only
				self.ctr.inc("tree.too_large_to_render");
				self.check_root(ci, key);
				return
			}
			if size > 300 {
				self.big_reads += 1;
				if self.big_reads % 4 != 0 {
					self.check_root(ci, key);
					return
				}
			}
		}
		let r = with_reader(self.sut.db(), ci as u8, key, |rd| rd.render(key, &self.vals)).and_then(|x| x);
		self.ctr.inc("op.tree");
		self.stage_ctr();
		match r {
			Err(e) => {
				self.t.op(&format!("c10 tree {}", kname(ci, key)), &format!("read-error {}", e));
				self.fail(&format!("reading tree {} failed: {}", kname(ci, key), e));
			},
			Ok(obs) => {
				self.t.op(&format!("c10 tree {}", kname(ci, key)), &obs);
				let exp = self.forests[ci].render(key);
				if self.forests[ci].roots.contains_key(key) {
					if obs != exp {
						let (a, b) = (clip(&exp), clip(&obs));
						self.fail(&format!("live tree {} reads back differently: expected {} observed {}", kname(ci, key), a, b));
					}
				} else if self.sut.queued == 0 && obs != "none" {
					self.fail(&format!("tree {} has no reference left and nothing is queued, but is still readable: {}", kname(ci, key), clip(&obs)));
				}
			},
		}
	}

	fn check_root(&mut self, ci: usize, key: &[u8]) {
		let r = with_reader(self.sut.db(), ci as u8, key, |rd| rd.root(key)).and_then(|x| x);
		self.ctr.inc("op.root");
		let obs = match r {
			Err(e) => format!("read-error {}", e),
			Ok(None) => "none".to_string(),
			Ok(Some((d, cs))) => format!("some {} {}", self.vals.render(&d), cs.len()),
		};
		self.t.op(&format!("c10 root {}", kname(ci, key)), &obs);
		if let Some(r) = self.forests[ci].roots.get(key) {
			let exp = format!("some {} {}", r.data, r.children.len());
			if obs != exp {
				self.fail(&format!("root {}: expected {} observed {}", kname(ci, key), exp, obs));
			}
		}
	}

	/// `c10 node <path>` for a random live node: by address on the implementation.
	fn check_node(&mut self, ci: usize, id: usize, path: &(Vec<u8>, Vec<usize>)) {
		let n = self.forests[ci].nodes[&id].clone();
		let addr = match n.addr {
			Some(a) => a,
			None => return,
		};
		let r = with_reader(self.sut.db(), ci as u8, &path.0, |rd| rd.node(addr)).and_then(|x| x);
		self.ctr.inc("op.node");
		let obs = match r {
			Err(e) => format!("read-error {}", e),
			Ok(None) => "none".to_string(),
			Ok(Some((d, cs))) => format!("some {} {}", self.vals.render(&d), cs.len()),
		};
		let mut p = kname(ci, &path.0);
		for i in &path.1 {
			p.push_str(&format!("/{}", i));
		}
		self.t.op(&format!("c10 node {}", p), &obs);
		let exp = format!("some {} {}", n.data, n.children.len());
		if obs != exp {
			self.fail(&format!("node {} (address {}): expected {} observed {}", p, addr, exp, obs));
		}
	}

	fn oracle_has_multipart(&self, ci: usize) -> bool {
		let v = self.variant(ci);
		self.forests[ci].nodes.values().any(|n| is_multipart(v, false, &n.data, n.children.len())) ||
			self.forests[ci].roots.values().any(|r| is_multipart(v, true, &r.data, r.children.len()))
	}

	/// `c10 count [<col>]`
	fn check_count(&mut self, ci: usize) {
		let r = self.sut.db().get_num_column_value_entries(ci as u8);
		self.ctr.inc("op.count");
		let obs = match &r {
			Ok(n) => n.to_string(),
			Err(e) => format!("err:{}", err_kind(e)),
		};
		let line = if ci == 0 { "c10 count".to_string() } else { format!("c10 count {}", ci) };
		self.t.op(&line, &obs);
		if self.sut.queued == 0 {
			// every commit has reached the tables: entries = distinct live nodes + live roots
			let exp = (self.forests[ci].nodes.len() + self.forests[ci].roots.len()) as u64;
			match r {
				Ok(n) =>
					if n != exp {
						self.fail(&format!(
							"column {}: entry count {} but the forest has {} live nodes + {} live roots",
							ci,
							n,
							self.forests[ci].nodes.len(),
							self.forests[ci].roots.len()
						));
					} else {
						self.ctr.inc("obs.count_checked_drained");
					},
				Err(_) =>
					if !self.oracle_has_multipart(ci) {
						self.fail(&format!("column {}: entry count failed ({}) although no multipart entry is live", ci, obs));
					} else {
						self.ctr.inc("obs.count_unavailable_multipart");
					},
			}
		}
	}

	/// `c10 get <col>:<key>` on the key-value column
	fn check_kv(&mut self, ci: usize, key: &[u8]) {
		let r = self.sut.db().get(ci as u8, key);
		let obs = match &r {
			Ok(Some(v)) => format!("some {}", self.vals.render(v)),
			Ok(None) => "none".to_string(),
			Err(e) => format!("err:{}", err_kind(e)),
		};
		self.ctr.inc("op.kvget");
		self.t.op(&format!("c10 get {}:{}", ci, hex(key)), &obs);
		let exp = match self.kv.get(key) {
			Some(v) => format!("some {}", v),
			None => "none".to_string(),
		};
		if obs != exp {
			self.fail(&format!("key-value column: get {} expected {} observed {}", hex(key), exp, obs));
		}
	}
}

// ------------------------------------------------------------------------------------------
// T2 for the node forest (C14 "node reference counts equal the number of referencing parents"):
// the hook dump of a quiescent multitree column, rendered as the op line `t2rc ...` of the Lean
// dump checker (Pdb/Model/DumpCheckRc.lean; expected answer `ok`), plus an independent
// comparison of the same dump with the forest oracle.

#[derive(Default)]
pub(crate) struct RcDumpStats {
	pub(crate) roots: usize,
	pub(crate) nodes: usize,
	pub(crate) undecodable: usize,
	pub(crate) edges: usize,
	pub(crate) rc_entries: usize,
	pub(crate) max_count: u64,
	pub(crate) max_fan: usize,
	pub(crate) shadowed: usize,
}

/// entries of the ref-count tables in search order, first hit per address (`shadowed` counts the
/// entries hidden behind a newer table)
pub(crate) fn effective_rc(d: &parity_db::verif::MultiTreeDump, shadowed: &mut usize) -> Vec<(u64, u64)> {
	let mut order: Vec<&Vec<(u64, u64)>> = vec![];
	if let Some(first) = d.ref_count_tables.first() {
		order.push(&first.1);
	}
	for t in d.ref_count_tables.iter().skip(1).rev() {
		order.push(&t.1);
	}
	let mut seen = std::collections::HashSet::new();
	let mut out = vec![];
	for entries in order {
		for (a, c) in entries {
			if seen.insert(*a) {
				out.push((*a, *c));
			} else {
				*shadowed += 1;
			}
		}
	}
	out
}

/// `t2rc <has_rc> <ref_counted> {R addr count child*}* {N addr child*}* [X addr*] [C {addr count}*]
/// [M {addr count}*] [A addr*]`; `allowed` = addresses predicted to be leaked (finding F19).
pub(crate) fn t2rc_line(d: &parity_db::verif::MultiTreeDump, allowed: &[u64]) -> (String, RcDumpStats) {
	use std::fmt::Write;
	let mut st = RcDumpStats::default();
	let mut s = format!("t2rc {} {}", d.has_ref_count_table as u8, d.ref_counted as u8);
	let mut bad: Vec<u64> = vec![];
	for (_key, addr, rc, children) in &d.roots {
		match children {
			Some(cs) => {
				write!(s, " R {} {}", addr, rc).unwrap();
				for c in cs {
					write!(s, " {}", c).unwrap();
				}
				st.roots += 1;
				st.edges += cs.len();
				st.max_fan = std::cmp::max(st.max_fan, cs.len());
			},
			None => bad.push(*addr),
		}
	}
	for (addr, children) in &d.nodes {
		match children {
			Some(cs) => {
				write!(s, " N {}", addr).unwrap();
				for c in cs {
					write!(s, " {}", c).unwrap();
				}
				st.nodes += 1;
				st.edges += cs.len();
				st.max_fan = std::cmp::max(st.max_fan, cs.len());
			},
			None => bad.push(*addr),
		}
	}
	st.undecodable = bad.len();
	if !bad.is_empty() {
		s.push_str(" X");
		for a in &bad {
			write!(s, " {}", a).unwrap();
		}
	}
	// the EFFECTIVE ref-count map: first hit in the search order of `search_all_ref_count`
	// (current table, then the queued tables newest first; the hook lists the queue oldest
	// first).  An entry shadowed by a newer table is unobservable: it is dropped with its table,
	// or removed together with the newer entry when the count goes back to one.
	let eff = effective_rc(d, &mut st.shadowed);
	if !eff.is_empty() {
		s.push_str(" C");
		for (a, c) in &eff {
			write!(s, " {} {}", a, c).unwrap();
			st.rc_entries += 1;
			st.max_count = std::cmp::max(st.max_count, *c);
		}
	}
	if let Some(cache) = &d.ref_count_cache {
		if !cache.is_empty() {
			s.push_str(" M");
			for (a, c) in cache {
				write!(s, " {} {}", a, c).unwrap();
			}
		}
	}
	if !allowed.is_empty() {
		s.push_str(" A");
		for a in allowed {
			write!(s, " {}", a).unwrap();
		}
	}
	(s, st)
}

pub(crate) fn t2rc_count(ctr: &mut Counters, at: &str, d: &parity_db::verif::MultiTreeDump, st: &RcDumpStats, allowed: usize) {
	ctr.inc("t2rc.dumps");
	ctr.inc(&format!("t2rc.at.{}", at));
	ctr.inc(&format!(
		"t2rc.column.{}",
		if !d.has_ref_count_table { "append_only" } else if d.ref_counted { "rc" } else { "plain" }
	));
	ctr.add("t2rc.roots", st.roots as u64);
	ctr.add("t2rc.nodes", st.nodes as u64);
	ctr.add("t2rc.edges", st.edges as u64);
	ctr.add("t2rc.rc_entries", st.rc_entries as u64);
	ctr.add("t2rc.undecodable_slots", st.undecodable as u64);
	ctr.add("t2rc.allowed_orphans", allowed as u64);
	ctr.inc(&format!("t2rc.size.nodes.{}", match st.nodes { 0 => "0", 1..=10 => "1-10", 11..=100 => "11-100", 101..=1000 => "101-1000", _ => "1000+" }));
	ctr.inc(&format!("t2rc.size.rc_entries.{}", match st.rc_entries { 0 => "0", 1..=3 => "1-3", 4..=20 => "4-20", _ => "21+" }));
	ctr.inc(&format!("t2rc.max_count.{}", match st.max_count { 0 => "none", 2 => "2", 3..=5 => "3-5", _ => "6+" }));
	ctr.inc(&format!("t2rc.max_fan.{}", fan_class(st.max_fan)));
	if d.ref_count_tables.len() > 1 {
		ctr.inc("t2rc.with_queued_rc_table");
		ctr.inc(&format!("t2rc.rc_tables.{}", d.ref_count_tables.len()));
		if d.ref_count_tables.iter().skip(1).any(|t| !t.1.is_empty()) {
			ctr.inc("t2rc.with_nonempty_queued_rc_table");
		}
	}
	ctr.add("t2rc.shadowed_rc_entries", st.shadowed as u64);
}

/// Independent oracle for a quiescent dump of column `col`: the dumped forest IS the oracle's
/// forest (same roots under the same hashed keys with the same counts, same node addresses,
/// same children in the same order), the ref-count table holds exactly the oracle's counts
/// > 1 and equals the cache.  `leaked`: node slots known to be lost for good (finding F19).
pub(crate) fn dump_matches_forest(
	db: &Db,
	col: u8,
	d: &parity_db::verif::MultiTreeDump,
	forest: &Forest,
	counting: bool,
	rc_roots: bool,
	leaked: &[u64],
) -> Result<(), String> {
	use std::collections::{BTreeMap, BTreeSet};
	if d.has_ref_count_table != counting {
		return Err(format!("ref-count table present={} but the column counts references={}", d.has_ref_count_table, counting))
	}
	let addr_of = |id: &usize| forest.nodes.get(id).and_then(|n| n.addr).unwrap_or(u64::MAX);
	// roots
	let mut exp_roots: BTreeMap<[u8; 32], (&Vec<u8>, &ORoot)> = BTreeMap::new();
	for (k, r) in &forest.roots {
		let hk = db.verif_hash_key(col, k).ok_or("not a hash column")?;
		exp_roots.insert(hk, (k, r));
	}
	if d.roots.len() != exp_roots.len() {
		return Err(format!("{} root entries dumped, the oracle has {} live roots", d.roots.len(), exp_roots.len()))
	}
	for (key, addr, rc, children) in &d.roots {
		let (k, r) = exp_roots.get(key).ok_or_else(|| format!("dumped root entry at {} has a key no live root has: {}", addr, hex(key)))?;
		let exp_children: Vec<u64> = r.children.iter().map(addr_of).collect();
		if children.as_ref() != Some(&exp_children) {
			return Err(format!("root {}: children {:?}, the oracle expects {:?}", hex(k), children, exp_children))
		}
		let exp_rc = if rc_roots { r.count } else { 1 };
		if *rc as u64 != exp_rc {
			return Err(format!("root {}: stored count {}, the oracle expects {}", hex(k), rc, exp_rc))
		}
	}
	// nodes
	let leaked: BTreeSet<u64> = leaked.iter().cloned().collect();
	let mut dumped: BTreeMap<u64, &Option<Vec<u64>>> = BTreeMap::new();
	for (a, cs) in &d.nodes {
		if leaked.contains(a) {
			continue
		}
		if dumped.insert(*a, cs).is_some() {
			return Err(format!("node address {} dumped twice", a))
		}
	}
	if dumped.len() != forest.nodes.len() {
		return Err(format!("{} live node slots dumped (beyond known leaked ones), the oracle has {} live nodes", dumped.len(), forest.nodes.len()))
	}
	for (id, n) in &forest.nodes {
		let a = n.addr.ok_or_else(|| format!("oracle node {} has no address", id))?;
		let exp_children: Vec<u64> = n.children.iter().map(addr_of).collect();
		match dumped.get(&a) {
			None => return Err(format!("live node at address {} is not among the dumped node slots", a)),
			Some(cs) =>
				if cs.as_ref() != Some(&exp_children) {
					return Err(format!("node at {}: children {:?}, the oracle expects {:?}", a, cs, exp_children))
				},
		}
	}
	// counts: first hit in search order
	let mut shadowed = 0;
	let table: BTreeMap<u64, u64> = effective_rc(d, &mut shadowed).into_iter().collect();
	let mut exp_table: BTreeMap<u64, u64> = BTreeMap::new();
	if counting {
		for n in forest.nodes.values() {
			if n.refs > 1 {
				exp_table.insert(n.addr.unwrap_or(u64::MAX), n.refs);
			}
		}
	}
	if table != exp_table {
		return Err(format!("ref-count table {:?}, the oracle's counts > 1 are {:?}", table, exp_table))
	}
	match (&d.ref_count_cache, counting) {
		(None, false) => {},
		(Some(cache), true) => {
			let cache: BTreeMap<u64, u64> = cache.iter().cloned().collect();
			if cache != table {
				return Err(format!("ref-count cache {:?} differs from the table {:?}", cache, table))
			}
		},
		(c, _) => return Err(format!("ref-count cache present={} on a column that counts={}", c.is_some(), counting)),
	}
	Ok(())
}

impl<'a> Case<'a> {
	fn quiescent(&self) -> bool {
		self.sut.queued == 0 && self.sut.logged == 0 && self.sut.flushed == 0 && self.sut.unread_files == 0
	}

	/// At a quiescent point (everything committed is in the table files): dump the forest of every
	/// tree column, one `t2rc` line each for the Lean checker, the same dump against the oracle.
	fn check_rc_dump(&mut self, at: &str) {
		if !self.quiescent() {
			return
		}
		for ci in self.tree_cols() {
			let d = match self.sut.db().verif_multitree_dump(ci as u8) {
				Ok(Some(d)) => d,
				Ok(None) => {
					self.fail("verif_multitree_dump: not a multitree column");
					return
				},
				Err(e) => {
					self.fail(&format!("verif_multitree_dump failed: {:?}", e));
					return
				},
			};
			let (line, st) = t2rc_line(&d, &[]);
			self.t.op(&line, "ok");
			t2rc_count(self.ctr, at, &d, &st, 0);
			let v = self.variant(ci);
			let counting = v != Variant::AppendOnly;
			if let Err(e) = dump_matches_forest(self.sut.db(), ci as u8, &d, &self.forests[ci], counting, v == Variant::Rc, &[]) {
				self.fail(&format!("structural dump ({}, column {}) differs from the oracle forest: {}", at, ci, e));
			} else {
				self.ctr.inc("t2rc.oracle_forest_equal");
			}
		}
	}

	fn process_traced(&mut self) -> bool {
		let r = self.sut.process();
		self.t.op("c10 process", &res(&r));
		self.ctr.inc("op.process");
		self.note_processed();
		if let Err(e) = r {
			self.fail(&format!("process_commits failed: {:?}", e));
			return false
		}
		true
	}

	/// one `process_reindex` call (moves a batch of entries of a queued ref-count table into the
	/// current one, or drops the exhausted table); invisible to the logical model
	fn reindex_traced(&mut self) -> bool {
		let r = self.sut.reindex();
		let shown = match &r {
			Ok(_) => "ok".to_string(),
			Err(e) => format!("err:{}", err_kind(e)),
		};
		self.t.op("c10 reindex", &shown);
		self.ctr.inc("op.reindex");
		match r {
			Ok(true) => self.ctr.inc("op.reindex.record"),
			Ok(false) => {},
			Err(e) => {
				self.fail(&format!("process_reindex failed: {:?}", e));
				return false
			},
		}
		true
	}

	/// process everything queued, flush, enact: with one model line per step
	fn drain_traced(&mut self) {
		while self.sut.queued > 0 && self.ok {
			if !self.process_traced() {
				return
			}
		}
		let r = self.sut.flush();
		self.t.op("c10 flush", &res(&r));
		if let Err(e) = r {
			self.fail(&format!("flush_logs failed: {:?}", e));
			return
		}
		let r = self.sut.enact_all();
		self.t.op("c10 enact", &res(&r));
		if let Err(e) = r {
			self.fail(&format!("enact_logs failed: {:?}", e));
		}
	}
}

// ------------------------------------------------------------------------------------------
// Transactions

#[derive(Clone, Debug)]
enum TxOp {
	Insert { ci: usize, key: Vec<u8>, g: GNode, mf: usize },
	Ref { ci: usize, key: Vec<u8> },
	Deref { ci: usize, key: Vec<u8> },
	KvSet { ci: usize, key: Vec<u8>, val: String },
	KvDel { ci: usize, key: Vec<u8> },
	KvRef { ci: usize, key: Vec<u8> },
}

impl TxOp {
	fn ci(&self) -> usize {
		match self {
			TxOp::Insert { ci, .. } |
			TxOp::Ref { ci, .. } |
			TxOp::Deref { ci, .. } |
			TxOp::KvSet { ci, .. } |
			TxOp::KvDel { ci, .. } |
			TxOp::KvRef { ci, .. } => *ci,
		}
	}
	fn kind(&self) -> &'static str {
		match self {
			TxOp::Insert { .. } => "insert",
			TxOp::Ref { .. } => "ref",
			TxOp::Deref { .. } => "deref",
			TxOp::KvSet { .. } => "kvset",
			TxOp::KvDel { .. } => "kvdel",
			TxOp::KvRef { .. } => "kvref",
		}
	}
}

struct InsertShape {
	depth: usize,
	wide: Option<usize>,
	mass: Option<bool>, // Some(first): the mass-sharing trees
}

impl<'a> Case<'a> {
	/// Is this operation acceptable (the property's list, restated; not derived from the model)?
	fn op_valid(&self, op: &TxOp) -> bool {
		let kind = self.sut.cfg.cols[op.ci()];
		match (op, kind) {
			(TxOp::Insert { mf, .. }, ColKind::Tree(_)) => *mf <= 255,
			(TxOp::Ref { .. }, ColKind::Tree(v)) => v != Variant::Plain,
			(TxOp::Deref { ci, key }, ColKind::Tree(v)) => v != Variant::AppendOnly && self.visible(*ci, key),
			(TxOp::KvSet { .. }, ColKind::Kv) | (TxOp::KvDel { .. }, ColKind::Kv) => true,
			_ => false, // tree operation on a key-value column, key-value operation on a tree column, Reference without counting
		}
	}

	fn model_op(&self, op: &TxOp, paths: &[HashMap<usize, (Vec<u8>, Vec<usize>)>]) -> String {
		match op {
			TxOp::Insert { ci, key, g, .. } => {
				let mut s = format!("{} insert {}", ci, hex(key));
				if let ColKind::Tree(_) = self.sut.cfg.cols[*ci] {
					model_tokens(g, &paths[*ci], &mut s);
				} else {
					model_tokens(g, &HashMap::new(), &mut s);
				}
				s
			},
			TxOp::Ref { ci, key } => format!("{} ref {}", ci, hex(key)),
			TxOp::Deref { ci, key } => format!("{} deref {}", ci, hex(key)),
			TxOp::KvSet { ci, key, val } => format!("{} set {} {}", ci, hex(key), val),
			TxOp::KvDel { ci, key } => format!("{} del {}", ci, hex(key)),
			TxOp::KvRef { ci, key } => format!("{} kref {}", ci, hex(key)),
		}
	}

	fn real_op(&mut self, op: &TxOp) -> (u8, Operation<Vec<u8>, Vec<u8>>) {
		match op {
			TxOp::Insert { ci, key, g, .. } => {
				let real = to_real(g, &self.forests[*ci], &mut self.vals);
				(*ci as u8, Operation::InsertTree(key.clone(), real))
			},
			TxOp::Ref { ci, key } => (*ci as u8, Operation::ReferenceTree(key.clone())),
			TxOp::Deref { ci, key } => (*ci as u8, Operation::DereferenceTree(key.clone())),
			TxOp::KvSet { ci, key, val } => (*ci as u8, Operation::Set(key.clone(), self.vals.bytes(val))),
			TxOp::KvDel { ci, key } => (*ci as u8, Operation::Dereference(key.clone())),
			TxOp::KvRef { ci, key } => (*ci as u8, Operation::Reference(key.clone())),
		}
	}

	/// Commit one transaction: model line, oracle verdict, oracle effects, read back.
	/// Returns whether it was accepted.
	fn commit_tx(&mut self, tx: &[TxOp], injected: bool) -> bool {
		let paths: Vec<HashMap<usize, (Vec<u8>, Vec<usize>)>> = self.forests.iter().map(|f| f.paths()).collect();
		// protocol line: the one-operation forms on column 0 keep their old syntax
		let line = if tx.len() == 1 && tx[0].ci() == 0 && matches!(tx[0], TxOp::Insert { .. } | TxOp::Ref { .. } | TxOp::Deref { .. }) {
			let s = self.model_op(&tx[0], &paths);
			format!("c10 {}", &s[2..])
		} else {
			let parts: Vec<String> = tx.iter().map(|o| self.model_op(o, &paths)).collect();
			format!("c10 tx {}", parts.join(" ; "))
		};
		let expect_ok = tx.iter().all(|o| self.op_valid(o));
		let real: Vec<(u8, Operation<Vec<u8>, Vec<u8>>)> = tx.iter().map(|o| self.real_op(o)).collect();
		let tree_cols = self.tree_cols();
		let before: Vec<Option<u64>> = tree_cols.iter().map(|c| self.sut.db().get_num_column_value_entries(*c as u8).ok()).collect();
		let r = self.sut.db().commit_changes(real);
		self.t.op(&line, &res(&r));
		self.ctr.inc(&format!("tx.ops.{}", std::cmp::min(tx.len(), 6)));
		let ncols = { let mut cs: Vec<usize> = tx.iter().map(|o| o.ci()).collect(); cs.sort(); cs.dedup(); cs.len() };
		self.ctr.inc(&format!("tx.columns.{}", ncols));
		for o in tx {
			self.ctr.inc(&format!("op.{}.{}", o.kind(), if r.is_ok() { "ok" } else { "rejected" }));
		}
		if tx.len() > 1 {
			self.ctr.inc(if r.is_ok() { "tx.multi.ok" } else { "tx.multi.rejected" });
			let mut kinds: Vec<&str> = tx.iter().map(|o| o.kind()).collect();
			kinds.sort();
			kinds.dedup();
			self.ctr.inc(&format!("tx.multi.kinds.{}", kinds.join("+")));
		}
		if r.is_ok() != expect_ok {
			if expect_ok {
				self.fail(&format!("valid transaction rejected: {:?} ({})", r, clip(&line)));
			} else {
				self.sut.queued += 1;
				self.pending_dead.push_back(vec![]);
				self.fail(&format!("transaction with an invalid operation was accepted ({})", clip(&line)));
			}
			return r.is_ok()
		}
		if let Err(e) = &r {
			// rejected: no trace.  Entry counts of every tree column, every named tree, the named keys
			self.ctr.inc(&format!("tx.rejected.{}", err_kind(e)));
			if injected {
				self.ctr.inc("tx.rejected.injected");
			}
			let after: Vec<Option<u64>> = tree_cols.iter().map(|c| self.sut.db().get_num_column_value_entries(*c as u8).ok()).collect();
			if before != after {
				self.fail(&format!("rejected transaction changed the entry counts {:?} -> {:?} ({})", before, after, clip(&line)));
			}
			for o in tx {
				match o {
					TxOp::Insert { ci, key, .. } | TxOp::Ref { ci, key } | TxOp::Deref { ci, key } =>
						if self.sut.cfg.cols[*ci].variant().is_some() {
							self.check_tree(*ci, key);
						},
					TxOp::KvSet { ci, key, .. } | TxOp::KvDel { ci, key } | TxOp::KvRef { ci, key } =>
						if self.sut.cfg.cols[*ci] == ColKind::Kv {
							self.check_kv(*ci, key);
						},
				}
			}
			for c in tree_cols {
				self.check_count(c);
			}
			return false
		}
		// accepted
		self.sut.queued += 1;
		let mut dead: Vec<(usize, Vec<u8>)> = vec![];
		// oracle: operations in order, the dereferences after everything else
		for o in tx {
			match o {
				TxOp::Insert { ci, key, g, .. } => {
					let v = self.variant(*ci);
					self.forests[*ci].insert(key, g, v != Variant::AppendOnly);
				},
				TxOp::Ref { ci, key } =>
					if self.variant(*ci) == Variant::Rc {
						if let Some(root) = self.forests[*ci].roots.get_mut(key) {
							root.count += 1;
							self.ctr.inc("op.ref.live_root");
						}
					},
				TxOp::KvSet { key, val, .. } => {
					self.kv.insert(key.clone(), val.clone());
				},
				TxOp::KvDel { key, .. } => {
					self.kv.remove(key);
				},
				TxOp::Deref { .. } | TxOp::KvRef { .. } => {},
			}
		}
		for o in tx {
			if let TxOp::Deref { ci, key } = o {
				if self.forests[*ci].roots.contains_key(key) {
					let nodes_before = self.forests[*ci].nodes.len();
					if self.forests[*ci].deref(key) {
						dead.push((*ci, key.clone()));
						self.ctr.inc("deref.last_reference");
						let freed = nodes_before - self.forests[*ci].nodes.len();
						if freed > 0 {
							self.ctr.add("deref.nodes_freed", freed as u64);
							self.ctr.inc("cases_with.free");
						}
						if !self.forests[*ci].nodes.is_empty() {
							self.ctr.inc("deref.with_survivors");
						}
					}
				} else {
					self.ctr.inc("deref.dead_root_accepted_while_queued");
				}
			}
		}
		self.pending_dead.push_back(dead);
		// read back every inserted tree (commit overlay), learn the addresses of the new nodes
		for o in tx {
			if let TxOp::Insert { ci, key, g, .. } = o {
				let ids = self.forests[*ci].roots[key].children.clone();
				let (forest, vals) = (&mut self.forests[*ci], &mut self.vals);
				let got = with_reader(self.sut.db(), *ci as u8, key, |rd| match rd.root(key) {
					Ok(Some(rootval)) => learn_addresses(rd, g, &rootval, &ids, forest, vals),
					Ok(None) => Err("root not readable after accepted InsertTree".to_string()),
					Err(e) => Err(e),
				})
				.and_then(|x| x);
				if let Err(e) = got {
					self.fail(&format!("read back after InsertTree {}: {}", kname(*ci, key), e));
					return true
				}
			}
		}
		for o in tx {
			match o {
				TxOp::Insert { ci, key, .. } | TxOp::Ref { ci, key } | TxOp::Deref { ci, key } => self.check_tree(*ci, key),
				TxOp::KvSet { ci, key, .. } | TxOp::KvDel { ci, key } | TxOp::KvRef { ci, key } => self.check_kv(*ci, key),
			}
			if !self.ok {
				break
			}
		}
		true
	}

	/// A generated tree for column `ci`, with `Existing` children among the nodes of `wf` (the
	/// forest as it is at this point of the transaction) whose address is known.
	fn gen_tree(&mut self, rng: &mut Rng, wf: &Forest, shape: &InsertShape, thorough: bool) -> (GNode, GenStats) {
		let mut live: Vec<usize> = wf.nodes.iter().filter(|(_, n)| n.addr.is_some()).map(|(id, _)| *id).collect();
		live.sort();
		let mut st = GenStats { new_nodes: 0, existing: 0, max_fan: 0, multipart: 0, depth: 0, expanded: 0, repeated_existing: false };
		let mut budget: isize = if thorough { 600 } else { 250 };
		let fan_mode = rng.below(3);
		let mut used = HashMap::new();
		let mut wide = shape.wide;
		let g = if let Some(first) = shape.mass {
			if first {
				mass_tree(rng, &mut self.vals, wf, &[], &mut st)
			} else {
				mass_tree(rng, &mut self.vals, wf, &live, &mut st)
			}
		} else if wide.is_some() && rng.chance(1, 2) {
			// the wide node sits one level down
			let mut inner_wide = wide.take();
			let mut g = gen_node(rng, &mut self.vals, wf, &live, 1, &mut budget, 2, &mut None, &mut st, 0, &mut used);
			let child = gen_node(rng, &mut self.vals, wf, &live, 1, &mut budget, 0, &mut inner_wide, &mut st, 1, &mut used);
			g.children.push(GRef::New(child));
			g
		} else {
			gen_node(rng, &mut self.vals, wf, &live, shape.depth, &mut budget, fan_mode, &mut wide, &mut st, 0, &mut used)
		};
		(g, st)
	}

	fn insert_stats(&mut self, ci: usize, g: &GNode, st: &mut GenStats) {
		let v = self.variant(ci);
		self.ctr.add("insert.new_nodes", st.new_nodes as u64);
		self.ctr.add("insert.existing_refs", st.existing as u64);
		self.ctr.inc(&format!("insert.sharing.{}", match st.existing { 0 => "0", 1 => "1", 2..=4 => "2-4", 5..=99 => "5-99", _ => "100+" }));
		if st.repeated_existing {
			self.ctr.inc("insert.same_node_several_times");
		}
		fn count_mp(v: Variant, g: &GNode, root: bool) -> usize {
			let mut n = if is_multipart(v, root, &g.data, g.children.len()) { 1 } else { 0 };
			for ch in &g.children {
				if let GRef::New(x) = ch {
					n += count_mp(v, x, false);
				}
			}
			n
		}
		st.multipart = count_mp(v, g, true);
		self.ctr.add("insert.multipart_nodes", st.multipart as u64);
		if st.multipart > 0 {
			self.ctr.inc("insert.with_multipart");
		}
		self.ctr.inc(&format!("insert.expanded.{}", match st.expanded { 0..=1 => "1", 2..=10 => "2-10", 11..=100 => "11-100", 101..=1000 => "101-1000", _ => "1000+" }));
		self.ctr.inc(&format!("insert.maxfan.{}", fan_class(max_fan(g))));
		self.ctr.inc(&format!("insert.depth.{}", st.depth));
	}
}

fn clip(s: &str) -> String {
	if s.len() > 300 {
		format!("{}...[{} bytes]", &s[..300], s.len())
	} else {
		s.to_string()
	}
}

fn gen_key(rng: &mut Rng, i: u64) -> Vec<u8> {
	let len = *rng.pick(&[1u64, 4, 8, 32, 32, 33, 64]) as usize;
	let mut k = vec![];
	while k.len() < len {
		k.extend_from_slice(&rng.next().to_le_bytes());
	}
	k.truncate(len);
	k[0] = i as u8; // distinct
	k
}

fn kv_val(rng: &mut Rng, vals: &mut Values) -> String {
	let len = match rng.below(10) {
		0 => 0,
		1..=6 => rng.range(1, 40),
		7 | 8 => rng.range(40, 600),
		_ => rng.range(4000, 9000),
	};
	vals.canon(format!("v{}_{}", len, rng.below(1 << 30)))
}

pub fn run_case(seed: u64, thorough: bool, root: &Path, t: &mut Trace, ctr: &mut Counters, prop: &str) -> bool {
	let mut rng = Rng::new(seed);
	// separate stream for the drain points added for the structural dumps (t2rc)
	let mut rng_dump = Rng::new(seed ^ 0x7432_7263);
	// separate stream for everything added with transactions / several columns, so that old
	// single-column single-operation histories keep their shape
	let mut rng_tx = Rng::new(seed ^ 0x7478_5f63_3130);
	let v0 = *rng.pick(&[Variant::AppendOnly, Variant::Rc, Variant::Rc, Variant::Plain, Variant::Plain]);
	let mut salt = [0u8; 32];
	for i in 0..4 {
		salt[i * 8..i * 8 + 8].copy_from_slice(&rng.next().to_le_bytes());
	}
	// columns: 1..3 tree columns, optionally one key-value column behind them
	let mut cols = vec![ColKind::Tree(v0)];
	match rng_tx.below(20) {
		0..=10 => {},
		11..=16 => cols.push(ColKind::Tree(*rng_tx.pick(&[Variant::AppendOnly, Variant::Rc, Variant::Plain, Variant::Plain]))),
		_ => {
			cols.push(ColKind::Tree(*rng_tx.pick(&[Variant::Rc, Variant::Plain])));
			cols.push(ColKind::Tree(*rng_tx.pick(&[Variant::AppendOnly, Variant::Rc, Variant::Plain])));
		},
	}
	if rng_tx.chance(1, 3) {
		cols.push(ColKind::Kv);
	}
	let compression = *rng_tx.pick(&[
		CompressionType::NoCompression,
		CompressionType::NoCompression,
		CompressionType::Lz4,
		CompressionType::Snappy,
	]);
	let threshold = if compression != CompressionType::NoCompression && rng_tx.chance(1, 2) { Some(rng_tx.range(8, 64) as u32) } else { None };
	let counting0 = v0 != Variant::AppendOnly;
	// mass sharing (one case in six, counting variants): a first tree with several hundred leaves,
	// later trees that reference hundreds of its nodes in ONE transaction (many reference-count
	// changes in one record, several of them in the same chunk of the ref-count table); the
	// ref-count table starts with 2..16 chunks so that it has to grow (hook)
	let mass = counting0 && rng.chance(1, 6);
	let rcbits = if mass { rng_tx.range(1, 4) as u8 } else if rng_tx.chance(1, 8) { rng_tx.range(1, 3) as u8 } else { 0 };
	let cfg = Cfg { cols: cols.clone(), compression, threshold, rcbits };
	let dir = fresh_dir(root, &format!("c10-{}", seed));
	let colnames: Vec<&str> = cols.iter().map(|c| c.name()).collect();
	t.begin_case(&format!(
		"seed={} columns={} compression={}{} rcbits={}",
		seed,
		colnames.join(","),
		compression_name(compression),
		threshold.map_or(String::new(), |x| format!("/{}", x)),
		rcbits
	));
	t.op(&format!("c10 init {}", colnames.join(" ")), "ok");
	for c in &cols {
		ctr.inc(&format!("variant.{}", c.name()));
	}
	ctr.inc(&format!("columns.{}", cols.len()));
	ctr.inc(&format!("compression.{}", compression_name(compression)));
	ctr.inc(&format!("rcbits.{}", rcbits));
	let sut = Sut::create(cfg, salt, dir.clone());
	let nkeys = rng.range(2, 7);
	let keys: Vec<Vec<u8>> = (0..nkeys).map(|i| gen_key(&mut rng, i)).collect();
	let ncols = cols.len();
	let kvcol = cols.iter().position(|c| *c == ColKind::Kv);
	let mut c = Case {
		sut,
		forests: (0..ncols).map(|_| Forest::default()).collect(),
		kv: BTreeMap::new(),
		vals: Values::default(),
		t,
		ctr,
		prop,
		ok: true,
		pending_dead: VecDeque::new(),
		big_reads: 0,
	};
	let tree_cols = c.tree_cols();
	let nact = rng.range(10, if thorough { 90 } else { 45 }) as usize;
	let mut had_sharing = false;
	let mut big_done = 0;
	let mut mass_stage = 0;
	if mass {
		ctr_inc_mass(c.ctr);
	}

	for _step in 0..nact {
		let a = rng.below(100);
		if a < 58 {
			// ------------------------------------------------------------ a transaction
			// first operation: as the one-operation histories drew it (InsertTree 32, ReferenceTree 8,
			// DereferenceTree 18); then, from the separate stream, further operations
			let nops = if rng_tx.chance(2, 5) { rng_tx.range(2, 5) as usize } else { 1 };
			let mut tx: Vec<TxOp> = vec![];
			// the forests as they are at this point of the transaction (operations in order)
			let mut wf: Vec<Forest> = c.forests.clone();
			let mut used_keys: Vec<(usize, Vec<u8>)> = vec![];
			let mut sharing_here = false;
			for i in 0..nops {
				let (ci, kind) = if i == 0 {
					(0usize, if a < 32 { 0 } else if a < 40 { 1 } else { 2 })
				} else {
					let ci = if let (Some(k), true) = (kvcol, rng_tx.chance(1, 5)) { k } else { *rng_tx.pick(&tree_cols) };
					(ci, match rng_tx.below(10) { 0..=4 => 0, 5 | 6 => 1, _ => 2 })
				};
				if Some(ci) == kvcol {
					let key = rng_tx.pick(&keys).clone();
					if rng_tx.chance(2, 3) {
						let val = kv_val(&mut rng_tx, &mut c.vals);
						tx.push(TxOp::KvSet { ci, key, val });
					} else {
						tx.push(TxOp::KvDel { ci, key });
					}
					continue
				}
				let v = c.variant(ci);
				let r = if i == 0 { &mut rng } else { &mut rng_tx };
				// further operations: mostly valid ones (a transaction with one invalid operation is
				// rejected as a whole; those come from the first operation and from the injection below)
				let kind = if i > 0 && !r.chance(1, 10) {
					let no_live = !c.forests[ci].roots.keys().any(|k| wf[ci].roots.contains_key(k) && !used_keys.iter().any(|(cc, kk)| *cc == ci && kk == k));
					match kind {
						1 if v == Variant::Plain => 0,
						2 if v == Variant::AppendOnly || no_live => 0,
						k => k,
					}
				} else {
					kind
				};
				match kind {
					0 => {
						// InsertTree under a key with no live root that this transaction does not name
						let free_keys: Vec<Vec<u8>> = keys
							.iter()
							.filter(|k| !wf[ci].roots.contains_key(*k) && !used_keys.iter().any(|(cc, kk)| *cc == ci && kk == *k))
							.cloned()
							.collect();
						if free_keys.is_empty() {
							continue
						}
						let key = r.pick(&free_keys).clone();
						let shape_n = r.below(100);
						let mut depth = match shape_n {
							0..=9 => 0,
							10..=49 => r.range(1, 2),
							50..=79 => r.range(2, 3),
							_ => r.range(3, 5),
						} as usize;
						let mut wide = None;
						let mut too_wide = false;
						if shape_n % 10 == 7 && big_done < 2 {
							// one node with a large fan-out somewhere in the tree
							big_done += 1;
							let w = match r.below(6) {
								0 | 1 => 255,
								2 => 256,
								3 => r.range(257, 300),
								4 => r.range(100, 254),
								_ => 254,
							} as usize;
							too_wide = w > 255;
							wide = Some(w);
							depth = std::cmp::max(depth, 1);
						}
						let live_n = wf[ci].nodes.values().filter(|n| n.addr.is_some()).count();
						let counting = v != Variant::AppendOnly;
						let mass_shape = if mass && ci == 0 && counting && !too_wide && mass_stage == 0 {
							mass_stage = 1;
							Some(true)
						} else if mass && ci == 0 && counting && !too_wide && mass_stage >= 1 && live_n >= 150 && r.chance(1, 2) {
							mass_stage += 1;
							Some(false)
						} else {
							None
						};
						if mass_shape.is_some() {
							wide = None;
						}
						let shape = InsertShape { depth, wide, mass: mass_shape };
						let (g, mut st) = c.gen_tree(r, &wf[ci], &shape, thorough);
						let mf = max_fan(&g);
						debug_assert_eq!(too_wide, mf > 255);
						if mf <= 255 {
							c.insert_stats(ci, &g, &mut st);
							if st.existing > 0 {
								sharing_here = true;
							}
							wf[ci].insert(&key, &g, counting);
						} else {
							c.ctr.inc(&format!("insert.maxfan.{}", fan_class(mf)));
						}
						used_keys.push((ci, key.clone()));
						tx.push(TxOp::Insert { ci, key, g, mf });
					},
					1 => {
						let key = r.pick(&keys).clone();
						if used_keys.iter().any(|(cc, kk)| *cc == ci && *kk == key) {
							continue
						}
						if v == Variant::Rc {
							if let Some(root) = wf[ci].roots.get_mut(&key) {
								root.count += 1;
							}
						}
						used_keys.push((ci, key.clone()));
						tx.push(TxOp::Ref { ci, key });
					},
					_ => {
						// DereferenceTree of a root that was live before the call (now and then of one
						// that is not)
						let live_keys: Vec<Vec<u8>> = c.forests[ci]
							.roots
							.keys()
							.filter(|k| wf[ci].roots.contains_key(*k) && !used_keys.iter().any(|(cc, kk)| *cc == ci && kk == *k))
							.cloned()
							.collect();
						let missing = live_keys.is_empty() || r.chance(1, if i == 0 { 8 } else { 16 });
						let key = if missing { r.pick(&keys).clone() } else { r.pick(&live_keys).clone() };
						if used_keys.iter().any(|(cc, kk)| *cc == ci && *kk == key) {
							continue
						}
						if v != Variant::AppendOnly && wf[ci].roots.contains_key(&key) && c.forests[ci].roots.contains_key(&key) {
							wf[ci].deref(&key);
						}
						used_keys.push((ci, key.clone()));
						tx.push(TxOp::Deref { ci, key });
					},
				}
			}
			if tx.is_empty() {
				continue
			}
			// now and then one invalid operation at a random position of a multi-operation transaction
			let mut injected = false;
			if tx.len() > 1 && rng_tx.chance(1, 5) {
				let mut cands: Vec<TxOp> = vec![];
				let fresh_key = {
					let mut k = rng_tx.pick(&keys).clone();
					k[0] = 0xf0 + rng_tx.below(8) as u8;
					k
				};
				for ci in 0..ncols {
					match cols[ci] {
						ColKind::Tree(v) => {
							let w = rng_tx.range(256, 300) as usize;
							let leafs = (0..w).map(|_| GRef::New(GNode { data: c.vals.canon("v1_1".into()), children: vec![] })).collect();
							cands.push(TxOp::Insert { ci, key: fresh_key.clone(), g: GNode { data: c.vals.canon("v2_2".into()), children: leafs }, mf: w });
							cands.push(TxOp::Deref { ci, key: fresh_key.clone() });
							if v == Variant::Plain {
								cands.push(TxOp::Ref { ci, key: rng_tx.pick(&keys).clone() });
							}
							cands.push(TxOp::KvSet { ci, key: fresh_key.clone(), val: c.vals.canon("v3_3".into()) });
							cands.push(TxOp::KvRef { ci, key: fresh_key.clone() });
						},
						ColKind::Kv => {
							cands.push(TxOp::KvRef { ci, key: rng_tx.pick(&keys).clone() });
							cands.push(TxOp::Deref { ci, key: fresh_key.clone() });
							cands.push(TxOp::Insert { ci, key: fresh_key.clone(), g: GNode { data: c.vals.canon("v2_2".into()), children: vec![] }, mf: 0 });
						},
					}
				}
				let bad = rng_tx.pick(&cands).clone();
				let pos = rng_tx.below(tx.len() as u64 + 1) as usize;
				c.ctr.inc(&format!("tx.invalid_at.{}", if pos == 0 { "first" } else if pos == tx.len() { "last" } else { "middle" }));
				c.ctr.inc(&format!("tx.invalid_kind.{}.on.{}", bad.kind(), cols[bad.ci()].name()));
				tx.insert(pos, bad);
				injected = true;
			}
			let accepted = c.commit_tx(&tx, injected);
			if accepted && sharing_here {
				had_sharing = true;
			}
			if !c.ok {
				break
			}
			if rng.chance(1, 2) {
				c.check_count(0);
			}
		} else if a < 72 {
			if !c.process_traced() {
				break
			}
			if rng.chance(1, 2) {
				c.check_count(0);
			}
		} else if a < 77 {
			let r = c.sut.flush();
			c.t.op("c10 flush", &res(&r));
			c.ctr.inc("op.flush");
		} else if a < 85 {
			let r = c.sut.enact_all();
			c.t.op("c10 enact", &res(&r));
			c.ctr.inc("op.enact");
			if let Err(e) = r {
				c.fail(&format!("enact_logs failed: {:?}", e));
				break
			}
			c.check_rc_dump("enact");
			// reindexing is gated on the enactment of the record that started it
			if c.sut.cfg.rcbits > 0 && rng_tx.chance(1, 2) {
				let n = rng_tx.range(1, 3);
				for _ in 0..n {
					if !c.reindex_traced() {
						break
					}
				}
			}
		} else if a < 88 {
			let r = c.sut.clean();
			c.t.op("c10 clean", &res(&r));
			c.ctr.inc("op.clean");
		} else if a < 92 {
			let r = c.sut.reopen();
			c.t.op("c10 reopen", &res(&r));
			c.ctr.inc("op.reopen");
			c.pending_dead.clear();
			if let Err(e) = r {
				c.fail(&format!("reopen failed: {:?}", e));
				break
			}
			let ks = keys.clone();
			for ci in tree_cols.clone() {
				for k in &ks {
					c.check_tree(ci, k);
				}
				c.check_count(ci);
			}
			if let Some(kc) = kvcol {
				for k in &ks {
					c.check_kv(kc, k);
				}
			}
			c.check_rc_dump("reopen");
		} else {
			// reads
			let key = rng.pick(&keys).clone();
			let ci = if tree_cols.len() > 1 { *rng_tx.pick(&tree_cols) } else { 0 };
			match rng.below(3) {
				0 => c.check_tree(ci, &key),
				1 => c.check_root(ci, &key),
				_ => {
					let paths = c.forests[ci].paths();
					let mut ids: Vec<usize> = paths.keys().cloned().collect();
					ids.sort();
					if !ids.is_empty() {
						let id = *rng.pick(&ids);
						let p = paths[&id].clone();
						c.check_node(ci, id, &p);
					}
				},
			}
			c.check_count(ci);
		}
		if c.sut.queued > 0 && c.sut.logged > 0 {
			c.ctr.inc("obs.multi_stage_states");
		}
		if !c.ok {
			break
		}
		if rng_dump.chance(1, 9) {
			// drain point: the forest on disk must be exactly the oracle's forest
			c.drain_traced();
			c.check_rc_dump("drain");
			if !c.ok {
				break
			}
		}
	}

	if c.ok {
		// all trees as they are, at whatever stage the history ended
		let ks = keys.clone();
		for ci in tree_cols.clone() {
			for k in &ks {
				c.check_tree(ci, k);
			}
			// reachability = presence: every oracle node must be reachable (oracle self-check)
			if c.forests[ci].paths().len() != c.forests[ci].nodes.len() {
				c.fail("oracle inconsistency: a counted node is unreachable");
			}
		}
		if c.ok && c.sut.cfg.rcbits > 0 {
			// with everything in the tables: let the ref-count reindex run for a while, dumps in between
			c.drain_traced();
			c.check_rc_dump("before_reindex");
			let mut rounds = 0;
			while c.ok && c.sut.reindex_pending() && rounds < 40 {
				if !c.reindex_traced() {
					break
				}
				c.drain_traced();
				if rounds % 3 == 0 {
					c.check_rc_dump("reindexing");
				}
				rounds += 1;
			}
			if c.ok && !c.sut.reindex_pending() {
				c.ctr.inc("reindex.completed");
				c.check_rc_dump("reindexed");
			}
		}
		// dereference everything, drain: zero entries (several roots per transaction now and then)
		let mut todo: Vec<(usize, Vec<u8>)> = vec![];
		for ci in tree_cols.clone() {
			if c.variant(ci) != Variant::AppendOnly {
				for (k, r) in c.forests[ci].roots.iter() {
					for _ in 0..r.count {
						todo.push((ci, k.clone()));
					}
				}
			}
		}
		while !todo.is_empty() && c.ok {
			// the same root at most once per transaction
			let mut tx: Vec<TxOp> = vec![];
			let want = if rng_tx.chance(1, 3) { rng_tx.range(2, 4) as usize } else { 1 };
			let mut i = 0;
			while i < todo.len() && tx.len() < want {
				let (ci, k) = todo[i].clone();
				if tx.iter().any(|o| matches!(o, TxOp::Deref { ci: c2, key } if *c2 == ci && *key == k)) {
					i += 1;
					continue
				}
				todo.remove(i);
				tx.push(TxOp::Deref { ci, key: k });
			}
			if !c.commit_tx(&tx, false) {
				c.fail("final DereferenceTree of live roots rejected");
			}
			// process some of them one at a time so that walks interleave with later commits
			if rng.chance(1, 2) && c.ok {
				c.process_traced();
			}
		}
		while c.sut.queued > 0 && c.ok {
			c.process_traced();
		}
		if c.ok {
			for ci in tree_cols.clone() {
				if c.variant(ci) == Variant::AppendOnly {
					continue
				}
				if !c.forests[ci].nodes.is_empty() || !c.forests[ci].roots.is_empty() {
					c.fail("oracle inconsistency: forest not empty after dereferencing every root");
				}
				c.check_count(ci);
				match c.sut.db().get_num_column_value_entries(ci as u8) {
					Ok(0) => c.ctr.inc("final.zero_entries"),
					other => c.fail(&format!("after dereferencing every tree column {} holds {:?} entries", ci, other)),
				}
				for k in &ks {
					c.check_tree(ci, k);
				}
			}
		}
		if c.ok {
			let r = c.sut.drain();
			if let Err(e) = r {
				c.fail(&format!("drain failed: {:?}", e));
			} else {
				c.check_rc_dump("final_drain");
			}
		}
		if c.ok {
			let r = c.sut.reopen();
			c.t.op("c10 reopen", &res(&r));
			c.pending_dead.clear();
			if let Err(e) = r {
				c.fail(&format!("final reopen failed: {:?}", e));
			} else {
				for ci in tree_cols.clone() {
					for k in &ks {
						c.check_tree(ci, k);
					}
					c.check_count(ci);
				}
				if let Some(kc) = kvcol {
					for k in &ks {
						c.check_kv(kc, k);
					}
				}
				c.check_rc_dump("final_reopen");
			}
		}
	}
	if c.ok {
		scenarios(&mut c, seed, &mut rng_tx);
	}
	if c.ok && seed % 50 == 3 {
		// compression on a multitree column: `ColumnOptions::is_valid` refuses the combination and
		// `Db::open` asserts validity, so there is nothing to exercise; noticed if that changes
		let d2 = fresh_dir(root, &format!("c10-compr-{}", seed));
		let mut o = options(&Cfg { cols: vec![ColKind::Tree(Variant::Plain)], compression: CompressionType::NoCompression, threshold: None, rcbits: 0 }, &d2, salt);
		o.columns[0].compression = if seed % 100 == 3 { CompressionType::Lz4 } else { CompressionType::Snappy };
		let hook = std::panic::take_hook();
		std::panic::set_hook(Box::new(|_| {}));
		let r = std::panic::catch_unwind(std::panic::AssertUnwindSafe(|| Db::open_or_create(&o).map(|_| ())));
		std::panic::set_hook(hook);
		let _ = std::fs::remove_dir_all(&d2);
		match r {
			Ok(Ok(())) => {
				c.ctr.inc("compression.multitree_accepted");
				c.t.comment("a multitree column with compression was opened: not exercised by this harness");
			},
			_ => c.ctr.inc("compression.multitree_refused"),
		}
	}
	if c.ok && seed % 50 == 7 {
		c.ctr.inc("scenario.deep_chain");
		if !deep_scenario(seed, root, c.t, c.ctr, prop) {
			c.ok = false;
		}
	}
	if !c.ok && c.sut.db.is_some() {
		// post mortem of a failed case: what does the Lean checker say about the forest the
		// failure left behind?  (expected `ok`: a `bad:` shows up as a model disagreement next to
		// the oracle failure; no oracle comparison, the oracle is off already)
		if c.sut.drain().is_ok() && c.quiescent() {
			for ci in tree_cols.clone() {
				if let Ok(Some(d)) = c.sut.db().verif_multitree_dump(ci as u8) {
					let (line, st) = t2rc_line(&d, &[]);
					c.t.op(&line, "ok");
					t2rc_count(c.ctr, "post_mortem", &d, &st, 0);
				}
			}
		}
	}
	c.sut.close();
	parity_db::verif::set_min_ref_count_bits(0);
	let _ = std::fs::remove_dir_all(&dir);
	let had_free = c.ctr.0.remove("cases_with.free").is_some();
	let nontrivial = had_sharing || had_free;
	if had_sharing && had_free {
		c.ctr.inc("cases.sharing_and_free");
	}
	c.ctr.inc("cases");
	if nontrivial {
		c.ctr.inc("cases.nontrivial");
	}
	let ok = c.ok;
	c.t.end_case(nontrivial);
	ok
}

// ------------------------------------------------------------------------------------------
// Scenarios at the end of a case (the database is drained, every counting column is empty):
// transactions that name a root key twice, keys with a live root, dangling addresses, a stored
// background error.  The model predicts the implementation in all of them (op lines); the oracle
// judges only what the property covers.

fn small_tree(vals: &mut Values, tag: u64, leaves: usize) -> GNode {
	GNode {
		data: vals.canon(format!("v9_{}", 3 * tag + 1)),
		children: (0..leaves)
			.map(|i| GRef::New(GNode { data: vals.canon(format!("v5_{}", 3 * (10 * tag + i as u64) + 1)), children: vec![] }))
			.collect(),
	}
}

impl<'a> Case<'a> {
	/// model line + observation of a tree, no oracle judgement
	fn obs_tree(&mut self, ci: usize, key: &[u8]) -> String {
		let r = with_reader(self.sut.db(), ci as u8, key, |rd| rd.render(key, &self.vals)).and_then(|x| x);
		let obs = match r {
			Ok(o) => o,
			Err(e) => format!("read-error {}", e),
		};
		self.t.op(&format!("c10 tree {}", kname(ci, key)), &obs);
		obs
	}
	fn obs_count(&mut self, ci: usize) -> Result<u64, String> {
		let r = self.sut.db().get_num_column_value_entries(ci as u8);
		let obs = match &r {
			Ok(n) => n.to_string(),
			Err(e) => format!("err:{}", err_kind(e)),
		};
		self.t.op(&if ci == 0 { "c10 count".to_string() } else { format!("c10 count {}", ci) }, &obs);
		r.map_err(|e| format!("{:?}", e))
	}
	/// commit without oracle (model line only)
	fn raw_commit(&mut self, tx: &[TxOp]) -> Result<(), parity_db::Error> {
		let paths: Vec<HashMap<usize, (Vec<u8>, Vec<usize>)>> = self.forests.iter().map(|f| f.paths()).collect();
		let parts: Vec<String> = tx.iter().map(|o| self.model_op(o, &paths)).collect();
		let real: Vec<(u8, Operation<Vec<u8>, Vec<u8>>)> = tx.iter().map(|o| self.real_op(o)).collect();
		let r = self.sut.db().commit_changes(real);
		self.t.op(&format!("c10 tx {}", parts.join(" ; ")), &res(&r));
		if r.is_ok() {
			self.sut.queued += 1;
			self.pending_dead.push_back(vec![]);
		}
		r
	}
	fn first_col(&self, want: &[Variant]) -> Option<usize> {
		self.tree_cols().into_iter().find(|c| want.contains(&self.variant(*c)))
	}
}

fn scenarios(c: &mut Case, seed: u64, rng: &mut Rng) {
	let sel = seed % 8;
	let key = vec![0xee, 0x01];
	let key2 = vec![0xee, 0x02];
	match sel {
		0 => {
			// a transaction that inserts a tree and then fails on a later operation must be rejected
			// as a whole: no root readable, no slot claimed
			if let Some(ci) = c.first_col(&[Variant::Plain]) {
				c.ctr.inc("scenario.rejected_tx_after_insert");
				let g = small_tree(&mut c.vals, 1, 2);
				let tx = vec![TxOp::Insert { ci, key: key.clone(), g, mf: 2 }, TxOp::Ref { ci, key: key.clone() }];
				if c.commit_tx(&tx, true) {
					c.fail("scenario: transaction [InsertTree k, ReferenceTree k] accepted on a column without ref_counted");
				}
			}
		},
		1 | 7 => {
			// [DereferenceTree k, InsertTree k t'] - "replace the tree under k" in one transaction
			// (finding F41, fixed: `write_plan` postpones the root Set of a key that is dereferenced in
			// the same change set until after the node changes).  Read in order this is legal (k has
			// no live root when it is inserted) and must leave k -> t': the queued read shows t', after
			// processing k reads back as t' with exactly the entries of t', after a reopen too, and a
			// final DereferenceTree k leaves the column as it was.  Before the fix: plain column: k
			// gone, the nodes of t' leaked; ref-counted column: k keeps the OLD tree, the nodes of t'
			// leaked.  sel == 7: the old tree and t' both share a node with a third tree (`Existing`):
			// the shared node must survive with its count.
			let want = if sel == 1 { [Variant::Plain, Variant::Rc] } else { [Variant::Rc, Variant::Plain] };
			let ci = match c.first_col(&want[..1]).or_else(|| c.first_col(&want[1..])) {
				Some(ci) => ci,
				None => return,
			};
			c.ctr.inc("scenario.deref_insert_same_key");
			let base = c.obs_count(ci);
			let shared: Option<usize> = if sel == 7 {
				// a third tree m (2 leaves) under key2; its first leaf is shared below
				let m = small_tree(&mut c.vals, 9, 2);
				if !c.commit_tx(&[TxOp::Insert { ci, key: key2.clone(), g: m, mf: 2 }], false) {
					return
				}
				c.drain_traced();
				c.forests[ci].roots.get(&key2).map(|r| r.children[0])
			} else {
				None
			};
			let with_shared = |mut g: GNode| {
				if let Some(id) = shared {
					g.children.insert(0, GRef::Existing(id));
				}
				g
			};
			let g1 = with_shared(small_tree(&mut c.vals, 2, 2));
			let mf1 = g1.children.len();
			if !c.commit_tx(&[TxOp::Insert { ci, key: key.clone(), g: g1.clone(), mf: mf1 }], false) {
				return
			}
			c.drain_traced();
			let before = c.obs_count(ci);
			let g2 = with_shared(small_tree(&mut c.vals, 3, 1));
			let mf2 = g2.children.len();
			let tx = vec![TxOp::Deref { ci, key: key.clone() }, TxOp::Insert { ci, key: key.clone(), g: g2.clone(), mf: mf2 }];
			let r = c.raw_commit(&tx);
			if r.is_err() {
				c.fail(&format!("scenario: [DereferenceTree k, InsertTree k] on a live root rejected: {:?}", r));
				return
			}
			// the oracle, in the order given: the old tree is dereferenced, then the new one inserted
			c.forests[ci].deref(&key);
			c.forests[ci].insert(&key, &g2, true);
			let exp = c.forests[ci].render(&key);
			let exp_entries = (c.forests[ci].nodes.len() + c.forests[ci].roots.len()) as u64;
			// old tree: root + 2 new leaves; new tree: root + 1 new leaf (the shared node stays)
			if before.as_ref().ok().map(|b| *b - 1) != Some(exp_entries) {
				c.fail(&format!("scenario: oracle bookkeeping: {:?} entries before the replacement, {} expected after it", before, exp_entries));
			}
			let queued_view = c.obs_tree(ci, &key);
			if queued_view != exp {
				c.fail(&format!("scenario: after [DereferenceTree k, InsertTree k] the tree reads {} before processing, expected {}", clip(&queued_view), exp));
			}
			// learn the addresses of the new nodes (structural dump below)
			{
				let ids = c.forests[ci].roots[&key].children.clone();
				let (forest, vals) = (&mut c.forests[ci], &mut c.vals);
				let got = with_reader(c.sut.db(), ci as u8, &key, |rd| match rd.root(&key) {
					Ok(Some(rootval)) => learn_addresses(rd, &g2, &rootval, &ids, forest, vals),
					Ok(None) => Err("root not readable after accepted InsertTree".to_string()),
					Err(e) => Err(e),
				})
				.and_then(|x| x);
				if let Err(e) = got {
					c.fail(&format!("scenario: read back after [DereferenceTree k, InsertTree k]: {}", e));
					return
				}
			}
			c.drain_traced();
			let obs = c.obs_tree(ci, &key);
			let count = c.obs_count(ci);
			if obs == exp && count == Ok(exp_entries) {
				c.ctr.inc("scenario.deref_insert_same_key.replaced");
			} else {
				c.fail(&format!(
					"DEREF-INSERT-SAME-KEY (finding F41): transaction [DereferenceTree k, InsertTree k t'] on a live root ({} column): accepted, k reads as t' while queued, after processing k reads {} and the column holds {:?} entries (in the order given: k -> {}, {} entries)",
					c.variant(ci).name(),
					clip(&obs),
					count,
					clip(&exp),
					exp_entries
				));
				return
			}
			if shared.is_some() {
				c.check_tree(ci, &key2);
				c.ctr.inc("scenario.deref_insert_same_key.shared_node");
			}
			let r = c.sut.clean();
			c.t.op("c10 clean", &res(&r));
			c.check_rc_dump("scenario");
			// ... and after a reopen
			let r = c.sut.reopen();
			c.t.op("c10 reopen", &res(&r));
			if let Err(e) = r {
				c.fail(&format!("scenario: reopen failed: {:?}", e));
				return
			}
			c.check_tree(ci, &key);
			c.check_count(ci);
			c.check_rc_dump("scenario_reopen");
			// give the trees up: nothing may be left
			let mut last = vec![TxOp::Deref { ci, key: key.clone() }];
			if shared.is_some() {
				last.push(TxOp::Deref { ci, key: key2.clone() });
			}
			c.commit_tx(&last, false);
			c.drain_traced();
			c.check_tree(ci, &key);
			c.check_count(ci);
			match (c.sut.db().get_num_column_value_entries(ci as u8), &base) {
				(Ok(n), Ok(b)) if n == *b => c.ctr.inc("scenario.deref_insert_same_key.reclaimed"),
				(other, _) => c.fail(&format!("scenario: after the final DereferenceTree the column holds {:?} entries ({:?} before the scenario)", other, base)),
			}
		},
		2 => {
			// admissible: [DereferenceTree k, ReferenceTree k] on a root with count 1 keeps the tree
			// (the references of a transaction are counted before its dereferences)
			if let Some(ci) = c.first_col(&[Variant::Rc]) {
				c.ctr.inc("scenario.deref_ref_same_key");
				let g = small_tree(&mut c.vals, 4, 2);
				if !c.commit_tx(&[TxOp::Insert { ci, key: key.clone(), g, mf: 2 }], false) {
					return
				}
				if rng.chance(1, 2) {
					c.drain_traced();
				}
				c.commit_tx(&[TxOp::Deref { ci, key: key.clone() }, TxOp::Ref { ci, key: key.clone() }], false);
				c.drain_traced();
				c.check_tree(ci, &key);
				c.check_count(ci);
				c.check_rc_dump("scenario");
				c.commit_tx(&[TxOp::Deref { ci, key: key.clone() }], false);
				c.drain_traced();
				c.check_tree(ci, &key);
				c.check_count(ci);
			}
		},
		3 | 4 => {
			// OUTSIDE the property's quantifier (live root keys are distinct), accepted by the Db:
			// InsertTree under a key whose root is live (3) / twice under one key in one transaction
			// (4).  plain: the last root replaces the other, whose new nodes leak; ref-counted: the
			// first root stays with count 2, the nodes of the second leak.  Model agreement only.
			let ci = match c.first_col(&[Variant::Plain, Variant::Rc]) {
				Some(ci) => ci,
				None => return,
			};
			c.ctr.inc(if sel == 3 { "scenario.insert_live_key" } else { "scenario.insert_twice_one_tx" });
			let g1 = small_tree(&mut c.vals, 5, 2);
			let g2 = small_tree(&mut c.vals, 6, 1);
			c.t.comment("scenario outside the quantifier of C10: two InsertTrees under one root key (no oracle judgement)");
			if sel == 3 {
				if c.raw_commit(&[TxOp::Insert { ci, key: key.clone(), g: g1, mf: 2 }]).is_err() {
					return
				}
				if rng.chance(1, 2) {
					c.drain_traced();
				}
				let _ = c.raw_commit(&[TxOp::Insert { ci, key: key.clone(), g: g2, mf: 1 }]);
			} else {
				let _ = c.raw_commit(&[TxOp::Insert { ci, key: key.clone(), g: g1, mf: 2 }, TxOp::Insert { ci, key: key.clone(), g: g2, mf: 1 }]);
			}
			c.obs_tree(ci, &key);
			c.drain_traced();
			c.obs_tree(ci, &key);
			let _ = c.obs_count(ci);
			for _ in 0..2 {
				let r = c.raw_commit(&[TxOp::Deref { ci, key: key.clone() }]);
				c.drain_traced();
				c.obs_tree(ci, &key);
				let n = c.obs_count(ci);
				if r.is_err() {
					c.t.comment(&format!("after the last DereferenceTree the column holds {:?} entries (leaked nodes)", n));
					break
				}
			}
			// OUTSIDE `DerefApart` (a DereferenceTree k after an InsertTree k in one transaction):
			// [DereferenceTree k, InsertTree k t', DereferenceTree k].  Both dereferences carry the
			// children of the OLD root and are planned before the postponed root Set: k -> t' stays
			// (in the order given the second dereference would give t' up again).  Model agreement only.
			c.t.comment("scenario outside DerefApart: [DereferenceTree k, InsertTree k, DereferenceTree k] (no oracle judgement)");
			let g3 = small_tree(&mut c.vals, 10, 2);
			let g4 = small_tree(&mut c.vals, 11, 1);
			if c.raw_commit(&[TxOp::Insert { ci, key: key2.clone(), g: g3, mf: 2 }]).is_err() {
				return
			}
			c.drain_traced();
			let r = c.raw_commit(&[
				TxOp::Deref { ci, key: key2.clone() },
				TxOp::Insert { ci, key: key2.clone(), g: g4, mf: 1 },
				TxOp::Deref { ci, key: key2.clone() },
			]);
			c.ctr.inc(if r.is_ok() { "scenario.deref_insert_deref.accepted" } else { "scenario.deref_insert_deref.rejected" });
			c.obs_tree(ci, &key2);
			c.drain_traced();
			c.obs_tree(ci, &key2);
			let _ = c.obs_count(ci);
			let _ = c.raw_commit(&[TxOp::Deref { ci, key: key2.clone() }]);
			c.drain_traced();
			c.obs_tree(ci, &key2);
			let _ = c.obs_count(ci);
		},
		5 => {
			// OUTSIDE the quantifier (children name nodes of live trees), accepted by the Db: an
			// `Existing` child whose address is a freed slot.  The tree is stored with a dangling
			// child and a reference count of 2 is recorded for the free slot.  Model agreement only.
			let ci = match c.first_col(&[Variant::Plain, Variant::Rc]) {
				Some(ci) => ci,
				None => return,
			};
			c.ctr.inc("scenario.dangling_existing");
			let g1 = small_tree(&mut c.vals, 7, 1);
			if !c.commit_tx(&[TxOp::Insert { ci, key: key.clone(), g: g1, mf: 1 }], false) {
				return
			}
			c.drain_traced();
			let addr = match c.sut.db().get_root(ci as u8, &key) {
				Ok(Some((_, ch))) if ch.len() == 1 => ch[0],
				_ => return,
			};
			c.commit_tx(&[TxOp::Deref { ci, key: key.clone() }], false);
			c.drain_traced();
			c.t.comment("scenario outside the quantifier of C10: Existing child at a freed address (no oracle judgement)");
			let data = c.vals.canon("v7_22".into());
			let real = NewNode { data: c.vals.bytes(&data), children: vec![NodeRef::Existing(addr)] };
			let r = c.sut.db().commit_changes(vec![(ci as u8, Operation::InsertTree(key2.clone(), real))]);
			c.t.op(&format!("c10 tx {} insert {} n1:{} #4000000000", ci, hex(&key2), data), &res(&r));
			if r.is_ok() {
				c.sut.queued += 1;
				c.pending_dead.push_back(vec![]);
			}
			c.obs_tree(ci, &key2);
			c.drain_traced();
			c.obs_tree(ci, &key2);
			let _ = c.obs_count(ci);
			let _ = c.raw_commit(&[TxOp::Deref { ci, key: key2.clone() }]);
			c.drain_traced();
			c.obs_tree(ci, &key2);
			let _ = c.obs_count(ci);
		},
		_ => {
			// a stored background error refuses every commit, without trace (C08 / F23)
			let ci = c.tree_cols()[0];
			c.ctr.inc("scenario.background_error");
			let before = c.obs_count(ci);
			c.sut.db().verif_store_err(Err(parity_db::Error::Io(std::io::Error::new(std::io::ErrorKind::Other, "injected by the c10 harness"))));
			c.t.op("c10 bgerr", "ok");
			let g = small_tree(&mut c.vals, 8, 3);
			let r = c.raw_commit(&[TxOp::Insert { ci, key: key.clone(), g, mf: 3 }]);
			match &r {
				Err(e) if err_kind(e) == "Background" => {},
				other => c.fail(&format!("commit after a stored background error returned {:?}", other.as_ref().map_err(err_kind))),
			}
			let after = c.obs_count(ci);
			if before != after {
				c.fail(&format!("commit refused because of a background error changed the entry count {:?} -> {:?}", before, after));
			}
			let obs = c.obs_tree(ci, &key);
			if obs != "none" {
				c.fail("commit refused because of a background error left a readable root");
			}
		},
	}
}

// ------------------------------------------------------------------------------------------
// Deep trees (finding F42, fixed: `write_dereference_children_plan` walks with an explicit stack;
// the scenario now REQUIRES chains of 13 000..20 000 levels to be dereferenced on a 2 MiB stack).
// Before the fix `write_dereference_children_plan` (the log worker) recursed on the Rust stack, one
// frame per tree level; `validate_node` and `claim_node` (the committing thread) still do, for a
// deep NewNode of ONE InsertTree.  A
// chain of nodes with one child each is built by SHALLOW transactions (InsertTree of a root with
// one new node whose only child is `Existing(previous top)`, DereferenceTree of the previous
// root), then the top is dereferenced: the walk recurses to the depth of the chain.  The log
// worker of a production Db is a `std::thread::spawn` thread (2 MiB of stack): a chain of about
// 11 000 nodes overflowed it and the process aborted (SIGABRT); after a restart the tree was still
// there and every new attempt to dereference it killed the process again.  The experiment runs in
// a child process (`PDB_C10_DEEP_CHILD=<depth>:<dir>`).

fn deep_child(spec: &str) -> u64 {
	let mut it = spec.splitn(2, ':');
	let n: usize = it.next().unwrap().parse().unwrap();
	let dir = PathBuf::from(it.next().unwrap());
	let cfg = Cfg { cols: vec![ColKind::Tree(Variant::Plain)], compression: CompressionType::NoCompression, threshold: None, rcbits: 0 };
	let db = Db::open_or_create(&options(&cfg, &dir, [7u8; 32])).expect("create");
	let key = |i: usize| format!("k{}", i).into_bytes();
	let drain = |db: &Db| {
		db.flush_logs().unwrap();
		for _ in 0..4 {
			db.enact_logs().unwrap();
			db.clean_logs().unwrap();
		}
	};
	let leaf = NewNode { data: b"n0".to_vec(), children: vec![] };
	db.commit_changes(vec![(0u8, Operation::InsertTree(key(0), NewNode { data: b"r".to_vec(), children: vec![NodeRef::New(leaf)] }))]).unwrap();
	db.process_commits().unwrap();
	let mut top = db.get_root(0, &key(0)).unwrap().unwrap().1[0];
	for i in 1..=n {
		let node = NewNode { data: b"n".to_vec(), children: vec![NodeRef::Existing(top)] };
		db.commit_changes(vec![
			(0u8, Operation::InsertTree(key(i), NewNode { data: b"r".to_vec(), children: vec![NodeRef::New(node)] })),
			(0u8, Operation::DereferenceTree(key(i - 1))),
		])
		.unwrap();
		db.process_commits().unwrap();
		top = db.get_root(0, &key(i)).unwrap().unwrap().1[0];
		if i % 200 == 0 {
			drain(&db);
		}
	}
	drain(&db);
	println!("deep-built depth={} entries={:?}", n, db.get_num_column_value_entries(0));
	db.commit_changes(vec![(0u8, Operation::DereferenceTree(key(n)))]).unwrap();
	// as the log worker of a production Db: a thread with the default 2 MiB stack
	let r = std::thread::scope(|s| {
		std::thread::Builder::new().stack_size(2 << 20).spawn_scoped(s, || db.process_commits()).unwrap().join()
	});
	drain(&db);
	println!("deep-done process={:?} entries={:?}", r.map(|x| x.is_ok()).unwrap_or(false), db.get_num_column_value_entries(0));
	drop(db);
	0
}

/// Run the deep-chain experiment for `depth` in a child process; (built, finished with zero entries, stack overflow seen)
fn deep_parent(root: &Path, depth: usize, tag: u64) -> (bool, bool, bool, String) {
	let dir = fresh_dir(root, &format!("c10-deep-{}-{}", tag, depth));
	let exe = match std::env::current_exe() {
		Ok(e) => e,
		Err(_) => return (false, false, false, "no current_exe".into()),
	};
	let out = std::process::Command::new(exe)
		.args(["c10", "--prop", "C10", "--cases", "0"])
		.env("PDB_C10_DEEP_CHILD", format!("{}:{}", depth, dir.display()))
		.output();
	let _ = std::fs::remove_dir_all(&dir);
	match out {
		Err(e) => (false, false, false, format!("spawn failed: {:?}", e)),
		Ok(o) => {
			let so = String::from_utf8_lossy(&o.stdout).to_string();
			let se = String::from_utf8_lossy(&o.stderr).to_string();
			let built = so.contains("deep-built");
			let done = so.contains("deep-done process=true entries=Ok(0)");
			let overflow = se.contains("overflowed its stack") || se.contains("stack overflow");
			(built, done, overflow, format!("status={:?} stdout={:?} stderr={:?}", o.status, clip(&so), clip(&se)))
		},
	}
}

fn deep_scenario(seed: u64, root: &Path, t: &mut Trace, ctr: &mut Counters, prop: &str) -> bool {
	let mut ok = true;
	// a moderately deep tree must simply work
	let shallow = 1500 + (seed % 1500) as usize;
	let (built, done, overflow, info) = deep_parent(root, shallow, seed);
	t.comment(&format!("deep chain depth={} -> built={} done={} overflow={}", shallow, built, done, overflow));
	if !(built && done) {
		t.oracle_fail(prop, &format!("a chain of {} nodes could not be built and dereferenced: {}", shallow, info));
		ok = false;
	} else {
		ctr.inc("deep.shallow_ok");
	}
	let depth = 13000 + (seed % 7000) as usize;
	let (built, done, overflow, info) = deep_parent(root, depth, seed);
	t.comment(&format!("deep chain depth={} -> built={} done={} overflow={}", depth, built, done, overflow));
	if built && done {
		ctr.inc("deep.deep_ok");
	} else if built && overflow {
		// finding F42 (fixed: the walk uses an explicit stack): the recursive walk overflowed the
		// 2 MiB stack of the log worker thread and the process aborted
		ctr.inc("deep.F42");
		t.oracle_fail(
			prop,
			&format!(
				"DEEP-TREE-STACK-OVERFLOW (finding F42): DereferenceTree of a tree of depth {} (a chain built by shallow transactions) overflows the 2 MiB stack of the log worker thread in write_dereference_children_plan and aborts the process: {}",
				depth, info
			),
		);
		ok = false;
	} else {
		t.oracle_fail(prop, &format!("deep chain experiment (depth {}) ended unexpectedly: {}", depth, info));
		ok = false;
	}
	ok
}

pub fn run(seeds: &[u64], thorough: bool, root: &Path, t: &mut Trace, ctr: &mut Counters, prop: &str) -> u64 {
	if let Ok(spec) = std::env::var("PDB_C10_DEEP_CHILD") {
		return deep_child(&spec)
	}
	let mut fails = 0;
	for s in seeds {
		let r = std::panic::catch_unwind(std::panic::AssertUnwindSafe(|| run_case(*s, thorough, root, t, ctr, prop)));
		match r {
			Ok(true) => {},
			Ok(false) => {
				fails += 1;
				t.comment(&format!("FAILED-CASE seed={}", s));
			},
			Err(_) => {
				fails += 1;
				parity_db::verif::set_min_ref_count_bits(0);
				t.oracle_fail(prop, &format!("panic while running case seed={}", s));
				t.end_case(true);
			},
		}
	}
	fails
}
