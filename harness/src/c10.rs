//! C10: multitree columns. Histories of InsertTree / ReferenceTree / DereferenceTree on a real
//! `Db` (variants append_only, ref-counted roots, plain), interleaved with pipeline stage steps
//! and reopen; one protocol line per operation for the Lean model (`c10 ...`, logical paths
//! instead of addresses) and an independent oracle: a logical forest with explicit multiset
//! reference counting (plain Rust, not derived from the model).
//!
//! T2 (C14 "node reference counts equal the number of referencing parents"): whenever the handle is
//! quiescent (after an `enact` that leaves nothing queued or logged, after every reopen, at drain
//! points drawn from a separate random stream, after the final drain and the final reopen) the
//! node forest is dumped through the hook `Db::verif_multitree_dump` (live slots, children decoded
//! by the crate, roots, ref-count tables and cache) and sent as one op line `t2rc ...` to the Lean
//! dump checker (Pdb/Model/DumpCheckRc.lean, expected answer `ok`); the same dump is compared with
//! the forest oracle (`dump_matches_forest`: same roots, addresses, children, counts).  c02x.rs uses
//! the same functions after every crash recovery, with the slots predicted to leak (finding F19)
//! as the checker's allowed orphans.
use crate::util::*;
use parity_db::{ColumnOptions, CompressionType, Db, NewNode, NodeRef, Operation, Options};
use std::collections::{BTreeMap, HashMap};
use std::path::{Path, PathBuf};

#[derive(Clone, Copy, PartialEq, Eq, Debug)]
enum Variant {
	AppendOnly,
	Rc,
	Plain,
}

impl Variant {
	fn name(self) -> &'static str {
		match self {
			Variant::AppendOnly => "append_only",
			Variant::Rc => "rc",
			Variant::Plain => "plain",
		}
	}
}

fn options(v: Variant, path: &Path, salt: [u8; 32]) -> Options {
	let mut o = Options::with_columns(path, 1);
	o.columns[0] = ColumnOptions {
		preimage: v == Variant::Rc,
		uniform: false,
		ref_counted: v == Variant::Rc,
		compression: CompressionType::NoCompression,
		btree_index: false,
		multitree: true,
		append_only: v == Variant::AppendOnly,
		allow_direct_node_access: v != Variant::AppendOnly,
	};
	o.salt = Some(salt);
	o.with_background_thread = false;
	o.always_flush = true;
	o.stats = false;
	o.sync_wal = false;
	o.sync_data = false;
	o
}

/// The real database plus the stage mirror needed to drive the stepping API safely
/// (same discipline as p1::Sut).
struct Sut {
	v: Variant,
	salt: [u8; 32],
	dir: PathBuf,
	db: Option<Db>,
	queued: usize,
	logged: usize,
	flushed: usize,
	unread_files: usize,
	dirty: usize,
}

impl Sut {
	fn create(v: Variant, salt: [u8; 32], dir: PathBuf) -> Sut {
		let db = Db::open_or_create(&options(v, &dir, salt)).expect("create");
		Sut { v, salt, dir, db: Some(db), queued: 0, logged: 0, flushed: 0, unread_files: 0, dirty: 0 }
	}
	fn db(&self) -> &Db {
		self.db.as_ref().unwrap()
	}
	fn process(&mut self) -> Result<(), parity_db::Error> {
		self.db().process_commits()?;
		if self.queued > 0 {
			self.queued -= 1;
			self.logged += 1;
		}
		Ok(())
	}
	fn flush(&mut self) -> Result<(), parity_db::Error> {
		self.db().flush_logs()?;
		if self.logged > self.flushed {
			self.flushed = self.logged;
			self.unread_files += 1;
		}
		Ok(())
	}
	fn enact_all(&mut self) -> Result<(), parity_db::Error> {
		let mut guard = 0;
		while self.unread_files > 0 || guard == 0 {
			if self.dirty >= 3 {
				self.clean()?;
			}
			self.db().enact_logs()?;
			if self.unread_files > 0 {
				self.unread_files -= 1;
				self.dirty += 1;
			}
			guard += 1;
			if guard > 64 {
				break
			}
		}
		self.logged -= self.flushed;
		self.flushed = 0;
		Ok(())
	}
	fn clean(&mut self) -> Result<(), parity_db::Error> {
		self.db().clean_logs()?;
		self.dirty = 0;
		Ok(())
	}
	fn drain(&mut self) -> Result<(), parity_db::Error> {
		let mut guard = 0;
		while self.queued > 0 && guard < 10_000 {
			self.process()?;
			guard += 1;
		}
		self.flush()?;
		self.enact_all()?;
		self.clean()
	}
	fn close(&mut self) {
		if self.dirty >= 3 {
			let _ = self.clean();
		}
		self.db = None;
		self.queued = 0;
		self.logged = 0;
		self.flushed = 0;
		self.unread_files = 0;
		self.dirty = 0;
	}
	fn reopen(&mut self) -> Result<(), parity_db::Error> {
		self.close();
		self.db = Some(Db::open(&options(self.v, &self.dir, self.salt))?);
		Ok(())
	}
}

// ------------------------------------------------------------------------------------------
// Independent oracle: logical forest with multiset reference counting.

#[derive(Clone, Debug)]
pub(crate) struct ONode {
	pub(crate) data: String,         // value token
	pub(crate) children: Vec<usize>, // oracle node ids, in order (same id may repeat)
	pub(crate) refs: u64,            // number of references from live nodes and live roots, with multiplicity
	pub(crate) addr: Option<u64>,    // real address learned from reading the implementation back
	pub(crate) expanded: usize,      // number of nodes of the logical expansion
	pub(crate) depth: usize,
}

#[derive(Clone, Debug)]
pub(crate) struct ORoot {
	pub(crate) data: String,
	pub(crate) children: Vec<usize>,
	pub(crate) count: u64,
}

#[derive(Default)]
pub(crate) struct Forest {
	pub(crate) nodes: HashMap<usize, ONode>,
	pub(crate) roots: BTreeMap<Vec<u8>, ORoot>,
	pub(crate) next_id: usize,
}

/// Generated tree: new nodes and references to existing oracle nodes.
#[derive(Clone, Debug)]
pub(crate) enum GRef {
	New(GNode),
	Existing(usize),
}

#[derive(Clone, Debug)]
pub(crate) struct GNode {
	pub(crate) data: String,
	pub(crate) children: Vec<GRef>,
}

impl Forest {
	fn add_node(&mut self, g: &GNode, counting: bool) -> usize {
		let mut children = vec![];
		let mut expanded = 1;
		let mut depth = 0;
		for c in &g.children {
			let id = self.add_ref(c, counting);
			expanded += self.nodes[&id].expanded;
			depth = std::cmp::max(depth, self.nodes[&id].depth + 1);
			children.push(id);
		}
		let id = self.next_id;
		self.next_id += 1;
		self.nodes.insert(id, ONode { data: g.data.clone(), children, refs: 1, addr: None, expanded, depth });
		id
	}
	fn add_ref(&mut self, r: &GRef, counting: bool) -> usize {
		match r {
			GRef::New(g) => self.add_node(g, counting),
			GRef::Existing(id) => {
				if counting {
					self.nodes.get_mut(id).unwrap().refs += 1;
				}
				*id
			},
		}
	}
	pub(crate) fn insert(&mut self, key: &[u8], g: &GNode, counting: bool) {
		let children = g.children.iter().map(|c| self.add_ref(c, counting)).collect();
		self.roots.insert(key.to_vec(), ORoot { data: g.data.clone(), children, count: 1 });
	}
	fn release(&mut self, id: usize) {
		let n = self.nodes.get_mut(&id).unwrap();
		n.refs -= 1;
		if n.refs == 0 {
			let n = self.nodes.remove(&id).unwrap();
			for c in n.children {
				self.release(c);
			}
		}
	}
	/// returns true when the tree is gone
	pub(crate) fn deref(&mut self, key: &[u8]) -> bool {
		let r = self.roots.get_mut(key).unwrap();
		r.count -= 1;
		if r.count == 0 {
			let r = self.roots.remove(key).unwrap();
			for c in r.children {
				self.release(c);
			}
			true
		} else {
			false
		}
	}
	fn render_node(&self, id: usize, out: &mut String) {
		let n = &self.nodes[&id];
		out.push('(');
		out.push_str(&n.data);
		for c in &n.children {
			out.push(' ');
			self.render_node(*c, out);
		}
		out.push(')');
	}
	pub(crate) fn render(&self, key: &[u8]) -> String {
		match self.roots.get(key) {
			None => "none".into(),
			Some(r) => {
				let mut s = String::from("some (");
				s.push_str(&r.data);
				for c in &r.children {
					s.push(' ');
					self.render_node(*c, &mut s);
				}
				s.push(')');
				s
			},
		}
	}
	/// a path (root key, child indices) to every live node, by breadth-first search
	pub(crate) fn paths(&self) -> HashMap<usize, (Vec<u8>, Vec<usize>)> {
		let mut out: HashMap<usize, (Vec<u8>, Vec<usize>)> = HashMap::new();
		let mut queue = std::collections::VecDeque::new();
		for (k, r) in &self.roots {
			for (i, c) in r.children.iter().enumerate() {
				if !out.contains_key(c) {
					out.insert(*c, (k.clone(), vec![i]));
					queue.push_back(*c);
				}
			}
		}
		while let Some(id) = queue.pop_front() {
			let (k, p) = out[&id].clone();
			for (i, c) in self.nodes[&id].children.iter().enumerate() {
				if !out.contains_key(c) {
					let mut p2 = p.clone();
					p2.push(i);
					out.insert(*c, (k.clone(), p2));
					queue.push_back(*c);
				}
			}
		}
		out
	}
}

// ------------------------------------------------------------------------------------------
// Generation

struct GenStats {
	new_nodes: usize,
	existing: usize,
	max_fan: usize,
	multipart: usize,
	depth: usize,
	expanded: usize,
	repeated_existing: bool,
}

fn data_token(rng: &mut Rng, vals: &mut Values, big_ok: bool) -> String {
	let len = match rng.below(if big_ok { 40 } else { 30 }) {
		0 => 0,
		1..=14 => rng.range(1, 24),
		15..=22 => rng.range(24, 200),
		23..=26 => rng.range(200, 3000),
		27..=29 => rng.range(3000, 9000),
		30..=32 => rng.range(32600, 32800), // around the single-part limit
		33..=35 => rng.range(33000, 40960), // multipart
		36 => rng.range(4080, 4100),
		_ => rng.range(9000, 32000),
	};
	vals.canon(format!("v{}_{}", len, rng.below(1 << 30)))
}

#[allow(clippy::too_many_arguments)]
fn gen_node(
	rng: &mut Rng,
	vals: &mut Values,
	forest: &Forest,
	live: &[usize],
	depth_left: usize,
	budget: &mut isize,
	fan_mode: u64,
	wide_slot: &mut Option<usize>,
	st: &mut GenStats,
	level: usize,
	used: &mut HashMap<usize, usize>,
) -> GNode {
	st.depth = std::cmp::max(st.depth, level);
	let big_ok = rng.chance(1, 3) && *budget > 0;
	let data = data_token(rng, vals, big_ok);
	let mut children = vec![];
	let fan = if let Some(w) = wide_slot.take() {
		w
	} else if depth_left == 0 || *budget <= 0 {
		0
	} else {
		(match fan_mode {
			0 => rng.below(3),
			1 => rng.below(5),
			_ => rng.range(1, 6),
		}) as usize
	};
	st.max_fan = std::cmp::max(st.max_fan, fan);
	for _ in 0..fan {
		let share = !live.is_empty() && rng.chance(if fan > 50 { 1 } else { 3 }, 10);
		if share {
			// an existing node of a live tree; sometimes the one used before (same node twice)
			let id = if !used.is_empty() && rng.chance(1, 3) {
				*used.keys().next().unwrap()
			} else {
				*rng.pick(live)
			};
			let e = forest.nodes[&id].expanded;
			if (*budget as i64) - (e as i64) > -3000 {
				*budget -= e as isize;
				st.existing += 1;
				st.expanded += e;
				let u = used.entry(id).or_insert(0);
				*u += 1;
				if *u > 1 {
					st.repeated_existing = true;
				}
				children.push(GRef::Existing(id));
				continue
			}
		}
		*budget -= 1;
		let child = if fan > 50 {
			// children of a wide node: leaves, now and then a small subtree
			let dl = if rng.chance(1, 40) { 1 } else { 0 };
			gen_node(rng, vals, forest, live, dl, budget, 0, wide_slot, st, level + 1, used)
		} else {
			gen_node(rng, vals, forest, live, depth_left - 1, budget, fan_mode, wide_slot, st, level + 1, used)
		};
		children.push(GRef::New(child));
	}
	st.new_nodes += 1;
	st.expanded += 1;
	GNode { data, children }
}

fn ctr_inc_mass(ctr: &mut Counters) {
	ctr.inc("cases.mass_sharing");
}

/// root -> 2..3 inner nodes -> 150..255 children each: new leaves with small data when `live` is
/// empty, otherwise DISTINCT existing nodes of live trees (as many as there are).
fn mass_tree(rng: &mut Rng, vals: &mut Values, live: &[usize], st: &mut GenStats) -> GNode {
	let inner = rng.range(2, 3) as usize;
	let mut pool: Vec<usize> = live.to_vec();
	// seeded shuffle
	for i in (1..pool.len()).rev() {
		let j = rng.below(i as u64 + 1) as usize;
		pool.swap(i, j);
	}
	let mut children = vec![];
	for _ in 0..inner {
		let fan = rng.range(150, 255) as usize;
		let mut ch = vec![];
		for _ in 0..fan {
			if live.is_empty() {
				let len = rng.range(1, 40);
				ch.push(GRef::New(GNode { data: vals.canon(format!("v{}_{}", len, rng.below(1 << 30))), children: vec![] }));
				st.new_nodes += 1;
				st.expanded += 1;
			} else if let Some(id) = pool.pop() {
				ch.push(GRef::Existing(id));
				st.existing += 1;
				st.expanded += 1;
			}
		}
		st.max_fan = std::cmp::max(st.max_fan, ch.len());
		let len = rng.range(1, 60);
		children.push(GRef::New(GNode { data: vals.canon(format!("v{}_{}", len, rng.below(1 << 30))), children: ch }));
		st.new_nodes += 1;
		st.expanded += 1;
	}
	st.depth = 2;
	st.new_nodes += 1;
	st.expanded += 1;
	let len = rng.range(1, 60);
	GNode { data: vals.canon(format!("v{}_{}", len, rng.below(1 << 30))), children }
}

pub(crate) fn to_real(g: &GNode, forest: &Forest, vals: &mut Values) -> NewNode {
	NewNode {
		data: vals.bytes(&g.data),
		children: g
			.children
			.iter()
			.map(|c| match c {
				GRef::New(n) => NodeRef::New(to_real(n, forest, vals)),
				GRef::Existing(id) => NodeRef::Existing(forest.nodes[id].addr.expect("address of live node known")),
			})
			.collect(),
	}
}

fn model_tokens(g: &GNode, paths: &HashMap<usize, (Vec<u8>, Vec<usize>)>, out: &mut String) {
	out.push_str(&format!(" n{}:{}", g.children.len(), g.data));
	for c in &g.children {
		match c {
			GRef::New(n) => model_tokens(n, paths, out),
			GRef::Existing(id) => {
				let (k, p) = &paths[id];
				out.push_str(&format!(" @{}", hex(k)));
				for i in p {
					out.push_str(&format!("/{}", i));
				}
			},
		}
	}
}

fn max_fan(g: &GNode) -> usize {
	let mut m = g.children.len();
	for c in &g.children {
		if let GRef::New(n) = c {
			m = std::cmp::max(m, max_fan(n));
		}
	}
	m
}

fn packed_len(data_tok: &str, nchildren: usize) -> usize {
	let len: usize = data_tok[1..].split('_').next().unwrap().parse().unwrap();
	len + 8 * nchildren + 1
}

fn is_multipart(v: Variant, root: bool, data_tok: &str, nchildren: usize) -> bool {
	// largest fixed entry 32760, 2 bytes size field, 4 bytes rc on ref-counted columns,
	// 26 bytes partial key for hash-indexed (root) entries
	let cap = 32760 - 2 - if v == Variant::Rc { 4 } else { 0 } - if root { 26 } else { 0 };
	packed_len(data_tok, nchildren) > cap
}

// ------------------------------------------------------------------------------------------
// Reading the implementation

type NodeVal = (Vec<u8>, Vec<u64>);
type Tr<'a> = &'a (dyn parity_db::TreeReader + Send + Sync);

/// One tree reader (read lock held while the closure runs; never across a commit) plus the
/// direct-access API; both must agree.
struct Reader<'a> {
	db: &'a Db,
	tr: Option<Tr<'a>>,
}

fn with_reader<R>(db: &Db, key: &[u8], f: impl FnOnce(&Reader) -> R) -> Result<R, String> {
	match db.get_tree(0, key) {
		Err(e) => Err(format!("get_tree: {:?}", e)),
		Ok(None) => Ok(f(&Reader { db, tr: None })),
		Ok(Some(tree)) => {
			let g = tree.read();
			let r = f(&Reader { db, tr: Some(&**g) });
			drop(g);
			Ok(r)
		},
	}
}

impl<'a> Reader<'a> {
	fn root(&self, key: &[u8]) -> Result<Option<NodeVal>, String> {
		let via_reader = match self.tr {
			None => None,
			Some(g) => match g.get_root() {
				Ok(r) => r,
				Err(e) => return Err(format!("TreeReader::get_root: {:?}", e)),
			},
		};
		match self.db.get_root(0, key) {
			Ok(r) =>
				if r != via_reader {
					return Err(format!("get_root differs from TreeReader::get_root for key {}", hex(key)))
				},
			Err(e) => return Err(format!("get_root: {:?}", e)),
		}
		Ok(via_reader)
	}
	fn node(&self, addr: u64) -> Result<Option<NodeVal>, String> {
		let g = match self.tr {
			None => return Err("tree vanished while reading".into()),
			Some(g) => g,
		};
		let via_reader = g.get_node(addr).map_err(|e| format!("TreeReader::get_node: {:?}", e))?;
		let c = g.get_node_children(addr).map_err(|e| format!("TreeReader::get_node_children: {:?}", e))?;
		if via_reader.as_ref().map(|x| &x.1) != c.as_ref() {
			return Err(format!("get_node_children differs from get_node at {}", addr))
		}
		match self.db.get_node(0, addr) {
			Ok(r) =>
				if r != via_reader {
					return Err(format!("get_node differs from TreeReader::get_node at {}", addr))
				},
			Err(e) => return Err(format!("get_node: {:?}", e)),
		}
		match self.db.get_node_children(0, addr) {
			Ok(r) =>
				if r.as_ref() != via_reader.as_ref().map(|x| &x.1) {
					return Err(format!("get_node_children differs at {}", addr))
				},
			Err(e) => return Err(format!("get_node_children: {:?}", e)),
		}
		Ok(via_reader)
	}
	fn render_node(&self, addr: u64, vals: &Values, out: &mut String, budget: &mut usize) -> Result<(), String> {
		if *budget == 0 {
			out.push('!');
			return Ok(())
		}
		*budget -= 1;
		match self.node(addr)? {
			None => out.push('?'),
			Some((d, cs)) => {
				out.push('(');
				out.push_str(&vals.render(&d));
				for c in cs {
					out.push(' ');
					self.render_node(c, vals, out, budget)?;
				}
				out.push(')');
			},
		}
		Ok(())
	}
	/// canonical rendering of the whole tree by logical content
	fn render(&self, key: &[u8], vals: &Values) -> Result<String, String> {
		match self.root(key)? {
			None => Ok("none".into()),
			Some((d, cs)) => {
				let mut s = String::from("some (");
				s.push_str(&vals.render(&d));
				let mut budget = 200_000;
				for c in cs {
					s.push(' ');
					self.render_node(c, vals, &mut s, &mut budget)?;
				}
				s.push(')');
				Ok(s)
			},
		}
	}
}

/// After an accepted insertion: walk the generated tree and the stored tree in parallel, learn
/// the addresses of the new nodes, check data / child order / that `Existing` children are the
/// addresses that were supplied.
fn learn_addresses(
	rd: &Reader,
	g: &GNode,
	got: &NodeVal,
	ids: &[usize],
	forest: &mut Forest,
	vals: &mut Values,
) -> Result<(), String> {
	if got.0 != vals.bytes(&g.data) {
		return Err(format!("node data differs: expected {} got {}", g.data, vals.render(&got.0)))
	}
	if got.1.len() != g.children.len() {
		return Err(format!("child count differs: supplied {} stored {}", g.children.len(), got.1.len()))
	}
	for (i, c) in g.children.iter().enumerate() {
		let addr = got.1[i];
		match c {
			GRef::Existing(id) => {
				if forest.nodes[id].addr != Some(addr) {
					return Err(format!("existing child {} stored as address {} but {:?} was supplied", i, addr, forest.nodes[id].addr))
				}
			},
			GRef::New(n) => {
				let id = ids[i];
				forest.nodes.get_mut(&id).unwrap().addr = Some(addr);
				let sub = rd.node(addr)?.ok_or_else(|| format!("new node at {} not readable", addr))?;
				let sub_ids = forest.nodes[&id].children.clone();
				learn_addresses(rd, n, &sub, &sub_ids, forest, vals)?;
			},
		}
	}
	Ok(())
}

fn res(r: &Result<(), parity_db::Error>) -> String {
	match r {
		Ok(()) => "ok".into(),
		Err(e) => format!("err:{}", err_kind(e)),
	}
}

fn fan_class(f: usize) -> &'static str {
	match f {
		0 => "0",
		1..=4 => "1-4",
		5..=254 => "5-254",
		255 => "255",
		_ => "256+",
	}
}

struct Case<'a> {
	sut: Sut,
	forest: Forest,
	vals: Values,
	t: &'a mut Trace,
	ctr: &'a mut Counters,
	prop: &'a str,
	ok: bool,
}

impl<'a> Case<'a> {
	fn fail(&mut self, msg: &str) {
		self.t.oracle_fail(self.prop, msg);
		self.ok = false;
	}

	/// `c10 tree <key>`: observed rendering, oracle comparison, model line.
	fn check_tree(&mut self, key: &[u8]) {
		let r = with_reader(self.sut.db(), key, |rd| rd.render(key, &self.vals)).and_then(|x| x);
		self.ctr.inc("op.tree");
		self.ctr.inc(if self.sut.queued > 0 {
			"read.stage.queued"
		} else if self.sut.logged > self.sut.flushed {
			"read.stage.logged"
		} else if self.sut.flushed > 0 {
			"read.stage.flushed"
		} else {
			"read.stage.tables"
		});
		match r {
			Err(e) => {
				self.t.op(&format!("c10 tree {}", hex(key)), &format!("read-error {}", e));
				self.fail(&format!("reading tree {} failed: {}", hex(key), e));
			},
			Ok(obs) => {
				self.t.op(&format!("c10 tree {}", hex(key)), &obs);
				let exp = self.forest.render(key);
				if self.forest.roots.contains_key(key) {
					if obs != exp {
						let (a, b) = (clip(&exp), clip(&obs));
						self.fail(&format!("live tree {} reads back differently: expected {} observed {}", hex(key), a, b));
					}
				} else if self.sut.queued == 0 && obs != "none" {
					self.fail(&format!("tree {} has no reference left and nothing is queued, but is still readable: {}", hex(key), clip(&obs)));
				}
			},
		}
	}

	fn check_root(&mut self, key: &[u8]) {
		let r = with_reader(self.sut.db(), key, |rd| rd.root(key)).and_then(|x| x);
		self.ctr.inc("op.root");
		let obs = match r {
			Err(e) => format!("read-error {}", e),
			Ok(None) => "none".to_string(),
			Ok(Some((d, cs))) => format!("some {} {}", self.vals.render(&d), cs.len()),
		};
		self.t.op(&format!("c10 root {}", hex(key)), &obs);
		if let Some(r) = self.forest.roots.get(key) {
			let exp = format!("some {} {}", r.data, r.children.len());
			if obs != exp {
				self.fail(&format!("root {}: expected {} observed {}", hex(key), exp, obs));
			}
		}
	}

	/// `c10 node <path>` for a random live node: by address on the implementation.
	fn check_node(&mut self, id: usize, path: &(Vec<u8>, Vec<usize>)) {
		let n = self.forest.nodes[&id].clone();
		let addr = match n.addr {
			Some(a) => a,
			None => return,
		};
		let r = with_reader(self.sut.db(), &path.0, |rd| rd.node(addr)).and_then(|x| x);
		self.ctr.inc("op.node");
		let obs = match r {
			Err(e) => format!("read-error {}", e),
			Ok(None) => "none".to_string(),
			Ok(Some((d, cs))) => format!("some {} {}", self.vals.render(&d), cs.len()),
		};
		let mut p = hex(&path.0);
		for i in &path.1 {
			p.push_str(&format!("/{}", i));
		}
		self.t.op(&format!("c10 node {}", p), &obs);
		let exp = format!("some {} {}", n.data, n.children.len());
		if obs != exp {
			self.fail(&format!("node {} (address {}): expected {} observed {}", p, addr, exp, obs));
		}
	}

	fn oracle_has_multipart(&self) -> bool {
		self.forest.nodes.values().any(|n| is_multipart(self.sut.v, false, &n.data, n.children.len())) ||
			self.forest.roots.values().any(|r| is_multipart(self.sut.v, true, &r.data, r.children.len()))
	}

	/// `c10 count`
	fn check_count(&mut self) {
		let r = self.sut.db().get_num_column_value_entries(0);
		self.ctr.inc("op.count");
		let obs = match &r {
			Ok(n) => n.to_string(),
			Err(e) => format!("err:{}", err_kind(e)),
		};
		self.t.op("c10 count", &obs);
		if self.sut.queued == 0 {
			// every commit has reached the tables: entries = distinct live nodes + live roots
			let exp = (self.forest.nodes.len() + self.forest.roots.len()) as u64;
			match r {
				Ok(n) =>
					if n != exp {
						self.fail(&format!("entry count {} but the forest has {} live nodes + {} live roots", n, self.forest.nodes.len(), self.forest.roots.len()));
					} else {
						self.ctr.inc("obs.count_checked_drained");
					},
				Err(_) =>
					if !self.oracle_has_multipart() {
						self.fail(&format!("entry count failed ({}) although no multipart entry is live", obs));
					} else {
						self.ctr.inc("obs.count_unavailable_multipart");
					},
			}
		}
	}
}

// ------------------------------------------------------------------------------------------
// T2 for the node forest (C14 "node reference counts equal the number of referencing parents"):
// the hook dump of a quiescent multitree column, rendered as the op line `t2rc ...` of the Lean
// dump checker (Pdb/Model/DumpCheckRc.lean; expected answer `ok`), plus an independent
// comparison of the same dump with the forest oracle.

#[derive(Default)]
pub(crate) struct RcDumpStats {
	pub(crate) roots: usize,
	pub(crate) nodes: usize,
	pub(crate) undecodable: usize,
	pub(crate) edges: usize,
	pub(crate) rc_entries: usize,
	pub(crate) max_count: u64,
	pub(crate) max_fan: usize,
}

/// `t2rc <has_rc> <ref_counted> {R addr count child*}* {N addr child*}* [X addr*] [C {addr count}*]
/// [M {addr count}*] [A addr*]`; `allowed` = addresses predicted to be leaked (finding F19).
pub(crate) fn t2rc_line(d: &parity_db::verif::MultiTreeDump, allowed: &[u64]) -> (String, RcDumpStats) {
	use std::fmt::Write;
	let mut st = RcDumpStats::default();
	let mut s = format!("t2rc {} {}", d.has_ref_count_table as u8, d.ref_counted as u8);
	let mut bad: Vec<u64> = vec![];
	for (_key, addr, rc, children) in &d.roots {
		match children {
			Some(cs) => {
				write!(s, " R {} {}", addr, rc).unwrap();
				for c in cs {
					write!(s, " {}", c).unwrap();
				}
				st.roots += 1;
				st.edges += cs.len();
				st.max_fan = std::cmp::max(st.max_fan, cs.len());
			},
			None => bad.push(*addr),
		}
	}
	for (addr, children) in &d.nodes {
		match children {
			Some(cs) => {
				write!(s, " N {}", addr).unwrap();
				for c in cs {
					write!(s, " {}", c).unwrap();
				}
				st.nodes += 1;
				st.edges += cs.len();
				st.max_fan = std::cmp::max(st.max_fan, cs.len());
			},
			None => bad.push(*addr),
		}
	}
	st.undecodable = bad.len();
	if !bad.is_empty() {
		s.push_str(" X");
		for a in &bad {
			write!(s, " {}", a).unwrap();
		}
	}
	if d.ref_count_tables.iter().any(|t| !t.1.is_empty()) {
		s.push_str(" C");
		for (_bits, entries) in &d.ref_count_tables {
			for (a, c) in entries {
				write!(s, " {} {}", a, c).unwrap();
				st.rc_entries += 1;
				st.max_count = std::cmp::max(st.max_count, *c);
			}
		}
	}
	if let Some(cache) = &d.ref_count_cache {
		if !cache.is_empty() {
			s.push_str(" M");
			for (a, c) in cache {
				write!(s, " {} {}", a, c).unwrap();
			}
		}
	}
	if !allowed.is_empty() {
		s.push_str(" A");
		for a in allowed {
			write!(s, " {}", a).unwrap();
		}
	}
	(s, st)
}

pub(crate) fn t2rc_count(ctr: &mut Counters, at: &str, d: &parity_db::verif::MultiTreeDump, st: &RcDumpStats, allowed: usize) {
	ctr.inc("t2rc.dumps");
	ctr.inc(&format!("t2rc.at.{}", at));
	ctr.inc(&format!(
		"t2rc.column.{}",
		if !d.has_ref_count_table { "append_only" } else if d.ref_counted { "rc" } else { "plain" }
	));
	ctr.add("t2rc.roots", st.roots as u64);
	ctr.add("t2rc.nodes", st.nodes as u64);
	ctr.add("t2rc.edges", st.edges as u64);
	ctr.add("t2rc.rc_entries", st.rc_entries as u64);
	ctr.add("t2rc.undecodable_slots", st.undecodable as u64);
	ctr.add("t2rc.allowed_orphans", allowed as u64);
	ctr.inc(&format!("t2rc.size.nodes.{}", match st.nodes { 0 => "0", 1..=10 => "1-10", 11..=100 => "11-100", 101..=1000 => "101-1000", _ => "1000+" }));
	ctr.inc(&format!("t2rc.size.rc_entries.{}", match st.rc_entries { 0 => "0", 1..=3 => "1-3", 4..=20 => "4-20", _ => "21+" }));
	ctr.inc(&format!("t2rc.max_count.{}", match st.max_count { 0 => "none", 2 => "2", 3..=5 => "3-5", _ => "6+" }));
	ctr.inc(&format!("t2rc.max_fan.{}", fan_class(st.max_fan)));
	if d.ref_count_tables.len() > 1 {
		ctr.inc("t2rc.with_queued_rc_table");
	}
}

/// Independent oracle for a quiescent dump of column `col`: the dumped forest IS the oracle's
/// forest (same roots under the same hashed keys with the same counts, same node addresses,
/// same children in the same order), the ref-count table holds exactly the oracle's counts
/// > 1 and equals the cache.  `leaked`: node slots known to be lost for good (finding F19).
pub(crate) fn dump_matches_forest(
	db: &Db,
	col: u8,
	d: &parity_db::verif::MultiTreeDump,
	forest: &Forest,
	counting: bool,
	rc_roots: bool,
	leaked: &[u64],
) -> Result<(), String> {
	use std::collections::{BTreeMap, BTreeSet};
	if d.has_ref_count_table != counting {
		return Err(format!("ref-count table present={} but the column counts references={}", d.has_ref_count_table, counting))
	}
	let addr_of = |id: &usize| forest.nodes.get(id).and_then(|n| n.addr).unwrap_or(u64::MAX);
	// roots
	let mut exp_roots: BTreeMap<[u8; 32], (&Vec<u8>, &ORoot)> = BTreeMap::new();
	for (k, r) in &forest.roots {
		let hk = db.verif_hash_key(col, k).ok_or("not a hash column")?;
		exp_roots.insert(hk, (k, r));
	}
	if d.roots.len() != exp_roots.len() {
		return Err(format!("{} root entries dumped, the oracle has {} live roots", d.roots.len(), exp_roots.len()))
	}
	for (key, addr, rc, children) in &d.roots {
		let (k, r) = exp_roots.get(key).ok_or_else(|| format!("dumped root entry at {} has a key no live root has: {}", addr, hex(key)))?;
		let exp_children: Vec<u64> = r.children.iter().map(addr_of).collect();
		if children.as_ref() != Some(&exp_children) {
			return Err(format!("root {}: children {:?}, the oracle expects {:?}", hex(k), children, exp_children))
		}
		let exp_rc = if rc_roots { r.count } else { 1 };
		if *rc as u64 != exp_rc {
			return Err(format!("root {}: stored count {}, the oracle expects {}", hex(k), rc, exp_rc))
		}
	}
	// nodes
	let leaked: BTreeSet<u64> = leaked.iter().cloned().collect();
	let mut dumped: BTreeMap<u64, &Option<Vec<u64>>> = BTreeMap::new();
	for (a, cs) in &d.nodes {
		if leaked.contains(a) {
			continue
		}
		if dumped.insert(*a, cs).is_some() {
			return Err(format!("node address {} dumped twice", a))
		}
	}
	if dumped.len() != forest.nodes.len() {
		return Err(format!("{} live node slots dumped (beyond known leaked ones), the oracle has {} live nodes", dumped.len(), forest.nodes.len()))
	}
	for (id, n) in &forest.nodes {
		let a = n.addr.ok_or_else(|| format!("oracle node {} has no address", id))?;
		let exp_children: Vec<u64> = n.children.iter().map(addr_of).collect();
		match dumped.get(&a) {
			None => return Err(format!("live node at address {} is not among the dumped node slots", a)),
			Some(cs) =>
				if cs.as_ref() != Some(&exp_children) {
					return Err(format!("node at {}: children {:?}, the oracle expects {:?}", a, cs, exp_children))
				},
		}
	}
	// counts: first hit in search order
	let mut table: BTreeMap<u64, u64> = BTreeMap::new();
	for (_bits, entries) in &d.ref_count_tables {
		for (a, c) in entries {
			table.entry(*a).or_insert(*c);
		}
	}
	let mut exp_table: BTreeMap<u64, u64> = BTreeMap::new();
	if counting {
		for n in forest.nodes.values() {
			if n.refs > 1 {
				exp_table.insert(n.addr.unwrap_or(u64::MAX), n.refs);
			}
		}
	}
	if table != exp_table {
		return Err(format!("ref-count table {:?}, the oracle's counts > 1 are {:?}", table, exp_table))
	}
	match (&d.ref_count_cache, counting) {
		(None, false) => {},
		(Some(cache), true) => {
			let cache: BTreeMap<u64, u64> = cache.iter().cloned().collect();
			if cache != table {
				return Err(format!("ref-count cache {:?} differs from the table {:?}", cache, table))
			}
		},
		(c, _) => return Err(format!("ref-count cache present={} on a column that counts={}", c.is_some(), counting)),
	}
	Ok(())
}

impl<'a> Case<'a> {
	fn quiescent(&self) -> bool {
		self.sut.queued == 0 && self.sut.logged == 0 && self.sut.flushed == 0 && self.sut.unread_files == 0
	}

	/// At a quiescent point (everything committed is in the table files): dump the forest, one
	/// `t2rc` line for the Lean checker, the same dump against the oracle.
	fn check_rc_dump(&mut self, at: &str) {
		if !self.quiescent() {
			return
		}
		let d = match self.sut.db().verif_multitree_dump(0) {
			Ok(Some(d)) => d,
			Ok(None) => {
				self.fail("verif_multitree_dump: not a multitree column");
				return
			},
			Err(e) => {
				self.fail(&format!("verif_multitree_dump failed: {:?}", e));
				return
			},
		};
		let (line, st) = t2rc_line(&d, &[]);
		self.t.op(&line, "ok");
		t2rc_count(self.ctr, at, &d, &st, 0);
		let counting = self.sut.v != Variant::AppendOnly;
		if let Err(e) = dump_matches_forest(self.sut.db(), 0, &d, &self.forest, counting, self.sut.v == Variant::Rc, &[]) {
			self.fail(&format!("structural dump ({}) differs from the oracle forest: {}", at, e));
		} else {
			self.ctr.inc("t2rc.oracle_forest_equal");
		}
	}

	/// process everything queued, flush, enact: with one model line per step
	fn drain_traced(&mut self) {
		while self.sut.queued > 0 && self.ok {
			let r = self.sut.process();
			self.t.op("c10 process", &res(&r));
			if let Err(e) = r {
				self.fail(&format!("process_commits failed: {:?}", e));
				return
			}
		}
		let r = self.sut.flush();
		self.t.op("c10 flush", &res(&r));
		if let Err(e) = r {
			self.fail(&format!("flush_logs failed: {:?}", e));
			return
		}
		let r = self.sut.enact_all();
		self.t.op("c10 enact", &res(&r));
		if let Err(e) = r {
			self.fail(&format!("enact_logs failed: {:?}", e));
		}
	}
}

fn clip(s: &str) -> String {
	if s.len() > 300 {
		format!("{}...[{} bytes]", &s[..300], s.len())
	} else {
		s.to_string()
	}
}

fn gen_key(rng: &mut Rng, i: u64) -> Vec<u8> {
	let len = *rng.pick(&[1u64, 4, 8, 32, 32, 33, 64]) as usize;
	let mut k = vec![];
	while k.len() < len {
		k.extend_from_slice(&rng.next().to_le_bytes());
	}
	k.truncate(len);
	k[0] = i as u8; // distinct
	k
}

pub fn run_case(seed: u64, thorough: bool, root: &Path, t: &mut Trace, ctr: &mut Counters, prop: &str) -> bool {
	let mut rng = Rng::new(seed);
	// separate stream for the drain points added for the structural dumps (t2rc)
	let mut rng_dump = Rng::new(seed ^ 0x7432_7263);
	let v = *rng.pick(&[Variant::AppendOnly, Variant::Rc, Variant::Rc, Variant::Plain, Variant::Plain]);
	let mut salt = [0u8; 32];
	for i in 0..4 {
		salt[i * 8..i * 8 + 8].copy_from_slice(&rng.next().to_le_bytes());
	}
	let dir = fresh_dir(root, &format!("c10-{}", seed));
	t.begin_case(&format!("seed={} variant={}", seed, v.name()));
	t.op(&format!("c10 init {}", v.name()), "ok");
	ctr.inc(&format!("variant.{}", v.name()));
	let sut = Sut::create(v, salt, dir.clone());
	let nkeys = rng.range(2, 7);
	let keys: Vec<Vec<u8>> = (0..nkeys).map(|i| gen_key(&mut rng, i)).collect();
	let mut c = Case { sut, forest: Forest::default(), vals: Values::default(), t, ctr, prop, ok: true };
	let nact = rng.range(10, if thorough { 90 } else { 45 }) as usize;
	let counting = v != Variant::AppendOnly;
	let mut had_sharing = false;
	let mut had_free = false;
	let mut big_done = 0;
	// mass sharing (one case in six, counting variants): a first tree with several hundred leaves,
	// later trees that reference hundreds of its nodes in ONE transaction (many reference-count
	// changes in one record, several of them in the same chunk of the ref-count table)
	let mass = counting && rng.chance(1, 6);
	let mut mass_stage = 0;
	if mass {
		ctr_inc_mass(c.ctr);
	}

	for _step in 0..nact {
		let a = rng.below(100);
		if a < 32 {
			// ---------------------------------------------------------------- InsertTree
			let free_keys: Vec<&Vec<u8>> = keys.iter().filter(|k| !c.forest.roots.contains_key(*k)).collect();
			if free_keys.is_empty() {
				continue
			}
			let key = (*rng.pick(&free_keys)).clone();
			let mut live: Vec<usize> = c.forest.nodes.iter().filter(|(_, n)| n.addr.is_some()).map(|(id, _)| *id).collect();
			live.sort();
			let shape = rng.below(100);
			let mut wide: Option<usize> = None;
			let mut depth = match shape {
				0..=9 => 0,
				10..=49 => rng.range(1, 2),
				50..=79 => rng.range(2, 3),
				_ => rng.range(3, 5),
			} as usize;
			let mut too_wide = false;
			if shape % 10 == 7 && big_done < 2 {
				// one node with a large fan-out somewhere in the tree
				big_done += 1;
				let w = match rng.below(6) {
					0 | 1 => 255,
					2 => 256,
					3 => rng.range(257, 300),
					4 => rng.range(100, 254),
					_ => 254,
				} as usize;
				too_wide = w > 255;
				wide = Some(w);
				depth = std::cmp::max(depth, 1);
			}
			let mut st = GenStats { new_nodes: 0, existing: 0, max_fan: 0, multipart: 0, depth: 0, expanded: 0, repeated_existing: false };
			let mut budget: isize = if thorough { 600 } else { 250 };
			let fan_mode = rng.below(3);
			// the wide node sits at the root or one level down
			let mut used = HashMap::new();
			let mass_g = if mass && !too_wide && mass_stage == 0 {
				mass_stage = 1;
				Some(mass_tree(&mut rng, &mut c.vals, &[], &mut st))
			} else if mass && !too_wide && mass_stage >= 1 && live.len() >= 150 && rng.chance(1, 2) {
				mass_stage += 1;
				Some(mass_tree(&mut rng, &mut c.vals, &live, &mut st))
			} else {
				None
			};
			let g = if let Some(g) = mass_g {
				wide = None;
				g
			} else if wide.is_some() && rng.chance(1, 2) {
				let mut inner_wide = wide.take();
				let mut g = gen_node(&mut rng, &mut c.vals, &c.forest, &live, 1, &mut budget, 2, &mut None, &mut st, 0, &mut used);
				let child = gen_node(&mut rng, &mut c.vals, &c.forest, &live, 1, &mut budget, 0, &mut inner_wide, &mut st, 1, &mut used);
				g.children.push(GRef::New(child));
				g
			} else {
				gen_node(&mut rng, &mut c.vals, &c.forest, &live, depth, &mut budget, fan_mode, &mut wide, &mut st, 0, &mut used)
			};
			let mf = max_fan(&g);
			debug_assert_eq!(too_wide, mf > 255);
			let paths = c.forest.paths();
			let mut line = format!("c10 insert {}", hex(&key));
			model_tokens(&g, &paths, &mut line);
			let real = to_real(&g, &c.forest, &mut c.vals);
			let before = c.sut.db().get_num_column_value_entries(0).ok();
			let r = c.sut.db().commit_changes(vec![(0u8, Operation::InsertTree(key.clone(), real))]);
			c.t.op(&line, &res(&r));
			c.ctr.inc(if r.is_ok() { "op.insert.ok" } else { "op.insert.rejected" });
			c.ctr.inc(&format!("insert.maxfan.{}", fan_class(mf)));
			c.ctr.inc(&format!("insert.depth.{}", st.depth));
			if mf > 255 {
				// must be rejected and leave no trace
				match &r {
					Ok(()) => {
						c.fail(&format!("InsertTree with a node of {} children was accepted", mf));
						c.sut.queued += 1;
					},
					Err(e) =>
						if err_kind(e) != "InvalidInput" {
							c.fail(&format!("InsertTree with {} children: unexpected error {:?}", mf, e));
						},
				}
				if r.is_err() {
					let after = c.sut.db().get_num_column_value_entries(0).ok();
					if before != after {
						c.fail(&format!("rejected InsertTree changed the entry count {:?} -> {:?}", before, after));
					}
					c.check_tree(&key);
					c.check_count();
				}
				continue
			}
			match &r {
				Err(e) => {
					c.fail(&format!("valid InsertTree rejected: {:?}", e));
					continue
				},
				Ok(()) => c.sut.queued += 1,
			}
			// oracle
			c.forest.insert(&key, &g, counting);
			// distribution
			c.ctr.add("insert.new_nodes", st.new_nodes as u64);
			c.ctr.add("insert.existing_refs", st.existing as u64);
			c.ctr.inc(&format!("insert.sharing.{}", match st.existing { 0 => "0", 1 => "1", 2..=4 => "2-4", _ => "5+" }));
			if st.repeated_existing {
				c.ctr.inc("insert.same_node_several_times");
			}
			if st.existing > 0 {
				had_sharing = true;
			}
			fn count_mp(v: Variant, g: &GNode, root: bool) -> usize {
				let mut n = if is_multipart(v, root, &g.data, g.children.len()) { 1 } else { 0 };
				for ch in &g.children {
					if let GRef::New(x) = ch {
						n += count_mp(v, x, false);
					}
				}
				n
			}
			st.multipart = count_mp(v, &g, true);
			c.ctr.add("insert.multipart_nodes", st.multipart as u64);
			if st.multipart > 0 {
				c.ctr.inc("insert.with_multipart");
			}
			c.ctr.inc(&format!("insert.expanded.{}", match st.expanded { 0..=1 => "1", 2..=10 => "2-10", 11..=100 => "11-100", 101..=1000 => "101-1000", _ => "1000+" }));
			// read back immediately (commit overlay), learn the addresses of the new nodes
			let ids = c.forest.roots[&key].children.clone();
			let (forest, vals) = (&mut c.forest, &mut c.vals);
			let got = with_reader(c.sut.db(), &key, |rd| match rd.root(&key) {
				Ok(Some(rootval)) => learn_addresses(rd, &g, &rootval, &ids, forest, vals),
				Ok(None) => Err("root not readable after accepted InsertTree".to_string()),
				Err(e) => Err(e),
			})
			.and_then(|x| x);
			if let Err(e) = got {
				c.fail(&format!("read back after InsertTree {}: {}", hex(&key), e));
			}
			if !c.ok {
				break
			}
			c.check_tree(&key);
			if rng.chance(1, 2) {
				c.check_count();
			}
		} else if a < 40 {
			// ---------------------------------------------------------------- ReferenceTree
			let key = rng.pick(&keys).clone();
			let r = c.sut.db().commit_changes(vec![(0u8, Operation::ReferenceTree(key.clone()))]);
			c.t.op(&format!("c10 ref {}", hex(&key)), &res(&r));
			c.ctr.inc(&format!("op.ref.{}", res(&r)));
			match v {
				Variant::Rc => {
					if r.is_err() {
						c.fail(&format!("ReferenceTree rejected on a ref-counted column: {:?}", r));
					} else {
						c.sut.queued += 1;
						if let Some(root) = c.forest.roots.get_mut(&key) {
							root.count += 1;
							c.ctr.inc("op.ref.live_root");
						}
					}
				},
				Variant::AppendOnly =>
					if r.is_err() {
						c.fail(&format!("ReferenceTree on append_only must be a no-op, got {:?}", r));
					} else {
						c.sut.queued += 1; // an empty commit is queued
					},
				Variant::Plain =>
					if r.is_ok() {
						// roots are counted iff ref_counted: a plain column cannot count
						c.sut.queued += 1;
						c.fail("ReferenceTree accepted on a column without ref_counted");
					},
			}
			c.check_tree(&key);
		} else if a < 58 {
			// ---------------------------------------------------------------- DereferenceTree
			let live_keys: Vec<Vec<u8>> = c.forest.roots.keys().cloned().collect();
			let missing = live_keys.is_empty() || rng.chance(1, 8);
			let key = if missing {
				rng.pick(&keys).clone()
			} else {
				rng.pick(&live_keys).clone()
			};
			let is_live = c.forest.roots.contains_key(&key);
			let r = c.sut.db().commit_changes(vec![(0u8, Operation::DereferenceTree(key.clone()))]);
			c.t.op(&format!("c10 deref {}", hex(&key)), &res(&r));
			c.ctr.inc(&format!("op.deref.{}{}", if is_live { "live." } else { "missing." }, res(&r)));
			if v == Variant::AppendOnly {
				if r.is_ok() {
					c.sut.queued += 1;
					c.fail("DereferenceTree accepted on an append_only column");
				}
			} else if is_live {
				match &r {
					Ok(()) => {
						c.sut.queued += 1;
						let nodes_before = c.forest.nodes.len();
						if c.forest.deref(&key) {
							c.ctr.inc("deref.last_reference");
							if c.forest.nodes.len() < nodes_before {
								had_free = true;
								c.ctr.add("deref.nodes_freed", (nodes_before - c.forest.nodes.len()) as u64);
							}
							if c.forest.nodes.len() + 0 > 0 && nodes_before - c.forest.nodes.len() < nodes_before {
								c.ctr.inc("deref.with_survivors");
							}
						}
					},
					Err(e) => c.fail(&format!("DereferenceTree of a live root rejected: {:?}", e)),
				}
			} else {
				// no reference left: an error, or (while an earlier DereferenceTree of the same
				// root is still queued and the root therefore still readable) an accepted no-op
				match &r {
					Ok(()) => {
						c.sut.queued += 1;
						c.ctr.inc("deref.dead_root_accepted_while_queued");
					},
					Err(e) =>
						if err_kind(e) != "InvalidConfiguration" {
							c.fail(&format!("DereferenceTree of a missing root: unexpected error {:?}", e));
						},
				}
			}
			c.check_tree(&key);
		} else if a < 72 {
			let r = c.sut.process();
			c.t.op("c10 process", &res(&r));
			c.ctr.inc("op.process");
			if let Err(e) = r {
				c.fail(&format!("process_commits failed: {:?}", e));
				break
			}
			if rng.chance(1, 2) {
				c.check_count();
			}
		} else if a < 77 {
			let r = c.sut.flush();
			c.t.op("c10 flush", &res(&r));
			c.ctr.inc("op.flush");
		} else if a < 85 {
			let r = c.sut.enact_all();
			c.t.op("c10 enact", &res(&r));
			c.ctr.inc("op.enact");
			if let Err(e) = r {
				c.fail(&format!("enact_logs failed: {:?}", e));
				break
			}
			c.check_rc_dump("enact");
		} else if a < 88 {
			let r = c.sut.clean();
			c.t.op("c10 clean", &res(&r));
			c.ctr.inc("op.clean");
		} else if a < 92 {
			let r = c.sut.reopen();
			c.t.op("c10 reopen", &res(&r));
			c.ctr.inc("op.reopen");
			if let Err(e) = r {
				c.fail(&format!("reopen failed: {:?}", e));
				break
			}
			let ks = keys.clone();
			for k in &ks {
				c.check_tree(k);
			}
			c.check_count();
			c.check_rc_dump("reopen");
		} else {
			// reads
			let key = rng.pick(&keys).clone();
			match rng.below(3) {
				0 => c.check_tree(&key),
				1 => c.check_root(&key),
				_ => {
					let paths = c.forest.paths();
					let mut ids: Vec<usize> = paths.keys().cloned().collect();
					ids.sort();
					if !ids.is_empty() {
						let id = *rng.pick(&ids);
						let p = paths[&id].clone();
						c.check_node(id, &p);
					}
				},
			}
			c.check_count();
		}
		if c.sut.queued > 0 && c.sut.logged > 0 {
			c.ctr.inc("obs.multi_stage_states");
		}
		if !c.ok {
			break
		}
		if rng_dump.chance(1, 9) {
			// drain point: the forest on disk must be exactly the oracle's forest
			c.drain_traced();
			c.check_rc_dump("drain");
			if !c.ok {
				break
			}
		}
	}

	if c.ok {
		// all trees as they are, at whatever stage the history ended
		let ks = keys.clone();
		for k in &ks {
			c.check_tree(k);
		}
		// reachability = presence: every oracle node must be reachable (oracle self-check)
		if c.forest.paths().len() != c.forest.nodes.len() {
			c.fail("oracle inconsistency: a counted node is unreachable");
		}
		if v != Variant::AppendOnly {
			// dereference everything, drain: zero entries
			let live: Vec<(Vec<u8>, u64)> = c.forest.roots.iter().map(|(k, r)| (k.clone(), r.count)).collect();
			for (k, n) in live {
				for _ in 0..n {
					let r = c.sut.db().commit_changes(vec![(0u8, Operation::DereferenceTree(k.clone()))]);
					c.t.op(&format!("c10 deref {}", hex(&k)), &res(&r));
					if r.is_ok() {
						c.sut.queued += 1;
						c.forest.deref(&k);
					} else {
						c.fail(&format!("final DereferenceTree of live root rejected: {:?}", r));
					}
					// process some of them one at a time so that walks interleave with later commits
					if rng.chance(1, 2) {
						let r = c.sut.process();
						c.t.op("c10 process", &res(&r));
						if let Err(e) = r {
							c.fail(&format!("process_commits failed: {:?}", e));
						}
					}
				}
			}
			while c.sut.queued > 0 && c.ok {
				let r = c.sut.process();
				c.t.op("c10 process", &res(&r));
				if let Err(e) = r {
					c.fail(&format!("process_commits failed: {:?}", e));
				}
			}
			if !c.forest.nodes.is_empty() || !c.forest.roots.is_empty() {
				c.fail("oracle inconsistency: forest not empty after dereferencing every root");
			}
			c.check_count();
			match c.sut.db().get_num_column_value_entries(0) {
				Ok(0) => c.ctr.inc("final.zero_entries"),
				other => c.fail(&format!("after dereferencing every tree the column holds {:?} entries", other)),
			}
			for k in &ks {
				c.check_tree(k);
			}
		}
		let r = c.sut.drain();
		if let Err(e) = r {
			c.fail(&format!("drain failed: {:?}", e));
		} else {
			c.check_rc_dump("final_drain");
		}
		let r = c.sut.reopen();
		c.t.op("c10 reopen", &res(&r));
		if let Err(e) = r {
			c.fail(&format!("final reopen failed: {:?}", e));
		} else {
			for k in &ks {
				c.check_tree(k);
			}
			c.check_count();
			c.check_rc_dump("final_reopen");
		}
	}
	if c.ok && v == Variant::Plain && seed % 4 == 0 {
		// Scenario (end of the case, nothing else is perturbed): a transaction that inserts a
		// tree and then fails on a later operation must be rejected as a whole - no root
		// readable, no slot claimed.  Not a model operation (one commit = one op there).
		c.ctr.inc("scenario.rejected_tx_after_insert");
		let key = vec![0xee, 0x01];
		let tree = NewNode {
			data: b"scenario-root".to_vec(),
			children: vec![
				NodeRef::New(NewNode { data: b"a".to_vec(), children: vec![] }),
				NodeRef::New(NewNode { data: b"b".to_vec(), children: vec![] }),
			],
		};
		let before = c.sut.db().get_num_column_value_entries(0).ok();
		let r = c.sut.db().commit_changes(vec![
			(0u8, Operation::InsertTree(key.clone(), tree)),
			(0u8, Operation::ReferenceTree(key.clone())),
		]);
		c.t.comment(&format!("scenario tx [InsertTree ee01 (root, 2 leaves), ReferenceTree ee01] on plain -> {}", res(&r)));
		if r.is_ok() {
			c.fail("scenario: transaction [InsertTree k, ReferenceTree k] accepted on a column without ref_counted");
		} else {
			let after = c.sut.db().get_num_column_value_entries(0).ok();
			let root = c.sut.db().get_root(0, &key);
			if !matches!(root, Ok(None)) || before != after {
				c.fail(&format!(
					"rejected transaction [InsertTree k, ReferenceTree k] (plain multitree column) left a trace: root readable={} entries {:?} -> {:?}",
					matches!(root, Ok(Some(_))),
					before,
					after
				));
			}
		}
	}
	if !c.ok && c.sut.db.is_some() {
		// post mortem of a failed case: what does the Lean checker say about the forest the
		// failure left behind?  (expected `ok`: a `bad:` shows up as a model disagreement next to
		// the oracle failure; no oracle comparison, the oracle is off already)
		if c.sut.drain().is_ok() && c.quiescent() {
			if let Ok(Some(d)) = c.sut.db().verif_multitree_dump(0) {
				let (line, st) = t2rc_line(&d, &[]);
				c.t.op(&line, "ok");
				t2rc_count(c.ctr, "post_mortem", &d, &st, 0);
			}
		}
	}
	c.sut.close();
	let _ = std::fs::remove_dir_all(&dir);
	let nontrivial = had_sharing || had_free;
	if had_sharing && had_free {
		c.ctr.inc("cases.sharing_and_free");
	}
	c.ctr.inc("cases");
	if nontrivial {
		c.ctr.inc("cases.nontrivial");
	}
	let ok = c.ok;
	c.t.end_case(nontrivial);
	ok
}

pub fn run(seeds: &[u64], thorough: bool, root: &Path, t: &mut Trace, ctr: &mut Counters, prop: &str) -> u64 {
	let mut fails = 0;
	for s in seeds {
		let r = std::panic::catch_unwind(std::panic::AssertUnwindSafe(|| run_case(*s, thorough, root, t, ctr, prop)));
		match r {
			Ok(true) => {},
			Ok(false) => {
				fails += 1;
				t.comment(&format!("FAILED-CASE seed={}", s));
			},
			Err(_) => {
				fails += 1;
				t.oracle_fail(prop, &format!("panic while running case seed={}", s));
				t.end_case(true);
			},
		}
	}
	fails
}
