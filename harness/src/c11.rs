//! C11: locked tree readers and the deferral of tree dereferences.
//!
//! Cases by `seed % 5`:
//!   0  F4 exactly: T1 = {DereferenceTree A, Set k=1}, T2 = {Set k=2}, a reader lock on A is
//!      held while T1 reaches the head of the queue.  Oracle: the commit-return-order map says
//!      k = 2 from the moment T2's commit returned, and 2 finally.
//!   1  locked-tree stability: hold the read lock of A; commit DereferenceTree A and InsertTree B
//!      (B shares subtrees of A through `NodeRef::Existing`) in either order; step the pipeline;
//!      every node of A read through the held guard is unchanged; release; step; A is gone, B is
//!      intact, the number of value entries is the number of live roots + distinct live nodes.
//!   2  deferral vs. a transaction that inserts AND dereferences (the pruning pattern):
//!      T_B = {InsertTree B sharing A's nodes, DereferenceTree C} with C locked by another
//!      reader, then T_A = {DereferenceTree A}.  Commit-return order keeps B valid.
//!   3  threaded: reader / writer / pruner threads with the background workers and a watchdog;
//!      a walk under a held lock must see the tree exactly as it was inserted; the counter
//!      written by the pruner's transactions must end at the last committed value.
//!   4  publication gap (needs the yield hook): the log worker is parked after planning the
//!      dereference walk (tree write lock already released) and before `end_record`; a reader
//!      locks the tree, which still looks intact, the worker resumes and publishes the removal
//!      while the read lock is held.
//!
//! Oracle: a logical forest (Arc-shared immutable nodes) + a map in commit-return order.
//! Stepping API for 0..2 (`with_background_thread = false`). No model op lines (comments only).
use crate::util::*;
use parity_db::{ColumnOptions, Db, NewNode, NodeRef, Operation, Options, TreeReader};
use std::collections::{BTreeMap, HashMap, HashSet};
use std::path::Path;
use std::sync::atomic::{AtomicBool, AtomicU64, Ordering};
use std::sync::{Arc, Mutex};
use std::time::{Duration, Instant};

const TREE_COL: u8 = 0;
const KV_COL: u8 = 1;

fn options(path: &Path, background: bool) -> Options {
	let mut o = Options::with_columns(path, 2);
	o.columns[0] = ColumnOptions { multitree: true, allow_direct_node_access: true, ..Default::default() };
	o.columns[1] = ColumnOptions::default();
	o.salt = Some([7u8; 32]);
	o.with_background_thread = background;
	o.always_flush = true;
	o.stats = false;
	o.sync_wal = !background;
	o.sync_data = !background;
	o
}

/// Logical (immutable, shared) tree node.
pub struct LNode {
	data: Vec<u8>,
	children: Vec<L>,
}
type L = Arc<LNode>;

fn ptr(n: &L) -> usize {
	Arc::as_ptr(n) as usize
}

fn gen_data(rng: &mut Rng, tag: u64) -> Vec<u8> {
	let len = *rng.pick(&[1u64, 8, 20, 33, 60, 200, 700]) as usize;
	let mut d = tag.to_le_bytes().to_vec();
	let mut r = rng.fork();
	while d.len() < len.max(8) {
		d.push(r.next() as u8);
	}
	d
}

fn gen_tree(rng: &mut Rng, depth: u32, tag: &mut u64) -> L {
	*tag += 1;
	let data = gen_data(rng, *tag);
	let n = if depth == 0 { 0 } else { rng.range(if depth >= 2 { 1 } else { 0 }, 3) };
	let children = (0..n).map(|_| gen_tree(rng, depth - 1, tag)).collect();
	Arc::new(LNode { data, children })
}

/// New tree derived from `prev`: keeps some subtrees (shared), replaces others.
fn gen_derived(rng: &mut Rng, prev: &L, tag: &mut u64) -> L {
	*tag += 1;
	let mut children = vec![];
	for c in prev.children.iter() {
		match rng.below(4) {
			0 => children.push(gen_tree(rng, 1, tag)),       // replaced
			1 if !c.children.is_empty() => children.push(gen_derived(rng, c, tag)), // partly shared below
			_ => children.push(c.clone()),                    // shared as is
		}
	}
	if children.is_empty() || (children.len() < 5 && rng.chance(1, 3)) {
		children.push(gen_tree(rng, 1, tag));
	}
	if children.len() > 3 && rng.chance(1, 3) {
		let i = rng.below(children.len() as u64) as usize;
		children.remove(i);
	}
	Arc::new(LNode { data: gen_data(rng, *tag), children })
}

fn distinct_nodes(root: &L, acc: &mut HashSet<usize>) {
	// the root itself is stored under its key, its descendants at addresses
	for c in root.children.iter() {
		if acc.insert(ptr(c)) {
			distinct_nodes(c, acc);
		}
	}
}

fn expected_entries(live: &[&L]) -> u64 {
	let mut acc = HashSet::new();
	for r in live {
		distinct_nodes(r, &mut acc);
	}
	(acc.len() + live.len()) as u64
}

/// Build the `NewNode` of an InsertTree: subtrees with a known address become `Existing`.
fn to_new(node: &L, known: &HashMap<usize, u64>) -> NewNode {
	NewNode {
		data: node.data.clone(),
		children: node
			.children
			.iter()
			.map(|c| match known.get(&ptr(c)) {
				Some(a) => NodeRef::Existing(*a),
				None => NodeRef::New(to_new(c, known)),
			})
			.collect(),
	}
}

/// Walk the stored tree through a (locked) reader and compare with the logical tree;
/// records the address of every logical node.
fn walk(
	rd: &dyn TreeReader,
	root: &L,
	addrs: &mut HashMap<usize, u64>,
	visited: &mut u64,
) -> Result<bool, String> {
	let (data, children) = match rd.get_root().map_err(|e| format!("get_root error {:?}", e))? {
		Some(x) => x,
		None => return Ok(false),
	};
	if data != root.data {
		return Err("root data differs".into())
	}
	if children.len() != root.children.len() {
		return Err(format!("root has {} children, expected {}", children.len(), root.children.len()))
	}
	*visited += 1;
	for (c, a) in root.children.iter().zip(children.iter()) {
		walk_node(rd, c, *a, addrs, visited)?;
	}
	Ok(true)
}

fn walk_node(
	rd: &dyn TreeReader,
	node: &L,
	addr: u64,
	addrs: &mut HashMap<usize, u64>,
	visited: &mut u64,
) -> Result<(), String> {
	let (data, children) = match rd.get_node(addr).map_err(|e| format!("get_node({:#x}) error {:?}", addr, e))? {
		Some(x) => x,
		None => return Err(format!("node at {:#x} is missing", addr)),
	};
	if data != node.data {
		return Err(format!("node at {:#x} was rewritten (data differs, {} vs {} bytes)", addr, data.len(), node.data.len()))
	}
	if children.len() != node.children.len() {
		return Err(format!("node at {:#x} has {} children, expected {}", addr, children.len(), node.children.len()))
	}
	if let Some(prev) = addrs.insert(ptr(node), addr) {
		if prev != addr {
			return Err(format!("shared node seen at two addresses {:#x} / {:#x}", prev, addr))
		}
	}
	*visited += 1;
	for (c, a) in node.children.iter().zip(children.iter()) {
		walk_node(rd, c, *a, addrs, visited)?;
	}
	Ok(())
}

fn key_of(id: u64) -> Vec<u8> {
	let mut r = Rng::new(id ^ 0x7ee5);
	let mut k = vec![];
	for _ in 0..4 {
		k.extend_from_slice(&r.next().to_le_bytes());
	}
	k[0..8].copy_from_slice(&id.to_be_bytes());
	k
}

struct Stepper<'a> {
	db: &'a Db,
	dirty: u32,
}

impl<'a> Stepper<'a> {
	fn process(&mut self, n: usize) {
		for _ in 0..n {
			self.db.process_commits().unwrap();
		}
	}
	fn settle(&mut self) {
		self.db.flush_logs().unwrap();
		self.db.enact_logs().unwrap();
		self.db.clean_logs().unwrap();
		self.dirty = 0;
	}
	fn drain(&mut self, n: usize) {
		for _ in 0..n {
			self.db.process_commits().unwrap();
			self.settle();
		}
	}
}

fn insert_tree(db: &Db, key: &[u8], tree: &L, known: &HashMap<usize, u64>) -> Result<(), parity_db::Error> {
	db.commit_changes(vec![(TREE_COL, Operation::InsertTree(key.to_vec(), to_new(tree, known)))])
}

/// verify tree under a fresh lock; Ok(false) when the root is absent
fn verify_tree(db: &Db, key: &[u8], tree: &L, addrs: &mut HashMap<usize, u64>) -> Result<bool, String> {
	match db.get_tree(TREE_COL, key).map_err(|e| format!("get_tree error {:?}", e))? {
		None => Ok(false),
		Some(reader) => {
			let g = reader.read();
			let mut n = 0;
			walk(&**g, tree, addrs, &mut n)
		},
	}
}

fn kv_get(db: &Db, k: &[u8]) -> Option<Vec<u8>> {
	db.get(KV_COL, k).unwrap()
}

// ------------------------------------------------------------------------------------------
// 0: F4

fn f4(seed: u64, root: &Path, t: &mut Trace, ctr: &mut Counters, prop: &str) -> bool {
	let mut rng = Rng::new(seed);
	let later = rng.range(1, 3); // transactions committed after T1 writing the same key
	let vlen = *rng.pick(&[1usize, 30, 400]);
	t.begin_case(&format!("seed={} f4 later={} vlen={}", seed, later, vlen));
	let dir = fresh_dir(root, &format!("c11-f4-{}", seed));
	let db = Db::open_or_create(&options(&dir, false)).expect("create");
	let mut st = Stepper { db: &db, dirty: 0 };
	let mut tag = 0;
	let a = gen_tree(&mut rng, 2, &mut tag);
	let ka = key_of(1);
	insert_tree(&db, &ka, &a, &HashMap::new()).unwrap();
	st.drain(2);
	let k = b"counter".to_vec();
	let val = |n: u64| {
		let mut v = n.to_le_bytes().to_vec();
		v.resize(vlen.max(8), n as u8);
		v
	};
	let mut ok = true;
	let mut violated = vec![];
	let reader = db.get_tree(TREE_COL, &ka).unwrap().expect("tree A exists");
	let guard = reader.read();
	// T1, then the later transactions; `want` is the commit-return-order value
	db.commit_changes(vec![
		(TREE_COL, Operation::DereferenceTree(ka.clone())),
		(KV_COL, Operation::Set(k.clone(), val(1))),
	])
	.unwrap();
	let mut want = 1u64;
	for i in 0..later {
		want = 2 + i;
		db.commit_changes(vec![(KV_COL, Operation::Set(k.clone(), val(want)))]).unwrap();
	}
	if kv_get(&db, &k) != Some(val(want)) {
		t.oracle_fail(prop, "f4: read right after the commits does not return the last committed value");
		ok = false;
	}
	// T1 reaches the head of the queue while the lock is held
	st.process(1);
	let got = kv_get(&db, &k);
	if got != Some(val(want)) {
		violated.push(format!(
			"after process_commits with the lock on A held, get(k) = {:?}, commit-return order says {}",
			got.as_ref().map(|v| u64::from_le_bytes(v[0..8].try_into().unwrap())),
			want
		));
	}
	// the tree itself is untouched while locked
	let mut addrs = HashMap::new();
	let mut n = 0;
	match walk(&**guard, &a, &mut addrs, &mut n) {
		Ok(true) => {},
		Ok(false) => {
			t.oracle_fail(prop, "f4: locked tree A lost its root");
			ok = false;
		},
		Err(m) => {
			t.oracle_fail(prop, &format!("f4: locked tree A changed: {}", m));
			ok = false;
		},
	}
	drop(guard);
	drop(reader);
	st.drain(later as usize + 3);
	let fin = kv_get(&db, &k);
	if fin != Some(val(want)) {
		violated.push(format!(
			"final state: get(k) = {:?}, commit-return order says {}",
			fin.as_ref().map(|v| u64::from_le_bytes(v[0..8].try_into().unwrap())),
			want
		));
	}
	// the postponed removal completed
	match verify_tree(&db, &ka, &a, &mut HashMap::new()) {
		Ok(false) => {},
		other => {
			t.oracle_fail(prop, &format!("f4: tree A still present after unlock + drain: {:?}", other));
			ok = false;
		},
	}
	let entries = db.get_num_column_value_entries(TREE_COL).unwrap();
	if entries != 0 {
		t.oracle_fail(prop, &format!("f4: {} value entries left after the only tree was dereferenced", entries));
		ok = false;
	}
	if violated.is_empty() {
		ctr.inc("f4.order_kept");
	} else {
		ctr.inc("f4.order_violated");
		t.known(prop, "F4", &format!("deferred commit overtaken and re-published: {}", violated.join("; ")));
	}
	drop(db);
	let _ = std::fs::remove_dir_all(&dir);
	ctr.inc("cases.f4");
	t.end_case(true);
	ok
}

// ------------------------------------------------------------------------------------------
// 1: locked-tree stability

/// Variant: the removal of A is already queued when the reader locks A; B (sharing A's nodes) is
/// inserted under the lock; the lock AND the reader handle are released before the log worker
/// makes any step.  The removal of A must still wait for B's references.
fn late_lock(seed: u64, root: &Path, t: &mut Trace, ctr: &mut Counters, prop: &str) -> bool {
	let mut rng = Rng::new(seed ^ 0x1a7e);
	let depth = rng.range(2, 3) as u32;
	let keep_handle = rng.chance(1, 3);
	t.begin_case(&format!("seed={} stability late-lock depth={} keep_handle={}", seed, depth, keep_handle));
	let dir = fresh_dir(root, &format!("c11-ll-{}", seed));
	let db = Db::open_or_create(&options(&dir, false)).expect("create");
	let mut st = Stepper { db: &db, dirty: 0 };
	let mut tag = 0;
	let mut ok = true;
	let a = gen_tree(&mut rng, depth, &mut tag);
	let ka = key_of(1);
	insert_tree(&db, &ka, &a, &HashMap::new()).unwrap();
	st.drain(2);
	// removal of A queued, nothing processed yet
	db.commit_changes(vec![(TREE_COL, Operation::DereferenceTree(ka.clone()))]).unwrap();
	let reader = db.get_tree(TREE_COL, &ka).unwrap().expect("tree A exists");
	let guard = reader.read();
	let mut addrs = HashMap::new();
	let mut n_a = 0;
	if !matches!(walk(&**guard, &a, &mut addrs, &mut n_a), Ok(true)) {
		t.oracle_fail(prop, "late-lock: tree A does not read back under the lock");
		ok = false;
	}
	let b = gen_derived(&mut rng, &a, &mut tag);
	let kb = key_of(2);
	insert_tree(&db, &kb, &b, &addrs).unwrap();
	drop(guard);
	let kept = if keep_handle { Some(reader) } else { drop(reader); None };
	st.drain(8);
	match verify_tree(&db, &ka, &a, &mut HashMap::new()) {
		Ok(false) => ctr.inc("latelock.removal_completed"),
		other => {
			t.oracle_fail(prop, &format!("late-lock: postponed removal of A did not complete after unlock: {:?}", other));
			ok = false;
		},
	}
	match verify_tree(&db, &kb, &b, &mut HashMap::new()) {
		Ok(true) => ctr.inc("latelock.b_intact"),
		other => {
			t.oracle_fail(prop, &format!("late-lock: tree B (inserted under the lock, sharing nodes of A) not intact after the removal of A: {:?}", other));
			ok = false;
		},
	}
	let entries = db.get_num_column_value_entries(TREE_COL).unwrap();
	let want = expected_entries(&[&b]);
	if entries != want {
		t.oracle_fail(prop, &format!("late-lock: {} value entries, expected {}", entries, want));
		ok = false;
	}
	drop(kept);
	db.commit_changes(vec![(TREE_COL, Operation::DereferenceTree(kb.clone()))]).unwrap();
	st.drain(3);
	let entries = db.get_num_column_value_entries(TREE_COL).unwrap();
	if entries != 0 {
		t.oracle_fail(prop, &format!("late-lock: {} value entries left after every tree was dereferenced", entries));
		ok = false;
	}
	drop(db);
	let _ = std::fs::remove_dir_all(&dir);
	ctr.inc("cases.stability_late_lock");
	t.end_case(true);
	ok
}

fn stability(seed: u64, root: &Path, t: &mut Trace, ctr: &mut Counters, prop: &str) -> bool {
	if (seed / 5) % 2 == 1 {
		return late_lock(seed, root, t, ctr, prop)
	}
	let mut rng = Rng::new(seed);
	let deref_first = rng.chance(1, 2);
	let depth = rng.range(2, 3) as u32;
	let extra_trees = rng.below(3);
	t.begin_case(&format!("seed={} stability deref_first={} depth={} extra={}", seed, deref_first, depth, extra_trees));
	let dir = fresh_dir(root, &format!("c11-st-{}", seed));
	let db = Db::open_or_create(&options(&dir, false)).expect("create");
	let mut st = Stepper { db: &db, dirty: 0 };
	let mut tag = 0;
	let mut ok = true;
	let a = gen_tree(&mut rng, depth, &mut tag);
	let ka = key_of(1);
	insert_tree(&db, &ka, &a, &HashMap::new()).unwrap();
	st.drain(2);
	// earlier reader handles of the same tree, taken and dropped again (the registry then holds a
	// dead weak reference for the key when the real reader is created)
	let prior = rng.below(3);
	for _ in 0..prior {
		let r = db.get_tree(TREE_COL, &ka).unwrap().expect("tree A exists");
		if rng.chance(1, 2) {
			let g = r.read();
			let _ = g.get_root();
		}
		drop(r);
	}
	ctr.inc(&format!("stability.prior_handles.{}", prior));
	let reader = db.get_tree(TREE_COL, &ka).unwrap().expect("tree A exists");
	let guard = reader.read();
	let mut addrs = HashMap::new();
	let mut n_a = 0;
	if !matches!(walk(&**guard, &a, &mut addrs, &mut n_a), Ok(true)) {
		t.oracle_fail(prop, "stability: tree A does not read back after insertion");
		ok = false;
	}
	ctr.add("stability.nodes_in_A", n_a);
	let b = gen_derived(&mut rng, &a, &mut tag);
	let kb = key_of(2);
	let mut shared = 0;
	{
		let mut hs = HashSet::new();
		distinct_nodes(&b, &mut hs);
		for p in hs {
			if addrs.contains_key(&p) {
				shared += 1;
			}
		}
	}
	ctr.add("stability.shared_nodes", shared);
	if deref_first {
		db.commit_changes(vec![(TREE_COL, Operation::DereferenceTree(ka.clone()))]).unwrap();
		insert_tree(&db, &kb, &b, &addrs).unwrap();
	} else {
		insert_tree(&db, &kb, &b, &addrs).unwrap();
		db.commit_changes(vec![(TREE_COL, Operation::DereferenceTree(ka.clone()))]).unwrap();
	}
	// unrelated trees come and go meanwhile
	let mut others = vec![];
	for i in 0..extra_trees {
		let o = gen_tree(&mut rng, 2, &mut tag);
		let ko = key_of(10 + i);
		insert_tree(&db, &ko, &o, &HashMap::new()).unwrap();
		others.push((ko, o));
	}
	// the pipeline runs while the lock is held
	for round in 0..4 {
		st.drain(2);
		let mut seen = HashMap::new();
		let mut n = 0;
		match walk(&**guard, &a, &mut seen, &mut n) {
			Ok(true) if seen == addrs => ctr.inc("stability.locked_walks_ok"),
			Ok(true) => {
				t.oracle_fail(prop, &format!("stability: node addresses of locked tree A changed in round {}", round));
				ok = false;
			},
			Ok(false) => {
				t.oracle_fail(prop, &format!("stability: root of locked tree A disappeared in round {}", round));
				ok = false;
			},
			Err(m) => {
				t.oracle_fail(prop, &format!("stability: locked tree A changed in round {}: {}", round, m));
				ok = false;
			},
		}
	}
	// B was inserted meanwhile and is complete
	let mut addrs_b = HashMap::new();
	match verify_tree(&db, &kb, &b, &mut addrs_b) {
		Ok(true) => {},
		other => {
			t.oracle_fail(prop, &format!("stability: tree B (sharing nodes of locked A) not intact while A is locked: {:?}", other));
			ok = false;
		},
	}
	drop(guard);
	drop(reader);
	st.drain(6);
	match verify_tree(&db, &ka, &a, &mut HashMap::new()) {
		Ok(false) => ctr.inc("stability.removal_completed"),
		other => {
			t.oracle_fail(prop, &format!("stability: postponed removal of A did not complete after unlock: {:?}", other));
			ok = false;
		},
	}
	let mut addrs_b2 = HashMap::new();
	match verify_tree(&db, &kb, &b, &mut addrs_b2) {
		Ok(true) if addrs_b2 == addrs_b => {},
		other => {
			t.oracle_fail(prop, &format!("stability: tree B not intact after A was removed: {:?}", other.map(|_| "addresses changed")));
			ok = false;
		},
	}
	let mut live: Vec<&L> = vec![&b];
	for (ko, o) in others.iter() {
		match verify_tree(&db, ko, o, &mut HashMap::new()) {
			Ok(true) => {},
			other => {
				t.oracle_fail(prop, &format!("stability: unrelated tree damaged: {:?}", other));
				ok = false;
			},
		}
		live.push(o);
	}
	let entries = db.get_num_column_value_entries(TREE_COL).unwrap();
	let want = expected_entries(&live);
	if entries != want {
		t.oracle_fail(prop, &format!("stability: {} value entries, expected {} (live roots + distinct live nodes)", entries, want));
		ok = false;
	}
	// dereference the rest: nothing may remain
	db.commit_changes(vec![(TREE_COL, Operation::DereferenceTree(kb.clone()))]).unwrap();
	for (ko, _) in others.iter() {
		db.commit_changes(vec![(TREE_COL, Operation::DereferenceTree(ko.clone()))]).unwrap();
	}
	st.drain(extra_trees as usize + 3);
	let entries = db.get_num_column_value_entries(TREE_COL).unwrap();
	if entries != 0 {
		t.oracle_fail(prop, &format!("stability: {} value entries left after every tree was dereferenced", entries));
		ok = false;
	}
	drop(db);
	let _ = std::fs::remove_dir_all(&dir);
	ctr.inc("cases.stability");
	ctr.inc(if deref_first { "stability.deref_before_insert" } else { "stability.insert_before_deref" });
	t.end_case(shared > 0);
	ok
}

// ------------------------------------------------------------------------------------------
// 2: insert + dereference in one transaction, deferred behind the dereference of the shared tree

fn f4_insert(seed: u64, root: &Path, t: &mut Trace, ctr: &mut Counters, prop: &str) -> bool {
	let mut rng = Rng::new(seed);
	t.begin_case(&format!("seed={} f4-insert", seed));
	let dir = fresh_dir(root, &format!("c11-f4i-{}", seed));
	let db = Db::open_or_create(&options(&dir, false)).expect("create");
	let mut st = Stepper { db: &db, dirty: 0 };
	let mut tag = 0;
	let mut ok = true;
	let a = gen_tree(&mut rng, 2, &mut tag);
	let c = gen_tree(&mut rng, 1, &mut tag);
	let (ka, kb, kc) = (key_of(1), key_of(2), key_of(3));
	insert_tree(&db, &ka, &a, &HashMap::new()).unwrap();
	insert_tree(&db, &kc, &c, &HashMap::new()).unwrap();
	st.drain(3);
	// another client reads C for a long time
	let reader_c = db.get_tree(TREE_COL, &kc).unwrap().expect("tree C exists");
	let guard_c = reader_c.read();
	// the writer builds B from A under A's lock and prunes C in the same transaction
	let b = gen_derived(&mut rng, &a, &mut tag);
	let mut addrs = HashMap::new();
	{
		let reader_a = db.get_tree(TREE_COL, &ka).unwrap().expect("tree A exists");
		let guard_a = reader_a.read();
		let mut n = 0;
		walk(&**guard_a, &a, &mut addrs, &mut n).unwrap();
		db.commit_changes(vec![
			(TREE_COL, Operation::InsertTree(kb.clone(), to_new(&b, &addrs))),
			(TREE_COL, Operation::DereferenceTree(kc.clone())),
		])
		.unwrap();
	}
	// later: A is pruned
	db.commit_changes(vec![(TREE_COL, Operation::DereferenceTree(ka.clone()))]).unwrap();
	let mut shared = 0;
	{
		let mut hs = HashSet::new();
		distinct_nodes(&b, &mut hs);
		for p in hs {
			if addrs.contains_key(&p) {
				shared += 1;
			}
		}
	}
	let res = std::panic::catch_unwind(std::panic::AssertUnwindSafe(|| {
		let mut st2 = Stepper { db: &db, dirty: 0 };
		st2.drain(4);
	}));
	drop(guard_c);
	drop(reader_c);
	let res2 = std::panic::catch_unwind(std::panic::AssertUnwindSafe(|| {
		let mut st2 = Stepper { db: &db, dirty: 0 };
		st2.drain(5);
	}));
	let _ = &mut st;
	let mut violated = vec![];
	if res.is_err() || res2.is_err() {
		violated.push("the pipeline panicked while planning the overtaken transaction".to_string());
	} else {
		match verify_tree(&db, &kb, &b, &mut HashMap::new()) {
			Ok(true) => {},
			Ok(false) => violated.push("tree B (committed before the dereference of A) has no root".to_string()),
			Err(m) => violated.push(format!("tree B (committed before the dereference of A) is damaged: {}", m)),
		}
		let entries = db.get_num_column_value_entries(TREE_COL).unwrap();
		let want = expected_entries(&[&b]);
		if entries != want {
			violated.push(format!("{} value entries, commit-return order gives {}", entries, want));
		}
	}
	if violated.is_empty() {
		ctr.inc("f4_insert.order_kept");
	} else if shared == 0 {
		t.oracle_fail(prop, &format!("f4-insert without shared nodes: {}", violated.join("; ")));
		ok = false;
	} else {
		ctr.inc("f4_insert.order_violated");
		t.known(prop, "F4", &format!("deferred commit {{InsertTree B, DereferenceTree C}} overtaken by DereferenceTree A: {}", violated.join("; ")));
	}
	if res.is_ok() && res2.is_ok() {
		drop(db);
	} else {
		std::mem::forget(db);
	}
	let _ = std::fs::remove_dir_all(&dir);
	ctr.inc("cases.f4_insert");
	t.end_case(shared > 0);
	ok
}

// ------------------------------------------------------------------------------------------
// 3: threaded

fn threaded(seed: u64, thorough: bool, root: &Path, t: &mut Trace, ctr: &mut Counters, prop: &str) -> bool {
	let mut rng = Rng::new(seed);
	let nreaders = rng.range(2, 4) as usize;
	let keep = rng.range(2, 5); // trees kept before pruning
	let millis = if thorough { 15_000 } else { 1_500 };
	let hold_us = *rng.pick(&[0u64, 50, 400, 2000]);
	t.begin_case(&format!("seed={} threaded readers={} keep={} ms={} hold_us={}", seed, nreaders, keep, millis, hold_us));
	let dir = fresh_dir(root, &format!("c11-th-{}", seed));
	let db = Arc::new(Db::open_or_create(&options(&dir, true)).expect("create"));
	// shared logical state: tree index -> (key, tree); `pruned` = dereference committed
	struct Shared {
		trees: BTreeMap<u64, (Vec<u8>, L)>,
		pruned_upto: u64, // trees with index < this have a committed DereferenceTree
	}
	let shared = Arc::new(Mutex::new(Shared { trees: BTreeMap::new(), pruned_upto: 0 }));
	let stop = Arc::new(AtomicBool::new(false));
	let inserted = Arc::new(AtomicU64::new(0));
	let removed_committed = Arc::new(AtomicU64::new(0));
	let mut tag = 0u64;
	let first = gen_tree(&mut rng, 3, &mut tag);
	insert_tree(&db, &key_of(0), &first, &HashMap::new()).unwrap();
	shared.lock().unwrap().trees.insert(0, (key_of(0), first));
	inserted.store(1, Ordering::SeqCst);

	// prelude: a postponed removal that is alone in the queue must neither be forgotten nor keep
	// the log worker spinning while the reader holds on to the tree
	let mut ok = true;
	{
		let kx = key_of(1 << 40);
		let x = gen_tree(&mut rng, 2, &mut tag);
		insert_tree(&db, &kx, &x, &HashMap::new()).unwrap();
		let reader = db.get_tree(TREE_COL, &kx).unwrap().expect("tree X exists");
		let guard = reader.read();
		db.commit_changes(vec![(TREE_COL, Operation::DereferenceTree(kx.clone()))]).unwrap();
		std::thread::sleep(Duration::from_millis(50));
		let cpu = |_: ()| {
			let mut ts = libc::timespec { tv_sec: 0, tv_nsec: 0 };
			unsafe { libc::clock_gettime(libc::CLOCK_PROCESS_CPUTIME_ID, &mut ts) };
			ts.tv_sec as u64 * 1000 + ts.tv_nsec as u64 / 1_000_000
		};
		let c0 = cpu(());
		std::thread::sleep(Duration::from_millis(300));
		let used = cpu(()) - c0;
		let mut n = 0;
		if !matches!(walk(&**guard, &x, &mut HashMap::new(), &mut n), Ok(true)) {
			t.oracle_fail(prop, "threaded prelude: locked tree X changed while its removal was postponed");
			ok = false;
		}
		drop(guard);
		drop(reader);
		let td = Instant::now();
		let mut gone = false;
		while td.elapsed() < Duration::from_secs(5) {
			if matches!(db.get_tree(TREE_COL, &kx), Ok(None)) {
				gone = true;
				break
			}
			std::thread::sleep(Duration::from_millis(2));
		}
		if !gone {
			t.oracle_fail(prop, "threaded prelude: postponed removal of X did not complete within 5 s of the unlock (no further commit)");
			ok = false;
		} else {
			ctr.inc("threaded.released_completes");
		}
		t.comment(&format!("threaded prelude: {} ms of CPU in 300 ms while the only queued commit was postponed behind a reader lock", used));
		ctr.inc(if used >= 150 { "threaded.log_worker_spins_while_postponed" } else { "threaded.log_worker_idle_while_postponed" });
	}

	let writer = {
		let (db, shared, stop, inserted) = (db.clone(), shared.clone(), stop.clone(), inserted.clone());
		let mut rng = rng.fork();
		std::thread::spawn(move || -> Result<u64, String> {
			let mut idx = 1u64;
			while !stop.load(Ordering::Relaxed) {
				let (pk, prev) = {
					let s = shared.lock().unwrap();
					let (_, (k, tr)) = s.trees.iter().next_back().unwrap();
					(k.clone(), tr.clone())
				};
				// build the next tree from the previous one under its lock (as the bench does)
				let reader = match db.get_tree(TREE_COL, &pk).map_err(|e| format!("{:?}", e))? {
					Some(r) => r,
					None => return Err(format!("writer: previous tree {} not found", idx - 1)),
				};
				let guard = reader.read();
				let mut addrs = HashMap::new();
				let mut n = 0;
				match walk(&**guard, &prev, &mut addrs, &mut n) {
					Ok(true) => {},
					Ok(false) => return Err(format!("writer: previous tree {} has no root under lock", idx - 1)),
					Err(m) => return Err(format!("writer: previous tree {} damaged under lock: {}", idx - 1, m)),
				}
				let next = gen_derived(&mut rng, &prev, &mut tag);
				let k = key_of(idx);
				db.commit_changes(vec![(TREE_COL, Operation::InsertTree(k.clone(), to_new(&next, &addrs)))])
					.map_err(|e| format!("writer commit: {:?}", e))?;
				drop(guard);
				shared.lock().unwrap().trees.insert(idx, (k, next));
				idx += 1;
				inserted.store(idx, Ordering::SeqCst);
				std::thread::sleep(Duration::from_micros(200));
			}
			Ok(idx)
		})
	};
	let pruner = {
		let (db, shared, stop, inserted, removed_committed) =
			(db.clone(), shared.clone(), stop.clone(), inserted.clone(), removed_committed.clone());
		std::thread::spawn(move || -> Result<u64, String> {
			let mut removed = 0u64;
			while !stop.load(Ordering::Relaxed) {
				if inserted.load(Ordering::SeqCst) > removed + keep {
					let k = key_of(removed);
					// mark first: readers that lock afterwards may legitimately find no root
					shared.lock().unwrap().pruned_upto = removed + 1;
					db.commit_changes(vec![
						(TREE_COL, Operation::DereferenceTree(k)),
						(KV_COL, Operation::Set(b"removed".to_vec(), (removed + 1).to_le_bytes().to_vec())),
					])
					.map_err(|e| format!("pruner commit {}: {:?}", removed, e))?;
					removed += 1;
					removed_committed.store(removed, Ordering::SeqCst);
				} else {
					std::thread::sleep(Duration::from_micros(100));
				}
			}
			Ok(removed)
		})
	};
	let mut readers = vec![];
	for r in 0..nreaders {
		let (db, shared, stop) = (db.clone(), shared.clone(), stop.clone());
		let mut rr = Rng::new(seed ^ (0x77 + r as u64));
		readers.push(std::thread::spawn(move || -> (u64, u64, u64, Vec<String>) {
			let (mut walks, mut nodes, mut gone) = (0u64, 0u64, 0u64);
			let mut bad = vec![];
			while !stop.load(Ordering::Relaxed) && bad.len() < 3 {
				let pick = {
					let s = shared.lock().unwrap();
					let lo = s.pruned_upto.saturating_sub(1);
					let hi = *s.trees.keys().next_back().unwrap();
					let i = lo + rr.below(hi - lo + 1);
					s.trees.get(&i).map(|(k, tr)| (i, k.clone(), tr.clone()))
				};
				let (i, k, tr) = match pick {
					Some(x) => x,
					None => continue,
				};
				let reader = match db.get_tree(TREE_COL, &k) {
					Ok(Some(r)) => r,
					Ok(None) => {
						if shared.lock().unwrap().pruned_upto <= i {
							bad.push(format!("tree {} not found although its dereference was never committed", i));
						}
						gone += 1;
						continue
					},
					Err(e) => {
						bad.push(format!("get_tree({}) error {:?}", i, e));
						continue
					},
				};
				let guard = reader.read();
				let mut addrs = HashMap::new();
				let mut n = 0;
				match walk(&**guard, &tr, &mut addrs, &mut n) {
					Ok(true) => {
						walks += 1;
						nodes += n;
						if hold_us > 0 {
							std::thread::sleep(Duration::from_micros(rr.below(hold_us + 1)));
						}
						// still the same at the end of the critical section
						let mut addrs2 = HashMap::new();
						let mut n2 = 0;
						match walk(&**guard, &tr, &mut addrs2, &mut n2) {
							Ok(true) if addrs2 == addrs => {},
							other => bad.push(format!("tree {} changed while its read lock was held: {:?}", i, other)),
						}
					},
					Ok(false) => {
						if shared.lock().unwrap().pruned_upto <= i {
							bad.push(format!("tree {} has no root under lock although its dereference was never committed", i));
						}
						gone += 1;
					},
					Err(m) => bad.push(format!("tree {} read under lock is damaged: {}", i, m)),
				}
			}
			(walks, nodes, gone, bad)
		}));
	}
	std::thread::sleep(Duration::from_millis(millis));
	stop.store(true, Ordering::SeqCst);
	fn wait<T>(h: &std::thread::JoinHandle<T>, deadline: Instant) -> bool {
		while !h.is_finished() && Instant::now() < deadline {
			std::thread::sleep(Duration::from_millis(5));
		}
		h.is_finished()
	}
	let deadline = Instant::now() + Duration::from_secs(60);
	let mut hung = !wait(&writer, deadline) || !wait(&pruner, deadline);
	for h in &readers {
		hung |= !wait(h, deadline);
	}
	if hung {
		t.oracle_fail(prop, "watchdog: reader / writer / pruner thread did not finish within 60 s of the stop signal");
		t.end_case(true);
		t.flush();
		std::process::exit(3);
	}
	let n_inserted = match writer.join().unwrap() {
		Ok(n) => n,
		Err(m) => {
			t.oracle_fail(prop, &m);
			ok = false;
			inserted.load(Ordering::SeqCst)
		},
	};
	let n_removed = match pruner.join().unwrap() {
		Ok(n) => n,
		Err(m) => {
			t.oracle_fail(prop, &m);
			ok = false;
			removed_committed.load(Ordering::SeqCst)
		},
	};
	for h in readers {
		let (walks, nodes, gone, bad) = h.join().unwrap();
		ctr.add("threaded.locked_walks", walks);
		ctr.add("threaded.nodes_read_under_lock", nodes);
		ctr.add("threaded.reads_of_pruned_trees", gone);
		for m in bad {
			t.oracle_fail(prop, &m);
			ok = false;
		}
	}
	// quiesce: wait until the removals are visible, then check the final state
	let td = Instant::now();
	let live_want: Vec<(u64, Vec<u8>, L)> = {
		let s = shared.lock().unwrap();
		s.trees.iter().filter(|(i, _)| **i >= n_removed).map(|(i, (k, tr))| (*i, k.clone(), tr.clone())).collect()
	};
	let want_entries = expected_entries(&live_want.iter().map(|x| &x.2).collect::<Vec<_>>());
	let mut entries = 0;
	while td.elapsed() < Duration::from_secs(20) {
		entries = db.get_num_column_value_entries(TREE_COL).unwrap();
		let oldest_gone = n_removed == 0 || matches!(db.get_tree(TREE_COL, &key_of(n_removed - 1)), Ok(None));
		if entries == want_entries && oldest_gone {
			break
		}
		std::thread::sleep(Duration::from_millis(50));
	}
	if entries != want_entries {
		t.oracle_fail(prop, &format!("threaded: {} value entries after quiescence, expected {} ({} live trees)", entries, want_entries, live_want.len()));
		ok = false;
	}
	for (i, k, tr) in live_want.iter() {
		match verify_tree(&db, k, tr, &mut HashMap::new()) {
			Ok(true) => {},
			other => {
				t.oracle_fail(prop, &format!("threaded: live tree {} not intact at the end: {:?}", i, other));
				ok = false;
			},
		}
	}
	let removed_val = kv_get(&db, b"removed").map(|v| u64::from_le_bytes(v[0..8].try_into().unwrap())).unwrap_or(0);
	if removed_val != n_removed {
		ctr.inc("threaded.order_violated");
		t.known(prop, "F4", &format!("deferred commit overtaken and re-published: counter written by the pruning transactions ends at {} although the last committed transaction wrote {}", removed_val, n_removed));
	} else {
		ctr.inc("threaded.order_kept");
	}
	t.comment(&format!("threaded: inserted={} removed={} live={} entries={} counter={}", n_inserted, n_removed, live_want.len(), entries, removed_val));
	ctr.add("threaded.trees_inserted", n_inserted);
	ctr.add("threaded.trees_removed", n_removed);
	drop(shared);
	let db = Arc::try_unwrap(db).ok().expect("all threads joined");
	let dropper = std::thread::spawn(move || drop(db));
	if !wait(&dropper, Instant::now() + Duration::from_secs(30)) {
		t.comment("threaded: drop(Db) did not return within 30 s (pre-finding F7)");
		ctr.inc("threaded.drop_hang_F7");
	}
	let _ = std::fs::remove_dir_all(&dir);
	ctr.inc("cases.threaded");
	t.end_case(n_inserted > 5);
	ok
}

// ------------------------------------------------------------------------------------------
// 4: a reader takes the lock after the dereference walk was planned, before it is published

fn publish_gap(seed: u64, root: &Path, t: &mut Trace, ctr: &mut Counters, prop: &str) -> bool {
	use crate::c05::{Gate, PARK_ME};
	let mut rng = Rng::new(seed);
	let depth = rng.range(2, 3) as u32;
	let reuse = rng.chance(2, 3);
	t.begin_case(&format!("seed={} publish-gap depth={} reuse={}", seed, depth, reuse));
	let dir = fresh_dir(root, &format!("c11-pg-{}", seed));
	let db = Db::open_or_create(&options(&dir, false)).expect("create");
	let mut tag = 0;
	let mut ok = true;
	let a = gen_tree(&mut rng, depth, &mut tag);
	let ka = key_of(1);
	insert_tree(&db, &ka, &a, &HashMap::new()).unwrap();
	{
		let mut st = Stepper { db: &db, dirty: 0 };
		st.drain(2);
	}
	db.commit_changes(vec![(TREE_COL, Operation::DereferenceTree(ka.clone()))]).unwrap();
	let gate = Gate::new("process_commits.before_end_record");
	gate.install();
	gate.arm();
	let mut violated = vec![];
	let mut reached = false;
	let mut excluded = false;
	std::thread::scope(|s| {
		let dbr = &db;
		let worker = s.spawn(move || {
			PARK_ME.with(|p| p.set(true));
			let r = dbr.process_commits();
			PARK_ME.with(|p| p.set(false));
			r
		});
		if !gate.wait_parked(5000) {
			gate.release();
			worker.join().unwrap().unwrap();
			return
		}
		reached = true;
		// the walk is planned, its tree lock released, nothing is published: the tree looks intact
		let reader = match db.get_tree(TREE_COL, &ka) {
			Ok(Some(r)) => r,
			other => {
				violated.push(format!("get_tree before publication returned {:?}", other.map(|o| o.is_some())));
				gate.release();
				worker.join().unwrap().unwrap();
				return
			},
		};
		let guard = match reader.try_read() {
			Some(g) => g,
			None => {
				// the planner still holds the tree's write lock: the reader is kept out until the
				// removal is visible
				excluded = true;
				gate.release();
				worker.join().unwrap().unwrap();
				let g = reader.read();
				match g.get_root() {
					Ok(None) => {},
					other => violated.push(format!("after waiting for the planner the root is {:?}", other.map(|o| o.is_some()))),
				}
				return
			},
		};
		let mut addrs = HashMap::new();
		let mut n = 0;
		match walk(&**guard, &a, &mut addrs, &mut n) {
			Ok(true) => {},
			other => violated.push(format!("tree not intact when the lock was acquired: {:?}", other)),
		}
		gate.release();
		worker.join().unwrap().unwrap();
		// the removal is now published while the read lock is STILL held
		let mut addrs2 = HashMap::new();
		let mut n2 = 0;
		match walk(&**guard, &a, &mut addrs2, &mut n2) {
			Ok(true) if addrs2 == addrs => {},
			Ok(true) => violated.push("node addresses changed under the held lock".into()),
			Ok(false) => violated.push("root disappeared under the held lock".into()),
			Err(m) => violated.push(format!("tree changed under the held lock: {}", m)),
		}
		if reuse {
			// freed slots are handed out again while the reader still holds its lock
			let d = gen_tree(&mut rng, depth, &mut tag);
			insert_tree(&db, &key_of(9), &d, &HashMap::new()).unwrap();
			let mut st = Stepper { db: &db, dirty: 0 };
			st.drain(2);
			let mut addrs3 = HashMap::new();
			let mut n3 = 0;
			match walk(&**guard, &a, &mut addrs3, &mut n3) {
				Ok(true) if addrs3 == addrs => {},
				Ok(true) => violated.push("node addresses changed under the held lock (after reuse)".into()),
				Ok(false) => {},
				Err(m) => violated.push(format!("after a later InsertTree: {}", m)),
			}
		}
		drop(guard);
	});
	parity_db::verif::set_yield_hook(None);
	if !reached {
		t.comment("publish-gap: yield point not reached");
		ctr.inc("publish_gap.not_reached");
	} else if violated.is_empty() {
		ctr.inc(if excluded { "publish_gap.reader_excluded_until_published" } else { "publish_gap.stable" });
	} else {
		ctr.inc("publish_gap.violated");
		t.known(prop, "F13", &format!("tree write lock released before the dereference is published: reader locked tree A between the walk and end_record: {}", violated.join("; ")));
	}
	{
		let mut st = Stepper { db: &db, dirty: 0 };
		st.drain(3);
	}
	if !matches!(verify_tree(&db, &ka, &a, &mut HashMap::new()), Ok(false)) {
		t.oracle_fail(prop, "publish-gap: tree A still present at the end");
		ok = false;
	}
	drop(db);
	let _ = std::fs::remove_dir_all(&dir);
	ctr.inc("cases.publish_gap");
	t.end_case(reached);
	ok
}

pub fn run(seeds: &[u64], thorough: bool, root: &Path, t: &mut Trace, ctr: &mut Counters, prop: &str) -> u64 {
	let mut fails = 0;
	for (i, s) in seeds.iter().copied().enumerate() {
		// a run of several cases covers every kind (and both stability variants) in turn; the
		// adjusted seed is the one printed, so `--case-seed` replays it
		let s = if seeds.len() > 1 { s - (s % 10) + (i as u64 % 10) } else { s };
		let ok = match s % 5 {
			0 => f4(s, root, t, ctr, prop),
			1 => stability(s, root, t, ctr, prop),
			2 => f4_insert(s, root, t, ctr, prop),
			3 => threaded(s, thorough, root, t, ctr, prop),
			_ => publish_gap(s, root, t, ctr, prop),
		};
		ctr.inc("cases");
		if !ok {
			fails += 1;
			t.comment(&format!("FAILED-CASE seed={}", s));
		}
	}
	fails
}
