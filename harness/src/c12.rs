//! C12 "power loss cannot tear state": (a) real durability journals checked by the Lean acceptor
//! (`c12 check <journal>`) and by an independent positional checker, (b) search with actual
//! power-loss images (page-wise mix of the durable and the volatile version of every table /
//! index / ref-count file, synced log bytes + a prefix of the rest) reopened with the real code
//! and compared with a plain-map oracle.
//!
//! Where the journal comes from (no hook in /repo):
//!   * `fdatasync` / `fsync` / `msync` / `ftruncate` / `unlink` / `mmap`: interposed libc symbols
//!     (`interpose.rs`), in issue order;
//!   * table / index / ref-count stores go through the mapping and cannot be interposed: the
//!     harness drives the stepping API single-threaded and diffs every `table_*`, `index_*`,
//!     `refcount_*` file page by page (4 KiB) across each call; the pages changed by one
//!     `enact_logs` call are attributed to every record of the log file enacted by that call;
//!   * log appends: one `process_commits` call with a queued commit = one record; the log file is
//!     known at the latest when `flush_logs` syncs it (`BufWriter` keeps small records in user
//!     space until then), the A event keeps its position.
//!
//! Exemptions (legitimate writes outside the record protocol), encoded HERE, not in D:
//!   * `index_*` pages 0..3 (META area = 16 KiB: header + column statistics, `write_stats`;
//!     `IndexTable::flush` skips it): never W events, either version in the images;
//!   * file creation, `set_len` preallocation / growth (zero bytes; A-os: durable at once): no
//!     event, the durable version of a new file / new tail is zeros;
//!   * the header entry of a fresh btree column written by `init_with_entry` during `Db::open`:
//!     not a W event (no record); measured: the same open msyncs the file (`clean_all_logs` in
//!     `open_inner`), so it is durable before the first commit.
//! Anything else that changes a table-ish page outside an `enact_logs` call is reported as an
//! oracle failure.
//!
//! Command `c12x` (exploratory, not in the default check): index growth, see `run_reindex_case`.
use crate::interpose::{self, Call};
use crate::p1::{self, Cfg, ColCfg, Kind, Op, Oracle, Tx};
use crate::util::*;
use parity_db::{CompressionType, Db};
use std::collections::{BTreeMap, BTreeSet, VecDeque};
use std::os::unix::io::AsRawFd;
use std::path::{Path, PathBuf};

const PAGE: u64 = 4096;
const INDEX_META_PAGES: u64 = 4; // META_SIZE = 16 KiB

/// Sparse file content: length + non-zero pages.
#[derive(Clone, Default, PartialEq, Eq)]
struct FileImg {
	len: u64,
	pages: BTreeMap<u64, Vec<u8>>,
}

fn read_img(path: &Path) -> Option<FileImg> {
	let f = std::fs::File::open(path).ok()?;
	let len = f.metadata().ok()?.len();
	let fd = f.as_raw_fd();
	let mut img = FileImg { len, pages: BTreeMap::new() };
	let mut off: i64 = 0;
	let mut buf = vec![0u8; 1 << 20];
	while (off as u64) < len {
		let d = unsafe { libc::lseek(fd, off, libc::SEEK_DATA) };
		if d < 0 {
			break // ENXIO: no more data
		}
		let h = unsafe { libc::lseek(fd, d, libc::SEEK_HOLE) };
		let end = if h < 0 { len as i64 } else { h };
		let mut p = d - (d % PAGE as i64);
		while p < end {
			let want = std::cmp::min(buf.len() as i64, end - p) as usize;
			let n = unsafe { libc::pread(fd, buf.as_mut_ptr() as *mut libc::c_void, want, p) };
			if n <= 0 {
				break
			}
			let n = n as usize;
			let mut i = 0;
			while i < n {
				let e = std::cmp::min(i + PAGE as usize, n);
				if buf[i..e].iter().any(|b| *b != 0) {
					let mut pg = buf[i..e].to_vec();
					pg.resize(PAGE as usize, 0);
					img.pages.insert((p as u64 + i as u64) / PAGE, pg);
				}
				i = e;
			}
			p += n as i64;
		}
		off = end;
	}
	Some(img)
}

fn write_img(path: &Path, img: &FileImg) {
	use std::io::{Seek, SeekFrom, Write};
	let mut f = std::fs::File::create(path).unwrap();
	f.set_len(img.len).unwrap();
	for (p, data) in &img.pages {
		let off = p * PAGE;
		if off >= img.len {
			continue
		}
		let n = std::cmp::min(PAGE, img.len - off) as usize;
		f.seek(SeekFrom::Start(off)).unwrap();
		f.write_all(&data[..n]).unwrap();
	}
}

fn is_tableish(name: &str) -> bool {
	name.starts_with("table_") || name.starts_with("index_") || name.starts_with("refcount_")
}

fn log_no(name: &str) -> Option<u32> {
	name.strip_prefix("log").and_then(|s| s.parse().ok())
}

fn differing_pages(a: &FileImg, b: &FileImg) -> Vec<u64> {
	let mut out = BTreeSet::new();
	for (p, d) in &a.pages {
		if b.pages.get(p) != Some(d) {
			out.insert(*p);
		}
	}
	for p in b.pages.keys() {
		if !a.pages.contains_key(p) {
			out.insert(*p);
		}
	}
	out.into_iter().collect()
}

/// Journal tokens (compact syntax of the Lean driver command `c12 check`).
#[derive(Clone, Debug, PartialEq, Eq)]
enum Tok {
	A(u64, Option<u32>),
	S(u32),
	W(u64, u32, u64),
	E(u64),
	M(u32),
	/// unlink of a table-ish file (old index / ref-count table dropped at the end of a growth)
	X(u32),
	T(u32),
	U(u32),
}

impl Tok {
	fn text(&self) -> String {
		match self {
			Tok::A(r, f) => format!("A:{}:{}", r, f.map(|x| x as i64).unwrap_or(-1)),
			Tok::S(f) => format!("S:{}", f),
			Tok::W(r, t, p) => format!("W:{}:{}:{}", r, t, p),
			Tok::E(r) => format!("E:{}", r),
			Tok::M(t) => format!("M:{}", t),
			Tok::X(t) => format!("X:{}", t),
			Tok::T(f) => format!("T:{}", f),
			Tok::U(f) => format!("U:{}", f),
		}
	}
}

/// Independent statement of the discipline, positional, plain Rust (NOT derived from the Lean
/// acceptor). Returns (canonical verdict `D<k>@<index of the first offending event>`, explanation).
///  D1 every W/E of r is preceded by an S of r's log file issued after A of r;
///  D2 every T/U of a log file is preceded, for every record appended to it since its previous
///     T/U, by the record's E and, for every table file written for that record, by an M (or the
///     unlink X) of that table file issued after the record's last W;
///  D3 (as far as journals can show it) an A moves to another log file only after an S of the
///     previous record's file issued after that record's A, and only into a file holding no live
///     record; log files are reclaimed oldest first.
fn positional_check(j: &[Tok]) -> Option<(String, String)> {
	let mut file_of: BTreeMap<u64, u32> = BTreeMap::new();
	let mut append_pos: BTreeMap<u64, usize> = BTreeMap::new();
	let mut in_file: BTreeMap<u32, Vec<u64>> = BTreeMap::new();
	let mut last: Option<u64> = None;
	for (i, t) in j.iter().enumerate() {
		match t {
			Tok::A(r, f) => {
				let f = match f {
					Some(f) => *f,
					None => return Some((format!("D3@{}", i), format!("record {} never reached a log file", r))),
				};
				if let Some(p) = last {
					let pf = file_of[&p];
					if pf != f {
						if !j[append_pos[&p]..i].iter().any(|x| *x == Tok::S(pf)) {
							return Some((format!("D3@{}", i), format!("record {} goes to log{} while log{} (record {}) is not synced", r, f, pf, p)))
						}
						if in_file.get(&f).map_or(false, |v| !v.is_empty()) {
							return Some((format!("D3@{}", i), format!("record {} appended to log{} which still holds live records", r, f)))
						}
					}
				}
				last = Some(*r);
				file_of.insert(*r, f);
				append_pos.insert(*r, i);
				in_file.entry(f).or_default().push(*r);
			},
			Tok::W(r, _, _) | Tok::E(r) => {
				let (f, a) = match (file_of.get(r), append_pos.get(r)) {
					(Some(f), Some(a)) => (*f, *a),
					_ => return Some((format!("D1@{}", i), format!("record {} applied but never appended", r))),
				};
				if !j[a..i].iter().any(|x| *x == Tok::S(f)) {
					return Some((format!("D1@{}", i), format!("table write / completion of record {} before log{} was synced", r, f)))
				}
			},
			Tok::T(f) | Tok::U(f) => {
				let mine = in_file.get(f).cloned().unwrap_or_default();
				if let Some(first) = mine.first() {
					if in_file.iter().any(|(g, v)| g != f && v.first().map_or(false, |x| x < first)) {
						return Some((format!("D3@{}", i), format!("log{} reclaimed while an older log file still holds records", f)))
					}
				}
				in_file.remove(f);
				for r in &mine {
					if !j[..i].iter().any(|x| *x == Tok::E(*r)) {
						return Some((format!("D2@{}", i), format!("log{} reclaimed before record {} was applied", f, r)))
					}
				}
				for r in mine {
					let mut last_w: BTreeMap<u32, usize> = BTreeMap::new();
					for (k, x) in j[..i].iter().enumerate() {
						if let Tok::W(r2, tf, _) = x {
							if *r2 == r {
								last_w.insert(*tf, k);
							}
						}
					}
					for (tf, k) in last_w {
						// (a file unlinked since needs no sync: its pages are gone, durably, with it)
						if !j[k..i].iter().any(|x| *x == Tok::M(tf) || *x == Tok::X(tf)) {
							return Some((format!("D2@{}", i), format!("log{} reclaimed before table file {} (record {}) was synced", f, tf, r)))
						}
					}
				}
			},
			_ => {},
		}
	}
	None
}

fn journal_line(j: &[Tok]) -> String {
	let mut line = String::from("c12 check");
	for x in j {
		line.push(' ');
		line.push_str(&x.text());
	}
	line
}

/// Mutants of a real journal (one sync call removed): the acceptor must reject them exactly where
/// the positional checker does. Returns (mutant, what was removed).
fn mutants(j: &[Tok], rng: &mut Rng) -> Vec<(Vec<Tok>, &'static str)> {
	let mut out = vec![];
	// (m1) remove the last msync of a table file before a log truncation
	let ts: Vec<usize> = j.iter().enumerate().filter(|(_, x)| matches!(x, Tok::T(_))).map(|(i, _)| i).collect();
	if !ts.is_empty() {
		let ti = ts[rng.below(ts.len() as u64) as usize];
		let ms: Vec<usize> = (0..ti).rev().take_while(|k| !matches!(j[*k], Tok::W(..) | Tok::E(_))).filter(|k| matches!(j[*k], Tok::M(_))).collect();
		if !ms.is_empty() {
			let k = ms[rng.below(ms.len() as u64) as usize];
			let mut m = j.to_vec();
			m.remove(k);
			out.push((m, "msync"));
		}
	}
	// (m2) remove the fdatasync of a flush
	let ss: Vec<usize> = j
		.iter()
		.enumerate()
		.filter(|(i, x)| match x {
			Tok::S(f) => *i > 0 && j[..*i].iter().rev().take_while(|y| !matches!(y, Tok::S(_) | Tok::T(_))).any(|y| matches!(y, Tok::A(_, Some(g)) if g == f)),
			_ => false,
		})
		.map(|(i, _)| i)
		.collect();
	if !ss.is_empty() {
		let k = ss[rng.below(ss.len() as u64) as usize];
		let mut m = j.to_vec();
		m.remove(k);
		out.push((m, "fdatasync"));
	}
	// (m3) truncate before the msyncs of the same clean call
	if !ts.is_empty() {
		let ti = ts[rng.below(ts.len() as u64) as usize];
		let mut k = ti;
		while k > 0 && matches!(j[k - 1], Tok::M(_) | Tok::T(_) | Tok::S(_)) {
			k -= 1;
		}
		if k < ti && j[k..ti].iter().any(|x| matches!(x, Tok::M(_))) {
			let mut m = j.to_vec();
			let x = m.remove(ti);
			m.insert(k, x);
			out.push((m, "reorder"));
		}
	}
	out
}

struct Tracker {
	dir: PathBuf,
	cur: BTreeMap<String, FileImg>,
	dur: BTreeMap<String, FileImg>,
	ids: BTreeMap<String, u32>,
}

#[derive(Default)]
struct Delta {
	created: Vec<String>,
	removed: Vec<String>,
	grown: Vec<String>,
	/// (file, page) pairs whose content changed, META pages of index files excluded
	pages: Vec<(String, u64)>,
	meta_pages: u64,
}

impl Tracker {
	fn new(dir: &Path) -> Tracker {
		Tracker { dir: dir.into(), cur: Default::default(), dur: Default::default(), ids: Default::default() }
	}
	fn id(&mut self, name: &str) -> u32 {
		let n = self.ids.len() as u32;
		*self.ids.entry(name.to_string()).or_insert(n)
	}
	/// Re-read every table-ish file, report what changed since the last scan.
	fn scan(&mut self) -> Delta {
		let mut d = Delta::default();
		let mut seen = BTreeSet::new();
		for e in std::fs::read_dir(&self.dir).unwrap() {
			let e = e.unwrap();
			let name = e.file_name().to_string_lossy().to_string();
			if !is_tableish(&name) {
				continue
			}
			let img = match read_img(&e.path()) {
				Some(i) => i,
				None => continue,
			};
			seen.insert(name.clone());
			self.id(&name);
			match self.cur.get(&name) {
				None => {
					d.created.push(name.clone());
					// A-os: creation and set_len are durable at once, content zero
					self.dur.insert(name.clone(), FileImg { len: img.len, pages: BTreeMap::new() });
					for p in img.pages.keys() {
						if name.starts_with("index_") && *p < INDEX_META_PAGES {
							d.meta_pages += 1;
						} else {
							d.pages.push((name.clone(), *p));
						}
					}
				},
				Some(old) => {
					if img.len != old.len {
						d.grown.push(name.clone());
						if let Some(du) = self.dur.get_mut(&name) {
							du.len = img.len;
						}
					}
					for p in differing_pages(old, &img) {
						if name.starts_with("index_") && p < INDEX_META_PAGES {
							d.meta_pages += 1;
						} else {
							d.pages.push((name.clone(), p));
						}
					}
				},
			}
			self.cur.insert(name, img);
		}
		let gone: Vec<String> = self.cur.keys().filter(|k| !seen.contains(*k)).cloned().collect();
		for g in gone {
			self.cur.remove(&g);
			self.dur.remove(&g);
			d.removed.push(g);
		}
		d
	}
	/// msync of `name` covering everything but (for index files) the META area.
	fn synced(&mut self, name: &str) {
		if let Some(c) = self.cur.get(name) {
			let mut n = c.clone();
			if name.starts_with("index_") {
				let old = self.dur.get(name).cloned().unwrap_or_default();
				for p in 0..INDEX_META_PAGES {
					n.pages.remove(&p);
					if let Some(x) = old.pages.get(&p) {
						n.pages.insert(p, x.clone());
					}
				}
			}
			self.dur.insert(name.to_string(), n);
		}
	}
}

/// The real database plus the stage mirror needed to build the journal.
struct Life {
	cfg: Cfg,
	dir: PathBuf,
	db: Option<Db>,
	tr: Tracker,
	j: Vec<Tok>,
	next_rec: u64,
	queued: usize,
	pending: Vec<(u64, usize)>,     // records appended, log file not yet known: (rec, index in j)
	unflushed: Vec<u64>,            // records appended since the last flush
	flushed_files: VecDeque<Vec<u64>>, // per flushed, not yet enacted log file: its records
	dirty_files: usize,             // enacted, not yet cleaned log files
	n_synced: usize,                // records whose log file was synced
	n_processed: usize,             // records appended
	tx_upto: Vec<usize>,            // [r] = number of transaction records among records 1..=r (reindex records are not)
	log_synced_len: BTreeMap<String, u64>,
	ambiguous: u64,
}

fn gen_key(uniform: bool, col: u8, id: u64) -> Vec<u8> {
	let mut r = Rng::new(id.wrapping_mul(0x9E37_79B9).wrapping_add(col as u64 * 7919 + 13));
	let len = if uniform { *r.pick(&[32u64, 32, 33, 40]) } else { *r.pick(&[1u64, 3, 8, 31, 32, 33, 64, 251]) } as usize;
	let mut k = Vec::with_capacity(len + 8);
	while k.len() < len {
		k.extend_from_slice(&r.next().to_le_bytes());
	}
	k.truncate(len);
	let tag = [(id & 0xff) as u8, col];
	for (i, b) in tag.iter().enumerate() {
		if i < k.len() {
			let pos = k.len() - 1 - i;
			k[pos] = *b;
		}
	}
	k
}

fn gen_value_token(rng: &mut Rng, key_id: u64, fixed_by_key: bool) -> String {
	if fixed_by_key {
		let mut r = Rng::new(key_id ^ 0x5eed);
		let len = *r.pick(&[0u64, 1, 30, 33, 100, 500, 4000, 5000, 9000, 33000]);
		return format!("v{}_{}", len, 1000 + key_id)
	}
	let len = match rng.below(10) {
		0 => 0,
		1 => rng.range(1, 8),
		2 => rng.range(20, 40),
		3 => rng.range(40, 200),
		4 => rng.range(200, 1000),
		5 => rng.range(1000, 5000),
		6 => rng.range(4000, 4200),
		7 => rng.range(8000, 9000),
		8 => rng.range(32000, 34000),
		_ => rng.range(1, 64),
	};
	format!("v{}_{}", len, rng.below(1 << 30))
}

fn gen_cfg(rng: &mut Rng) -> Cfg {
	let ncols = rng.range(1, 3) as usize;
	let mut cols = vec![];
	for _ in 0..ncols {
		let kind = *rng.pick(&[Kind::Plain, Kind::Plain, Kind::Preimage, Kind::Rc]);
		let btree = rng.chance(1, 4);
		let uniform = !btree && rng.chance(1, 3);
		let compression = *rng.pick(&[CompressionType::NoCompression, CompressionType::NoCompression, CompressionType::Lz4]);
		cols.push(ColCfg { kind, uniform, btree, compression });
	}
	let mut salt = [0u8; 32];
	for i in 0..4 {
		salt[i * 8..i * 8 + 8].copy_from_slice(&rng.next().to_le_bytes());
	}
	Cfg { cols, salt, threshold: None, sync: true }
}

impl Life {
	fn db(&self) -> &Db {
		self.db.as_ref().unwrap()
	}

	/// Interposed events + page diff of one call; appends the journal tokens.
	/// `recs`: records enacted by the call (page changes are attributed to them).
	fn after_call(&mut self, what: &str, recs: &[u64], t: &mut Trace, ctr: &mut Counters) {
		let evs = interpose::drain();
		let delta = self.tr.scan();
		let dirs = format!("{}/", self.dir.to_string_lossy());
		let mut sys: Vec<Tok> = vec![];
		let mut had_sync = false;
		for e in &evs {
			if !e.path.starts_with(&dirs) {
				continue
			}
			let name = e.file_name().to_string();
			ctr.inc(&format!("sys.{}.{}", what, match &e.call {
				Call::Fdatasync => "fdatasync",
				Call::Fsync => "fsync",
				Call::Msync { .. } => "msync",
				Call::Truncate { .. } => "ftruncate",
				Call::Unlink => "unlink",
				Call::Mmap { .. } => "mmap",
			}));
			if let Some(n) = log_no(&name) {
				match &e.call {
					Call::Fdatasync | Call::Fsync => {
						// the log file of every record appended since the previous flush is now known
						if what == "flush" && e.call == Call::Fdatasync {
							for (r, idx) in self.pending.drain(..) {
								self.j[idx] = Tok::A(r, Some(n));
							}
						}
						sys.push(Tok::S(n));
						had_sync = true;
						let len = std::fs::metadata(&e.path).map(|m| m.len()).unwrap_or(0);
						self.log_synced_len.insert(name.clone(), len);
					},
					Call::Truncate { len } => {
						if *len == 0 {
							sys.push(Tok::T(n));
							self.log_synced_len.insert(name.clone(), 0);
						} else {
							t.comment(&format!("log{} truncated to non-zero length {}", n, len));
							ctr.inc("unexpected.log_truncate_nonzero");
						}
					},
					Call::Unlink => {
						sys.push(Tok::U(n));
						self.log_synced_len.remove(&name);
					},
					_ => {},
				}
			} else if is_tableish(&name) {
				match &e.call {
					Call::Msync { off, len } => {
						let flen = std::fs::metadata(&e.path).map(|m| m.len()).unwrap_or(0);
						let must_from = if name.starts_with("index_") { INDEX_META_PAGES * PAGE } else { 0 };
						if *off <= must_from && off + len >= flen {
							let id = self.tr.id(&name);
							sys.push(Tok::M(id));
							self.tr.synced(&name);
							had_sync = true;
						} else {
							ctr.inc("unexpected.partial_msync");
							t.comment(&format!("partial msync of {}: off={} len={} file={}", name, off, len, flen));
						}
					},
					Call::Fsync | Call::Fdatasync => {
						let id = self.tr.id(&name);
						sys.push(Tok::M(id));
						self.tr.synced(&name);
						had_sync = true;
					},
					Call::Truncate { .. } => ctr.inc("exempt.set_len_tablefile"),
					Call::Unlink => {
						ctr.inc("tablefile.unlink");
						if let Some(id) = self.tr.ids.get(&name).cloned() {
							sys.push(Tok::X(id));
						}
					},
					Call::Mmap { .. } => {},
				}
			}
		}
		for c in &delta.created {
			ctr.inc("exempt.file_created");
			t.comment(&format!("{}: created {} (id {})", what, c, self.tr.ids[c]));
		}
		ctr.add("exempt.file_grown", delta.grown.len() as u64);
		ctr.add("exempt.index_meta_pages", delta.meta_pages);
		for r in &delta.removed {
			t.comment(&format!("{}: removed {}", what, r));
			ctr.inc("tablefile.removed");
		}
		// page changes: table writes on behalf of `recs`
		let mut writes: Vec<Tok> = vec![];
		if !delta.pages.is_empty() {
			if recs.is_empty() {
				if what == "open" {
					// init_with_entry of a fresh btree column: outside the record protocol, redone by
					// every open that finds the header missing
					ctr.add("exempt.open_init_pages", delta.pages.len() as u64);
				} else {
					ctr.inc("unexpected.table_write_outside_enact");
					t.oracle_fail("C12", &format!("{}: {} table page(s) changed outside enact_logs: {:?}", what, delta.pages.len(), &delta.pages[..std::cmp::min(4, delta.pages.len())]));
				}
			} else {
				for r in recs {
					for (name, p) in &delta.pages {
						let id = self.tr.id(name);
						writes.push(Tok::W(*r, id, *p));
					}
					writes.push(Tok::E(*r));
				}
				ctr.add("pages.written_per_enact_call", delta.pages.len() as u64);
			}
		} else {
			for r in recs {
				writes.push(Tok::E(*r));
			}
		}
		if had_sync && !writes.iter().all(|w| matches!(w, Tok::E(_))) {
			// order of stores relative to the syncs of the same call is not observable:
			// conservative placement (stores after the syncs)
			self.ambiguous += 1;
			ctr.inc("ambiguous.calls_with_sync_and_stores");
		}
		for s in &sys {
			ctr.inc(&format!("ev.{}", &s.text()[..1]));
		}
		for w in &writes {
			ctr.inc(&format!("ev.{}", &w.text()[..1]));
		}
		self.j.extend(sys);
		self.j.extend(writes);
	}

	fn open(cfg: Cfg, dir: PathBuf, stats: bool, t: &mut Trace, ctr: &mut Counters) -> Life {
		let mut o = cfg.options(&dir);
		o.stats = stats;
		interpose::reset();
		interpose::enable(true);
		let db = Db::open_or_create(&o).expect("create");
		let mut l = Life {
			cfg,
			dir: dir.clone(),
			db: Some(db),
			tr: Tracker::new(&dir),
			j: vec![],
			next_rec: 1,
			queued: 0,
			pending: vec![],
			unflushed: vec![],
			flushed_files: Default::default(),
			dirty_files: 0,
			n_synced: 0,
			n_processed: 0,
			tx_upto: vec![0],
			log_synced_len: Default::default(),
			ambiguous: 0,
		};
		l.after_call("open", &[], t, ctr);
		l
	}

	fn commit(&mut self, tx: &Tx, vals: &mut Values, t: &mut Trace, ctr: &mut Counters) -> bool {
		let r = self.db().commit_changes(p1::to_db_tx(tx, vals));
		if r.is_ok() {
			self.queued += 1;
		}
		self.after_call("commit", &[], t, ctr);
		r.is_ok()
	}

	fn process(&mut self, t: &mut Trace, ctr: &mut Counters) {
		self.db().process_commits().expect("process");
		if self.queued > 0 {
			self.queued -= 1;
			let r = self.next_rec;
			self.next_rec += 1;
			self.pending.push((r, self.j.len()));
			self.j.push(Tok::A(r, None));
			ctr.inc("ev.A");
			self.unflushed.push(r);
			self.n_processed += 1;
			let n = *self.tx_upto.last().unwrap();
			self.tx_upto.push(n + 1);
		}
		self.after_call("process", &[], t, ctr);
	}

	fn flush(&mut self, t: &mut Trace, ctr: &mut Counters) {
		self.db().flush_logs().expect("flush");
		let expect_sync = !self.unflushed.is_empty();
		let before = self.j.len();
		self.after_call("flush", &[], t, ctr);
		let got_sync = self.j[before..].iter().any(|x| matches!(x, Tok::S(_)));
		if expect_sync != got_sync {
			ctr.inc("unexpected.flush_sync_mismatch");
			t.oracle_fail("C12", &format!("flush_logs: {} unflushed record(s) but fdatasync seen = {}", self.unflushed.len(), got_sync));
		}
		if expect_sync {
			let recs = std::mem::take(&mut self.unflushed);
			self.n_synced += recs.len();
			self.flushed_files.push_back(recs);
		}
	}

	/// One `enact_logs` call = one flushed log file.
	fn enact(&mut self, t: &mut Trace, ctr: &mut Counters) {
		if self.dirty_files >= 3 {
			self.clean(t, ctr);
		}
		self.db().enact_logs().expect("enact");
		let recs = self.flushed_files.pop_front().unwrap_or_default();
		if !recs.is_empty() {
			self.dirty_files += 1;
			ctr.add("records.per_enact_call", recs.len() as u64);
			ctr.inc("enact.calls_with_records");
		}
		self.after_call("enact", &recs, t, ctr);
	}

	fn clean(&mut self, t: &mut Trace, ctr: &mut Counters) {
		self.db().clean_logs().expect("clean");
		self.dirty_files = 0;
		self.after_call("clean", &[], t, ctr);
	}

	fn log_bytes(&self) -> u64 {
		let mut n = 0;
		if let Ok(rd) = std::fs::read_dir(&self.dir) {
			for e in rd.flatten() {
				if log_no(&e.file_name().to_string_lossy()).is_some() {
					n += e.metadata().map(|m| m.len()).unwrap_or(0);
				}
			}
		}
		n
	}

	/// `process_reindex` appends one record (a batch of moved index entries and / or the drop of the
	/// old table) when a growth is in progress and its triggering record is enacted.
	fn reindex(&mut self, t: &mut Trace, ctr: &mut Counters) {
		let before = self.log_bytes();
		self.db().process_reindex().expect("reindex");
		if self.log_bytes() > before {
			let r = self.next_rec;
			self.next_rec += 1;
			self.pending.push((r, self.j.len()));
			self.j.push(Tok::A(r, None));
			ctr.inc("ev.A");
			ctr.inc("reindex.records");
			self.unflushed.push(r);
			self.n_processed += 1;
			let n = *self.tx_upto.last().unwrap();
			self.tx_upto.push(n);
		}
		self.after_call("reindex", &[], t, ctr);
	}

	/// Drain through the stepping API (so that the drop itself stores nothing), then drop.
	fn close(&mut self, t: &mut Trace, ctr: &mut Counters) {
		while self.queued > 0 {
			self.process(t, ctr);
		}
		self.flush(t, ctr);
		while !self.flushed_files.is_empty() {
			self.enact(t, ctr);
		}
		self.clean(t, ctr);
		self.db = None;
		self.after_call("drop", &[], t, ctr);
		interpose::enable(false);
	}

	/// Shutdown with a stored background error (what a failed worker leaves behind): `kill_logs`
	/// takes its error branch, which reclaims the enacted log files without enacting anything more.
	/// The journal of the drop must still respect D2.
	fn close_with_error(&mut self, t: &mut Trace, ctr: &mut Counters) {
		self.db().verif_store_err(Err(parity_db::Error::Io(std::io::Error::new(std::io::ErrorKind::Other, "injected by the c12 harness"))));
		self.db = None;
		self.after_call("errdrop", &[], t, ctr);
		// records appended but never flushed: their log file was never learned (it is named by the
		// fdatasync of flush_logs); they are a suffix of the records and nothing refers to them
		let mut idx: Vec<usize> = self.pending.drain(..).map(|(_, i)| i).collect();
		idx.sort();
		for i in idx.into_iter().rev() {
			if matches!(self.j[i], Tok::A(_, None)) {
				self.j.remove(i);
			}
		}
		interpose::enable(false);
	}

	/// Build one power-loss image of the current instant into `img`.
	/// mode 0: nothing unsynced survives, 1: everything survives, 2: page-wise / prefix by seed.
	fn power_loss_image(&mut self, img: &Path, rng: &mut Rng, mode: u64, ctr: &mut Counters) -> (u64, u64) {
		let was = interpose::enabled();
		interpose::enable(false);
		let _ = std::fs::remove_dir_all(img);
		std::fs::create_dir_all(img).unwrap();
		let mut mixed_vol = 0;
		let mut mixed_dur = 0;
		for e in std::fs::read_dir(&self.dir).unwrap() {
			let e = e.unwrap();
			let name = e.file_name().to_string_lossy().to_string();
			if name == "lock" {
				continue
			}
			if is_tableish(&name) {
				let vol = match read_img(&e.path()) {
					Some(v) => v,
					None => continue,
				};
				let mut out = FileImg { len: vol.len, pages: BTreeMap::new() };
				let dur = self.tr.dur.get(&name).cloned().unwrap_or(FileImg { len: vol.len, pages: BTreeMap::new() });
				let diff: BTreeSet<u64> = differing_pages(&dur, &vol).into_iter().collect();
				let all: BTreeSet<u64> = vol.pages.keys().chain(dur.pages.keys()).cloned().collect();
				for p in all {
					let take_vol = if diff.contains(&p) {
						let v = match mode {
							0 => false,
							1 => true,
							_ => rng.chance(1, 2),
						};
						if v {
							mixed_vol += 1;
						} else {
							mixed_dur += 1;
						}
						v
					} else {
						true
					};
					let src = if take_vol { &vol } else { &dur };
					if let Some(d) = src.pages.get(&p) {
						out.pages.insert(p, d.clone());
					}
				}
				write_img(&img.join(&name), &out);
			} else if log_no(&name).is_some() {
				let data = std::fs::read(e.path()).unwrap();
				let synced = std::cmp::min(*self.log_synced_len.get(&name).unwrap_or(&0), data.len() as u64);
				let keep = match mode {
					0 => synced,
					1 => data.len() as u64,
					_ => rng.range(synced, data.len() as u64),
				};
				if (keep as usize) < data.len() {
					ctr.inc("image.log_tail_cut");
				}
				std::fs::write(img.join(&name), &data[..keep as usize]).unwrap();
			} else {
				std::fs::copy(e.path(), img.join(&name)).unwrap();
			}
		}
		interpose::enable(was);
		(mixed_vol, mixed_dur)
	}
}

#[allow(clippy::too_many_arguments)]
fn check_image(
	life: &mut Life,
	img: &Path,
	prefix_states: &[Oracle],
	keys: &[Vec<Vec<u8>>],
	seed: u64,
	mode: u64,
	t: &mut Trace,
	ctr: &mut Counters,
	prop: &str,
) -> bool {
	let was = interpose::enabled();
	interpose::enable(false);
	let opts = life.cfg.options(img);
	let r = std::panic::catch_unwind(std::panic::AssertUnwindSafe(|| Db::open(&opts)));
	let lo = life.tx_upto[life.n_synced];
	let hi = std::cmp::min(life.tx_upto[life.n_processed], prefix_states.len() - 1);
	let ctx = format!("seed={} mode={} synced={} appended={}", seed, mode, lo, hi);
	let mut ok = true;
	match r {
		Ok(Ok(db)) => {
			let mut found = None;
			let mut got_all: Vec<Vec<Option<Vec<u8>>>> = vec![];
			let mut read_err = None;
			for (c, ks) in keys.iter().enumerate() {
				let mut v = vec![];
				for k in ks {
					match std::panic::catch_unwind(std::panic::AssertUnwindSafe(|| db.get(c as u8, k))) {
						Ok(Ok(x)) => v.push(x),
						Ok(Err(e)) => {
							read_err = Some(format!("get error {:?}", e));
							v.push(None)
						},
						Err(_) => {
							read_err = Some("get panicked".into());
							v.push(None)
						},
					}
				}
				got_all.push(v);
			}
			if let Some(e) = read_err {
				t.oracle_fail(prop, &format!("power-loss image: read failed after recovery ({}) {}", e, ctx));
				ok = false;
			} else {
				for m in (0..=hi).rev() {
					let o = &prefix_states[m];
					let all = keys.iter().enumerate().all(|(c, ks)| {
						ks.iter().enumerate().all(|(i, k)| got_all[c][i] == o.cols[c].get(k).map(|x| x.0.clone()))
					});
					if all {
						found = Some(m);
						break
					}
				}
				match found {
					None => {
						t.oracle_fail(prop, &format!("power-loss image: recovered content is not a prefix (<= {}) of the committed transactions; {}", hi, ctx));
						ok = false;
					},
					Some(m) if m < lo => {
						t.oracle_fail(prop, &format!("power-loss image: recovered prefix {} lost transactions whose log was synced; {}", m, ctx));
						ok = false;
					},
					Some(m) => {
						ctr.inc(if m == hi { "image.recovered_all_appended" } else if m == lo { "image.recovered_exactly_synced" } else { "image.recovered_between" });
					},
				}
			}
			// F7 guard not needed: recovery cleans all logs
			drop(db);
		},
		Ok(Err(e)) => {
			t.oracle_fail(prop, &format!("power-loss image: recovery open failed: {:?}; {}", e, ctx));
			ok = false;
		},
		Err(_) => {
			t.oracle_fail(prop, &format!("power-loss image: recovery open panicked; {}", ctx));
			ok = false;
		},
	}
	let _ = std::fs::remove_dir_all(img);
	interpose::enable(was);
	ok
}

fn run_case(seed: u64, thorough: bool, root: &Path, t: &mut Trace, ctr: &mut Counters, prop: &str) -> bool {
	let mut rng = Rng::new(seed);
	let cfg = gen_cfg(&mut rng);
	let stats = rng.chance(1, 2);
	// growth mode (one case in four): column 0 is a uniform plain hash column with zero salt whose
	// keys all fall into ONE index chunk, filled in order, so that an index growth (new index file,
	// old table queued for reindex) happens at an arbitrary position of the step interleaving
	let growth = rng.chance(1, 4);
	let cfg = if growth {
		let mut cols = vec![ColCfg { kind: Kind::Plain, uniform: true, btree: false, compression: CompressionType::NoCompression }];
		if rng.chance(1, 3) {
			// (zero salt + uniform is the crate's test-only identity hash, defined for 32-byte keys only)
			let mut c = cfg.cols[0].clone();
			c.uniform = false;
			cols.push(c);
		}
		Cfg { cols, salt: [0u8; 32], threshold: None, sync: true }
	} else {
		cfg
	};
	let mut vals = Values::default();
	t.begin_case(&format!("seed={} cfg={} stats={} growth={}", seed, cfg.describe(), stats, growth));
	let dir = fresh_dir(root, &format!("c12-{}", seed));
	let img = root.join(format!("c12-{}-img", seed));
	let mut life = Life::open(cfg.clone(), dir.clone(), stats, t, ctr);
	let mut oracle = Oracle::new(cfg.cols.len());
	let mut prefix_states = vec![oracle.clone()];
	let nkeys = rng.range(3, 12);
	let mut keys: Vec<Vec<Vec<u8>>> =
		cfg.cols.iter().enumerate().map(|(c, cc)| (0..nkeys).map(|i| gen_key(cc.uniform, c as u8, i)).collect()).collect();
	let mut next_fill = 0usize;
	if growth {
		let chunk = [(rng.next() & 0xff) as u8, (rng.next() & 0xff) as u8];
		let n = rng.range(66, 96);
		keys[0] = (0..n)
			.map(|i| {
				let mut k = vec![0u8; 32];
				k[0] = chunk[0];
				k[1] = chunk[1];
				k[2] = (i + 1) as u8;
				let mut r = Rng::new(seed ^ (i * 7919 + 5));
				for b in k[3..].iter_mut() {
					*b = (r.next() & 0xff) as u8;
				}
				k[31] = i as u8;
				k
			})
			.collect();
		ctr.inc("cases.growth_mode");
	}
	let nact = if growth { rng.range(45, if thorough { 130 } else { 90 }) } else { rng.range(10, if thorough { 90 } else { 55 }) } as usize;
	let max_images = if thorough { 24 } else { 12 };
	let mut images = 0;
	let mut ok = true;
	let mut committed = 0usize;
	for _ in 0..nact {
		let a = rng.below(100);
		let mut want_image = false;
		if a < 32 {
			let nops = rng.range(1, 5);
			let mut tx: Tx = vec![];
			if growth && next_fill < keys[0].len() && rng.chance(3, 4) {
				// fill the chunk in order
				let n = std::cmp::min(rng.range(5, 16) as usize, keys[0].len() - next_fill);
				for i in 0..n {
					let kid = (next_fill + i) as u64;
					tx.push((0u8, Op::Set(keys[0][kid as usize].clone(), vals.canon(format!("v{}_{}", 20 + (kid % 7), 7000 + kid)))));
				}
				next_fill += n;
			}
			for _ in 0..(if tx.is_empty() { nops } else { 0 }) {
				let c = rng.below(cfg.cols.len() as u64) as u8;
				let kid = rng.below(keys[c as usize].len() as u64);
				let k = keys[c as usize][kid as usize].clone();
				let kind = cfg.cols[c as usize].kind;
				let r = rng.below(100);
				let op = if r < 60 {
					Op::Set(k, vals.canon(gen_value_token(&mut rng, kid + 100 * c as u64, kind != Kind::Plain)))
				} else if r < 88 || kind != Kind::Rc {
					Op::Del(k)
				} else {
					Op::Ref(k)
				};
				tx.push((c, op));
			}
			if life.commit(&tx, &mut vals, t, ctr) {
				committed += 1;
				oracle.apply(&cfg, &tx, &mut vals);
				prefix_states.push(oracle.clone());
				ctr.inc("op.commit");
			} else {
				t.oracle_fail(prop, "valid commit rejected");
				ok = false;
			}
		} else if a < 50 {
			life.process(t, ctr);
			ctr.inc("op.process");
		} else if a < 62 {
			life.flush(t, ctr);
			ctr.inc("op.flush");
		} else if a < 76 {
			life.enact(t, ctr);
			ctr.inc("op.enact");
		} else if a < 82 {
			life.clean(t, ctr);
			ctr.inc("op.clean");
		} else if a < 84 {
			life.reindex(t, ctr);
			ctr.inc("op.reindex");
		} else {
			want_image = true;
		}
		// power-loss images: at random instants and (more often) right after an enact call, when
		// pages written since the last msync exist
		let after_enact = a >= 62 && a < 76;
		if (want_image || (after_enact && rng.chance(2, 3))) && images < max_images {
			let reps = if after_enact { 2 } else { 1 };
			for _ in 0..reps {
				images += 1;
				let mode = match rng.below(6) {
					0 => 0,
					1 => 1,
					_ => 2,
				};
				let (v, d) = life.power_loss_image(&img, &mut rng, mode, ctr);
				ctr.inc("image.built");
				ctr.inc(&format!("image.mode{}", mode));
				ctr.add("image.pages_taken_volatile", v);
				ctr.add("image.pages_taken_durable", d);
				if v > 0 && d > 0 {
					ctr.inc("image.really_mixed");
				}
				if v + d > 0 {
					ctr.inc("image.with_unsynced_pages");
				}
				ctr.inc(&format!("image.stage.queued{}_unflushed{}_flushedfiles{}_dirty{}", (life.queued > 0) as u8, (!life.unflushed.is_empty()) as u8, std::cmp::min(life.flushed_files.len(), 2), std::cmp::min(life.dirty_files, 2)));
				ok &= check_image(&mut life, &img, &prefix_states, &keys, seed, mode, t, ctr, prop);
			}
		}
	}
	let _ = committed;
	if growth {
		ctr.inc(if life.tr.ids.keys().any(|n| n == "index_00_17") { "cases.growth_happened" } else { "cases.growth_not_reached" });
	}
	if rng.chance(1, 6) {
		ctr.inc("cases.error_shutdown");
		ctr.inc(&format!("errdrop.dirty_files{}_flushedfiles{}", std::cmp::min(life.dirty_files, 3), std::cmp::min(life.flushed_files.len(), 2)));
		life.close_with_error(t, ctr);
		for mode in [0u64, 2] {
			let (v, d) = life.power_loss_image(&img, &mut rng, mode, ctr);
			ctr.inc("image.built");
			ctr.inc("image.after_error_shutdown");
			ctr.add("image.pages_taken_volatile", v);
			ctr.add("image.pages_taken_durable", d);
			ok &= check_image(&mut life, &img, &prefix_states, &keys, seed, mode, t, ctr, prop);
		}
	} else {
		life.close(t, ctr);
	}
	// (a) the journal of this life time
	let j = life.j.clone();
	if let Some((v, why)) = positional_check(&j) {
		t.oracle_fail(prop, &format!("real journal violates the sync discipline: {} {}", v, why));
		ok = false;
	}
	let line = journal_line(&j);
	let mut names: Vec<(u32, String)> = life.tr.ids.iter().map(|(n, i)| (*i, n.clone())).collect();
	names.sort();
	t.comment(&format!("table files: {}", names.iter().map(|(i, n)| format!("{}={}", i, n)).collect::<Vec<_>>().join(" ")));
	t.op(&line, "ok");
	// mutants: a removed / displaced sync must be rejected, at the same event by both checkers
	for (m, what) in mutants(&j, &mut rng) {
		match positional_check(&m) {
			Some((v, _)) => {
				t.op(&journal_line(&m), &format!("violates:{}", v));
				ctr.inc(&format!("mutant.{}.rejected.{}", what, &v[..2]));
			},
			None => {
				// removing a redundant sync (the file was synced again before it mattered)
				t.op(&journal_line(&m), "ok");
				ctr.inc(&format!("mutant.{}.still_ok", what));
			},
		}
	}
	ctr.add("journal.events", j.len() as u64);
	ctr.inc(&format!("journal.len.{}", match j.len() {
		0..=9 => "0-9",
		10..=49 => "10-49",
		50..=199 => "50-199",
		200..=999 => "200-999",
		_ => "1000+",
	}));
	ctr.add("images.per_history_total", images as u64);
	let nontrivial = j.iter().any(|x| matches!(x, Tok::T(_))) && j.iter().any(|x| matches!(x, Tok::W(..)));
	if nontrivial {
		ctr.inc("cases.nontrivial");
	}
	ctr.inc("cases");
	let _ = std::fs::remove_dir_all(&dir);
	t.end_case(nontrivial);
	ok
}

/// Exploratory scenario (command `c12x`, not part of the default check): index growth. 64 keys
/// fill one index chunk of a uniform column (zero salt: the key bytes are the hash), the 65th
/// starts a reindex (new `index_00_17`, old `index_00_16` queued); then a key still indexed by the
/// OLD table is removed, the record is enacted and the logs are cleaned. `Column::flush` syncs the
/// current index only, so the journal shows whether the old table's page was synced before the log
/// holding the removal was truncated; images with that page reverted are reopened and compared.
fn run_reindex_case(seed: u64, root: &Path, t: &mut Trace, ctr: &mut Counters, prop: &str) -> bool {
	let mut rng = Rng::new(seed);
	let cfg = Cfg {
		cols: vec![ColCfg { kind: Kind::Plain, uniform: true, btree: false, compression: CompressionType::NoCompression }],
		salt: [0u8; 32],
		threshold: None,
		sync: true,
	};
	let mut vals = Values::default();
	t.begin_case(&format!("seed={} reindex cfg={}", seed, cfg.describe()));
	let dir = fresh_dir(root, &format!("c12x-{}", seed));
	let img = root.join(format!("c12x-{}-img", seed));
	let mut life = Life::open(cfg.clone(), dir.clone(), false, t, ctr);
	let mut oracle = Oracle::new(1);
	let mut prefix_states = vec![oracle.clone()];
	let chunk = [(rng.next() & 0xff) as u8, (rng.next() & 0xff) as u8];
	let nkeys = 66u64;
	let keys: Vec<Vec<u8>> = (0..nkeys)
		.map(|i| {
			let mut k = vec![0u8; 32];
			k[0] = chunk[0];
			k[1] = chunk[1];
			k[2] = (i + 1) as u8; // distinct partial keys inside the chunk
			let mut r = Rng::new(seed ^ (i * 7919 + 5));
			for b in k[3..].iter_mut() {
				*b = (r.next() & 0xff) as u8;
			}
			k[31] = i as u8;
			k
		})
		.collect();
	let keyset = vec![keys.clone()];
	let mut ok = true;
	let mut drain = |life: &mut Life, t: &mut Trace, ctr: &mut Counters, clean: bool| {
		while life.queued > 0 {
			life.process(t, ctr);
		}
		life.flush(t, ctr);
		while !life.flushed_files.is_empty() {
			life.enact(t, ctr);
		}
		if clean {
			life.clean(t, ctr);
		}
	};
	let mut commit = |life: &mut Life, tx: Tx, oracle: &mut Oracle, ps: &mut Vec<Oracle>, vals: &mut Values, t: &mut Trace, ctr: &mut Counters| {
		if life.commit(&tx, vals, t, ctr) {
			oracle.apply(&cfg, &tx, vals);
			ps.push(oracle.clone());
		}
	};
	// phase 1: fill the chunk
	for c in 0..8 {
		let tx: Tx = (0..8).map(|i| (0u8, Op::Set(keys[c * 8 + i].clone(), vals.canon(format!("v{}_{}", 20 + i, 7000 + c * 8 + i))))).collect();
		commit(&mut life, tx, &mut oracle, &mut prefix_states, &mut vals, t, ctr);
	}
	drain(&mut life, t, ctr, true);
	// phase 2: one more key in the same chunk -> reindex starts
	commit(&mut life, vec![(0u8, Op::Set(keys[64].clone(), vals.canon("v24_7064".to_string())))], &mut oracle, &mut prefix_states, &mut vals, t, ctr);
	drain(&mut life, t, ctr, true);
	let grown = life.tr.ids.keys().any(|n| n == "index_00_17");
	ctr.inc(if grown { "reindex.started" } else { "reindex.not_started" });
	// phase 3: remove / replace keys still indexed by the old table
	let victim = rng.below(64) as usize;
	commit(&mut life, vec![(0u8, Op::Del(keys[victim].clone()))], &mut oracle, &mut prefix_states, &mut vals, t, ctr);
	drain(&mut life, t, ctr, false);
	let before_clean = life.j.len();
	life.clean(t, ctr);
	let old_id = life.tr.ids.get("index_00_16").cloned();
	let synced_old = old_id.map_or(false, |id| life.j[before_clean..].iter().any(|x| *x == Tok::M(id)));
	let wrote_old = old_id.map_or(false, |id| life.j.iter().any(|x| matches!(x, Tok::W(_, f, _) if *f == id) ) );
	t.comment(&format!("old index id={:?} written={} synced_in_clean={}", old_id, wrote_old, synced_old));
	ctr.inc(if synced_old { "reindex.old_index_synced_before_truncate" } else { "reindex.old_index_NOT_synced_before_truncate" });
	// images: nothing unsynced survives (the old index page reverts), and page-wise mixes
	for mode in [0u64, 2, 2, 1] {
		let (v, d) = life.power_loss_image(&img, &mut rng, mode, ctr);
		ctr.inc("image.built");
		ctr.add("image.pages_taken_volatile", v);
		ctr.add("image.pages_taken_durable", d);
		ok &= check_image(&mut life, &img, &prefix_states, &keyset, seed, mode, t, ctr, prop);
	}
	// a recovered handle keeps working: reindex to completion, reuse the freed slot, check again
	{
		let (_v, _d) = life.power_loss_image(&img, &mut rng, 0, ctr);
		let was = interpose::enabled();
		interpose::enable(false);
		let opts = life.cfg.options(&img);
		match std::panic::catch_unwind(std::panic::AssertUnwindSafe(|| Db::open(&opts))) {
			Ok(Ok(db)) => {
				let mut o2 = oracle.clone();
				let step = |db: &Db| {
					for _ in 0..4 {
						let _ = db.process_commits();
					}
					let _ = db.flush_logs();
					for _ in 0..3 {
						let _ = db.enact_logs();
						let _ = db.clean_logs();
					}
				};
				for _ in 0..40 {
					let _ = db.process_reindex();
					step(&db);
				}
				// new key of the same size takes the freed value slot
				let tx: Tx = vec![(0u8, Op::Set(keys[65].clone(), vals.canon("v20_7065".to_string())))];
				if db.commit_changes(p1::to_db_tx(&tx, &mut vals)).is_ok() {
					o2.apply(&cfg, &tx, &mut vals);
				}
				step(&db);
				for k in &keys {
					let got = db.get(0, k).ok().flatten();
					let exp = o2.cols[0].get(k).map(|x| x.0.clone());
					if got != exp {
						t.oracle_fail(prop, &format!("reindex scenario: after recovery + completed reindex, key {} reads {:?}, expected {:?}", hex(k), got.map(|v| vals.render(&v)), exp.map(|v| vals.render(&v))));
						ok = false;
					}
				}
				ctr.inc("reindex.continued_after_recovery");
				drop(db);
			},
			_ => {
				t.oracle_fail(prop, "reindex scenario: recovery open failed");
				ok = false;
			},
		}
		let _ = std::fs::remove_dir_all(&img);
		interpose::enable(was);
	}
	life.close(t, ctr);
	let j = life.j.clone();
	let verdict = positional_check(&j);
	let mut names: Vec<(u32, String)> = life.tr.ids.iter().map(|(n, i)| (*i, n.clone())).collect();
	names.sort();
	t.comment(&format!("table files: {}", names.iter().map(|(i, n)| format!("{}={}", i, n)).collect::<Vec<_>>().join(" ")));
	match &verdict {
		Some((v, why)) => {
			t.op(&journal_line(&j), &format!("violates:{}", v));
			t.known(prop, "F13", &format!("journal of an index growth violates the discipline: {} {}", v, why));
			ctr.inc("reindex.journal_violates");
		},
		None => {
			t.op(&journal_line(&j), "ok");
			ctr.inc("reindex.journal_ok");
		},
	}
	ctr.inc("cases");
	let _ = std::fs::remove_dir_all(&dir);
	t.end_case(true);
	ok
}

pub fn run_reindex(seeds: &[u64], _thorough: bool, root: &Path, t: &mut Trace, ctr: &mut Counters, prop: &str) -> u64 {
	let mut fails = 0;
	for s in seeds {
		match std::panic::catch_unwind(std::panic::AssertUnwindSafe(|| run_reindex_case(*s, root, t, ctr, prop))) {
			Ok(true) => {},
			Ok(false) => fails += 1,
			Err(_) => {
				interpose::enable(false);
				fails += 1;
				t.oracle_fail(prop, &format!("harness panicked in reindex case seed={}", s));
				t.end_case(false);
			},
		}
	}
	fails
}

pub fn run(seeds: &[u64], thorough: bool, root: &Path, t: &mut Trace, ctr: &mut Counters, prop: &str) -> u64 {
	let mut fails = 0;
	for s in seeds {
		let r = std::panic::catch_unwind(std::panic::AssertUnwindSafe(|| run_case(*s, thorough, root, t, ctr, prop)));
		match r {
			Ok(true) => {},
			Ok(false) => {
				fails += 1;
				t.comment(&format!("FAILED-CASE seed={}", s));
			},
			Err(_) => {
				interpose::enable(false);
				fails += 1;
				t.oracle_fail(prop, &format!("harness panicked in case seed={}", s));
				t.end_case(false);
			},
		}
	}
	fails
}
