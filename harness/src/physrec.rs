//! physrec: the PHYSICAL content of the log records of a plain hash column, on the real `Db`.
//!
//! One uniform plain hash column (all-zero salt, identity hash on 32-byte keys, no ref counts, no
//! preimage, no compression), background threads off.  Every transaction is committed, planned
//! (`process_commits`: one log record), flushed (`flush_logs`), and the record just written is read
//! back from the log file and printed write by write (`physrec rec` line) BEFORE it is enacted
//! (`enact_logs`, `clean_logs`).  Reindex batches (`process_reindex`) only in growth cases, see below.
//!
//! Trace protocol (command `physrec` of the Lean driver):
//!   physrec init 16 purge|nopurge            -> ok
//!   physrec set <hexkey32> v<len>_<seed>      -> ok
//!   physrec deref <hexkey32>                  -> ok
//!   physrec rec <w1> <w2> ... | physrec rec - -> ok idx=<I tokens> ent=<mask bits> val=<V tokens> bytes=<payload bytes>
//!       I<index_bits>@<chunk>#<mask hex>=<hex of the entries of the set mask bits, ascending>
//!       V<tier>@<slot>=<hex payload>           (slot 0 = table header: last_removed u64, filled u64)
//!       D<table id>                            (any other action kind; not expected here)
//!     canonical order: index writes by (table id, chunk), then value writes by (tier, slot),
//!     then the D tokens in log order.
//!   physrec torn <j>                          -> ok   (after every rec line; j uniform in
//!       0..=ent+val: the model re-applies the first j entry-level writes, then the whole record)
//!   physrec get <hexkey32>                    -> none | some <len>:<fnv1a64>
//!   physrec initk 16 preimage|rc purge|nopurge -> ok   (instead of `init`: seed % 6 == 2 preimage,
//!       seed % 6 == 1 rc; every Set of a key carries the key's contract token)
//!   physrec ref <hexkey32>                    -> ok   (Operation::Reference, rc columns only)
//!   physrec getrc <hexkey32>                  -> none | some <len>:<fnv1a64> rc=<stored counter>
//!       (rc columns, instead of `get`; the counter is read from the table files, as `r5 getrc`)
//!   physrec reindex                           -> ok   (growth cases, after the index has grown: ONE
//!       `process_reindex` batch that wrote a record; followed by `physrec rec`, `physrec torn`, then
//!       after enact_logs: `physrec enact` -> ok if the record had a D token, and always
//!       `physrec stat` -> bits=.. older=.. prog=.. cur=.. old=..  as r5.rs)
//! About one case in 6 (seed % 6 == 0, `growth=1` in the case line) fills one chunk of the 16-bit
//! index with more than 64 keys, so that the index grows to 17 bits inside a transaction.
//!
//! Independent oracle: a HashMap key -> value token (Set inserts / replaces, Dereference removes);
//! every `get` returns the oracle's value.  Torn-enact sub-test (crate only, no trace lines): every
//! ~10th transaction the directory is copied after `flush_logs`, the first j writes of the record (in
//! the canonical order above, which is one of the orders the crate may log and enact them in)
//! (and optionally half of the next one) are applied by hand to the table files of the copy, the
//! copy is opened (`Db::open` replays the log) and must answer every pool key as the original does
//! after its own enact.
use crate::util::*;
use parity_db::{ColumnOptions, Db, Operation, Options};
use std::collections::{BTreeMap, HashMap};
use std::path::Path;

type Key = [u8; 32];

/// column kind, as r5.rs `Kind`
#[derive(Clone, Copy, PartialEq, Eq, Debug)]
enum Kind {
	Plain,
	Preimage,
	Rc,
}

impl Kind {
	fn name(self) -> &'static str {
		match self {
			Kind::Plain => "plain",
			Kind::Preimage => "preimage",
			Kind::Rc => "rc",
		}
	}
}

const LOCKED: u64 = u32::MAX as u64;

/// oracle cell: key -> (value token, count)
type Content = HashMap<Key, (String, u64)>;

/// The documented semantics of one operation per column kind (copied from r5.rs `oracle_apply`,
/// independent of the Lean model).
fn oracle_apply(kind: Kind, c: &mut Content, op: &Op) {
	match op {
		Op::Set(k, v) => match kind {
			Kind::Plain => {
				c.insert(*k, (v.clone(), 1));
			},
			Kind::Preimage => {
				c.entry(*k).or_insert((v.clone(), 1));
			},
			Kind::Rc => match c.get_mut(k) {
				Some(e) => e.1 = if e.1 >= LOCKED - 1 { LOCKED } else { e.1 + 1 },
				None => {
					c.insert(*k, (v.clone(), 1));
				},
			},
		},
		Op::Ref(k) =>
			if kind == Kind::Rc {
				if let Some(e) = c.get_mut(k) {
					e.1 = if e.1 >= LOCKED - 1 { LOCKED } else { e.1 + 1 };
				}
			},
		Op::Deref(k) => match kind {
			Kind::Plain | Kind::Preimage => {
				c.remove(k);
			},
			Kind::Rc => {
				let gone = match c.get_mut(k) {
					Some(e) =>
						if e.1 == LOCKED {
							false
						} else if e.1 <= 1 {
							true
						} else {
							e.1 -= 1;
							false
						},
					None => false,
				};
				if gone {
					c.remove(k);
				}
			},
		},
	}
}

/// Stored counter of every live value by stored key tail (key[6..32]), read from the table files
/// of a drained handle through the hooks `verif_dump` / `verif_table_entry` (as r5.rs
/// `stored_counts`).
fn stored_counts(db: &Db) -> Result<HashMap<Vec<u8>, u64>, String> {
	let d = db.verif_dump(0, true).map_err(|e| format!("verif_dump failed: {:?}", e))?;
	let mut out = HashMap::new();
	for tb in &d.tables {
		for s in &tb.slots {
			if s.1 == 1 {
				let raw = db.verif_table_entry(0, tb.tier, s.0).map_err(|e| format!("verif_table_entry failed: {:?}", e))?;
				let off = if tb.multipart { 10 } else { 2 };
				let rc = u32::from_le_bytes(raw[off..off + 4].try_into().unwrap()) as u64;
				if out.insert(s.3.clone(), rc).is_some() {
					return Err(format!("two live values with the key tail {}", hex(&s.3)))
				}
			}
		}
	}
	Ok(out)
}

/// the value a key is "supposed" to have (preimage contract, as r5.rs `contract_token`): on
/// preimage / rc columns every Set of a key carries this token
fn contract_token(k: &Key, multipart: bool) -> String {
	let mut r = Rng::new(u32::from_be_bytes(k[8..12].try_into().unwrap()) as u64 ^ 0xabcd);
	gen_token(&mut r, multipart)
}

fn options(path: &Path, kind: Kind) -> Options {
	let mut o = Options::with_columns(path, 1);
	o.columns[0] = ColumnOptions {
		uniform: true,
		preimage: kind != Kind::Plain,
		ref_counted: kind == Kind::Rc,
		..Default::default()
	};
	o.salt = Some([0u8; 32]);
	o.with_background_thread = false;
	o.always_flush = true;
	o.stats = false;
	o.sync_wal = true;
	o.sync_data = true;
	o
}

/// as r5.rs `mk_key`: prefix = big-endian u64 of bytes 0..8; the unique id sits in the tail.
fn mk_key(prefix: u64, id: u32) -> Key {
	let mut k = [0u8; 32];
	k[0..8].copy_from_slice(&prefix.to_be_bytes());
	k[8..12].copy_from_slice(&id.to_be_bytes());
	let mut r = Rng::new(id as u64 ^ 0x7272);
	for i in 3..5 {
		k[i * 4..i * 4 + 4].copy_from_slice(&(r.next() as u32).to_le_bytes());
	}
	k
}

fn fnv(bytes: &[u8]) -> u64 {
	let mut h: u64 = 0xcbf2_9ce4_8422_2325;
	for b in bytes {
		h ^= *b as u64;
		h = h.wrapping_mul(0x100_0000_01b3);
	}
	h
}

fn show_val(v: &[u8]) -> String {
	format!("{}:{}", v.len(), fnv(v))
}

/// Reflected CRC-32 (poly 0xEDB88320, init / xorout 0xFFFFFFFF), table driven.
fn crc32(data: &[u8]) -> u32 {
	let mut tab = [0u32; 256];
	for i in 0..256u32 {
		let mut c = i;
		for _ in 0..8 {
			c = if c & 1 == 1 { (c >> 1) ^ 0xEDB8_8320 } else { c >> 1 };
		}
		tab[i as usize] = c;
	}
	let mut c: u32 = 0xFFFF_FFFF;
	for b in data {
		c = tab[((c ^ *b as u32) & 0xff) as usize] ^ (c >> 8);
	}
	!c
}

// ------------------------------------------------------------------------------ log record parser

/// One action of a log record with its payload.
#[derive(Clone, Debug)]
enum W {
	/// INSERT_INDEX: table id, chunk, mask, the entries of the set mask bits (8 bytes each)
	Index { table: u16, chunk: u64, mask: u64, bytes: Vec<u8> },
	/// INSERT_VALUE: table id, slot, payload (length derived as `ValueTable::validate_plan` does)
	Value { table: u16, slot: u64, payload: Vec<u8> },
	/// INSERT_REF_COUNT / DROP_TABLE / DROP_REF_COUNT_TABLE
	Other { table: u16 },
}

/// Entry size of a value table tier: `column::SIZES` through the hook `verif::entry_sizes()` (the
/// pinned crate has 255 fixed-size tiers 0..=254, not 15), 4096 (MULTIPART_ENTRY_SIZE) for tier 255.
fn entry_size_of(sizes: &[u16], tier: u8) -> usize {
	sizes.get(tier as usize).copied().unwrap_or(4096) as usize
}

/// Parse ONE complete record: BEGIN(1) id, actions, END(4), crc32 of everything before it.
/// Returns (record id, actions in log order, checksum ok).
fn parse_record(b: &[u8], sizes: &[u16]) -> Option<(u64, Vec<W>, bool)> {
	let u16_at = |p: usize| -> Option<u16> { Some(u16::from_le_bytes(b.get(p..p + 2)?.try_into().ok()?)) };
	let u64_at = |p: usize| -> Option<u64> { Some(u64::from_le_bytes(b.get(p..p + 8)?.try_into().ok()?)) };
	if *b.first()? != 1 {
		return None
	}
	let id = u64_at(1)?;
	let mut p = 9;
	let mut acts = vec![];
	loop {
		let op = *b.get(p)?;
		p += 1;
		match op {
			2 | 6 => {
				let table = u16_at(p)?;
				let chunk = u64_at(p + 2)?;
				let mask = u64_at(p + 10)?;
				let n = mask.count_ones() as usize * if op == 2 { 8 } else { 16 };
				let bytes = b.get(p + 18..p + 18 + n)?.to_vec();
				p += 18 + n;
				acts.push(if op == 2 { W::Index { table, chunk, mask, bytes } } else { W::Other { table } });
			},
			3 => {
				let table = u16_at(p)?;
				let slot = u64_at(p + 2)?;
				p += 10;
				let tier = (table & 0xff) as u8;
				let len = if slot == 0 {
					16
				} else {
					let m = [*b.get(p)?, *b.get(p + 1)?];
					if m == [0xff, 0xff] {
						// TOMBSTONE: marker + next free slot
						10
					} else if tier == 255 && (m == [0xfe, 0xff] || m == [0xfd, 0xff] || m == [0xfd, 0x7f]) {
						// MULTIPART / MULTIHEAD / MULTIHEAD_COMPRESSED in the multipart table: whole entry
						entry_size_of(sizes, tier)
					} else {
						// size & !COMPRESSED_MASK
						2 + (u16::from_le_bytes(m) & 0x7fff) as usize
					}
				};
				let payload = b.get(p..p + len)?.to_vec();
				p += len;
				acts.push(W::Value { table, slot, payload });
			},
			5 | 7 => {
				let table = u16_at(p)?;
				p += 2;
				acts.push(W::Other { table });
			},
			4 => {
				if p + 4 != b.len() {
					return None
				}
				let stored = u32::from_le_bytes(b[p..p + 4].try_into().ok()?);
				return Some((id, acts, stored == crc32(&b[..p])))
			},
			_ => return None,
		}
	}
}

fn log_sizes(dir: &Path) -> BTreeMap<String, u64> {
	let mut m = BTreeMap::new();
	for e in std::fs::read_dir(dir).unwrap() {
		let e = e.unwrap();
		let n = e.file_name().to_string_lossy().to_string();
		if n.starts_with("log") && n[3..].parse::<u32>().is_ok() {
			m.insert(n, e.metadata().unwrap().len());
		}
	}
	m
}

/// The bytes appended to the log files since the snapshot `before` (exactly one file may grow).
fn new_record_bytes(dir: &Path, before: &BTreeMap<String, u64>) -> Result<Option<Vec<u8>>, String> {
	let after = log_sizes(dir);
	let grown: Vec<(String, u64, u64)> = after
		.iter()
		.map(|(k, v)| (k.clone(), *before.get(k).unwrap_or(&0), *v))
		.filter(|(_, b, a)| a > b)
		.collect();
	if grown.is_empty() {
		return Ok(None)
	}
	if grown.len() != 1 {
		return Err(format!("expected one log file to grow, got {:?}", grown))
	}
	let bytes = std::fs::read(dir.join(&grown[0].0)).map_err(|e| e.to_string())?;
	Ok(Some(bytes[grown[0].1 as usize..grown[0].2 as usize].to_vec()))
}

// ------------------------------------------------------------------------------ generators

/// ~24 keys: 8 in one index chunk (same 16-bit prefix), 3 more in that chunk sharing 50 prefix
/// bits (they differ in bytes 6..32 only), 4 in a second chunk, the rest anywhere.
fn gen_pool(rng: &mut Rng, growth: bool) -> Vec<Key> {
	let mut keys = vec![];
	let mut id = 1u32;
	let mut push = |keys: &mut Vec<Key>, prefix: u64| {
		keys.push(mk_key(prefix, id));
		id += 1;
	};
	if growth {
		// 70..80 keys in ONE chunk of the 16-bit index (64 entries): the chunk overflows and the
		// column grows its index to 17 bits inside a transaction; ~8 keys anywhere
		let page: u64 = rng.below(1 << 16) << 48;
		for _ in 0..rng.range(70, 80) {
			push(&mut keys, page | (rng.next() >> 16));
		}
		for _ in 0..8 {
			push(&mut keys, rng.next());
		}
		return keys
	}
	let page: u64 = rng.below(1 << 16) << 48;
	for _ in 0..8 {
		push(&mut keys, page | (rng.next() >> 16));
	}
	let base = page | ((rng.next() >> 16) & !0x3fff);
	for _ in 0..3 {
		push(&mut keys, base | rng.below(1 << 14));
	}
	let page2: u64 = rng.below(1 << 16) << 48;
	for _ in 0..4 {
		push(&mut keys, page2 | (rng.next() >> 16));
	}
	for _ in 0..rng.range(7, 11) {
		push(&mut keys, rng.next());
	}
	keys
}

fn gen_token(rng: &mut Rng, multipart: bool) -> String {
	let r = rng.below(100);
	let len = if multipart && r < 4 {
		rng.range(33000, 70000)
	} else if r < 20 {
		rng.range(200, 3000)
	} else {
		rng.range(1, 200)
	};
	format!("v{}_{}", len, rng.below(1 << 20))
}

#[derive(Clone, Debug)]
enum Op {
	Set(Key, String),
	Deref(Key),
	Ref(Key),
}

// ------------------------------------------------------------------------------ torn enact

/// Apply `w` (or only its first `part` bytes) by hand to the table files of `dir`; false when the
/// file does not exist (nothing written).
fn apply_write(dir: &Path, w: &W, sizes: &[u16], part: Option<usize>) -> bool {
	use std::os::unix::fs::FileExt;
	const META: u64 = 16 * 1024; // index.rs META_SIZE
	const CHUNK_LEN: u64 = 512; // 64 entries of 8 bytes
	match w {
		W::Value { table, slot, payload } => {
			let tier = (*table & 0xff) as u8;
			let p = dir.join(format!("table_{:02}_{:02x}", table >> 8, tier));
			let f = match std::fs::OpenOptions::new().write(true).open(&p) {
				Ok(f) => f,
				Err(_) => return false,
			};
			let n = part.unwrap_or(payload.len()).min(payload.len());
			f.write_all_at(&payload[..n], slot * entry_size_of(sizes, tier) as u64).unwrap();
			true
		},
		W::Index { table, chunk, mask, bytes } => {
			let p = dir.join(format!("index_{:02}_{}", table >> 8, table & 0xff));
			let f = match std::fs::OpenOptions::new().write(true).open(&p) {
				Ok(f) => f,
				Err(_) => return false,
			};
			let mut m = *mask;
			let mut i = 0usize;
			let limit = part.unwrap_or(bytes.len()).min(bytes.len());
			while m != 0 {
				let bit = m.trailing_zeros() as u64;
				m &= m - 1;
				let lo = i * 8;
				let hi = (lo + 8).min(limit);
				if lo >= hi {
					break
				}
				f.write_all_at(&bytes[lo..hi], META + chunk * CHUNK_LEN + bit * 8).unwrap();
				i += 1;
			}
			true
		},
		W::Other { .. } => false,
	}
}

// ------------------------------------------------------------------------------ index state

/// as r5.rs `Stat` / `obs_stat` (hook `Db::verif_dump`): current index table, tables waiting to
/// be reindexed, reindex progress
struct Stat {
	cur: (u8, usize),
	older: Vec<(u8, usize)>,
	prog: u64,
}

impl Stat {
	fn line(&self) -> String {
		let old = if self.older.is_empty() {
			"-".to_string()
		} else {
			self.older.iter().map(|x| x.1.to_string()).collect::<Vec<_>>().join(",")
		};
		format!("bits={} older={} prog={} cur={} old={}", self.cur.0, self.older.len(), self.prog, self.cur.1, old)
	}
	fn drop_pending(&self) -> bool {
		!self.older.is_empty() && self.prog == 1u64 << self.older[0].0
	}
}

fn obs_stat(db: &Db) -> Stat {
	let d = db.verif_dump(0, false).expect("verif_dump");
	Stat {
		cur: (d.index[0].0, d.index[0].1.len()),
		older: d.index[1..].iter().map(|(b, e)| (*b, e.len())).collect(),
		prog: d.progress,
	}
}

// ------------------------------------------------------------------------------ one case

fn obs_get(db: &Db, k: &Key) -> String {
	match db.get(0, k) {
		Ok(Some(v)) => format!("some {}", show_val(&v)),
		Ok(None) => "none".to_string(),
		Err(e) => format!("err:{}", err_kind(&e)),
	}
}

/// `get`, or with the stored counters of a drained rc column `getrc` (format of `r5 getrc`)
fn obs_read(db: &Db, k: &Key, counts: Option<&HashMap<Vec<u8>, u64>>) -> String {
	let counts = match counts {
		Some(c) => c,
		None => return obs_get(db, k),
	};
	match (db.get(0, k), counts.get(&k[6..32].to_vec())) {
		(Ok(Some(v)), Some(rc)) => format!("some {} rc={}", show_val(&v), rc),
		(Ok(Some(v)), None) => format!("some {} rc=?", show_val(&v)),
		(Ok(None), _) => "none".to_string(),
		(Err(e), _) => format!("err:{}", err_kind(&e)),
	}
}

fn one_case(seed: u64, thorough: bool, root: &Path, t: &mut Trace, ctr: &mut Counters, prop: &str, purge: bool) -> bool {
	let mut rng = Rng::new(seed);
	let growth = seed % 6 == 0;
	let kind = match seed % 6 {
		1 => Kind::Rc,
		2 => Kind::Preimage,
		_ => Kind::Plain,
	};
	let kn = kind.name();
	let keys = gen_pool(&mut rng, growth);
	let ntx = if thorough {
		rng.range(100, 140)
	} else if growth {
		rng.range(40, 50)
	} else {
		rng.range(25, 35)
	};
	t.begin_case(&format!(
		"seed={} physrec keys={} txs={} growth={} kind={}",
		seed,
		keys.len(),
		ntx,
		if growth { 1 } else { 0 },
		kn
	));
	ctr.inc("cases");
	ctr.inc(&format!("kind.{}.cases", kn));
	ctr.inc(if growth { "cases.growth" } else { "cases.no_growth" });
	let mut case_grew = false;
	for k in ["rec.index_bits_not_16", "values.multipart", "rec.tokens.other_action", "rec.no_new_record", "torn.mismatch", "finding.wrong_read"] {
		ctr.add(k, 0);
	}
	let sizes = parity_db::verif::entry_sizes();
	let dir = fresh_dir(root, &format!("physrec-{}", seed));
	let db = Db::open_or_create(&options(&dir, kind)).expect("create");
	let pg = if purge { "purge" } else { "nopurge" };
	if kind == Kind::Plain {
		t.op(&format!("physrec init 16 {}", pg), "ok");
	} else {
		t.op(&format!("physrec initk 16 {} {}", kn, pg), "ok");
	}
	let mut ok = true;
	let mut vals: HashMap<String, Vec<u8>> = HashMap::new();
	let mut oracle: Content = HashMap::new();
	let mut records = 0u64;
	// expected answer of `get` (rc = false) / `getrc` (rc = true)
	let exp_get = |oracle: &Content, vals: &HashMap<String, Vec<u8>>, k: &Key, rc: bool| -> String {
		match oracle.get(k) {
			Some((tok, c)) if rc => format!("some {} rc={}", show_val(&vals[tok]), c),
			Some((tok, _)) => format!("some {}", show_val(&vals[tok])),
			None => "none".to_string(),
		}
	};
	let mut txi = 0u64;
	let mut next_is_reindex = false;
	let mut final_batches = 0;
	loop {
		// ---- what this step is: a transaction, or (growth cases, once the index has grown) one
		// reindex batch; at the end of a growth case batches until the reindex is finished
		let is_reindex = if next_is_reindex {
			next_is_reindex = false;
			true
		} else if txi < ntx {
			txi += 1;
			false
		} else if growth && case_grew && final_batches < 40 && !obs_stat(&db).older.is_empty() {
			final_batches += 1;
			true
		} else {
			break
		};
		let before = log_sizes(&dir);
		let mut planned_by_stat = false;
		if is_reindex {
			// as r5.rs `reindex`: behind a closed gate nothing happens (nothing is emitted)
			let (next, last) = db.verif_reindex_state();
			if !(next != 0 && next <= last) {
				db.process_reindex().expect("process_reindex");
				ctr.inc("op.reindex.gate_closed");
				continue
			}
			let st = obs_stat(&db);
			planned_by_stat = !st.older.is_empty() && !st.drop_pending();
			db.process_reindex().expect("process_reindex");
			db.flush_logs().expect("flush_logs");
		} else {
		// ---- the transaction: 1..4 operations on distinct keys
		let nops = if growth { rng.range(2, 4) } else { rng.range(1, 4) } as usize;
		let mut tx: Vec<Op> = vec![];
		while tx.len() < nops {
			// growth cases: mostly Sets, mostly of keys that are not stored yet (fills the chunk)
			let mut is_ref = false;
			let set = if kind == Kind::Rc {
				// set 45% / deref 35% / ref 20%
				let r = rng.below(100);
				is_ref = r >= 80;
				r < 45
			} else if growth {
				rng.chance(9, 10)
			} else if oracle.len() * 2 < keys.len() {
				// more Sets while the pool is mostly empty
				rng.chance(4, 5)
			} else {
				rng.chance(11, 20)
			};
			let absent: Vec<Key> = if growth && set && rng.chance(4, 5) {
				keys.iter().filter(|k| !oracle.contains_key(*k)).cloned().collect()
			} else {
				vec![]
			};
			let k = if absent.is_empty() { *rng.pick(&keys) } else { *rng.pick(&absent) };
			if tx.iter().any(|o| match o {
				Op::Set(k2, _) | Op::Deref(k2) | Op::Ref(k2) => *k2 == k,
			}) {
				continue
			}
			if is_ref {
				tx.push(Op::Ref(k));
			} else if set {
				let tok = if kind == Kind::Plain { gen_token(&mut rng, thorough) } else { contract_token(&k, thorough) };
				vals.entry(tok.clone()).or_insert_with(|| expand_token(&tok));
				tx.push(Op::Set(k, tok));
			} else {
				tx.push(Op::Deref(k));
			}
		}
		let mut dbtx: Vec<(u8, Operation<Vec<u8>, Vec<u8>>)> = vec![];
		for op in &tx {
			match op {
				Op::Set(k, tok) => {
					t.op(&format!("physrec set {} {}", hex(k), tok), "ok");
					let len = vals[tok].len();
					ctr.inc(match oracle.get(k) {
						None => "op.set.absent",
						Some(_) => "op.set.present",
					});
					ctr.inc(&format!(
						"op.set.len.{}",
						match len {
							0..=199 => "1-199",
							200..=3000 => "200-3000",
							_ => "multipart",
						}
					));
					if len > 32760 {
						ctr.inc("values.multipart");
					}
					ctr.inc(&format!("kind.{}.op.set", kn));
					dbtx.push((0u8, Operation::Set(k.to_vec(), vals[tok].clone())));
				},
				Op::Deref(k) => {
					t.op(&format!("physrec deref {}", hex(k)), "ok");
					ctr.inc(match oracle.get(k) {
						None => "op.deref.absent",
						Some((_, c)) if *c > 1 => "op.deref.count_down",
						Some(_) => "op.deref.present",
					});
					ctr.inc(&format!("kind.{}.op.deref", kn));
					dbtx.push((0u8, Operation::Dereference(k.to_vec())));
				},
				Op::Ref(k) => {
					t.op(&format!("physrec ref {}", hex(k)), "ok");
					ctr.inc(if oracle.contains_key(k) { "op.ref.present" } else { "op.ref.absent" });
					ctr.inc(&format!("kind.{}.op.ref", kn));
					dbtx.push((0u8, Operation::Reference(k.to_vec())));
				},
			}
			oracle_apply(kind, &mut oracle, op);
			if let Some((_, c)) = oracle.get(match op {
				Op::Set(k, _) | Op::Deref(k) | Op::Ref(k) => k,
			}) {
				if *c > 1 {
					ctr.inc("rc.count_above_1_after_op");
				}
			}
		}
		ctr.inc("op.commit");
		ctr.inc(&format!("tx.ops.{}", tx.len()));
		db.commit_changes(dbtx).expect("commit");
		db.process_commits().expect("process_commits");
		db.flush_logs().expect("flush_logs");
		}

		// ---- the record just written, before it is enacted
		let mut writes: Vec<W> = vec![];
		let rb = new_record_bytes(&dir, &before);
		if is_reindex {
			let wrote = !matches!(rb, Ok(None));
			if wrote != planned_by_stat {
				t.comment(&format!("reindex: record written = {} but the index state said planned = {}", wrote, planned_by_stat));
				ctr.inc("op.reindex.stat_disagrees");
			}
			if !wrote {
				// nothing to do: no record, nothing emitted
				ctr.inc("op.reindex.noop");
				db.enact_logs().expect("enact_logs");
				db.clean_logs().expect("clean_logs");
				continue
			}
			t.op("physrec reindex", "ok");
			ctr.inc("op.reindex.batch");
		}
		match rb {
			Ok(None) => {
				ctr.inc("rec.no_new_record");
			},
			Ok(Some(bytes)) => match parse_record(&bytes, &sizes) {
				Some((id, acts, crc_ok)) => {
					records += 1;
					if id != records {
						t.comment(&format!("record id {} where {} was expected", id, records));
						ctr.inc("rec.unexpected_id");
					}
					if !crc_ok {
						t.oracle_fail(prop, &format!("record {}: stored checksum differs from crc32 of the record bytes", id));
						ctr.inc("rec.bad_crc");
						ok = false;
					}
					writes = acts;
				},
				None => {
					t.oracle_fail(prop, &format!("tx {}: appended log bytes ({}) are not one well-formed record", txi, bytes.len()));
					ctr.inc("rec.unparsed");
					ok = false;
				},
			},
			Err(e) => {
				t.oracle_fail(prop, &format!("tx {}: {}", txi, e));
				ok = false;
			},
		}
		// canonical order (the crate iterates hash maps: the order inside the log differs from run
		// to run): index writes by (table id, chunk), value writes by (table id, slot), others last
		writes.sort_by_key(|w| match w {
			W::Index { table, chunk, .. } => (0u8, *table, *chunk),
			W::Value { table, slot, .. } => (1u8, *table, *slot),
			W::Other { .. } => (2u8, 0, 0),
		});
		let mut idx: Vec<(u16, u64, u64, &Vec<u8>)> = vec![];
		let mut val: Vec<(u16, u64, &Vec<u8>)> = vec![];
		let mut other: Vec<u16> = vec![];
		for w in &writes {
			match w {
				W::Index { table, chunk, mask, bytes } => idx.push((*table, *chunk, *mask, bytes)),
				W::Value { table, slot, payload } => val.push((*table, *slot, payload)),
				W::Other { table } => other.push(*table),
			}
		}
		idx.sort();
		val.sort();
		let mut toks: Vec<String> = vec![];
		let (mut ent, mut nbytes) = (0u64, 0u64);
		let mut grown = false;
		for (table, chunk, mask, bytes) in &idx {
			toks.push(format!("I{}@{}#{:x}={}", table & 0xff, chunk, mask, hex(bytes)));
			ent += mask.count_ones() as u64;
			nbytes += bytes.len() as u64;
			if table & 0xff != 16 {
				grown = true;
			}
		}
		for (table, slot, payload) in &val {
			toks.push(format!("V{}@{}={}", table & 0xff, slot, hex(payload)));
			nbytes += payload.len() as u64;
			if *slot == 0 {
				ctr.inc("rec.tokens.header");
			} else if payload[..2] == [0xff, 0xff] {
				ctr.inc("rec.tokens.value.tombstone");
			} else if table & 0xff == 255 {
				ctr.inc("rec.tokens.value.multipart_part");
			} else {
				ctr.inc("rec.tokens.value.entry");
			}
			ctr.inc(&format!(
				"rec.value.tier.{}",
				match table & 0xff {
					0..=63 => "0-63",
					64..=127 => "64-127",
					128..=191 => "128-191",
					192..=254 => "192-254",
					_ => "255-multipart",
				}
			));
		}
		for table in &other {
			toks.push(format!("D{}", table));
			ctr.inc("rec.tokens.other_action");
		}
		let has_drop = !other.is_empty();
		if has_drop {
			ctr.inc("rec.with_D_token");
		}
		if is_reindex {
			ctr.inc("rec.reindex_records");
			ctr.add("rec.reindex.index_entries", ent);
		}
		ctr.inc("rec.compared");
		ctr.inc(&format!("kind.{}.rec.compared", kn));
		ctr.add("rec.tokens.index", idx.len() as u64);
		ctr.add("rec.tokens.value", val.len() as u64);
		ctr.add("rec.index_entries", ent);
		ctr.add("rec.bytes", nbytes);
		if grown {
			ctr.inc("rec.index_bits_not_16");
			if !case_grew {
				case_grew = true;
				ctr.inc("cases.index_grew");
				ctr.inc(&format!("growth.first_record_has_I16_tokens.{}", idx.iter().any(|x| x.0 & 0xff == 16)));
			}
		}
		for b in idx.iter().map(|x| x.0 & 0xff).collect::<std::collections::BTreeSet<_>>() {
			ctr.inc(&format!("rec.with_index_bits.{}", b));
		}
		if toks.is_empty() {
			ctr.inc("rec.empty");
		}
		let line = if toks.is_empty() { "physrec rec -".to_string() } else { format!("physrec rec {}", toks.join(" ")) };
		t.op(&line, &format!("ok idx={} ent={} val={} bytes={}", idx.len(), ent, val.len(), nbytes));
		// model-side torn enact: the first j entry-level writes (index entries + value writes)
		let nw = ent + val.len() as u64;
		let tj = rng.below(nw + 1);
		t.op(&format!("physrec torn {}", tj), "ok");
		ctr.inc(if tj == 0 { "op.torn.j.none" } else if tj == nw { "op.torn.j.all" } else { "op.torn.j.some" });

		// ---- torn enact image (crate only)
		let mut torn: Option<Vec<String>> = None;
		if !writes.is_empty() && rng.chance(1, 10) {
			let copy = fresh_dir(root, &format!("physrec-{}-torn", seed));
			copy_dir(&dir, &copy);
			let j = rng.below(writes.len() as u64 + 1) as usize;
			let mut skipped = 0;
			for w in &writes[..j] {
				if !apply_write(&copy, w, &sizes, None) {
					skipped += 1;
				}
			}
			let mut half = false;
			if j < writes.len() && rng.chance(1, 2) {
				let n = match &writes[j] {
					W::Index { bytes, .. } => bytes.len(),
					W::Value { payload, .. } => payload.len(),
					W::Other { .. } => 0,
				};
				if n > 1 {
					half = apply_write(&copy, &writes[j], &sizes, Some(rng.range(1, n as u64 - 1) as usize));
				}
			}
			ctr.inc("torn.images");
			ctr.inc(if j == 0 { "torn.prefix.none" } else if j == writes.len() { "torn.prefix.all" } else { "torn.prefix.some" });
			if half {
				ctr.inc("torn.partial_write");
			}
			ctr.add("torn.writes_skipped_no_file", skipped);
			let r = std::panic::catch_unwind(std::panic::AssertUnwindSafe(|| Db::open(&options(&copy, kind))));
			match r {
				Ok(Ok(db2)) => {
					torn = Some(keys.iter().map(|k| obs_get(&db2, k)).collect());
					drop(db2);
				},
				Ok(Err(e)) => {
					t.oracle_fail(prop, &format!("tx {}: torn image (first {} of {} writes applied) does not open: {:?}", txi, j, writes.len(), e));
					ctr.inc("torn.open_failed");
					ok = false;
				},
				Err(_) => {
					t.oracle_fail(prop, &format!("tx {}: torn image (first {} of {} writes applied): Db::open panicked", txi, j, writes.len()));
					ctr.inc("torn.open_panicked");
					ok = false;
				},
			}
			let _ = std::fs::remove_dir_all(&copy);
		}

		// ---- enact
		db.enact_logs().expect("enact_logs");
		db.clean_logs().expect("clean_logs");

		if let Some(tg) = torn {
			for (k, g) in keys.iter().zip(tg.iter()) {
				let o = obs_get(&db, k);
				if *g != o {
					t.oracle_fail(prop, &format!("tx {}: torn image answers {} for key {}, the original {}", txi, g, hex(k), o));
					ctr.inc("torn.mismatch");
					ok = false;
				}
			}
		}

		if is_reindex {
			// as r5.rs: `enact` once the record carrying the DROP_TABLE is enacted, then the index state
			if has_drop {
				t.op("physrec enact", "ok");
				ctr.inc("op.enact_drop");
			}
			let st = obs_stat(&db);
			t.op("physrec stat", &st.line());
			if has_drop && !st.older.is_empty() {
				ctr.inc("op.enact_drop.older_table_still_there");
			}
			continue
		}

		// ---- reads (rc columns: value and stored counter, `getrc`)
		let counts = if kind == Kind::Rc {
			match stored_counts(&db) {
				Ok(c) => Some(c),
				Err(e) => {
					t.oracle_fail(prop, &format!("tx {}: {}", txi, e));
					ok = false;
					None
				},
			}
		} else {
			None
		};
		for _ in 0..2 {
			let k = *rng.pick(&keys);
			let obs = obs_read(&db, &k, counts.as_ref());
			let exp = exp_get(&oracle, &vals, &k, counts.is_some());
			ctr.inc(if obs == "none" { "op.get.none" } else { "op.get.some" });
			if obs != exp {
				t.oracle_fail(prop, &format!("tx {}: get {} expected {} observed {}", txi, hex(&k), exp, obs));
				ctr.inc("finding.wrong_read");
				ok = false;
			}
			t.op(&format!("physrec {} {}", if counts.is_some() { "getrc" } else { "get" }, hex(&k)), &obs);
			if counts.is_some() {
				ctr.inc("op.getrc");
			}
		}
		if growth && case_grew && rng.chance(1, 3) {
			next_is_reindex = true;
		}
	}
	if growth && case_grew {
		ctr.inc(if obs_stat(&db).older.is_empty() { "cases.reindex_finished" } else { "cases.reindex_unfinished" });
	}
	// final sweep over the pool
	let counts = if kind == Kind::Rc {
		match stored_counts(&db) {
			Ok(c) => {
				if c.len() != oracle.len() {
					t.oracle_fail(prop, &format!("final: {} live value chains for {} live keys", c.len(), oracle.len()));
					ctr.inc("finding.leak");
					ok = false;
				}
				Some(c)
			},
			Err(e) => {
				t.oracle_fail(prop, &format!("final: {}", e));
				ok = false;
				None
			},
		}
	} else {
		None
	};
	for k in &keys {
		let obs = obs_read(&db, k, counts.as_ref());
		let exp = exp_get(&oracle, &vals, k, counts.is_some());
		ctr.inc(if obs == "none" { "op.get.none" } else { "op.get.some" });
		if obs != exp {
			t.oracle_fail(prop, &format!("final: get {} expected {} observed {}", hex(k), exp, obs));
			ctr.inc("finding.wrong_read");
			ok = false;
		}
		t.op(&format!("physrec {} {}", if counts.is_some() { "getrc" } else { "get" }, hex(k)), &obs);
		if counts.is_some() {
			ctr.inc("op.getrc");
		}
	}
	drop(db);
	let _ = std::fs::remove_dir_all(&dir);
	t.end_case(true);
	ok
}

pub fn run(seeds: &[u64], thorough: bool, root: &Path, t: &mut Trace, ctr: &mut Counters, prop: &str) -> u64 {
	let hook = std::panic::take_hook();
	std::panic::set_hook(Box::new(|_| {}));
	// the model follows the crate under test (fix-c09-stale-index-entries), as r5.rs does
	let purge = crate::c09::crate_purges_stale_entries(root);
	t.comment(&format!("crate under test: purge_stale_entries={}", purge));
	t.stat("crate.fix.stale_index_entries", if purge { "1" } else { "0" });
	let mut fails = 0;
	for &seed in seeds {
		if !one_case(seed, thorough, root, t, ctr, prop, purge) {
			fails += 1;
			t.comment(&format!("FAILED-CASE seed={}", seed));
		}
	}
	std::panic::set_hook(hook);
	fails
}
