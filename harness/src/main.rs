//! pdbverif: drives the real parity-db and emits protocol traces for the Lean model driver,
//! plus independent oracle checks.  One sub-command per model slice.
mod c02x;
mod c04;
mod c05;
mod c05bt;
mod c05s;
mod t3;
mod physrec;
mod mtphys;
mod c06;
mod c08;
mod c09;
mod c10;
mod c11;
mod c12;
mod c17;
mod c18;
mod interpose;
mod c13;
mod c15;
mod c16;
mod c16t;
mod c19;
mod c20;
mod p1;
mod r5;
mod util;

use util::*;

fn arg<'a>(args: &'a [String], name: &str) -> Option<&'a str> {
	args.iter().position(|a| a == name).and_then(|i| args.get(i + 1)).map(|s| s.as_str())
}

type RunFn = fn(&[u64], bool, &std::path::Path, &mut Trace, &mut Counters, &str) -> u64;

fn dispatch(cmd: &str) -> Option<RunFn> {
	Some(match cmd {
		"p1" => p1::run,
		"c19" => c19::run,
		"c02x" => c02x::run,
		"c08" => c08::run,
		"c16" => c16::run,
		"c16t" => c16t::run,
		"c13" => c13::run,
		"c06" => c06::run,
		"c10" => c10::run,
		"c12" => c12::run,
		"c12x" => c12::run_reindex,
		"c17" => c17::run,
		"c20" => c20::run,
		"c05" => c05::run,
		"c05bt" => c05bt::run,
		"c05s" => c05s::run,
		"t3" => t3::run,
		"physrec" => physrec::run,
		"mtphys" => mtphys::run,
		"c04" => c04::run,
		"c09" => c09::run,
		"c15" => c15::run,
		"c18" => c18::run,
		"c11" => c11::run,
		"r5" => r5::run,
		_ => return None,
	})
}

fn main() {
	let args: Vec<String> = std::env::args().collect();
	if args.len() < 2 {
		eprintln!("usage: pdbverif <cmd> --prop Cxx --seed N --cases N --out FILE [--thorough] [--case-seed S]");
		std::process::exit(2);
	}
	let cmd = args[1].as_str();
	if cmd == "c15-child" {
		std::process::exit(c15::child_main(&args[2..]));
	}
	if cmd == "c18-child" {
		std::process::exit(c18::child_main(&args[2..]));
	}
	if cmd == "c16t-child" {
		std::process::exit(c16t::child_main(&args[2..]));
	}
	let seed: u64 = arg(&args, "--seed").map(|s| s.parse().unwrap()).unwrap_or(1);
	let cases: u64 = arg(&args, "--cases").map(|s| s.parse().unwrap()).unwrap_or(10);
	let out = arg(&args, "--out");
	let prop = arg(&args, "--prop").unwrap_or("C01").to_string();
	let thorough = args.iter().any(|a| a == "--thorough");
	let only_case: Option<u64> = arg(&args, "--case-seed").map(|s| s.parse().unwrap());
	let f = match dispatch(cmd) {
		Some(f) => f,
		None => {
			eprintln!("unknown command {}", cmd);
			std::process::exit(2);
		},
	};
	let root = scratch_root();
	let mut t = Trace::new(out);
	let mut ctr = Counters::new();
	let mut master = Rng::new(seed);
	let seeds: Vec<u64> = match only_case {
		Some(s) => vec![s],
		None => (0..cases).map(|_| master.next() >> 16).collect(),
	};
	let fails = f(&seeds, thorough, &root, &mut t, &mut ctr, &prop);
	ctr.dump(&mut t);
	t.stat("oracle_failures", &t.oracle_failures.to_string());
	t.flush();
	let _ = std::fs::remove_dir_all(&root);
	std::process::exit(if fails == 0 { 0 } else { 1 });
}
