//! C09 (index growth, hash-prefix collisions) and C14 (structural soundness) on the real `Db`.
//!
//! One uniform hash column with the all-zero salt: with the `instrumentation` feature `hash_key`
//! is then the identity on 32-byte keys, so the harness chooses index pages (top bits of the key)
//! and partial keys directly.  Every key carries a unique id in bytes 8..12, i.e. in its 26-byte
//! tail (assumption A-tail), and in the random cases at most 8 keys share one 50-bit index-visible
//! prefix.  Directed cases go beyond both limits and report what the crate then does as KNOWN
//! findings (`t.known`): F28 (more than 64 index entries of one 50-bit class, live or stale: the
//! growth never completes) and F29 (two hashed keys equal in bytes 6..32: a stale entry resolves to
//! the other key's value).
//!
//! Trace protocol: command `c09` of the Lean driver (see lean/Pdb/Model/Index.lean).  The
//! `set` / `del` lines of a transaction are emitted when the transaction is PLANNED
//! (`process_commits`), followed by `mark` (record verdict) and `stat`.  Values of the multipart
//! tier are model-compared as well (token `t255_<len>_<seed>`: the driver derives the number of
//! parts from `len`; the index model allocates and releases chains slot by slot), so the `stat` /
//! `slots` lines of C14 cases compare fill mark and free-list length of table 255 too.
//!
//! Independent oracle: a BTreeMap of the committed content; every key returns its latest value
//! at every point; after a crash the content is that of a record prefix not shorter than the
//! flushed records; structural checks on a hook dump (`Db::verif_dump`) for C14.
use crate::util::*;
use parity_db::{ColumnOptions, Db, Options};
use std::collections::{BTreeMap, BTreeSet, HashMap, VecDeque};
use std::path::{Path, PathBuf};

const SIZES: [usize; 255] = [
	32, 33, 34, 35, 36, 37, 38, 39, 40, 41, 42, 43, 44, 46, 47, 48, 50, 51, 52, 54, 55, 57, 58, 60, 62, 63,
	65, 67, 69, 71, 73, 75, 77, 79, 81, 83, 85, 88, 90, 93, 95, 98, 101, 103, 106, 109, 112, 115, 119,
	122, 125, 129, 132, 136, 140, 144, 148, 152, 156, 160, 165, 169, 174, 179, 183, 189, 194, 199, 205,
	210, 216, 222, 228, 235, 241, 248, 255, 262, 269, 276, 284, 292, 300, 308, 317, 325, 334, 344, 353,
	363, 373, 383, 394, 405, 416, 428, 439, 452, 464, 477, 490, 504, 518, 532, 547, 562, 577, 593, 610,
	627, 644, 662, 680, 699, 718, 738, 758, 779, 801, 823, 846, 869, 893, 918, 943, 969, 996, 1024, 1052,
	1081, 1111, 1142, 1174, 1206, 1239, 1274, 1309, 1345, 1382, 1421, 1460, 1500, 1542, 1584, 1628,
	1673, 1720, 1767, 1816, 1866, 1918, 1971, 2025, 2082, 2139, 2198, 2259, 2322, 2386, 2452, 2520,
	2589, 2661, 2735, 2810, 2888, 2968, 3050, 3134, 3221, 3310, 3402, 3496, 3593, 3692, 3794, 3899,
	4007, 4118, 4232, 4349, 4469, 4593, 4720, 4850, 4984, 5122, 5264, 5410, 5559, 5713, 5871, 6034,
	6200, 6372, 6548, 6729, 6916, 7107, 7303, 7506, 7713, 7927, 8146, 8371, 8603, 8841, 9085, 9337,
	9595, 9860, 10133, 10413, 10702, 10998, 11302, 11614, 11936, 12266, 12605, 12954, 13312, 13681,
	14059, 14448, 14848, 15258, 15681, 16114, 16560, 17018, 17489, 17973, 18470, 18981, 19506, 20046,
	20600, 21170, 21756, 22358, 22976, 23612, 24265, 24936, 25626, 26335, 27064, 27812, 28582, 29372,
	30185, 31020, 31878, 32760,
];

type Key = [u8; 32];

/// T2 dumps above this size are not sent to the Lean driver (counted as `t2.skipped.*`).
const T2_MAX_LINE: usize = 200 * 1024;
/// limit of the compact `t2 nostale` line of a case with `t2_big_nostale`
const T2_BIG_NOSTALE_LINE: usize = 8 * 1024 * 1024;

/// `PDBVERIF_T2_MAX_LINE=<bytes>` raises / lowers the limit (e.g. to send the dumps of the big
/// cases, which are the only ones taken between two reindex batches of one table, to the driver).
fn t2_max_line() -> usize {
	std::env::var("PDBVERIF_T2_MAX_LINE").ok().and_then(|s| s.parse().ok()).unwrap_or(T2_MAX_LINE)
}

fn options(path: &Path) -> Options {
	let mut o = Options::with_columns(path, 1);
	o.columns[0] = ColumnOptions { uniform: true, ..Default::default() };
	o.salt = Some([0u8; 32]);
	o.with_background_thread = false;
	o.always_flush = true;
	o.stats = false;
	o.sync_wal = true;
	o.sync_data = true;
	o
}

/// prefix = big-endian u64 of bytes 0..8; the unique id sits in the tail.
fn mk_key(prefix: u64, id: u32) -> Key {
	let mut k = [0u8; 32];
	k[0..8].copy_from_slice(&prefix.to_be_bytes());
	k[8..12].copy_from_slice(&id.to_be_bytes());
	let mut r = Rng::new(id as u64 ^ 0x5151);
	for i in 3..5 {
		k[i * 4..i * 4 + 4].copy_from_slice(&(r.next() as u32).to_le_bytes());
	}
	k
}

fn prefix_of(k: &Key) -> u64 {
	u64::from_be_bytes(k[0..8].try_into().unwrap())
}

/// size tier and number of slots of a stored value (uncompressed plain hash column:
/// 2 bytes size + 26 bytes key tail + value; multipart parts carry 8 more bytes of link).
fn tier_of(len: usize) -> (u8, usize) {
	for (i, s) in SIZES.iter().enumerate() {
		if len + 28 <= *s {
			return (i as u8, 1)
		}
	}
	let mut rem = len + 26;
	let mut parts = 1;
	while rem > 4094 {
		rem -= 4086;
		parts += 1;
	}
	(255, parts)
}

fn val_bytes(len: usize, seed: u64) -> Vec<u8> {
	let mut out = Vec::with_capacity(len);
	let mut r = Rng::new(seed.wrapping_mul(0x9E3779B1) ^ len as u64);
	while out.len() < len {
		let x = r.next().to_le_bytes();
		let n = std::cmp::min(8, len - out.len());
		out.extend_from_slice(&x[..n]);
	}
	out
}

/// token `t<tier>_<len>_<seed>` <-> bytes
#[derive(Default)]
struct Vals {
	rev: HashMap<Vec<u8>, String>,
	bytes: HashMap<String, Vec<u8>>,
}

impl Vals {
	fn token(&mut self, len: usize, seed: u64) -> String {
		let b = val_bytes(len, seed);
		if let Some(t) = self.rev.get(&b) {
			return t.clone()
		}
		let tok = format!("t{}_{}_{}", tier_of(len).0, len, seed);
		self.rev.insert(b.clone(), tok.clone());
		self.bytes.insert(tok.clone(), b);
		tok
	}
	fn bytes(&self, tok: &str) -> Vec<u8> {
		self.bytes[tok].clone()
	}
	fn len(&self, tok: &str) -> usize {
		self.bytes[tok].len()
	}
	fn render(&self, v: &[u8]) -> String {
		match self.rev.get(v) {
			Some(t) => t.clone(),
			None => format!("raw{}:{}", v.len(), hex(&v[..std::cmp::min(v.len(), 12)])),
		}
	}
}

#[derive(Clone, Debug)]
enum Op {
	Set(Key, String),
	Del(Key),
}

type Tx = Vec<Op>;

/// (bits, entries) of the current table, then of the queued ones oldest first; progress.
#[derive(Clone, Debug, PartialEq, Eq)]
struct Stat {
	cur: (u8, usize),
	older: Vec<(u8, usize)>,
	prog: u64,
}

impl Stat {
	fn line(&self) -> String {
		let old = if self.older.is_empty() {
			"-".to_string()
		} else {
			self.older.iter().map(|x| x.1.to_string()).collect::<Vec<_>>().join(",")
		};
		format!("bits={} older={} prog={} cur={} old={}", self.cur.0, self.older.len(), self.prog, self.cur.1, old)
	}
	fn drop_pending(&self) -> bool {
		!self.older.is_empty() && self.prog == 1u64 << self.older[0].0
	}
	/// what recovery makes of the planning state: a logged DropTable is replayed, progress is lost
	fn recovered(&self, files: &BTreeSet<u8>) -> Stat {
		let mut s = self.clone();
		if s.drop_pending() {
			s.older.remove(0);
		}
		s.prog = 0;
		// `open_index` sees the tables that have a file (a table without entries may never
		// have been written: one re-launched by the validation of a rejected record)
		let mut all: Vec<(u8, usize)> = s.older.clone();
		all.push(s.cur);
		all.retain(|t| t.1 > 0 || files.contains(&t.0));
		match all.pop() {
			Some(top) => {
				s.cur = top;
				s.older = all;
			},
			None => {
				s.cur = (16, 0);
				s.older = vec![];
			},
		}
		s
	}
	/// `trigger_reindex` applied to the state (recovery re-launches a growth when it validates a
	/// record naming a table that does not exist yet, even if that record is then rejected)
	fn triggered(&self) -> Stat {
		let mut s = self.clone();
		s.older.push(s.cur);
		s.cur = (s.cur.0 + 1, 0);
		s
	}
	fn phase(&self) -> &'static str {
		if self.older.is_empty() {
			if self.cur.0 == 16 {
				"no-growth"
			} else {
				"after-drop"
			}
		} else if self.drop_pending() {
			"drop-logged"
		} else if self.prog == 0 {
			"before-first-batch"
		} else {
			"between-batches"
		}
	}
}

fn obs_stat(db: &Db) -> Stat {
	let d = db.verif_dump(0, false).expect("verif_dump");
	Stat {
		cur: (d.index[0].0, d.index[0].1.len()),
		older: d.index[1..].iter().map(|(b, e)| (*b, e.len())).collect(),
		prog: d.progress,
	}
}

#[derive(Clone, Copy, Debug)]
struct Flags {
	exact: bool,
	grow: bool,
	/// fix-c09-stale-index-entries: entries of a removed / moved value are removed from the queued
	/// older index tables as well
	purge: bool,
}

struct Sut {
	dir: PathBuf,
	db: Option<Db>,
	pending: VecDeque<Tx>,
	logged_unflushed: usize,
	files: VecDeque<usize>,
	dirty: usize,
	n_records: usize,
	n_flushed: usize,
	n_enacted: usize,
	/// record in which a DropTable was logged and not yet enacted
	pending_drop: Option<usize>,
	dead: bool,
	/// what the records of the log file being appended to contain (FLAG_*)
	cur_flags: u8,
	/// the same per flushed, not yet enacted log file (parallel to `files`)
	file_flags: VecDeque<u8>,
	/// the same per enacted, not yet reclaimed log file: a crash image taken now makes recovery
	/// replay these records over tables that already hold their effects
	dirty_flags: Vec<u8>,
}

const FLAG_GROWTH: u8 = 1;
const FLAG_DROP: u8 = 2;
const FLAG_BATCH: u8 = 4;

impl Sut {
	fn with_db(dir: PathBuf, db: Db) -> Sut {
		Sut {
			dir,
			db: Some(db),
			pending: Default::default(),
			logged_unflushed: 0,
			files: Default::default(),
			dirty: 0,
			n_records: 0,
			n_flushed: 0,
			n_enacted: 0,
			pending_drop: None,
			dead: false,
			cur_flags: 0,
			file_flags: Default::default(),
			dirty_flags: vec![],
		}
	}
	fn create(dir: PathBuf) -> Sut {
		let db = Db::open_or_create(&options(&dir)).expect("create");
		Sut::with_db(dir, db)
	}
	fn db(&self) -> &Db {
		self.db.as_ref().unwrap()
	}
	fn flush(&mut self) {
		self.db().flush_logs().expect("flush_logs");
		if self.logged_unflushed > 0 {
			self.files.push_back(self.logged_unflushed);
			self.file_flags.push_back(self.cur_flags);
			self.cur_flags = 0;
			self.logged_unflushed = 0;
			self.n_flushed = self.n_records;
		}
	}
	fn clean(&mut self) {
		self.db().clean_logs().expect("clean_logs");
		self.dirty = 0;
		self.dirty_flags.clear();
	}
	/// enact one flushed log file
	fn enact_one(&mut self) -> bool {
		if self.dirty >= 3 {
			self.clean();
		}
		self.db().enact_logs().expect("enact_logs");
		if let Some(c) = self.files.pop_front() {
			self.n_enacted += c;
			self.dirty += 1;
			let f = self.file_flags.pop_front().unwrap_or(0);
			self.dirty_flags.push(f);
			true
		} else {
			false
		}
	}
	fn gate_open(&self) -> bool {
		let (next, last) = self.db().verif_reindex_state();
		next != 0 && next <= last
	}
	fn abandon(&mut self) {
		if let Some(db) = self.db.take() {
			if self.dead {
				std::mem::forget(db);
			} else {
				if self.dirty >= 3 {
					let _ = db.clean_logs();
				}
				drop(db);
			}
		}
	}
}

/// Everything one case carries around.
struct Case<'a> {
	t: &'a mut Trace,
	ctr: &'a mut Counters,
	prop: String,
	model: bool,
	sut: Sut,
	vals: Vals,
	/// oracle: content after every accepted commit
	committed: BTreeMap<Key, String>,
	/// oracle: content after the first n records
	content_at: Vec<BTreeMap<Key, String>>,
	stat_at: Vec<Stat>,
	keys: Vec<Key>,
	ok: bool,
	max_bits: u8,
	batches: usize,
	peak_slots: BTreeMap<u8, usize>,
	cur_slots: BTreeMap<u8, usize>,
	last_stat: Stat,
	seed: u64,
	/// what happened since the oldest queued index table was queued (`nostale.*` counters)
	events: BTreeSet<String>,
	/// dumps above `T2_MAX_LINE` still reach the Lean checker in the compact form `t2 nostale`
	/// (index tables + value tables, no `t2 slots` / `t2 index` lines, no key list): set by the
	/// directed case that dumps between two reindex batches of one table
	t2_big_nostale: bool,
}

/// a crash image and what was known when it was taken
struct Snap {
	img: PathBuf,
	phase: &'static str,
	/// records flushed (synced) / planned when the image was taken
	lo: usize,
	hi: usize,
	unenacted_files: usize,
	dirty: usize,
}

impl<'a> Case<'a> {
	fn emit(&mut self, op: &str, obs: &str) {
		if self.model {
			self.t.op(op, obs);
		} else {
			self.t.comment(&format!("{} -> {}", op, obs));
		}
	}
	fn fail(&mut self, msg: &str) {
		let p = self.prop.clone();
		self.t.oracle_fail(&p, msg);
		self.ok = false;
	}
	fn processed(&self) -> &BTreeMap<Key, String> {
		self.content_at.last().unwrap()
	}

	fn commit(&mut self, tx: Tx) {
		if self.sut.dead {
			return
		}
		let dbtx: Vec<(u8, Vec<u8>, Option<Vec<u8>>)> = tx
			.iter()
			.map(|op| match op {
				Op::Set(k, v) => (0u8, k.to_vec(), Some(self.vals.bytes(v))),
				Op::Del(k) => (0u8, k.to_vec(), None),
			})
			.collect();
		self.sut.db().commit(dbtx).expect("commit");
		for op in &tx {
			match op {
				Op::Set(k, v) => {
					self.committed.insert(*k, v.clone());
				},
				Op::Del(k) => {
					self.committed.remove(k);
				},
			}
		}
		self.ctr.inc("op.commit");
		self.ctr.add("ops.in_tx", tx.len() as u64);
		self.sut.pending.push_back(tx);
	}

	/// slot accounting of the planned operations (for the steady-workload bound)
	fn account(&mut self, content: &BTreeMap<Key, String>, op: &Op) {
		let (k, new) = match op {
			Op::Set(k, v) => (k, Some(v)),
			Op::Del(k) => (k, None),
		};
		let old_tp = content.get(k).map(|old| tier_of(self.vals.len(old)));
		let new_tp = new.map(|v| tier_of(self.vals.len(v)));
		// same single-slot tier: replaced in place
		if let (Some(o), Some(n)) = (old_tp, new_tp) {
			if o.0 == n.0 && o.0 != 255 {
				return
			}
		}
		if let Some((t, p)) = old_tp {
			let c = self.cur_slots.entry(t).or_insert(0);
			*c = c.saturating_sub(p);
		}
		if let Some((t, p)) = new_tp {
			let c = self.cur_slots.entry(t).or_insert(0);
			*c += p;
			let c = *c;
			let pk = self.peak_slots.entry(t).or_insert(0);
			if c > *pk {
				*pk = c;
			}
		}
	}

	/// `process_commits`: plan one transaction = one log record
	fn process(&mut self) {
		if self.sut.dead {
			return
		}
		let tx = match self.sut.pending.pop_front() {
			Some(tx) => tx,
			None => {
				self.sut.db().process_commits().expect("process_commits");
				return
			},
		};
		let mut content = self.processed().clone();
		self.nostale_classify_tx(&tx);
		for op in &tx {
			self.account(&content, op);
			match op {
				Op::Set(k, v) => {
					self.emit(&format!("c09 set {} {}", hex(k), v), "ok");
					content.insert(*k, v.clone());
					self.ctr.inc("op.set");
					self.ctr.inc(&format!("op.set.tier.{}", tier_of(self.vals.len(v)).0));
				},
				Op::Del(k) => {
					self.emit(&format!("c09 del {}", hex(k)), "ok");
					content.remove(k);
					self.ctr.inc("op.del");
				},
			}
		}
		let r = std::panic::catch_unwind(std::panic::AssertUnwindSafe(|| self.sut.db().process_commits()));
		match r {
			Ok(Ok(())) => {
				self.emit("c09 mark", "ok");
				self.sut.n_records += 1;
				self.sut.logged_unflushed += 1;
				self.content_at.push(content);
				self.after_record(false);
			},
			Ok(Err(e)) => {
				self.emit("c09 mark", &format!("err:{}", err_kind(&e)));
				self.fail(&format!("process_commits failed: {:?}", e));
				self.sut.dead = true;
			},
			Err(_) => {
				self.emit("c09 mark", "panic");
				self.ctr.inc("finding.writer_panic");
				let ops = tx
					.iter()
					.map(|o| match o {
						Op::Set(k, v) => format!("set {} {}", hex(k), v),
						Op::Del(k) => format!("del {}", hex(k)),
					})
					.collect::<Vec<_>>()
					.join("; ");
				self.fail(&format!("commit worker panicked while planning [{}] at {}", ops, self.last_stat.line()));
				self.sut.dead = true;
			},
		}
	}

	fn after_record(&mut self, is_batch: bool) {
		let st = obs_stat(self.sut.db());
		self.emit("c09 stat", &st.line());
		if st.cur.0 > self.last_stat.cur.0 {
			self.ctr.inc(if is_batch { "growth.triggered_by_batch" } else { "growth.triggered_by_commit" });
			self.sut.cur_flags |= FLAG_GROWTH;
		}
		if is_batch {
			self.sut.cur_flags |= FLAG_BATCH;
		}
		if st.cur.0 > self.max_bits {
			self.max_bits = st.cur.0;
		}
		if st.drop_pending() && self.sut.pending_drop.is_none() {
			self.sut.pending_drop = Some(self.sut.n_records);
			self.sut.cur_flags |= FLAG_DROP;
		}
		self.stat_at.push(st.clone());
		self.last_stat = st;
	}

	/// one `process_reindex` call
	fn reindex(&mut self) {
		if self.sut.dead {
			return
		}
		if !self.sut.gate_open() {
			self.sut.db().process_reindex().expect("process_reindex");
			self.ctr.inc("op.reindex.gate_closed");
			return
		}
		let before = self.last_stat.clone();
		let r = std::panic::catch_unwind(std::panic::AssertUnwindSafe(|| self.sut.db().process_reindex()));
		match r {
			Ok(Ok(())) => {},
			Ok(Err(e)) => {
				self.fail(&format!("process_reindex failed: {:?}", e));
				self.sut.dead = true;
				return
			},
			Err(_) => {
				self.emit("c09 reindex", "ok");
				self.emit("c09 mark", "panic");
				self.fail("process_reindex panicked");
				self.sut.dead = true;
				return
			},
		}
		// a batch produces a record iff there is a source that is not exhausted
		let planned = !before.older.is_empty() && !before.drop_pending();
		self.emit("c09 reindex", "ok");
		if planned {
			self.emit("c09 mark", "ok");
			self.sut.n_records += 1;
			self.sut.logged_unflushed += 1;
			let c = self.processed().clone();
			self.content_at.push(c);
			self.batches += 1;
			self.ctr.inc("op.reindex.batch");
			self.after_record(true);
		} else {
			self.ctr.inc("op.reindex.noop");
			let st = obs_stat(self.sut.db());
			if st != before {
				self.fail(&format!("process_reindex without source changed the index: {} -> {}", before.line(), st.line()));
			}
		}
	}

	fn note_enacted(&mut self) {
		if let Some(r) = self.sut.pending_drop {
			if self.sut.n_enacted >= r {
				self.emit("c09 enact", "ok");
				self.sut.pending_drop = None;
				let st = obs_stat(self.sut.db());
				self.emit("c09 stat", &st.line());
				self.last_stat = st;
				self.ctr.inc("growth.drop_enacted");
			}
		}
	}

	fn enact_one(&mut self) {
		if self.sut.dead {
			return
		}
		if self.sut.enact_one() {
			self.ctr.inc("op.enact");
			self.note_enacted();
		}
	}

	/// plan, flush and enact everything
	fn drain(&mut self) {
		while !self.sut.pending.is_empty() && !self.sut.dead {
			self.process();
		}
		if self.sut.dead {
			return
		}
		self.sut.flush();
		while !self.sut.files.is_empty() {
			self.enact_one();
		}
		self.sut.clean();
	}

	fn get_obs(&mut self, k: &Key) -> String {
		match self.sut.db().get(0, k) {
			Ok(Some(v)) => format!("some {}", self.vals.render(&v)),
			Ok(None) => "none".to_string(),
			Err(e) => format!("err:{}", err_kind(&e)),
		}
	}

	/// one read: oracle always, model when nothing is queued in front of the planner
	fn check_get(&mut self, k: &Key, with_model: bool) {
		if self.sut.dead {
			return
		}
		let obs = self.get_obs(k);
		let exp = match self.committed.get(k) {
			Some(v) => format!("some {}", v),
			None => "none".to_string(),
		};
		self.ctr.inc("op.get");
		if obs != exp {
			self.ctr.inc("finding.wrong_read");
			self.fail(&format!("get {} expected {} observed {} ({})", hex(k), exp, obs, self.last_stat.line()));
		}
		if with_model && self.sut.pending.is_empty() {
			self.emit(&format!("c09 get {}", hex(k)), &obs);
		}
	}

	fn check_all(&mut self, with_model: bool) {
		let keys = self.keys.clone();
		for k in &keys {
			self.check_get(k, with_model);
		}
	}

	fn reopen(&mut self) {
		self.drain();
		if self.sut.dead {
			return
		}
		self.sut.abandon();
		match Db::open(&options(&self.sut.dir)) {
			Ok(db) => self.sut.db = Some(db),
			Err(e) => {
				self.fail(&format!("clean reopen failed: {:?}", e));
				self.sut.dead = true;
				return
			},
		}
		self.ctr.inc("op.reopen");
		self.ctr.inc(&format!("reopen.phase.{}", self.last_stat.phase()));
		self.emit("c09 reopen", "ok");
		let st = obs_stat(self.sut.db());
		self.emit("c09 stat", &st.line());
		if !st.older.is_empty() {
			self.events.insert("reopen".to_string());
			self.ctr.inc("nostale.reopen_with_queued_tables");
		}
		self.last_stat = st;
		self.check_all(true);
		self.structure("reopen");
	}

	/// crash image at the current step boundary, recover, identify the record prefix
	fn crash(&mut self, rng: &mut Rng, root: &Path, tag: &str) {
		if self.sut.dead {
			return
		}
		let snap = self.snapshot(rng, root, tag, true);
		self.recover(snap);
	}

	/// Copy of the directory as a crash would leave it.  The log files that were enacted but not
	/// reclaimed are part of it: recovery replays them over tables that already hold their effects.
	fn snapshot(&mut self, rng: &mut Rng, root: &Path, tag: &str, allow_cut: bool) -> Snap {
		let phase = self.last_stat.phase();
		let img = fresh_dir(root, &format!("{}-img{}", tag, rng.below(1 << 24)));
		copy_dir(&self.sut.dir, &img);
		let _ = std::fs::remove_file(img.join("lock"));
		// cut the unsynced tail: only the log file being appended to has unsynced bytes; it is
		// the most recently modified non-empty one
		let mut cut = false;
		if allow_cut && self.sut.logged_unflushed > 0 && rng.chance(2, 3) {
			let mut best: Option<(std::time::SystemTime, PathBuf, u64)> = None;
			for e in std::fs::read_dir(&self.sut.dir).unwrap() {
				let e = e.unwrap();
				let n = e.file_name().to_string_lossy().to_string();
				if n.starts_with("log") {
					let m = e.metadata().unwrap();
					if m.len() > 0 {
						let mt = m.modified().unwrap();
						if best.as_ref().map_or(true, |b| mt >= b.0) {
							best = Some((mt, img.join(&n), m.len()));
						}
					}
				}
			}
			if let Some((_, p, len)) = best {
				let keep = match rng.below(3) {
					0 => 0,
					_ => rng.range(0, len),
				};
				if keep < len {
					let f = std::fs::OpenOptions::new().write(true).open(&p).unwrap();
					f.set_len(keep).unwrap();
					cut = true;
				}
			}
		}
		self.ctr.inc(if cut { "crash.cut_tail" } else { "crash.boundary" });
		self.ctr.inc(&format!("crash.phase.{}", phase));
		// replay over tables that already contain the records' effects
		self.ctr.inc(&format!("crash.retained_enacted_files.{}", std::cmp::min(self.sut.dirty_flags.len(), 3)));
		let all = self.sut.dirty_flags.iter().fold(0u8, |a, b| a | b);
		if all & FLAG_GROWTH != 0 {
			self.ctr.inc("crash.retained_enacted.growth_record");
		}
		if all & FLAG_DROP != 0 {
			self.ctr.inc("crash.retained_enacted.drop_record");
		}
		if all & FLAG_BATCH != 0 {
			self.ctr.inc("crash.retained_enacted.reindex_batch");
		}
		Snap {
			img,
			phase,
			lo: self.sut.n_flushed,
			hi: self.sut.n_records,
			unenacted_files: self.sut.files.len(),
			dirty: self.sut.dirty,
		}
	}

	/// Abandon the live handle, open the image, identify the record prefix it recovered to.
	fn recover(&mut self, snap: Snap) {
		let Snap { img, phase, lo, hi, unenacted_files, dirty } = snap;
		// abandon the live handle and its directory
		let old = self.sut.dir.clone();
		self.sut.abandon();
		let _ = std::fs::remove_dir_all(&old);
		let r = std::panic::catch_unwind(std::panic::AssertUnwindSafe(|| Db::open(&options(&img))));
		let db = match r {
			Ok(Ok(db)) => db,
			Ok(Err(e)) => {
				self.fail(&format!("recovery open failed ({}): {:?}", phase, e));
				self.sut.dead = true;
				self.sut.dir = img;
				return
			},
			Err(_) => {
				self.fail(&format!("recovery open panicked ({})", phase));
				self.sut.dead = true;
				self.sut.dir = img;
				return
			},
		};
		self.sut = Sut::with_db(img, db);
		let st = obs_stat(self.sut.db());
		let mut files: BTreeSet<u8> = BTreeSet::new();
		for e in std::fs::read_dir(&self.sut.dir).unwrap() {
			let n = e.unwrap().file_name().to_string_lossy().to_string();
			if let Some(b) = n.strip_prefix("index_00_") {
				if let Ok(b) = b.parse::<u8>() {
					files.insert(b);
				}
			}
		}
		// content of the recovered database
		let keys = self.keys.clone();
		let mut got: BTreeMap<Key, String> = BTreeMap::new();
		for k in &keys {
			if let Ok(Some(v)) = self.sut.db().get(0, k) {
				got.insert(*k, self.vals.render(&v));
			}
		}
		let mut found = None;
		let mut content_only = None;
		'search: for n in (0..=hi).rev() {
			if self.content_at[n] == got {
				if content_only.is_none() {
					content_only = Some(n);
				}
				let mut want = self.stat_at[n].recovered(&files);
				for g in 0..3 {
					if want == st {
						found = Some((n, g));
						break 'search
					}
					want = want.triggered();
				}
			}
		}
		let (n, g) = match (found, content_only) {
			(Some(x), _) => x,
			(None, Some(n)) => {
				self.fail(&format!(
					"recovered index state matches no record prefix ({}): content = prefix {} but index {} vs expected {}",
					phase,
					n,
					st.line(),
					self.stat_at[n].recovered(&files).line()
				));
				(n, 0)
			},
			(None, None) => {
				self.ctr.inc("finding.crash_not_prefix");
				self.fail(&format!("recovered content is not that of any record prefix <= {} ({})", hi, phase));
				self.emit("c09 crashto 0 0", "not-a-prefix");
				self.sut.dead = true;
				return
			},
		};
		if g > 0 {
			self.ctr.inc("crash.growth_relaunched_by_rejected_record");
		}
		if n < lo {
			self.ctr.inc("finding.crash_lost_flushed");
			self.fail(&format!(
				"crash recovery lost flushed (synced) records: recovered prefix {} < flushed {} (of {} planned; phase {}; {} flushed log files not enacted, {} enacted log files not cleaned; index now {})",
				n, lo, hi, phase, unenacted_files, dirty, st.line()
			));
		}
		self.emit(&format!("c09 crashto {} {}", n, g), &st.line());
		self.ctr.inc("op.crash");
		self.content_at.truncate(n + 1);
		self.stat_at.truncate(n + 1);
		let last = self.stat_at.len() - 1;
		self.stat_at[last] = st.clone();
		self.committed = self.content_at[n].clone();
		self.sut.n_records = n;
		self.sut.n_flushed = n;
		self.sut.n_enacted = n;
		if !st.older.is_empty() {
			self.events.insert("crash_recovery".to_string());
			self.ctr.inc("nostale.recovery_with_queued_tables");
		}
		self.last_stat = st;
		// slot accounting restarts from the recovered content
		self.cur_slots.clear();
		let content = self.committed.clone();
		for v in content.values() {
			let (t, p) = tier_of(self.vals.len(v));
			*self.cur_slots.entry(t).or_insert(0) += p;
		}
		self.check_all(true);
		self.structure("recovery");
	}

	/// T2 rendering of one value table (format: lean/Pdb/Model/DumpCheck.lean): metadata of the
	/// open handle, the 16-byte file header, the first min(40, entry_size) raw bytes of every
	/// slot below `filled`.  `None` if the text would exceed `T2_MAX_LINE`.
	fn t2_table(&self, tb: &parity_db::verif::TableDump, budget: usize) -> Option<String> {
		let db = self.sut.db();
		let mut s = format!("{} {} {} 0 {} {}", tb.tier, tb.entry_size, tb.multipart as u8, tb.filled, tb.last_removed);
		for i in 0..tb.filled {
			let raw = db.verif_table_entry(0, tb.tier, i).ok()?;
			let n = if i == 0 { 16 } else { std::cmp::min(40, tb.entry_size as usize) };
			s.push(' ');
			s.push_str(&hex(&raw[..std::cmp::min(n, raw.len())]));
			if s.len() > budget {
				return None
			}
		}
		Some(s)
	}

	/// Emit `t2 slots` (one per value table) and `t2 index` (whole column) op lines; the
	/// compiled Lean driver must answer `ok` to each (standard correspondence step).
	fn t2_emit(&mut self, d: &parity_db::verif::VerifDump, content: &BTreeMap<Key, String>) {
		let small = t2_max_line();
		let table_limit = if self.t2_big_nostale { std::cmp::max(small, T2_BIG_NOSTALE_LINE) } else { small };
		let mut tables: Vec<String> = vec![];
		let mut complete = true; // every value table rendered
		let mut all_small = true; // ... within the standard limit (t2 slots / t2 index lines possible)
		for tb in &d.tables {
			match self.t2_table(tb, table_limit) {
				Some(s) => {
					if s.len() <= small {
						self.ctr.inc("t2.slots.lines");
						self.ctr.add("t2.slots.slots", tb.filled - 1);
						self.ctr.add("t2.bytes", s.len() as u64);
						if tb.multipart {
							self.ctr.inc("t2.slots.multipart_tables");
						}
						self.t.op(&format!("t2 slots {}", s), "ok");
					} else {
						self.ctr.inc("t2.skipped.slots_too_big");
						all_small = false;
					}
					tables.push(s);
				},
				None => {
					self.ctr.inc("t2.skipped.slots_too_big");
					complete = false;
					all_small = false;
				},
			}
		}
		if !complete {
			self.ctr.inc("t2.skipped.index_incomplete");
			return
		}
		// payload shared by `t2 index` and `t2 nostale`: progress, index tables, value tables
		let mut body = format!("{}", d.progress);
		let mut n_entries = 0u64;
		for (bits, entries) in &d.index {
			body.push_str(&format!(" T {}", bits));
			for (chunk, slot, e) in entries {
				body.push_str(&format!(" {}:{}:{}", chunk, slot, e));
				n_entries += 1;
			}
		}
		for s in &tables {
			body.push_str(" V ");
			body.push_str(s);
		}
		let mut keys = String::from(" K");
		for k in content.keys() {
			keys.push(' ');
			keys.push_str(&hex(k));
		}
		if !all_small || "t2 index ".len() + body.len() + keys.len() > small {
			if !all_small {
				self.ctr.inc("t2.skipped.index_incomplete");
			} else {
				self.ctr.inc("t2.skipped.index_too_big");
			}
			// compact form: NO STALE INDEX ENTRY only (needs neither the key list nor the other lines)
			if self.t2_big_nostale && body.len() <= T2_BIG_NOSTALE_LINE {
				let nostale = format!("t2 nostale {}", body);
				self.ctr.inc("t2.nostale.lines");
				self.ctr.inc("t2.nostale.big_lines");
				if d.progress > 0 {
					self.ctr.inc("t2.nostale.lines_progress_nonzero");
				}
				self.ctr.inc(&format!("t2.nostale.tables.{}", d.index.len()));
				self.ctr.add("t2.nostale.entries", n_entries);
				self.ctr.add("t2.nostale.big_bytes", nostale.len() as u64);
				self.t.op(&nostale, "ok");
			}
			return
		}
		let line = format!("t2 index {}{}", body, keys);
		self.ctr.inc("t2.index.lines");
		self.ctr.inc(&format!("t2.index.tables.{}", d.index.len()));
		self.ctr.add("t2.index.entries", n_entries);
		self.ctr.add("t2.index.keys", content.len() as u64);
		self.ctr.add("t2.bytes", line.len() as u64);
		self.t.op(&line, "ok");
		// NO STALE INDEX ENTRY (fix 515aeb7) evaluated by the Lean definition on the same payload
		let nostale = format!("t2 nostale {}", &line["t2 index ".len()..]);
		self.ctr.inc("t2.nostale.lines");
		if d.progress > 0 {
			self.ctr.inc("t2.nostale.lines_progress_nonzero");
		}
		self.ctr.inc(&format!("t2.nostale.tables.{}", d.index.len()));
		self.ctr.add("t2.nostale.entries", n_entries);
		self.ctr.add("t2.bytes", nostale.len() as u64);
		self.t.op(&nostale, "ok");
	}

	/// Where does the index hold the live key `k` (entry with k's chunk and partial key whose
	/// address is a head slot storing k's tail)?  -> (in the current table, in a queued table,
	/// in the front queued table below the reindex progress)
	fn nostale_locate(d: &parity_db::verif::VerifDump, heads: &HashMap<(u8, u64), &Vec<u8>>, k: &Key) -> (bool, bool, bool) {
		let p = prefix_of(k);
		let (mut cur, mut queued, mut below) = (false, false, false);
		for (ti, (bits, entries)) in d.index.iter().enumerate() {
			let ab = *bits as u32 + 14;
			let chunk = p >> (64 - *bits as u32);
			let pk = (p << *bits) >> ab;
			for (c, _slot, e) in entries {
				if *c != chunk || e >> ab != pk {
					continue
				}
				let addr = e & ((1u64 << ab) - 1);
				if heads.get(&((addr & 0xff) as u8, addr >> 8)).map_or(false, |t| t[..] == k[6..32]) {
					if ti == 0 {
						cur = true;
					} else {
						queued = true;
						if ti == 1 && *c < d.progress {
							below = true;
						}
					}
				}
			}
		}
		(cur, queued, below)
	}

	/// Coverage bookkeeping for the NO STALE INDEX ENTRY experiment: while older index tables are
	/// queued, classify every operation of the transaction about to be planned by what it does
	/// to the value slot (removal / overwrite in place / move to another size tier) and by where the
	/// index holds the key at that moment (queued table only / copied by a reindex batch = in the
	/// current AND a queued table / current table only).
	fn nostale_classify_tx(&mut self, tx: &Tx) {
		if self.last_stat.older.is_empty() {
			self.events.clear();
			return
		}
		let d = match self.sut.db().verif_dump(0, true) {
			Ok(d) => d,
			Err(_) => return,
		};
		if d.index.len() < 2 {
			return
		}
		let mut heads: HashMap<(u8, u64), &Vec<u8>> = HashMap::new();
		for tb in &d.tables {
			for s in &tb.slots {
				if s.1 == 1 {
					heads.insert((tb.tier, s.0), &s.3);
				}
			}
		}
		let content = self.processed().clone();
		let mut touched: BTreeSet<Key> = BTreeSet::new();
		for op in tx {
			let (k, new) = match op {
				Op::Set(k, v) => (k, Some(v)),
				Op::Del(k) => (k, None),
			};
			if !touched.insert(*k) {
				continue
			}
			let old = match content.get(k) {
				Some(o) => o,
				None => {
					if new.is_some() {
						self.ctr.inc("nostale.op.insert_new_key.while_queued");
						self.events.insert("insert_new_key".to_string());
					}
					continue
				},
			};
			let what = match new {
				None => "del",
				Some(v) => {
					let (o, n) = (tier_of(self.vals.len(old)), tier_of(self.vals.len(v)));
					if o.0 == n.0 && o.0 != 255 {
						"set_same_tier"
					} else {
						"set_tier_move"
					}
				},
			};
			let (cur, queued, below) = Self::nostale_locate(&d, &heads, k);
			let loc = match (cur, queued) {
				(true, true) => {
					if below {
						"copied_by_batch"
					} else {
						// in both tables although the front table's progress has not reached it: copied
						// before a crash / reopen reset the progress, or sitting in a queued table
						// behind the front one
						"copied_progress_reset"
					}
				},
				(false, true) => "queued_only",
				(true, false) => "current_only",
				(false, false) => "not_found",
			};
			let ev = format!("{}.{}", what, loc);
			self.ctr.inc(&format!("nostale.op.{}", ev));
			self.events.insert(ev);
		}
	}

	/// NO STALE INDEX ENTRY (what fix 515aeb7 is meant to establish), decided from the dump and the
	/// oracle's live key set only: every non-empty entry of every index table (current and queued,
	/// whole table, also below the reindex progress) points to a head slot whose stored 26-byte
	/// tail is that of a live key with this entry's chunk and partial key (for the table's index
	/// bits); no two entries of one table have the same address; all entries with the same address
	/// recover the same key bits 63..14.  Violations are counted and printed as comments, the
	/// case does not fail.
	fn nostale_oracle(&mut self, at: &str, d: &parity_db::verif::VerifDump, content: &BTreeMap<Key, String>) {
		let ntab = d.index.len();
		self.ctr.inc("nostale.dumps");
		self.ctr.inc(&format!("nostale.dumps.tables.{}", ntab));
		let phase = self.last_stat.phase();
		if ntab >= 2 {
			self.ctr.inc("nostale.dumps_with_queued_tables");
			self.ctr.inc(&format!("nostale.dumps_queued.at.{}", at));
			self.ctr.inc(&format!("nostale.dumps_queued.phase.{}", phase));
			if d.progress > 0 {
				self.ctr.inc("nostale.dumps_queued.progress_nonzero");
			}
			let evs: Vec<String> = self.events.iter().cloned().collect();
			for ev in evs {
				self.ctr.inc(&format!("nostale.dumps_queued.after.{}", ev));
			}
		} else {
			self.events.clear();
		}
		// slot classification
		let mut kinds: HashMap<(u8, u64), (u8, &Vec<u8>)> = HashMap::new();
		let mut filled: HashMap<u8, u64> = HashMap::new();
		for tb in &d.tables {
			filled.insert(tb.tier, tb.filled);
			for s in &tb.slots {
				kinds.insert((tb.tier, s.0), (s.1, &s.3));
			}
		}
		let mut live_by_tail: HashMap<&[u8], Vec<&Key>> = HashMap::new();
		for k in content.keys() {
			live_by_tail.entry(&k[6..32]).or_default().push(k);
		}
		let mut addr_prefix: HashMap<u64, (u64, usize)> = HashMap::new();
		let mut printed = 0;
		let (mut n_dead, mut n_other) = (0u64, 0u64);
		for (ti, (bits, entries)) in d.index.iter().enumerate() {
			let b = *bits as u32;
			let ab = b + 14;
			let mut seen: BTreeSet<u64> = BTreeSet::new();
			for (chunk, slot, e) in entries {
				self.ctr.inc("nostale.entries");
				if ti >= 1 {
					self.ctr.inc("nostale.entries.queued");
					if ti == 1 && *chunk < d.progress {
						self.ctr.inc("nostale.entries.below_progress");
					}
				}
				let addr = e & ((1u64 << ab) - 1);
				let pk = e >> ab;
				let (tier, off) = ((addr & 0xff) as u8, addr >> 8);
				// key bits 63..14 the entry stands for: own bit arithmetic against the crate's
				let mine = (chunk << (64 - b)) | (pk << 14);
				let theirs = u64::from_be_bytes(parity_db::verif::recover_key_prefix(*bits, *chunk, *e)[0..8].try_into().unwrap());
				if mine != theirs {
					self.ctr.inc("nostale.bit_function_mismatch");
					self.t.comment(&format!(
						"NOSTALE bit functions disagree: bits={} chunk={} entry={} harness {:016x} crate {:016x}",
						bits, chunk, e, mine, theirs
					));
				}
				if !seen.insert(addr) {
					self.ctr.inc("nostale.dup_address_in_table");
					self.t.comment(&format!(
						"NOSTALE-DUP seed={} at={} table={} bits={} chunk={} slot={} entry={} address={}:{} appears twice in this table",
						self.seed, at, ti, bits, chunk, slot, e, tier, off
					));
				}
				match addr_prefix.get(&addr) {
					Some((p, t0)) if *p != theirs => {
						self.ctr.inc("nostale.address_key_bits_conflict");
						self.t.comment(&format!(
							"NOSTALE-CONFLICT seed={} at={} address={}:{} key bits {:016x} (table {}) vs {:016x} (table {})",
							self.seed, at, tier, off, p, t0, theirs, ti
						));
					},
					Some(_) => self.ctr.inc("nostale.entries.same_address_in_two_tables"),
					None => {
						addr_prefix.insert(addr, (theirs, ti));
					},
				}
				let holds: Option<String> = match kinds.get(&(tier, off)) {
					Some((1, tail)) => {
						let owners = live_by_tail.get(&tail[..]);
						let ok = owners.map_or(false, |ks| {
							ks.iter().any(|k| {
								let p = prefix_of(k);
								p >> (64 - b) == *chunk && (p << b) >> ab == pk
							})
						});
						if ok {
							None
						} else {
							n_other += 1;
							self.ctr.inc("nostale.stale.other_key");
							Some(match owners {
								Some(ks) => format!("head slot of live key {} (other chunk / partial key)", hex(&ks[0][..])),
								None => format!("head slot with tail {} of no live key", hex(tail)),
							})
						}
					},
					other => {
						n_dead += 1;
						self.ctr.inc("nostale.stale.dead_slot");
						Some(match other {
							Some((0, _)) => "free slot".to_string(),
							Some((2, _)) => "continuation part of a multipart value".to_string(),
							Some((k, _)) => format!("slot of kind {}", k),
							None => match filled.get(&tier) {
								Some(f) => format!("no slot (table filled {})", f),
								None => "no such value table".to_string(),
							},
						})
					},
				};
				if let Some(h) = holds {
					self.ctr.inc(&format!("nostale.stale.table.{}", if ti == 0 { "current" } else { "queued" }));
					if ti == 1 && *chunk < d.progress {
						self.ctr.inc("nostale.stale.below_progress");
					}
					if printed < 6 {
						printed += 1;
						self.t.comment(&format!(
							"NOSTALE-STALE seed={} at={} phase={} progress={} table={} (of {}) bits={} chunk={} slot={} entry={} address={}:{} holds: {}",
							self.seed, at, phase, d.progress, ti, ntab, bits, chunk, slot, e, tier, off, h
						));
					}
				}
			}
		}
		if n_dead + n_other > 0 {
			self.ctr.inc("nostale.dumps_with_stale_entries");
			self.ctr.inc(&format!("nostale.dumps_with_stale_entries.at.{}", at));
			let evs: Vec<String> = self.events.iter().cloned().collect();
			self.t.comment(&format!(
				"NOSTALE-SUMMARY seed={} at={} tables={} stale dead_slot={} other_key={} events since queued: {}",
				self.seed, at, ntab, n_dead, n_other, evs.join(",")
			));
		}
	}

	/// C14: structural observation of a drained handle through the dump hook.
	fn structure(&mut self, at: &str) {
		if self.sut.dead || !self.sut.pending.is_empty() || self.sut.logged_unflushed > 0 || !self.sut.files.is_empty() {
			return
		}
		let d = match self.sut.db().verif_dump(0, true) {
			Ok(d) => d,
			Err(e) => {
				self.fail(&format!("verif_dump failed: {:?}", e));
				return
			},
		};
		self.ctr.inc("c14.dumps");
		let content = self.processed().clone();
		// T2: the LEAN definitions (SlotInv, IdxInv, NoLeak) evaluated on this very state
		self.t2_emit(&d, &content);
		// NO STALE INDEX ENTRY: independent Rust oracle on the same dump
		self.nostale_oracle(at, &d, &content);
		// value tables
		let mut heads: HashMap<(u8, u64), Vec<u8>> = HashMap::new();
		let mut slot_line: Vec<String> = vec![];
		let mut live_slots = 0usize;
		for tb in &d.tables {
			let mut owner: HashMap<u64, u32> = HashMap::new(); // index -> times used
			let kinds: HashMap<u64, (u8, u64)> = tb.slots.iter().map(|s| (s.0, (s.1, s.2))).collect();
			// free list: in range, acyclic, tombstones, ends at 0
			let mut seen = BTreeSet::new();
			for f in &tb.free_list {
				if *f == 0 || *f >= tb.filled {
					self.fail(&format!("{}: tier {} free list out of range: {} (filled {})", at, tb.tier, f, tb.filled));
					break
				}
				if !seen.insert(*f) {
					self.fail(&format!("{}: tier {} free list cyclic at {}", at, tb.tier, f));
					break
				}
				if kinds.get(f).map(|k| k.0) != Some(0) {
					self.fail(&format!("{}: tier {} free list member {} is not a tombstone", at, tb.tier, f));
				}
				*owner.entry(*f).or_insert(0) += 1;
			}
			if let Some(last) = tb.free_list.last() {
				if *last < tb.filled && kinds.get(last).map(|k| k.1) != Some(0) {
					self.fail(&format!("{}: tier {} free list does not end at 0", at, tb.tier));
				}
			}
			// chains
			for s in &tb.slots {
				if s.1 == 1 {
					heads.insert((tb.tier, s.0), s.3.clone());
					live_slots += 1;
					*owner.entry(s.0).or_insert(0) += 1;
					let mut next = s.2;
					let mut steps = 0;
					while next != 0 && steps < tb.filled {
						if next >= tb.filled {
							self.fail(&format!("{}: tier {} chain of {} leaves the table at {}", at, tb.tier, s.0, next));
							break
						}
						*owner.entry(next).or_insert(0) += 1;
						match kinds.get(&next) {
							Some((2, n)) => next = *n,
							other => {
								self.fail(&format!(
									"{}: tier {} chain of {} reaches a non-part slot {} ({:?})",
									at, tb.tier, s.0, next, other
								));
								break
							},
						}
						steps += 1;
					}
				}
			}
			for i in 1..tb.filled {
				let c = owner.get(&i).copied().unwrap_or(0);
				if c != 1 {
					self.ctr.inc("finding.slot_ownership");
					self.fail(&format!(
						"{}: tier {} slot {} is owned {} times (kind {:?}; filled {}, free {})",
						at,
						tb.tier,
						i,
						c,
						kinds.get(&i),
						tb.filled,
						tb.free_list.len()
					));
					break
				}
			}
			slot_line.push(format!("{}:{}:{}", tb.tier, tb.filled, tb.free_list.len()));
			// steady workload bound: the fill mark never exceeds the peak number of slots in use
			let peak = self.peak_slots.get(&tb.tier).copied().unwrap_or(0);
			if (tb.filled as usize) - 1 > peak {
				self.ctr.inc("finding.fill_mark_above_peak");
				self.fail(&format!("{}: tier {} filled {} exceeds the peak slot use {}", at, tb.tier, tb.filled - 1, peak));
			}
		}
		// NoLeak: live heads <-> live keys
		let mut by_tail: HashMap<Vec<u8>, Key> = HashMap::new();
		for k in content.keys() {
			by_tail.insert(k[6..32].to_vec(), *k);
		}
		if heads.len() != content.len() {
			self.ctr.inc("finding.leak");
			self.fail(&format!("{}: {} live value chains for {} live keys", at, heads.len(), content.len()));
		}
		for ((tier, idx), tail) in &heads {
			if !by_tail.contains_key(tail) {
				self.fail(&format!("{}: slot {}:{} holds tail {} of no live key", at, tier, idx, hex(tail)));
				break
			}
		}
		// index: every live key has a valid entry; classify the other entries
		let mut valid_for: BTreeSet<Key> = BTreeSet::new();
		let (mut stale_free, mut stale_reused, mut dup_valid) = (0u64, 0u64, 0u64);
		for (bits, entries) in &d.index {
			let ab = *bits as u32 + 14;
			for (chunk, _slot, e) in entries {
				let addr = e & ((1u64 << ab) - 1);
				let pk = e >> ab;
				let (tier, off) = ((addr & 0xff) as u8, addr >> 8);
				match heads.get(&(tier, off)) {
					None => stale_free += 1,
					Some(tail) => {
						let k = by_tail.get(tail).copied();
						let matches = k.map_or(false, |k| {
							let p = prefix_of(&k);
							p >> (64 - *bits as u32) == *chunk && (p << *bits) >> ab == pk
						});
						if matches {
							if !valid_for.insert(k.unwrap()) {
								dup_valid += 1;
							}
						} else {
							stale_reused += 1;
						}
					},
				}
			}
		}
		self.ctr.add("c14.stale_entries.free_slot", stale_free);
		self.ctr.add("c14.stale_entries.reused_slot", stale_reused);
		self.ctr.add("c14.valid_entries.duplicates", dup_valid);
		for k in content.keys() {
			if !valid_for.contains(k) {
				self.ctr.inc("finding.unreachable_key");
				self.fail(&format!("{}: live key {} has no valid index entry ({})", at, hex(k), self.last_stat.line()));
				break
			}
		}
		// value iteration yields exactly the live values
		let mut want: Vec<Vec<u8>> = content.values().map(|v| self.vals.bytes(v)).collect();
		want.sort();
		let mut got: Vec<Vec<u8>> = vec![];
		let r = self.sut.db().iter_column_while(0, |s| {
			got.push(s.value);
			true
		});
		got.sort();
		if r.is_err() || got != want {
			self.fail(&format!("{}: iter_column_while yields {} values, {} live ({:?})", at, got.len(), want.len(), r.err()));
		}
		// allocator state against the model
		let line = format!(
			"live={} tiers={}",
			live_slots,
			if slot_line.is_empty() { "-".to_string() } else { slot_line.join(",") }
		);
		self.emit("c09 slots", &line);
	}
}

// ----------------------------------------------------------------------------- generators

const LENS: [usize; 9] = [0, 3, 4, 20, 45, 100, 300, 1500, 6000];

struct KeyGen {
	next_id: u32,
	classes: HashMap<u64, usize>, // 50-bit prefix -> members
}

impl KeyGen {
	fn new() -> KeyGen {
		KeyGen { next_id: 1, classes: Default::default() }
	}
	/// a key with the given prefix unless its 50-bit class is full (8 members)
	fn key(&mut self, prefix: u64) -> Option<Key> {
		let c = self.classes.entry(prefix >> 14).or_insert(0);
		if *c >= 8 {
			return None
		}
		*c += 1;
		let id = self.next_id;
		self.next_id += 1;
		Some(mk_key(prefix, id))
	}
}

/// Key pool of one random case; returns (keys, description).
fn gen_keys(rng: &mut Rng, thorough: bool, ctr: &mut Counters) -> (Vec<Key>, String) {
	let mut g = KeyGen::new();
	let mut keys = vec![];
	let page: u64 = rng.below(1 << 16) << 48;
	// bits shared by the overflow set: growth cannot split it before `share + 1` index bits
	let share = *rng.pick(if thorough { &[16u32, 16, 17, 17, 18][..] } else { &[16u32, 16, 16, 17][..] });
	let low_mask = (1u64 << (64 - share)) - 1;
	let fixed = page | ((rng.next() >> 16) & !low_mask);
	let style = rng.below(5);
	let n_over = rng.range(66, 96);
	let mut desc = format!("share={} over={}", share, n_over);
	// overflow set: spread over the bits below the shared ones
	for _ in 0..n_over {
		if let Some(k) = g.key(fixed | (rng.next() & low_mask)) {
			keys.push(k);
		}
	}
	ctr.inc(&format!("keys.share_bits.{}", share));
	if style == 0 || style == 4 {
		// classes sharing all 50 index-visible bits (2..8 members)
		let n = rng.range(2, 6);
		for _ in 0..n {
			let base = fixed | (rng.next() & low_mask & !0x3fff);
			let m = rng.range(2, 8);
			for _ in 0..m {
				if let Some(k) = g.key(base | rng.below(1 << 14)) {
					keys.push(k);
				}
			}
			ctr.inc(&format!("keys.class_size.{}", m));
		}
		desc.push_str(" shared50");
	}
	if style == 1 || style == 4 {
		// zero partial key (bits 47..14 zero) and zero SSE2 pattern (bits 47..16 zero)
		for i in 0..rng.range(2, 6) {
			if let Some(k) = g.key(page | rng.below(1 << 14)) {
				keys.push(k);
			}
			if let Some(k) = g.key(page | ((1 + i % 3) << 14) | rng.below(1 << 14)) {
				keys.push(k);
			}
		}
		ctr.inc("keys.zero_partial_key");
		desc.push_str(" zeropk");
	}
	if style == 2 || style == 4 {
		// neighbours differing only in the bits the SSE2 search drops (15, 14)
		for _ in 0..rng.range(3, 8) {
			let base = fixed | (rng.next() & low_mask & !0xffff);
			for b in 0..4u64 {
				if rng.chance(3, 4) {
					if let Some(k) = g.key(base | (b << 14) | rng.below(1 << 14)) {
						keys.push(k);
					}
				}
			}
		}
		ctr.inc("keys.sse2_neighbours");
		desc.push_str(" near");
	}
	// background keys anywhere
	for _ in 0..rng.range(5, 30) {
		if let Some(k) = g.key(rng.next()) {
			keys.push(k);
		}
	}
	(keys, desc)
}

fn gen_token(rng: &mut Rng, vals: &mut Vals, multipart: bool) -> String {
	let len = if multipart && rng.chance(1, 10) {
		*rng.pick(&[33000usize, 40000, 70000])
	} else {
		*rng.pick(&LENS)
	};
	vals.token(len, rng.below(1 << 20))
}

// ----------------------------------------------------------------------------- cases

#[allow(clippy::too_many_arguments)]
fn new_case<'a>(
	seed: u64,
	kind: &str,
	desc: &str,
	model: bool,
	root: &Path,
	t: &'a mut Trace,
	ctr: &'a mut Counters,
	prop: &str,
	flags: Flags,
	keys: Vec<Key>,
) -> Case<'a> {
	t.begin_case(&format!("seed={} kind={} {} model={}", seed, kind, desc, model));
	ctr.inc(&format!("cases.kind.{}", kind));
	let dir = fresh_dir(root, &format!("c09-{}", seed));
	let sut = Sut::create(dir);
	let st = obs_stat(sut.db());
	let mut c = Case {
		t,
		ctr,
		prop: prop.to_string(),
		model,
		sut,
		vals: Default::default(),
		committed: Default::default(),
		content_at: vec![Default::default()],
		stat_at: vec![st.clone()],
		keys,
		ok: true,
		max_bits: 16,
		batches: 0,
		peak_slots: Default::default(),
		cur_slots: Default::default(),
		last_stat: st,
		seed,
		events: Default::default(),
		t2_big_nostale: false,
	};
	let init = format!(
		"c09 init 16 {} {} {}",
		if flags.exact { "exact" } else { "sse2" },
		if flags.grow { "grow" } else { "nogrow" },
		if flags.purge { "purge" } else { "nopurge" }
	);
	c.emit(&init, "ok");
	c
}

fn finish(mut c: Case) -> bool {
	if !c.sut.dead {
		c.drain();
	}
	if !c.sut.dead {
		c.check_all(true);
		c.structure("final");
	}
	c.ctr.inc(&format!("growth.max_bits.{}", c.max_bits));
	c.ctr.inc(&format!("growth.batches_per_case.{}", std::cmp::min(c.batches, 9)));
	c.sut.abandon();
	let _ = std::fs::remove_dir_all(&c.sut.dir);
	let nt = c.max_bits > 16 || c.batches > 0 || c.content_at.len() > 3;
	c.t.end_case(nt);
	c.ctr.inc("cases");
	if nt {
		c.ctr.inc("cases.nontrivial");
	}
	c.ok
}

fn random_case(seed: u64, thorough: bool, root: &Path, t: &mut Trace, ctr: &mut Counters, prop: &str, flags: Flags) -> bool {
	let mut rng = Rng::new(seed);
	let multipart = prop == "C14" && rng.chance(1, 3);
	let (keys, desc) = gen_keys(&mut rng, thorough, ctr);
	let mut c = new_case(seed, "random", &desc, true, root, t, ctr, prop, flags, keys.clone());
	let tag = format!("c09-{}", seed);
	// fill phase: most of the pool in a few transactions (growth inside a multi-op commit)
	let mut order: Vec<usize> = (0..keys.len()).collect();
	for i in (1..order.len()).rev() {
		order.swap(i, rng.below(i as u64 + 1) as usize);
	}
	let fill = order.len() * rng.range(60, 100) as usize / 100;
	let mut i = 0;
	while i < fill {
		let n = std::cmp::min(rng.range(1, 40) as usize, fill - i);
		let tx: Tx = order[i..i + n].iter().map(|j| Op::Set(keys[*j], gen_token(&mut rng, &mut c.vals, multipart))).collect();
		c.commit(tx);
		i += n;
		if rng.chance(1, 2) {
			c.process();
		}
		if c.sut.dead {
			return finish(c)
		}
	}
	let nact = rng.range(30, if thorough { 140 } else { 80 });
	let mut crashes = 0;
	for step in 0..nact {
		if c.sut.dead {
			break
		}
		let growing = !c.last_stat.older.is_empty();
		let a = rng.below(100);
		if a < 26 {
			let nops = rng.range(1, 5);
			let mut tx: Tx = vec![];
			for _ in 0..nops {
				let k = *rng.pick(&keys);
				if rng.below(100) < 62 {
					tx.push(Op::Set(k, gen_token(&mut rng, &mut c.vals, multipart)));
				} else {
					tx.push(Op::Del(k));
				}
			}
			c.commit(tx);
		} else if a < 44 {
			c.process();
		} else if a < 52 {
			c.sut.flush();
			c.ctr.inc("op.flush");
		} else if a < 62 {
			c.enact_one();
		} else if a < 66 {
			c.sut.clean();
			c.ctr.inc("op.clean");
		} else if a < 80 {
			if rng.chance(1, 3) {
				c.drain();
			}
			c.reindex();
		} else if a < 84 {
			c.drain();
			c.structure("drain");
		} else if a < 88 {
			c.reopen();
		} else if a < (if growing { 97 } else { 91 }) && crashes < 3 {
			crashes += 1;
			c.crash(&mut rng, root, &tag);
		} else {
			c.check_all(true);
		}
		// a few reads at every point
		for _ in 0..6 {
			let k = *rng.pick(&keys);
			c.check_get(&k, true);
		}
		if step % 8 == 0 {
			c.check_all(false);
		}
	}
	// let the growth finish
	for _ in 0..40 {
		if c.sut.dead || c.last_stat.older.is_empty() {
			break
		}
		c.drain();
		c.reindex();
	}
	finish(c)
}

/// F-C09-1: stale entry of a neighbouring partial key + slot reuse + tier move.
fn directed_sse2(seed: u64, root: &Path, t: &mut Trace, ctr: &mut Counters, prop: &str, flags: Flags) -> bool {
	let mut rng = Rng::new(seed);
	let page: u64 = rng.below(1 << 16) << 48;
	let pp = page | (rng.below(1 << 26) << 20) | rng.below(1 << 14);
	let p = pp ^ (1 << 14);
	let mut keys = vec![mk_key(pp, 1), mk_key(p, 2)];
	for i in 0..63u64 {
		keys.push(mk_key(page | ((i + 1) << 42) | rng.below(1 << 14), 100 + i as u32));
	}
	keys.push(mk_key(page | (1 << 47) | (1 << 30), 999));
	let mut c = new_case(seed, "directed-sse2-neighbour", "", true, root, t, ctr, prop, flags, keys.clone());
	let small = c.vals.token(4, 1);
	let small2 = c.vals.token(4, 2);
	let big = c.vals.token(100, 3);
	let mut tx = vec![Op::Set(keys[0], small.clone())];
	for k in &keys[2..65] {
		tx.push(Op::Set(*k, small.clone()));
	}
	c.commit(tx);
	c.drain();
	c.commit(vec![Op::Set(keys[65], small.clone())]); // growth
	c.drain();
	c.commit(vec![Op::Set(keys[0], big.clone())]); // found in the old table, moved: stale entry stays
	c.drain();
	c.reindex(); // copies the stale entry into the new table
	c.drain();
	c.check_all(true);
	c.commit(vec![Op::Set(keys[1], small2.clone())]); // the neighbour reuses the freed slot
	c.drain();
	c.check_all(true);
	c.commit(vec![Op::Set(keys[1], big.clone())]); // tier move through the stale candidate
	c.drain();
	c.check_all(true);
	c.commit(vec![Op::Del(keys[1])]);
	c.drain();
	finish(c)
}

/// F-C09-2: a key living in the old table changes tier while its new page is full.
fn directed_full_page(seed: u64, root: &Path, t: &mut Trace, ctr: &mut Counters, prop: &str, flags: Flags) -> bool {
	let mut rng = Rng::new(seed);
	let page: u64 = (rng.below(1 << 16) << 48) | (rng.below(2) << 47);
	let mut keys = vec![];
	// 128 keys in one 17-bit page, spread over bits 46..40
	for i in 0..128u64 {
		keys.push(mk_key(page | (i << 40) | rng.below(1 << 14), 1 + i as u32));
	}
	let mut c = new_case(seed, "directed-move-into-full-page", "", true, root, t, ctr, prop, flags, keys.clone());
	let small = c.vals.token(4, 1);
	let big = c.vals.token(100, 3);
	c.commit(keys[0..64].iter().map(|k| Op::Set(*k, small.clone())).collect());
	c.drain();
	c.commit(keys[64..128].iter().map(|k| Op::Set(*k, small.clone())).collect());
	c.drain();
	c.check_all(true);
	let victim = keys[rng.below(64) as usize];
	c.commit(vec![Op::Set(victim, big.clone())]);
	c.drain();
	c.check_all(true);
	c.structure("after-move");
	for _ in 0..6 {
		if c.sut.dead || c.last_stat.older.is_empty() {
			break
		}
		c.reindex();
		c.drain();
	}
	c.check_all(true);
	finish(c)
}

/// Crash after the DropTable has been enacted while an uncleaned log still holds a record
/// writing to the dropped table, with later records flushed but not enacted.
fn directed_drop_crash(seed: u64, root: &Path, t: &mut Trace, ctr: &mut Counters, prop: &str, flags: Flags) -> bool {
	let mut rng = Rng::new(seed);
	let page: u64 = rng.below(1 << 16) << 48;
	let mut keys = vec![];
	for i in 0..65u64 {
		keys.push(mk_key(page | (i << 41) | rng.below(1 << 14), 1 + i as u32));
	}
	keys.push(mk_key(rng.next(), 5000));
	let mut c = new_case(seed, "directed-crash-after-drop", "", true, root, t, ctr, prop, flags, keys.clone());
	let tag = format!("c09-{}", seed);
	let small = c.vals.token(4, 1);
	c.commit(keys[0..64].iter().map(|k| Op::Set(*k, small.clone())).collect());
	c.drain();
	c.commit(vec![Op::Set(keys[64], small.clone())]); // growth
	c.drain();
	// remove a key that lives in the old table only: the record writes to index_00_16
	let victim = keys[rng.below(64) as usize];
	c.commit(vec![Op::Del(victim)]);
	c.process();
	c.sut.flush();
	c.enact_one();
	c.reindex(); // whole old table + DropTable
	c.sut.flush();
	c.enact_one(); // drop enacted, logs not cleaned
	c.commit(vec![Op::Set(keys[65], small.clone())]);
	c.process();
	c.sut.flush(); // flushed + synced, not enacted
	c.check_all(true);
	c.crash(&mut rng, root, &tag);
	c.check_all(true);
	finish(c)
}

/// More than MAX_REINDEX_BATCH entries in the old table: several batches, commits and a crash
/// between them.
fn big_case(seed: u64, root: &Path, t: &mut Trace, ctr: &mut Counters, prop: &str, flags: Flags) -> bool {
	let mut rng = Rng::new(seed);
	let mut g = KeyGen::new();
	let mut keys = vec![];
	let page: u64 = rng.below(1 << 16) << 48;
	for _ in 0..70 {
		if let Some(k) = g.key(page | (rng.next() >> 16)) {
			keys.push(k);
		}
	}
	let n = rng.range(8300, 9500);
	for _ in 0..n {
		if let Some(k) = g.key(rng.next()) {
			keys.push(k);
		}
	}
	let desc = format!("keys={}", keys.len());
	let mut c = new_case(seed, "big-multi-batch", &desc, true, root, t, ctr, prop, flags, keys.clone());
	let tag = format!("c09-{}", seed);
	// background first, the overflowing page last
	let mut i = 70;
	while i < keys.len() {
		let m = std::cmp::min(1500, keys.len() - i);
		let tx: Tx = keys[i..i + m].iter().map(|k| Op::Set(*k, gen_token(&mut rng, &mut c.vals, false))).collect();
		c.commit(tx);
		c.drain();
		i += m;
	}
	let tx: Tx = keys[0..70].iter().map(|k| Op::Set(*k, gen_token(&mut rng, &mut c.vals, false))).collect();
	c.commit(tx);
	c.drain();
	let mut crashed = false;
	for round in 0..12 {
		if c.sut.dead || c.last_stat.older.is_empty() {
			break
		}
		c.reindex();
		// writes between the batches
		let mut tx: Tx = vec![];
		for _ in 0..rng.range(1, 20) {
			let k = *rng.pick(&keys);
			if rng.chance(2, 3) {
				tx.push(Op::Set(k, gen_token(&mut rng, &mut c.vals, false)));
			} else {
				tx.push(Op::Del(k));
			}
		}
		c.commit(tx);
		c.process();
		for _ in 0..40 {
			let k = *rng.pick(&keys);
			c.check_get(&k, true);
		}
		if round == 0 && !crashed && rng.chance(2, 3) {
			crashed = true;
			c.crash(&mut rng, root, &tag);
		} else if rng.chance(1, 2) {
			c.drain();
			// dump while the old table is queued (between two of its reindex batches)
			c.structure("big-between-batches");
		}
	}
	c.check_all(false);
	finish(c)
}

/// Steady insert/remove workload over a fixed key pool: 400 cycles, fill marks stay bounded.
fn steady_case(seed: u64, root: &Path, t: &mut Trace, ctr: &mut Counters, prop: &str, flags: Flags) -> bool {
	let mut rng = Rng::new(seed);
	let mut g = KeyGen::new();
	let mut keys = vec![];
	for _ in 0..rng.range(20, 60) {
		if let Some(k) = g.key(rng.next()) {
			keys.push(k);
		}
	}
	let multipart = prop == "C14";
	let desc = format!("keys={}", keys.len());
	let mut c = new_case(seed, "steady-workload", &desc, true, root, t, ctr, prop, flags, keys.clone());
	for cycle in 0..400 {
		let mut tx: Tx = vec![];
		for _ in 0..rng.range(1, 6) {
			let k = *rng.pick(&keys);
			if rng.chance(1, 2) {
				tx.push(Op::Set(k, gen_token(&mut rng, &mut c.vals, multipart)));
			} else {
				tx.push(Op::Del(k));
			}
		}
		c.commit(tx);
		if rng.chance(1, 3) {
			c.process();
		}
		if cycle % 25 == 24 {
			c.drain();
			c.structure("steady");
			c.check_all(cycle % 100 == 99);
		}
		if c.sut.dead {
			break
		}
	}
	c.ctr.inc("c14.steady_cycles_400");
	finish(c)
}

/// F28: more than 64 index entries share the index page at every index size the format allows
/// (here: all 50 index-visible bits).  Growth cannot split them, so every reindex pass ends in
/// another growth and the index never settles.
///   variant 0  65 live keys of one 50-bit class
///   variant 1  64 live keys of one class; one more key in the same 16-bit page (another 17-bit
///              page) triggers the only legitimate growth; before the first reindex batch every
///              one of the 64 is overwritten with a value of another size tier: the entries left
///              behind in the old table (their slots are free) are copied by the batch like live
///              ones, the class then has 128 entries
/// Bounded: two batches (index bits 17 -> 18 -> 19), then the case stops.
fn directed_class_overflow(seed: u64, root: &Path, t: &mut Trace, ctr: &mut Counters, prop: &str, flags: Flags) -> bool {
	let mut rng = Rng::new(seed);
	let stale = (seed >> 5) & 1 == 1;
	let class: u64 = rng.next() & !0x3fff;
	let mut keys: Vec<Key> = (0..64u64).map(|i| mk_key(class | rng.below(1 << 14), 1 + i as u32)).collect();
	if stale {
		// same 16-bit page, other 17-bit page
		keys.push(mk_key((class ^ (1 << 47)) | rng.below(1 << 14), 65));
	} else {
		keys.push(mk_key(class | rng.below(1 << 14), 65));
	}
	let kind = if stale { "directed-stale-class-overflow" } else { "directed-class-overflow" };
	let mut c = new_case(seed, kind, &format!("class={:013x}", class >> 14), true, root, t, ctr, prop, flags, keys.clone());
	let small = c.vals.token(4, 1);
	let big = c.vals.token(100, 3);
	c.commit(keys[0..64].iter().map(|k| Op::Set(*k, small.clone())).collect());
	c.drain();
	c.commit(vec![Op::Set(keys[64], small.clone())]); // the page overflows: 16 -> 17 bits
	if stale {
		// queued behind the growth, planned before any reindex batch can run
		c.commit(keys[0..64].iter().map(|k| Op::Set(*k, big.clone())).collect());
	}
	c.drain();
	c.check_all(true);
	let start_bits = c.last_stat.cur.0;
	let mut every_batch_grew = !c.sut.dead && start_bits == 17 && !c.last_stat.older.is_empty();
	let mut trail = vec![c.last_stat.line()];
	for i in 0..2u8 {
		if c.sut.dead || c.last_stat.older.is_empty() {
			every_batch_grew = false;
			break
		}
		c.reindex();
		c.drain();
		c.check_all(true);
		trail.push(c.last_stat.line());
		if c.last_stat.cur.0 != start_bits + i + 1 || c.last_stat.older.is_empty() {
			every_batch_grew = false;
		}
	}
	if stale && flags.purge {
		// fix-c09-stale-index-entries: the moves took the old entries along, the old table is empty,
		// the 64 live keys fit the page of the 17-bit table: the first batch ends the growth
		let settled = !c.sut.dead && c.last_stat.cur.0 == 17 && c.last_stat.older.is_empty();
		if settled {
			c.ctr.inc("fixed.stale_class_settles");
		} else {
			c.fail(&format!(
				"64 live keys of one class + one size-tier change of each: the index does not settle at 17 bits although the crate removes stale entries ({})",
				trail.join(" => ")
			));
		}
	} else if every_batch_grew {
		c.ctr.inc("finding.growth_never_completes");
		let what = if stale {
			"64 live keys of one 50-bit class + the entries left in the old table by one size-tier change of each (128 index entries of the class)"
		} else {
			"65 live keys sharing all 50 index-visible bits"
		};
		let p = c.prop.clone();
		c.t.known(
			&p,
			"F28",
			&format!(
				"INDEX-GROWTH-NEVER-COMPLETES: {}: every reindex batch ended in another growth ({}); all keys still readable; stopped at {} index bits",
				what,
				trail.join(" => "),
				c.last_stat.cur.0
			),
		);
	}
	finish(c)
}

/// F29: two hashed keys that differ only in bytes 0..5 (A-tail violated: same stored 26-byte
/// tail, different index page).  k1 is moved to another size tier while it lives in the old index
/// table (its old entry stays there), k2 takes the freed slot, k1 is removed: `get(k1)` now finds
/// the stale entry, `has_key_at` compares the stored tail only and accepts k2's slot.
fn directed_twin(seed: u64, root: &Path, t: &mut Trace, ctr: &mut Counters, prop: &str, flags: Flags) -> bool {
	let mut rng = Rng::new(seed);
	let page: u64 = rng.below(1 << 16) << 48;
	let low: u64 = rng.below(1 << 16); // bytes 6, 7: part of the stored tail
	let k1 = mk_key(page | (rng.below(1 << 30) << 16) | low, 1);
	let mut k2 = k1;
	let other_page = (page >> 48) ^ (1 + rng.below(0xffff));
	k2[0..2].copy_from_slice(&(other_page as u16).to_be_bytes());
	k2[2..6].copy_from_slice(&(rng.next() as u32).to_be_bytes());
	assert_eq!(k1[6..32], k2[6..32]);
	assert_ne!(k1[0..2], k2[0..2]);
	let mut keys = vec![k1, k2];
	for i in 0..63u64 {
		keys.push(mk_key(page | ((i + 1) << 41) | rng.below(1 << 14), 100 + i as u32));
	}
	keys.push(mk_key(page | (1 << 47) | (1 << 30), 999));
	let mut c = new_case(seed, "directed-twin-tail", "", true, root, t, ctr, prop, flags, keys.clone());
	let small = c.vals.token(4, 1);
	let small2 = c.vals.token(4, 2);
	let big = c.vals.token(100, 3);
	let mut tx = vec![Op::Set(k1, small.clone())];
	for k in &keys[2..65] {
		tx.push(Op::Set(*k, small.clone()));
	}
	c.commit(tx);
	c.drain();
	c.commit(vec![Op::Set(keys[65], small.clone())]); // growth: k1 now lives in the old table
	c.drain();
	c.commit(vec![Op::Set(k1, big.clone())]); // moved: the entry in the old table stays
	c.drain();
	c.commit(vec![Op::Set(k2, small2.clone())]); // takes the slot k1 left
	c.drain();
	c.check_all(true);
	c.commit(vec![Op::Del(k1)]);
	c.drain();
	let mut wrong: Vec<String> = vec![];
	if !c.sut.dead {
		let g1 = c.get_obs(&k1);
		c.emit(&format!("c09 get {}", hex(&k1)), &g1);
		let g2 = c.get_obs(&k2);
		c.emit(&format!("c09 get {}", hex(&k2)), &g2);
		if g1 != "none" {
			wrong.push(format!("after `del k1`: get(k1) = {} (the value of k2), expected none", g1));
		}
		if g2 != format!("some {}", small2) {
			wrong.push(format!("after `del k1`: get(k2) = {}, expected some {}", g2, small2));
		}
	}
	// the removal of the (absent) key k1 goes through the stale entry as well
	c.commit(vec![Op::Del(k1)]);
	c.drain();
	if !c.sut.dead {
		let g2 = c.get_obs(&k2);
		c.emit(&format!("c09 get {}", hex(&k2)), &g2);
		if g2 != format!("some {}", small2) {
			wrong.push(format!("after a second `del k1`: get(k2) = {}, expected some {} (k2's slot was freed)", g2, small2));
		}
		let st = obs_stat(c.sut.db());
		c.emit("c09 stat", &st.line());
	}
	if flags.purge {
		// fix-c09-stale-index-entries: no entry of k1 is left behind, k2 is never reached through k1
		if wrong.is_empty() {
			c.ctr.inc("fixed.twin_tail_not_misattributed");
		} else {
			c.fail(&format!(
				"twin keys k1={} k2={} (equal in bytes 6..32) although the crate removes stale entries: {}",
				hex(&k1), hex(&k2), wrong.join("; ")
			));
		}
	} else if !wrong.is_empty() {
		c.ctr.inc("finding.twin_tail_misattribution");
		let p = c.prop.clone();
		c.t.known(
			&p,
			"F29",
			&format!("TWIN-TAIL-MISATTRIBUTION: k1={} k2={} (equal in bytes 6..32): {}", hex(&k1), hex(&k2), wrong.join("; ")),
		);
	}
	c.ctr.inc(&format!("growth.max_bits.{}", c.max_bits));
	c.sut.abandon();
	let _ = std::fs::remove_dir_all(&c.sut.dir);
	c.t.end_case(true);
	c.ctr.inc("cases");
	c.ctr.inc("cases.nontrivial");
	c.ok
}

/// Removal of a key that is found in a QUEUED older table, while the current table holds, at the
/// same sub-index of the same page and with the same partial key, the entry of ANOTHER key
/// (same 50 index-visible bits, different tail).  The removal has to go to the table the key was
/// found in; planned against the current table it erases the other key's entry.  (Since
/// fix-c09-stale-index-entries the entry in the older table is removed by
/// `remove_from_queued_indexes` in any case, so only this collision shows the difference;
/// seeded defect C09-c09a.)
fn directed_remove_in_older(seed: u64, root: &Path, t: &mut Trace, ctr: &mut Counters, prop: &str, flags: Flags) -> bool {
	let mut rng = Rng::new(seed);
	let page: u64 = rng.below(1 << 16) << 48;
	let prefix = page | (rng.below(1 << 30) << 16) | rng.below(1 << 14);
	let a = mk_key(prefix, 1);
	let b = mk_key(prefix, 2); // same page, same partial key at every index size, other tail
	let mut keys = vec![a, b];
	for i in 0..63u64 {
		keys.push(mk_key(page | ((i + 1) << 41) | rng.below(1 << 14), 100 + i as u32));
	}
	let mut c = new_case(seed, "directed-remove-in-older", "", true, root, t, ctr, prop, flags, keys.clone());
	let small = c.vals.token(4, 1);
	let small2 = c.vals.token(4, 2);
	let mut tx = vec![Op::Set(a, small.clone())]; // sub-index 0 of the 16-bit page
	for k in &keys[2..65] {
		tx.push(Op::Set(*k, small.clone()));
	}
	c.commit(tx);
	c.drain();
	c.commit(vec![Op::Set(b, small2.clone())]); // growth: sub-index 0 of the 17-bit page
	c.drain();
	c.check_all(true);
	c.commit(vec![Op::Del(a)]); // found in the old table, before any reindex batch
	c.drain();
	c.check_all(true);
	for _ in 0..3 {
		if c.sut.dead || c.last_stat.older.is_empty() {
			break
		}
		c.reindex();
		c.drain();
	}
	c.check_all(true);
	finish(c)
}

/// Recovery replays log records over tables that ALREADY hold their effects (C09_replay_absorbs).
///   variant 0  the log file with the growth record (first write into the new index table, which
///              creates its file) has been enacted but not reclaimed; later records (a new key, the
///              removal of a key that lives in the old table) are flushed only
///   variant 1  half-enacted growth record: the image has the new index file as the enactment
///              leaves it, but the value tables and the old index as they were before it
fn directed_replay_over_enacted(seed: u64, root: &Path, t: &mut Trace, ctr: &mut Counters, prop: &str, flags: Flags) -> bool {
	let mut rng = Rng::new(seed);
	let half = (seed >> 5) & 1 == 1;
	let page: u64 = rng.below(1 << 16) << 48;
	let mut keys = vec![];
	for i in 0..66u64 {
		keys.push(mk_key(page | (i << 41) | rng.below(1 << 14), 1 + i as u32));
	}
	let kind = if half { "directed-half-enacted-growth" } else { "directed-replay-over-enacted" };
	let mut c = new_case(seed, kind, "", true, root, t, ctr, prop, flags, keys.clone());
	let tag = format!("c09-{}", seed);
	let small = c.vals.token(4, 1);
	let mid = c.vals.token(45, 2);
	c.commit(keys[0..64].iter().map(|k| Op::Set(*k, small.clone())).collect());
	c.drain();
	c.commit(vec![Op::Set(keys[64], mid.clone())]); // growth record
	c.process();
	c.sut.flush();
	if half {
		let snap = c.snapshot(&mut rng, root, &tag, false);
		c.enact_one(); // creates index_00_17 and writes the record's value slots
		let newf = format!("index_00_{}", c.last_stat.cur.0);
		match std::fs::copy(c.sut.dir.join(&newf), snap.img.join(&newf)) {
			Ok(_) => c.ctr.inc("crash.half_enacted_growth_record"),
			Err(e) => c.fail(&format!("no new index file {} after enacting the growth record: {:?}", newf, e)),
		}
		c.recover(snap);
	} else {
		c.enact_one(); // enacted, log file retained
		let victim = keys[rng.below(64) as usize];
		c.commit(vec![Op::Set(keys[65], small.clone()), Op::Del(victim)]);
		c.process();
		c.sut.flush(); // flushed + synced, not enacted
		c.check_all(true);
		c.crash(&mut rng, root, &tag);
	}
	c.check_all(true);
	// the interrupted growth is continued
	for _ in 0..4 {
		if c.sut.dead || c.last_stat.older.is_empty() {
			break
		}
		c.drain();
		c.reindex();
	}
	finish(c)
}

/// NO STALE INDEX ENTRY (fix 515aeb7), directed: dumps taken while the 16-bit table is queued and
/// only PARTLY copied (more than MAX_REINDEX_BATCH = 8192 entries, so one batch does not finish it).
/// At every stage keys are removed, overwritten in place and moved to another size tier, chosen
/// by where the index holds them (queued table only / copied by a batch: current + queued), new
/// keys then take the freed slots, and a dump is taken: before the first batch, between batches,
/// after a crash + recovery in that state (progress is reset, the copies stay), after another
/// batch, after a clean reopen with the queued table, and at the end.
fn directed_nostale(seed: u64, root: &Path, t: &mut Trace, ctr: &mut Counters, prop: &str, flags: Flags) -> bool {
	let mut rng = Rng::new(seed);
	let page: u64 = rng.below(1 << 16) << 48;
	let mut keys: Vec<Key> = vec![];
	for i in 0..65u64 {
		keys.push(mk_key(page | (i << 41) | rng.below(1 << 14), 1 + i as u32));
	}
	let mut g = KeyGen::new();
	g.next_id = 1000;
	let n_bg = rng.range(8300, 8700) as usize;
	while keys.len() < 65 + n_bg + 60 {
		let p = rng.next();
		if p >> 48 == page >> 48 {
			continue
		}
		if let Some(k) = g.key(p) {
			keys.push(k);
		}
	}
	let spare_from = 65 + n_bg;
	let desc = format!("keys={} spare={}", spare_from, keys.len() - spare_from);
	let mut c = new_case(seed, "directed-nostale-between-batches", &desc, true, root, t, ctr, prop, flags, keys.clone());
	c.t2_big_nostale = true;
	let tag = format!("c09-{}", seed);
	let smalls = [c.vals.token(4, 1), c.vals.token(3, 2), c.vals.token(0, 3)];
	let small2 = c.vals.token(4, 7);
	let big = c.vals.token(100, 3);
	// fill: background, then 64 keys of the page
	let mut i = 65;
	while i < spare_from {
		let m = std::cmp::min(1500, spare_from - i);
		let tx: Tx = keys[i..i + m].iter().map(|k| Op::Set(*k, rng.pick(&smalls).clone())).collect();
		c.commit(tx);
		c.drain();
		i += m;
	}
	c.commit(keys[0..64].iter().map(|k| Op::Set(*k, smalls[0].clone())).collect());
	c.drain();
	c.commit(vec![Op::Set(keys[64], smalls[0].clone())]); // growth 16 -> 17, the 16-bit table is queued
	c.drain();
	c.structure("ns-queued");
	let mut spare = spare_from;
	// one round of operations: 3 keys the front table has already handed over (chunk below the
	// progress at the time of the last batch) and 3 it has not; then new keys reuse freed slots
	let mut round = |c: &mut Case, rng: &mut Rng, copied_below: u64, at: &str| {
		if c.sut.dead {
			return
		}
		for want_copied in [true, false] {
			let cand: Vec<Key> = c
				.committed
				.iter()
				.filter(|(k, v)| (prefix_of(k) >> 48 < copied_below) == want_copied && c.vals.len(v) < 10)
				.map(|(k, _)| *k)
				.collect();
			if cand.len() < 3 {
				c.ctr.inc("nostale.directed.round_without_candidates");
				continue
			}
			let a = cand[rng.below(cand.len() as u64) as usize];
			let mut b = a;
			while b == a {
				b = cand[rng.below(cand.len() as u64) as usize];
			}
			let mut d = a;
			while d == a || d == b {
				d = cand[rng.below(cand.len() as u64) as usize];
			}
			c.commit(vec![Op::Del(a), Op::Set(b, big.clone()), Op::Set(d, small2.clone())]);
			c.drain();
		}
		// freed tier-0 slots are taken by keys that were never in the index
		let mut tx: Tx = vec![];
		for _ in 0..3 {
			if spare < keys.len() {
				tx.push(Op::Set(keys[spare], smalls[0].clone()));
				spare += 1;
			}
		}
		c.commit(tx);
		c.drain();
		c.structure(at);
	};
	round(&mut c, &mut rng, 0, "ns-queued-ops");
	c.reindex(); // first batch: >= 8192 entries, not the whole table
	c.drain();
	if c.last_stat.phase() == "between-batches" {
		c.ctr.inc("nostale.directed.between_batches_reached");
	} else {
		c.ctr.inc("nostale.directed.between_batches_missed");
	}
	c.structure("ns-between-batches");
	let prog1 = c.last_stat.prog;
	round(&mut c, &mut rng, prog1, "ns-between-batches-ops");
	round(&mut c, &mut rng, prog1, "ns-between-batches-ops2");
	// crash + recovery with the half-copied table: progress restarts at 0, the copies stay
	c.crash(&mut rng, root, &tag);
	round(&mut c, &mut rng, prog1, "ns-after-recovery-ops");
	c.reindex(); // the first batch again, over entries that are already in the current table
	c.drain();
	c.structure("ns-between-batches-after-recovery");
	let prog2 = c.last_stat.prog;
	round(&mut c, &mut rng, prog2, "ns-between-batches-after-recovery-ops");
	// clean reopen with the queued table
	c.reopen();
	round(&mut c, &mut rng, std::cmp::max(prog1, prog2), "ns-after-reopen-ops");
	c.reindex();
	c.drain();
	let prog3 = c.last_stat.prog;
	round(&mut c, &mut rng, prog3, "ns-between-batches-after-reopen-ops");
	for _ in 0..8 {
		if c.sut.dead || c.last_stat.older.is_empty() {
			break
		}
		c.reindex();
		c.drain();
	}
	c.check_all(false);
	finish(c)
}

// ----------------------------------------------------------------------------- fix detection

/// Which of the delivered fixes does the crate under test contain?  (The model follows.)
fn detect_flags(root: &Path) -> Flags {
	let small = vec![7u8; 4];
	let big = vec![9u8; 100];
	let step = |db: &Db| {
		db.process_commits().unwrap();
		db.flush_logs().unwrap();
		db.enact_logs().unwrap();
		db.clean_logs().unwrap();
	};
	// exact: the stale-neighbour scenario does not panic
	let exact = {
		let dir = fresh_dir(root, "detect-exact");
		let db = Db::open_or_create(&options(&dir)).unwrap();
		let page: u64 = 0x1234 << 48;
		let pp: u64 = page | (0x55 << 20);
		let p: u64 = pp ^ (1 << 14);
		let mut tx = vec![(0u8, mk_key(pp, 1).to_vec(), Some(small.clone()))];
		for i in 0..63u64 {
			tx.push((0, mk_key(page | ((i + 1) << 42), 100 + i as u32).to_vec(), Some(small.clone())));
		}
		db.commit(tx).unwrap();
		step(&db);
		db.commit(vec![(0u8, mk_key(page | (1 << 47) | (1 << 30), 999).to_vec(), Some(small.clone()))]).unwrap();
		step(&db);
		db.commit(vec![(0u8, mk_key(pp, 1).to_vec(), Some(big.clone()))]).unwrap();
		step(&db);
		db.process_reindex().unwrap();
		db.flush_logs().unwrap();
		db.enact_logs().unwrap();
		db.clean_logs().unwrap();
		db.commit(vec![(0u8, mk_key(p, 2).to_vec(), Some(small.clone()))]).unwrap();
		step(&db);
		db.commit(vec![(0u8, mk_key(p, 2).to_vec(), Some(big.clone()))]).unwrap();
		let r = std::panic::catch_unwind(std::panic::AssertUnwindSafe(|| step(&db)));
		if r.is_err() {
			std::mem::forget(db);
		} else {
			drop(db);
		}
		let _ = std::fs::remove_dir_all(&dir);
		r.is_ok()
	};
	// grow: the move into a full page keeps the key readable
	let grow = {
		let dir = fresh_dir(root, "detect-grow");
		let db = Db::open_or_create(&options(&dir)).unwrap();
		let page: u64 = 0x4321 << 48;
		let ks: Vec<Key> = (0..128u64).map(|i| mk_key(page | (i << 40), 1 + i as u32)).collect();
		db.commit(ks[0..64].iter().map(|k| (0u8, k.to_vec(), Some(small.clone()))).collect::<Vec<_>>()).unwrap();
		step(&db);
		db.commit(ks[64..128].iter().map(|k| (0u8, k.to_vec(), Some(small.clone()))).collect::<Vec<_>>()).unwrap();
		step(&db);
		db.commit(vec![(0u8, ks[5].to_vec(), Some(big.clone()))]).unwrap();
		step(&db);
		let r = db.get(0, &ks[5]).unwrap().is_some();
		drop(db);
		let _ = std::fs::remove_dir_all(&dir);
		r
	};
	let purge = crate_purges_stale_entries(root);
	Flags { exact, grow, purge }
}

/// Does the crate under test contain fix-c09-stale-index-entries?  A value found in the old index
/// table and moved to another size tier takes its old entry along (also used by `r5`).
pub fn crate_purges_stale_entries(root: &Path) -> bool {
	let small = vec![7u8; 4];
	let big = vec![9u8; 100];
	let step = |db: &Db| {
		db.process_commits().unwrap();
		db.flush_logs().unwrap();
		db.enact_logs().unwrap();
		db.clean_logs().unwrap();
	};
	{
		let dir = fresh_dir(root, "detect-purge");
		let db = Db::open_or_create(&options(&dir)).unwrap();
		let page: u64 = 0x2345 << 48;
		let ks: Vec<Key> = (0..65u64).map(|i| mk_key(page | (i << 40), 1 + i as u32)).collect();
		db.commit(ks[0..64].iter().map(|k| (0u8, k.to_vec(), Some(small.clone()))).collect::<Vec<_>>()).unwrap();
		step(&db);
		db.commit(vec![(0u8, ks[64].to_vec(), Some(small.clone()))]).unwrap(); // growth
		step(&db);
		let before = obs_stat(&db);
		db.commit(vec![(0u8, ks[5].to_vec(), Some(big.clone()))]).unwrap();
		step(&db);
		let after = obs_stat(&db);
		drop(db);
		let _ = std::fs::remove_dir_all(&dir);
		before.older.len() == 1 && after.older.len() == 1 && after.older[0].1 + 1 == before.older[0].1
	}
}

pub fn run(seeds: &[u64], thorough: bool, root: &Path, t: &mut Trace, ctr: &mut Counters, prop: &str) -> u64 {
	let hook = std::panic::take_hook();
	std::panic::set_hook(Box::new(|_| {}));
	let flags = detect_flags(root);
	t.comment(&format!(
		"crate under test: exact_find_entry={} grow_on_move={} purge_stale_entries={}",
		flags.exact, flags.grow, flags.purge
	));
	t.stat("crate.fix.sse2_partial_key", if flags.exact { "1" } else { "0" });
	t.stat("crate.fix.move_into_full_page", if flags.grow { "1" } else { "0" });
	t.stat("crate.fix.stale_index_entries", if flags.purge { "1" } else { "0" });
	let mut fails = 0;
	// scenario coverage does not depend on luck: in a run of at least 16 cases the first eight seeds
	// are moved to the nearest seed of each directed kind below (the adjusted seed is the one printed
	// in the case header, so `--case-seed` replays it)
	let forced: [u64; 9] = [6, 6 + 32, 7, 8, 8 + 32, 1, 0, 9, 10];
	for (idx, &seed0) in seeds.iter().enumerate() {
		let seed = if seeds.len() >= 16 && idx < forced.len() { (seed0 & !63) | forced[idx] } else { seed0 };
		let ok = match seed % 16 {
			0 => directed_sse2(seed, root, t, ctr, prop, flags),
			1 => directed_drop_crash(seed, root, t, ctr, prop, flags),
			2 => directed_full_page(seed, root, t, ctr, prop, flags),
			3 if thorough || seed % 32 == 3 => big_case(seed, root, t, ctr, prop, flags),
			4 => steady_case(seed, root, t, ctr, prop, flags),
			5 if prop == "C14" => steady_case(seed, root, t, ctr, prop, flags),
			// seed % 32 = 6: 65 live keys of one class, 38 (bit 5 set): stale variant (known finding F28 of C09)
			6 if seed % 32 == 6 && prop == "C09" => directed_class_overflow(seed, root, t, ctr, prop, flags),
			7 if seed % 32 == 7 => directed_twin(seed, root, t, ctr, prop, flags),
			// bit 5 of the seed selects the half-enacted variant
			8 if seed % 32 == 8 => directed_replay_over_enacted(seed, root, t, ctr, prop, flags),
			9 if seed % 32 == 9 => directed_remove_in_older(seed, root, t, ctr, prop, flags),
			// NO STALE INDEX ENTRY between reindex batches, across crash + recovery and reopen
			10 if seed % 32 == 10 => directed_nostale(seed, root, t, ctr, prop, flags),
			_ => random_case(seed, thorough, root, t, ctr, prop, flags),
		};
		if !ok {
			fails += 1;
			t.comment(&format!("FAILED-CASE seed={}", seed));
		}
	}
	std::panic::set_hook(hook);
	fails
}
