//! Shared helpers: PRNG, hex, value tokens, trace writer, scratch directories.
use std::collections::HashMap;
use std::io::Write;
use std::path::{Path, PathBuf};

/// SplitMix64: every random choice of a case derives from one state.
#[derive(Clone)]
pub struct Rng(pub u64);

impl Rng {
	pub fn new(seed: u64) -> Rng {
		Rng(seed ^ 0x9E37_79B9_7F4A_7C15)
	}
	pub fn next(&mut self) -> u64 {
		self.0 = self.0.wrapping_add(0x9E37_79B9_7F4A_7C15);
		let mut z = self.0;
		z = (z ^ (z >> 30)).wrapping_mul(0xBF58_476D_1CE4_E5B9);
		z = (z ^ (z >> 27)).wrapping_mul(0x94D0_49BB_1331_11EB);
		z ^ (z >> 31)
	}
	pub fn below(&mut self, n: u64) -> u64 {
		if n == 0 {
			0
		} else {
			self.next() % n
		}
	}
	pub fn range(&mut self, lo: u64, hi: u64) -> u64 {
		lo + self.below(hi - lo + 1)
	}
	pub fn chance(&mut self, num: u64, den: u64) -> bool {
		self.below(den) < num
	}
	pub fn pick<'a, T>(&mut self, xs: &'a [T]) -> &'a T {
		&xs[self.below(xs.len() as u64) as usize]
	}
	pub fn fork(&mut self) -> Rng {
		Rng(self.next())
	}
}

pub fn hex(b: &[u8]) -> String {
	let mut s = String::with_capacity(b.len() * 2);
	for x in b {
		s.push_str(&format!("{:02x}", x));
	}
	if s.is_empty() {
		s.push('-');
	}
	s
}

pub fn unhex(s: &str) -> Vec<u8> {
	if s == "-" {
		return vec![]
	}
	(0..s.len() / 2).map(|i| u8::from_str_radix(&s[2 * i..2 * i + 2], 16).unwrap()).collect()
}

/// Value token `v<len>_<seed>`: expands to `len` bytes. seed % 3 == 0 gives compressible
/// content, otherwise pseudo-random bytes. The model treats tokens as opaque values.
pub fn expand_token(tok: &str) -> Vec<u8> {
	let body = &tok[1..];
	let mut it = body.split('_');
	let len: usize = it.next().unwrap().parse().unwrap();
	let seed: u64 = it.next().unwrap().parse().unwrap();
	let mut out = Vec::with_capacity(len);
	if seed % 3 == 0 {
		let pat = [(seed & 0xff) as u8, ((seed >> 8) & 0xff) as u8, 0x41, 0x42];
		for i in 0..len {
			out.push(pat[(i / 7) % 4]);
		}
		// make distinct tokens distinct values
		let tag = seed.to_le_bytes();
		for (i, b) in tag.iter().enumerate() {
			if i < out.len() {
				out[i] = *b;
			}
		}
	} else {
		let mut r = Rng::new(seed);
		while out.len() < len {
			let x = r.next().to_le_bytes();
			let n = std::cmp::min(8, len - out.len());
			out.extend_from_slice(&x[..n]);
		}
	}
	out
}

/// Bidirectional value table: token <-> bytes.
#[derive(Default)]
pub struct Values {
	rev: HashMap<Vec<u8>, String>,
}

impl Values {
	pub fn bytes(&mut self, tok: &str) -> Vec<u8> {
		let b = expand_token(tok);
		self.rev.entry(b.clone()).or_insert_with(|| tok.to_string());
		b
	}
	/// canonical token for a generated token: two tokens expanding to the same bytes
	/// (e.g. every zero-length one) are represented by the first one seen.
	pub fn canon(&mut self, tok: String) -> String {
		let b = expand_token(&tok);
		self.rev.entry(b).or_insert(tok).clone()
	}
	/// canonical rendering of an observed value
	pub fn render(&self, v: &[u8]) -> String {
		match self.rev.get(v) {
			Some(t) => t.clone(),
			None => format!("raw{}:{}", v.len(), hex(&v[..std::cmp::min(v.len(), 16)])),
		}
	}
}

/// Trace: one line `<model op>\t<observed>`; `#` comments; `!ORACLE` failures.
pub struct Trace {
	out: Box<dyn Write>,
	pub oracle_failures: u64,
	pub lines: u64,
	pub recent: Vec<String>,
	pub case_ops: Vec<String>,
}

impl Trace {
	pub fn new(path: Option<&str>) -> Trace {
		let out: Box<dyn Write> = match path {
			Some(p) => Box::new(std::io::BufWriter::new(std::fs::File::create(p).unwrap())),
			None => Box::new(std::io::BufWriter::new(std::io::stdout())),
		};
		Trace { out, oracle_failures: 0, lines: 0, recent: vec![], case_ops: vec![] }
	}
	pub fn op(&mut self, op: &str, observed: &str) {
		writeln!(self.out, "{}\t{}", op, observed).unwrap();
		self.lines += 1;
		self.case_ops.push(format!("{}\t{}", op, observed));
	}
	pub fn comment(&mut self, c: &str) {
		writeln!(self.out, "# {}", c).unwrap();
	}
	pub fn begin_case(&mut self, c: &str) {
		self.case_ops.clear();
		writeln!(self.out, "#CASE {}", c).unwrap();
		// on disk before the case runs: when the implementation hangs inside it, the check finds the header of the
		// unfinished case in the partial trace and reports it as the failing input
		let _ = self.out.flush();
	}
	pub fn end_case(&mut self, nontrivial: bool) {
		writeln!(self.out, "#CASEEND nontrivial={}", if nontrivial { 1 } else { 0 }).unwrap();
	}
	pub fn oracle_fail(&mut self, prop: &str, msg: &str) {
		writeln!(self.out, "!ORACLE {} {}", prop, msg).unwrap();
		self.oracle_failures += 1;
	}
	pub fn known(&mut self, prop: &str, id: &str, msg: &str) {
		writeln!(self.out, "!KNOWN {} {} {}", prop, id, msg).unwrap();
	}
	pub fn stat(&mut self, key: &str, val: &str) {
		writeln!(self.out, "#STAT {} {}", key, val).unwrap();
	}
	pub fn flush(&mut self) {
		self.out.flush().unwrap();
	}
}

pub fn scratch_root() -> PathBuf {
	let base = if Path::new("/dev/shm").is_dir() { "/dev/shm" } else { "/var/tmp" };
	let p = PathBuf::from(format!("{}/pdbverif.{}", base, std::process::id()));
	std::fs::create_dir_all(&p).unwrap();
	p
}

pub fn fresh_dir(root: &Path, name: &str) -> PathBuf {
	let p = root.join(name);
	let _ = std::fs::remove_dir_all(&p);
	p
}

pub fn copy_dir(from: &Path, to: &Path) {
	let _ = std::fs::remove_dir_all(to);
	std::fs::create_dir_all(to).unwrap();
	for e in std::fs::read_dir(from).unwrap() {
		let e = e.unwrap();
		if e.file_type().unwrap().is_file() {
			copy_sparse(&e.path(), &to.join(e.file_name()));
		}
	}
}

/// Copy a file preserving holes (index files are 33 MB sparse).
pub fn copy_sparse(from: &Path, to: &Path) {
	use std::io::{Read, Seek, SeekFrom};
	let mut f = std::fs::File::open(from).unwrap();
	let len = f.metadata().unwrap().len();
	let mut t = std::fs::File::create(to).unwrap();
	t.set_len(len).unwrap();
	let mut buf = vec![0u8; 1 << 16];
	let mut off = 0u64;
	while off < len {
		let n = f.read(&mut buf).unwrap();
		if n == 0 {
			break
		}
		if buf[..n].iter().any(|b| *b != 0) {
			t.seek(SeekFrom::Start(off)).unwrap();
			t.write_all(&buf[..n]).unwrap();
		}
		off += n as u64;
	}
}

pub struct Counters(pub std::collections::BTreeMap<String, u64>);

impl Counters {
	pub fn new() -> Counters {
		Counters(Default::default())
	}
	pub fn inc(&mut self, k: &str) {
		*self.0.entry(k.to_string()).or_insert(0) += 1;
	}
	pub fn add(&mut self, k: &str, n: u64) {
		*self.0.entry(k.to_string()).or_insert(0) += n;
	}
	pub fn dump(&self, t: &mut Trace) {
		for (k, v) in &self.0 {
			t.stat(k, &v.to_string());
		}
	}
}

pub fn err_kind(e: &parity_db::Error) -> &'static str {
	use parity_db::Error::*;
	match e {
		Io(_) => "Io",
		Corruption(_) => "Corruption",
		InvalidConfiguration(_) => "InvalidConfiguration",
		IncompatibleColumnConfig { .. } => "IncompatibleColumnConfig",
		InvalidInput(_) => "InvalidInput",
		InvalidValueData => "InvalidValueData",
		Background(_) => "Background",
		Locked(_) => "Locked",
		Migration(_) => "Migration",
		Compression => "Compression",
		DatabaseNotFound => "DatabaseNotFound",
	}
}
