//! P1 correspondence + oracle search: histories of commits interleaved with pipeline stage
//! steps, clean reopens and crashes on the real `Db`, one protocol line per operation.
//! Serves C01 (plain/preimage hash + btree point reads), C02/C03 (crash, drop), C07 (rc).
//!
//! p1r (file-tracking wrapper model, lean/Pdb/Model/Recover.lean): the driver feeds every `p1`
//! line to the wrapper as well; in addition this module emits
//!   `p1r clean`                     when the harness called clean_logs implicitly (before enacting
//!                                   with three fully read files waiting, before a drop),
//!   `p1r files <num>:<ids|-> ...`   at every crash point: the log files (>= 9 bytes) of the crash
//!                                   image in file-number order with the ids of their complete
//!                                   records, read from the image at the tracked record offsets;
//!                                   observed: `ok prefix=<m>` = the prefix the reads identify.
//! About half of the crash points with fully read files crash INSIDE clean_logs (fault injector,
//! own random stream), so that images with only some of the files reclaimed occur.
//! FILE-NUMBER ORDER vs AGE ORDER: replay must order the files by the id of their first record, not
//! by their number; the two orders differ only when a reclaimed (pooled) low file number is reused
//! for younger records while a file with a higher number still holds older ones.  Such images are
//! rare in unbiased histories (about 1 crash image in 250 cases), so about a third of the crash
//! points of `sync` configurations are preceded by an INVERSION PREAMBLE (`invert_preamble`, own
//! random stream derived from the case seed: the main stream makes the same choices as before):
//! flush, commit + process + flush, enact one file, clean, commit + process - ordinary stage steps,
//! reported as such.  Counters: `p1r.files.inverted` (some file with a lower number holds younger
//! records than a file with a higher number), `p1r.files.pool_reuse` (some file of the image got
//! its number from the pool), `p1r.files.n<k>` (k files with records in the image).
use crate::util::*;
use parity_db::{ColumnOptions, CompressionType, Db, Operation, Options};
use std::collections::BTreeMap;
use std::path::{Path, PathBuf};

#[derive(Clone, Copy, PartialEq, Eq, Debug)]
pub enum Kind {
	Plain,
	Preimage,
	Rc,
}

#[derive(Clone, Debug)]
pub struct ColCfg {
	pub kind: Kind,
	pub uniform: bool,
	pub btree: bool,
	pub compression: CompressionType,
}

#[derive(Clone, Debug)]
pub struct Cfg {
	pub cols: Vec<ColCfg>,
	pub salt: [u8; 32],
	pub threshold: Option<u32>,
	pub sync: bool,
}

impl Cfg {
	pub fn options(&self, path: &Path) -> Options {
		let mut o = Options::with_columns(path, self.cols.len() as u8);
		for (i, c) in self.cols.iter().enumerate() {
			o.columns[i] = ColumnOptions {
				preimage: c.kind != Kind::Plain,
				uniform: c.uniform,
				ref_counted: c.kind == Kind::Rc,
				compression: c.compression,
				btree_index: c.btree,
				multitree: false,
				append_only: false,
				allow_direct_node_access: false,
			};
			if let Some(t) = self.threshold {
				o.compression_threshold.insert(i as u8, t);
			}
		}
		o.salt = Some(self.salt);
		o.with_background_thread = false;
		o.always_flush = true;
		o.stats = false;
		o.sync_wal = self.sync;
		o.sync_data = self.sync;
		o
	}
	pub fn describe(&self) -> String {
		self.cols
			.iter()
			.map(|c| {
				format!(
					"{}{}{}{}",
					match c.kind {
						Kind::Plain => "plain",
						Kind::Preimage => "preimage",
						Kind::Rc => "rc",
					},
					if c.uniform { "+uniform" } else { "" },
					if c.btree { "+btree" } else { "" },
					match c.compression {
						CompressionType::NoCompression => "",
						CompressionType::Lz4 => "+lz4",
						CompressionType::Snappy => "+snappy",
					}
				)
			})
			.collect::<Vec<_>>()
			.join(",")
	}
	pub fn model_kinds(&self) -> String {
		self.cols
			.iter()
			.map(|c| match c.kind {
				Kind::Plain => "plain",
				Kind::Preimage => "preimage",
				Kind::Rc => "rc",
			})
			.collect::<Vec<_>>()
			.join(" ")
	}
}

/// Independent reference semantics (plain map code, not derived from the Lean model):
/// per column key -> (value, count).
#[derive(Clone, Default, PartialEq, Eq, Debug)]
pub struct Oracle {
	pub cols: Vec<BTreeMap<Vec<u8>, (Vec<u8>, u64)>>,
}

#[derive(Clone, Debug)]
pub enum Op {
	Set(Vec<u8>, String),
	Del(Vec<u8>),
	Ref(Vec<u8>),
}

impl Op {
	pub fn key(&self) -> &Vec<u8> {
		match self {
			Op::Set(k, _) | Op::Del(k) | Op::Ref(k) => k,
		}
	}
}

pub type Tx = Vec<(u8, Op)>;

impl Oracle {
	pub fn new(n: usize) -> Oracle {
		Oracle { cols: vec![Default::default(); n] }
	}
	pub fn apply(&mut self, cfg: &Cfg, tx: &Tx, vals: &mut Values) {
		for (c, op) in tx {
			let kind = cfg.cols[*c as usize].kind;
			let m = &mut self.cols[*c as usize];
			match (kind, op) {
				(Kind::Plain, Op::Set(k, v)) => {
					m.insert(k.clone(), (vals.bytes(v), 1));
				},
				(Kind::Preimage, Op::Set(k, v)) => {
					m.entry(k.clone()).or_insert((vals.bytes(v), 1));
				},
				(Kind::Rc, Op::Set(k, v)) => {
					let e = m.entry(k.clone()).or_insert((vals.bytes(v), 0));
					e.1 += 1;
				},
				(Kind::Rc, Op::Ref(k)) =>
					if let Some(e) = m.get_mut(k) {
						e.1 += 1;
					},
				(_, Op::Ref(_)) => {},
				(Kind::Rc, Op::Del(k)) => {
					let gone = if let Some(e) = m.get_mut(k) {
						e.1 -= 1;
						e.1 == 0
					} else {
						false
					};
					if gone {
						m.remove(k);
					}
				},
				(_, Op::Del(k)) => {
					m.remove(k);
				},
			}
		}
	}
}

pub fn tx_valid(cfg: &Cfg, tx: &Tx) -> bool {
	tx.iter().all(|(c, op)| match op {
		Op::Ref(_) => cfg.cols[*c as usize].kind == Kind::Rc,
		_ => true,
	})
}

pub fn tx_line(tx: &Tx) -> String {
	let mut s = String::from("p1 commit");
	for (c, op) in tx {
		match op {
			Op::Set(k, v) => s.push_str(&format!(" {}:set:{}:{}", c, hex(k), v)),
			Op::Del(k) => s.push_str(&format!(" {}:del:{}", c, hex(k))),
			Op::Ref(k) => s.push_str(&format!(" {}:ref:{}", c, hex(k))),
		}
	}
	s
}

pub fn to_db_tx(tx: &Tx, vals: &mut Values) -> Vec<(u8, Operation<Vec<u8>, Vec<u8>>)> {
	tx.iter()
		.map(|(c, op)| {
			(
				*c,
				match op {
					Op::Set(k, v) => Operation::Set(k.clone(), vals.bytes(v)),
					Op::Del(k) => Operation::Dereference(k.clone()),
					Op::Ref(k) => Operation::Reference(k.clone()),
				},
			)
		})
		.collect()
}

/// The real database plus the mirror of the stage positions the harness needs.
pub struct Sut {
	pub cfg: Cfg,
	pub dir: PathBuf,
	pub db: Option<Db>,
	pub queued: usize,      // commits accepted, not processed
	pub logged: usize,      // records published, not enacted
	pub flushed: usize,     // of those, in flushed files
	pub unread_files: usize, // flushed log files not fully read
	pub dirty: usize,       // fully read files not yet cleaned
	pub synced_len: BTreeMap<String, u64>, // log file -> bytes known synced
	pub log_sizes: BTreeMap<String, u64>,  // last seen size of every log file
	/// records appended since the last flush: (log file, end offset, is a transaction record)
	pub appended: Vec<(String, u64, bool)>,
	/// number of transaction records in every flushed, not yet fully read log file (oldest first)
	pub file_records: std::collections::VecDeque<usize>,
	pub hist: Vec<Tx>,
	pub n_enacted: usize,
	/// p1r: end offsets of the records appended to every log file since it was last empty
	pub file_recs: BTreeMap<String, Vec<u64>>,
	/// p1r: `clean_logs` calls made implicitly (before enacting / dropping), not yet reported
	pub implicit_cleans: usize,
	/// p1r: log file names that ever held a record since the handle was opened
	pub ever_used: std::collections::BTreeSet<String>,
	/// p1r: log files whose CURRENT records were written after the file had been reclaimed
	/// (truncated, back in the pool) at least once
	pub reused: std::collections::BTreeSet<String>,
}

impl Sut {
	pub fn create(cfg: Cfg, dir: PathBuf) -> Sut {
		let db = Db::open_or_create(&cfg.options(&dir)).expect("create");
		Sut {
			cfg,
			dir,
			db: Some(db),
			queued: 0,
			logged: 0,
			flushed: 0,
			unread_files: 0,
			dirty: 0,
			synced_len: Default::default(),
			log_sizes: Default::default(),
			appended: vec![],
			file_records: Default::default(),
			hist: vec![],
			n_enacted: 0,
			file_recs: Default::default(),
			implicit_cleans: 0,
			ever_used: Default::default(),
			reused: Default::default(),
		}
	}
	pub fn db(&self) -> &Db {
		self.db.as_ref().unwrap()
	}
	pub fn commit(&mut self, tx: &Tx, vals: &mut Values) -> Result<(), parity_db::Error> {
		let r = self.db().commit_changes(to_db_tx(tx, vals));
		if r.is_ok() {
			self.queued += 1;
			self.hist.push(tx.clone());
		}
		r
	}
	pub fn process(&mut self) -> Result<(), parity_db::Error> {
		self.db().process_commits()?;
		if self.queued > 0 {
			self.queued -= 1;
			self.logged += 1;
		}
		self.note_appended(true);
		Ok(())
	}
	fn refresh_sizes(&mut self) {
		self.log_sizes.clear();
		for (n, l) in self.log_files() {
			self.log_sizes.insert(n, l);
		}
		// p1r: a truncated (reclaimed) or deleted log file holds no records any more
		let sizes = &self.log_sizes;
		self.file_recs.retain(|n, _| sizes.get(n).map_or(false, |l| *l > 0));
		self.reused.retain(|n| sizes.get(n).map_or(false, |l| *l > 0));
	}
	/// Which log file grew since the last look: that is where the new record ends.
	fn note_appended(&mut self, is_tx: bool) {
		for (n, l) in self.log_files() {
			let old = self.log_sizes.get(&n).copied().unwrap_or(0);
			if l > old {
				self.appended.push((n.clone(), l, is_tx));
				if old == 0 {
					self.file_recs.remove(&n);
					// p1r: first record of a file that held records before: the number came from the pool
					if self.ever_used.contains(&n) {
						self.reused.insert(n.clone());
					} else {
						self.reused.remove(&n);
					}
				}
				self.ever_used.insert(n.clone());
				self.file_recs.entry(n.clone()).or_default().push(l);
			}
			self.log_sizes.insert(n, l);
		}
	}
	fn log_files(&self) -> Vec<(String, u64)> {
		let mut v = vec![];
		for e in std::fs::read_dir(&self.dir).unwrap() {
			let e = e.unwrap();
			let n = e.file_name().to_string_lossy().to_string();
			if n.starts_with("log") && n != "lock" {
				v.push((n, e.metadata().unwrap().len()));
			}
		}
		v
	}
	pub fn flush(&mut self) -> Result<(), parity_db::Error> {
		self.db().flush_logs()?;
		if self.logged > self.flushed {
			self.file_records.push_back(self.logged - self.flushed);
			self.flushed = self.logged;
			self.unread_files += 1;
		}
		if self.cfg.sync {
			for (n, l) in self.log_files() {
				self.synced_len.insert(n, l);
			}
		}
		self.appended.clear();
		self.refresh_sizes();
		Ok(())
	}
	/// Model action `enactall`: enact every flushed record (one log file per call of the
	/// stepping API), cleaning when the dirty-log limit would otherwise block the caller.
	pub fn enact_all(&mut self) -> Result<(), parity_db::Error> {
		let mut guard = 0;
		while self.unread_files > 0 || guard == 0 {
			if self.dirty >= 3 {
				self.clean()?;
			}
			self.db().enact_logs()?;
			if self.unread_files > 0 {
				self.unread_files -= 1;
				self.dirty += 1;
			}
			guard += 1;
			if guard > 64 {
				break
			}
		}
		self.n_enacted += self.flushed;
		self.logged -= self.flushed;
		self.flushed = 0;
		self.file_records.clear();
		self.refresh_sizes();
		Ok(())
	}
	/// Enact exactly one flushed log file (one call of the stepping API). Returns the number of
	/// transaction records it held (= number of model `enact` steps).
	pub fn enact_file(&mut self) -> Result<usize, parity_db::Error> {
		if self.dirty >= 3 {
			self.clean()?;
			self.implicit_cleans += 1;
		}
		self.db().enact_logs()?;
		let k = if self.unread_files > 0 {
			self.unread_files -= 1;
			self.dirty += 1;
			self.file_records.pop_front().unwrap_or(0)
		} else {
			0
		};
		self.n_enacted += k;
		self.logged -= k;
		self.flushed -= k;
		self.refresh_sizes();
		Ok(k)
	}
	pub fn clean(&mut self) -> Result<(), parity_db::Error> {
		self.db().clean_logs()?;
		if self.cfg.sync {
			self.dirty = 0;
		}
		self.refresh_sizes();
		Ok(())
	}
	pub fn reindex(&mut self) -> Result<(), parity_db::Error> {
		let r = self.db().process_reindex();
		self.note_appended(false);
		r
	}
	pub fn get(&self, c: u8, k: &[u8]) -> Result<Option<Vec<u8>>, parity_db::Error> {
		self.db().get(c, k)
	}
	pub fn close(&mut self) {
		// (historic F7 guard, harmless now that the drop hang is fixed)
		if self.dirty >= 3 && self.db.is_some() {
			let _ = self.clean();
		}
		self.db = None;
		self.queued = 0;
		self.logged = 0;
		self.flushed = 0;
		self.unread_files = 0;
		self.dirty = 0;
		self.synced_len.clear();
		self.log_sizes.clear();
		self.appended.clear();
		self.file_records.clear();
		self.file_recs.clear();
		self.ever_used.clear();
		self.reused.clear();
		self.n_enacted = self.hist.len();
	}
	pub fn reopen(&mut self) -> Result<(), parity_db::Error> {
		self.close();
		self.db = Some(Db::open(&self.cfg.options(&self.dir))?);
		Ok(())
	}
}

pub struct GenParams {
	pub max_actions: usize,
	pub allow_crash: bool,
	pub allow_reopen: bool,
	pub kinds: Vec<Kind>,
	pub btree_ok: bool,
	pub big_values: bool,
}

pub fn gen_cfg(rng: &mut Rng, p: &GenParams) -> Cfg {
	let ncols = rng.range(1, 3) as usize;
	let mut cols = vec![];
	for _ in 0..ncols {
		let kind = *rng.pick(&p.kinds);
		let btree = p.btree_ok && rng.chance(1, 4);
		let uniform = !btree && rng.chance(1, 3);
		let compression = *rng.pick(&[
			CompressionType::NoCompression,
			CompressionType::NoCompression,
			CompressionType::Lz4,
			CompressionType::Snappy,
		]);
		cols.push(ColCfg { kind, uniform, btree, compression });
	}
	let mut salt = [0u8; 32];
	for i in 0..4 {
		salt[i * 8..i * 8 + 8].copy_from_slice(&rng.next().to_le_bytes());
	}
	let threshold = match rng.below(4) {
		0 => Some(0),
		1 => Some(u32::MAX),
		_ => None,
	};
	Cfg { cols, salt, threshold, sync: true }
}

pub fn gen_key(rng: &mut Rng, uniform: bool, id: u64) -> Vec<u8> {
	// keys are distinct per id; lengths: empty, short, 32, > 250
	let mut r = Rng::new(id.wrapping_mul(0x1234_5678_9abc_def1));
	let len = if uniform {
		*r.pick(&[32u64, 32, 33, 40, 300])
	} else {
		match id {
			0 => 0,
			_ => *r.pick(&[1u64, 2, 5, 8, 31, 32, 33, 64, 251, 400]),
		}
	} as usize;
	let mut k = Vec::with_capacity(len);
	while k.len() < len {
		k.extend_from_slice(&r.next().to_le_bytes());
	}
	k.truncate(len);
	// uniform keys longer than 32 bytes: keys of one family (three consecutive ids) share their first 32 bytes and
	// differ only behind them, so a hash that ignores the tail of a long uniform key aliases them (seeded C01-c01e)
	if uniform && len > 32 {
		let mut f = Rng::new((id / 3).wrapping_mul(0x9e37_79b9_7f4a_7c15) ^ 0x5151);
		for chunk in k[..32].chunks_mut(8) {
			let b = f.next().to_le_bytes();
			chunk.copy_from_slice(&b[..chunk.len()]);
		}
	}
	// embed the id so that keys are pairwise distinct
	let tag = (id as u32).to_be_bytes();
	for (i, b) in tag.iter().enumerate() {
		if i < k.len() {
			let pos = k.len() - 1 - i;
			k[pos] = *b;
		}
	}
	let _ = rng;
	k
}

pub fn gen_value_token(rng: &mut Rng, big: bool, key_id: u64, fixed_by_key: bool) -> String {
	if fixed_by_key {
		// value determined by key (preimage contract)
		let mut r = Rng::new(key_id ^ 0xabcdef);
		let len = *r.pick(&[0u64, 1, 7, 30, 31, 32, 33, 60, 100, 500, 4000, 5000, 33000]);
		let len = if big { len } else { std::cmp::min(len, 600) };
		return format!("v{}_{}", len, 1000 + key_id)
	}
	let len = match rng.below(if big { 12 } else { 8 }) {
		0 => 0,
		1 => rng.range(1, 8),
		2 => rng.range(20, 40),
		3 => rng.range(40, 200),
		4 => rng.range(200, 1000),
		5 => rng.range(1, 64),
		6 => rng.range(1000, 5000),
		7 => rng.range(28, 34),
		8 => rng.range(4000, 4200),
		9 => rng.range(32000, 34000),
		10 => rng.range(8000, 9000),
		_ => rng.range(60000, 70000),
	};
	format!("v{}_{}", len, rng.below(1 << 30))
}

pub struct CaseStats {
	pub max_queued: usize,
	pub max_logged: usize,
	pub stages_seen: std::collections::BTreeSet<&'static str>,
	pub reopens: usize,
	pub crashes: usize,
}

/// Run one generated history. Returns false when an oracle failure was recorded.
pub fn run_case(
	seed: u64,
	p: &GenParams,
	root: &Path,
	t: &mut Trace,
	ctr: &mut Counters,
	prop: &str,
) -> bool {
	let mut rng = Rng::new(seed);
	let cfg = gen_cfg(&mut rng, p);
	let mut vals = Values::default();
	t.begin_case(&format!("seed={} cfg={}", seed, cfg.describe()));
	t.op(&format!("p1 init {}", cfg.model_kinds()), "ok");
	let dir = fresh_dir(root, &format!("p1-{}", seed));
	let mut sut = Sut::create(cfg.clone(), dir.clone());
	let mut oracle = Oracle::new(cfg.cols.len());
	// oracle state after each accepted transaction (prefix states for crash checks)
	let mut prefix_states: Vec<Oracle> = vec![oracle.clone()];
	let nkeys = rng.range(3, 12);
	let keys: Vec<Vec<Vec<u8>>> = cfg
		.cols
		.iter()
		.map(|c| (0..nkeys).map(|i| gen_key(&mut rng, c.uniform, i)).collect())
		.collect();
	let nact = rng.range(8, p.max_actions as u64) as usize;
	let mut ok = true;
	let mut stats_stages: std::collections::BTreeSet<&'static str> = Default::default();
	let mut crash_count = 0;
	// keys written by the most recent accepted transactions: read again after EVERY pipeline step
	// (a read must return the latest write whatever stage the transactions are in)
	let mut recent: Vec<(u8, Vec<u8>)> = vec![];

	for _step in 0..nact {
		let a = rng.below(100);
		if a < 38 {
			// commit
			let nops = rng.range(1, 6);
			let mut tx: Tx = vec![];
			for _ in 0..nops {
				let c = rng.below(cfg.cols.len() as u64) as u8;
				let kid = rng.below(nkeys);
				let k = keys[c as usize][kid as usize].clone();
				let kind = cfg.cols[c as usize].kind;
				let r = rng.below(100);
				let op = if r < 55 {
					Op::Set(k, vals.canon(gen_value_token(&mut rng, p.big_values, kid + 100 * c as u64, kind != Kind::Plain)))
				} else if r < 85 || kind != Kind::Rc {
					if r >= 97 {
						Op::Ref(k) // invalid on non-rc columns: rejected transaction
					} else {
						Op::Del(k)
					}
				} else {
					Op::Ref(k)
				};
				tx.push((c, op));
			}
			let valid = tx_valid(&cfg, &tx);
			let r = sut.commit(&tx, &mut vals);
			let obs = match &r {
				Ok(()) => "ok".to_string(),
				Err(e) => format!("err:{}", err_kind(e)),
			};
			t.op(&tx_line(&tx), &obs);
			ctr.inc(if r.is_ok() { "op.commit.ok" } else { "op.commit.rejected" });
			ctr.add("ops.in_tx", tx.len() as u64);
			if r.is_ok() != valid {
				t.oracle_fail(prop, &format!("commit acceptance mismatch: valid={} got={}", valid, obs));
				ok = false;
			}
			if r.is_ok() {
				oracle.apply(&cfg, &tx, &mut vals);
				prefix_states.push(oracle.clone());
				for (c, op) in &tx {
					let e = (*c, op.key().to_vec());
					recent.retain(|x| *x != e);
					recent.push(e);
				}
				let n = recent.len();
				if n > 6 {
					recent.drain(0..n - 6);
				}
			}
			// read back the touched keys immediately
			for (c, op) in &tx {
				ok &= check_get(&sut, &oracle, &cfg, *c, op.key(), t, &vals, prop, ctr);
			}
		} else if a < 55 {
			let r = sut.process();
			t.op("p1 process", &res(&r));
			ctr.inc("op.process");
			for (c, k) in recent.clone() {
				ok &= check_get(&sut, &oracle, &cfg, c, &k, t, &vals, prop, ctr);
				ctr.inc("op.get.after_step");
			}
		} else if a < 65 {
			let r = sut.flush();
			t.op("p1 flush", &res(&r));
			ctr.inc("op.flush");
			for (c, k) in recent.clone() {
				ok &= check_get(&sut, &oracle, &cfg, c, &k, t, &vals, prop, ctr);
				ctr.inc("op.get.after_step");
			}
		} else if a < 71 {
			let r = sut.enact_file();
			if sut.implicit_cleans > 0 {
				// p1r: the harness called clean_logs before enacting (three fully read files waiting)
				sut.implicit_cleans = 0;
				t.op("p1r clean", "ok");
				ctr.inc("p1r.implicit_clean");
			}
			match r {
				Ok(k) => {
					for _ in 0..k {
						t.op("p1 enact", "ok");
					}
					t.comment(&format!("enactfile records={}", k));
				},
				Err(e) => t.op("p1 enact", &format!("err:{}", err_kind(&e))),
			}
			ctr.inc("op.enactfile");
			for (c, k) in recent.clone() {
				ok &= check_get(&sut, &oracle, &cfg, c, &k, t, &vals, prop, ctr);
				ctr.inc("op.get.after_step");
			}
		} else if a < 78 {
			let r = sut.enact_all();
			t.op("p1 enactall", &res(&r));
			ctr.inc("op.enactall");
			for (c, k) in recent.clone() {
				ok &= check_get(&sut, &oracle, &cfg, c, &k, t, &vals, prop, ctr);
				ctr.inc("op.get.after_step");
			}
		} else if a < 82 {
			let r = sut.clean();
			t.op("p1 clean", &res(&r));
			ctr.inc("op.clean");
			for (c, k) in recent.clone() {
				ok &= check_get(&sut, &oracle, &cfg, c, &k, t, &vals, prop, ctr);
				ctr.inc("op.get.after_step");
			}
		} else if a < 85 {
			let before: usize = sut.file_recs.values().map(|v| v.len()).sum();
			let r = sut.reindex();
			if sut.file_recs.values().map(|v| v.len()).sum::<usize>() != before {
				// a reindex record took a record id: the file-tracking model has no such record
				ctr.inc("p1r.reindex_records");
				t.comment("p1r: reindex appended a log record");
			}
			t.op("p1 reindex", &res(&r));
			ctr.inc("op.reindex");
			for (c, k) in recent.clone() {
				ok &= check_get(&sut, &oracle, &cfg, c, &k, t, &vals, prop, ctr);
				ctr.inc("op.get.after_step");
			}
		} else if a < 90 && p.allow_reopen {
			if sut.dirty >= 3 && sut.db.is_some() {
				// p1r: `close` calls clean_logs before the drop
				t.op("p1r clean", "ok");
				ctr.inc("p1r.implicit_clean");
			}
			let r = sut.reopen();
			t.op("p1 reopen", &res(&r));
			ctr.inc("op.reopen");
			if r.is_err() {
				t.oracle_fail(prop, &format!("reopen failed: {:?}", r.err()));
				return false
			}
			ok &= check_all(&sut, &oracle, &cfg, &keys, t, &vals, prop, ctr, true);
		} else if a < 94 && p.allow_crash && crash_count < 3 {
			crash_count += 1;
			// make sure there often is an unsynced tail to cut
			if rng.chance(1, 2) {
				for _ in 0..rng.range(1, 3) {
					let r = sut.process();
					t.op("p1 process", &res(&r));
				}
			}
			// p1r: inversion preamble (own random stream: `rng` makes the same choices as without it)
			{
				let mut r3 = Rng::new(
					seed.wrapping_mul(0xd1b5_4a32_d192_ed03) ^ ((sut.hist.len() as u64) << 24) ^ ((crash_count as u64) << 8) ^ 0x696e76,
				);
				if cfg.sync && sut.db.is_some() && r3.chance(1, 3) {
					ok &= invert_preamble(
						&mut sut,
						&mut r3,
						&cfg,
						&keys,
						nkeys,
						p.big_values,
						&mut vals,
						&mut oracle,
						&mut prefix_states,
						t,
						ctr,
						prop,
					);
				}
			}
			match crash_and_recover(&mut sut, &mut rng, root, seed, &prefix_states, &keys, t, &vals, prop, ctr) {
				Some(m) => {
					oracle = prefix_states[m].clone();
					prefix_states.truncate(m + 1);
				},
				None => return false,
			}
		} else {
			// a few random reads
			for _ in 0..3 {
				let c = rng.below(cfg.cols.len() as u64) as u8;
				let k = keys[c as usize][rng.below(nkeys) as usize].clone();
				ok &= check_get(&sut, &oracle, &cfg, c, &k, t, &vals, prop, ctr);
			}
		}
		if sut.queued > 0 {
			stats_stages.insert("queued");
		}
		if sut.logged > sut.flushed {
			stats_stages.insert("logged");
		}
		if sut.flushed > 0 {
			stats_stages.insert("flushed");
		}
		if sut.n_enacted > 0 {
			stats_stages.insert("enacted");
		}
		if sut.queued > 0 && sut.logged > 0 {
			ctr.inc("obs.multi_stage_states");
		}
	}
	// final: all keys, then drain + reopen, all keys again
	ok &= check_all(&sut, &oracle, &cfg, &keys, t, &vals, prop, ctr, false);
	if sut.dirty >= 3 && sut.db.is_some() {
		t.op("p1r clean", "ok");
		ctr.inc("p1r.implicit_clean");
	}
	let r = sut.reopen();
	t.op("p1 reopen", &res(&r));
	if r.is_err() {
		t.oracle_fail(prop, &format!("final reopen failed: {:?}", r.err()));
		return false
	}
	ok &= check_all(&sut, &oracle, &cfg, &keys, t, &vals, prop, ctr, true);
	sut.close();
	let _ = std::fs::remove_dir_all(&dir);
	if stats_stages.len() >= 2 {
		ctr.inc("cases.nontrivial");
	}
	t.end_case(stats_stages.len() >= 2);
	ctr.inc("cases");
	ok
}

pub fn res(r: &Result<(), parity_db::Error>) -> String {
	match r {
		Ok(()) => "ok".into(),
		Err(e) => format!("err:{}", err_kind(e)),
	}
}

pub fn check_all(
	sut: &Sut,
	oracle: &Oracle,
	cfg: &Cfg,
	keys: &[Vec<Vec<u8>>],
	t: &mut Trace,
	vals: &Values,
	prop: &str,
	ctr: &mut Counters,
	_drained: bool,
) -> bool {
	let mut ok = true;
	for (c, ks) in keys.iter().enumerate() {
		for k in ks {
			ok &= check_get(sut, oracle, cfg, c as u8, k, t, vals, prop, ctr);
		}
	}
	if _drained {
		// value iteration over a drained hash column: exactly the live values with their counts
		for (c, col) in cfg.cols.iter().enumerate() {
			if col.btree {
				continue
			}
			let mut seen: Vec<(Vec<u8>, u64)> = vec![];
			let r = sut.db().iter_column_while(c as u8, |st| {
				seen.push((st.value, st.rc as u64));
				true
			});
			if let Err(e) = r {
				t.oracle_fail(prop, &format!("iter_column_while failed: {:?}", e));
				ok = false;
				continue
			}
			let mut exp: Vec<(Vec<u8>, u64)> = oracle.cols[c]
				.values()
				.map(|(v, n)| (v.clone(), if col.kind == Kind::Rc { *n } else { seen.iter().find(|s| s.0 == *v).map(|s| s.1).unwrap_or(0) }))
				.collect();
			seen.sort();
			exp.sort();
			ctr.inc("op.iter_values");
			if seen != exp {
				t.oracle_fail(
					prop,
					&format!(
						"value iteration col={}: expected {:?} observed {:?}",
						c,
						exp.iter().map(|(v, n)| format!("{}*{}", vals.render(v), n)).collect::<Vec<_>>(),
						seen.iter().map(|(v, n)| format!("{}*{}", vals.render(v), n)).collect::<Vec<_>>()
					),
				);
				ok = false;
			}
		}
	}
	ok
}

/// One observed read: emits the protocol lines (get + size) and checks against the oracle.
pub fn check_get(
	sut: &Sut,
	oracle: &Oracle,
	cfg: &Cfg,
	c: u8,
	k: &[u8],
	t: &mut Trace,
	vals: &Values,
	prop: &str,
	ctr: &mut Counters,
) -> bool {
	let got = sut.get(c, k);
	let size = sut.db().get_size(c, k);
	let obs = match &got {
		Ok(Some(v)) => format!("some {}", vals.render(v)),
		Ok(None) => "none".to_string(),
		Err(e) => format!("err:{}", err_kind(e)),
	};
	let kind = cfg.cols[c as usize].kind;
	let exp = oracle.cols[c as usize].get(k);
	ctr.inc("op.get");
	let mut ok = true;
	let exact = kind != Kind::Rc || sut.queued == 0;
	if exact {
		let e = exp.map(|x| x.0.clone());
		if got.as_ref().ok() != Some(&e) {
			t.oracle_fail(
				prop,
				&format!("get col={} key={} expected={:?} observed={}", c, hex(k), e.map(|v| vals.render(&v)), obs),
			);
			ok = false;
		}
	} else if let Some((v, n)) = exp {
		// rc column with queued commits: positive count implies readable with its value
		if *n > 0 && got.as_ref().ok() != Some(&Some(v.clone())) {
			t.oracle_fail(prop, &format!("rc get col={} key={} count={} observed={}", c, hex(k), n, obs));
			ok = false;
		}
	}
	let sobs = match &size {
		Ok(Some(n)) => format!("some {}", n),
		Ok(None) => "none".to_string(),
		Err(e) => format!("err:{}", err_kind(e)),
	};
	if let (Ok(g), Ok(s)) = (&got, &size) {
		if g.as_ref().map(|v| v.len() as u32) != *s {
			t.oracle_fail(prop, &format!("get_size mismatch col={} key={} size={} get={}", c, hex(k), sobs, obs));
			ok = false;
		}
	}
	if exact {
		// the model predicts reads exactly only where the property does
		t.op(&format!("p1 get {} {}", c, hex(k)), &obs);
		t.op(&format!("p1 size {} {}", c, hex(k)), &sobs);
	} else {
		t.comment(&format!("rc-read col={} key={} -> {}", c, hex(k), obs));
	}
	ok
}

/// One call of the stepping `enact_logs` (one log file), reported as the main loop does.
fn emit_enact_file(sut: &mut Sut, t: &mut Trace, ctr: &mut Counters) {
	let r = sut.enact_file();
	if sut.implicit_cleans > 0 {
		sut.implicit_cleans = 0;
		t.op("p1r clean", "ok");
		ctr.inc("p1r.implicit_clean");
	}
	match r {
		Ok(k) => {
			for _ in 0..k {
				t.op("p1 enact", "ok");
			}
			t.comment(&format!("enactfile records={}", k));
		},
		Err(e) => t.op("p1 enact", &format!("err:{}", err_kind(&e))),
	}
}

/// p1r: drive the pipeline into a state whose log files are NOT in age order by number: a
/// reclaimed low number is reused for the youngest record while a file with a higher number still
/// holds an older, un-enacted one.  Only ordinary steps (commit, process, flush, enact one file,
/// clean), each reported as its usual `p1` line; needs `sync_data` (otherwise `clean_logs` keeps
/// the last KEEP_LOGS files and nothing returns to the pool).
///   flush                      the appending file X1 (if any record is unflushed; else commit +
///                              process first) is closed
///   commit; process; flush     X2 > X1 (the pool hands out its lowest number, fresh numbers are
///                              higher than every pooled one)
///   enact files up to X1; clean  X1 (and everything older) back in the pool
///   commit; process            the record goes to the lowest pooled number <= X1 < X2
#[allow(clippy::too_many_arguments)]
fn invert_preamble(
	sut: &mut Sut,
	r3: &mut Rng,
	cfg: &Cfg,
	keys: &[Vec<Vec<u8>>],
	nkeys: u64,
	big_values: bool,
	vals: &mut Values,
	oracle: &mut Oracle,
	prefix_states: &mut Vec<Oracle>,
	t: &mut Trace,
	ctr: &mut Counters,
	prop: &str,
) -> bool {
	let mut ok = true;
	ctr.inc("p1r.invert_preamble");
	t.comment("p1r: inversion preamble");
	// a valid transaction from the private stream; `process` handles the OLDEST queued commit, so a
	// new one is only needed when nothing is queued
	let mut log_one = |sut: &mut Sut, r3: &mut Rng, vals: &mut Values, oracle: &mut Oracle, prefix_states: &mut Vec<Oracle>, t: &mut Trace, ctr: &mut Counters| -> bool {
		let mut good = true;
		if sut.queued == 0 {
			let mut tx: Tx = vec![];
			for _ in 0..r3.range(1, 3) {
				let c = r3.below(cfg.cols.len() as u64) as u8;
				let kid = r3.below(nkeys);
				let k = keys[c as usize][kid as usize].clone();
				let kind = cfg.cols[c as usize].kind;
				let op = if r3.chance(3, 4) {
					Op::Set(k, vals.canon(gen_value_token(r3, big_values, kid + 100 * c as u64, kind != Kind::Plain)))
				} else {
					Op::Del(k)
				};
				tx.push((c, op));
			}
			let r = sut.commit(&tx, vals);
			t.op(&tx_line(&tx), &res(&r));
			ctr.inc(if r.is_ok() { "op.commit.ok" } else { "op.commit.rejected" });
			if r.is_ok() {
				oracle.apply(cfg, &tx, vals);
				prefix_states.push(oracle.clone());
			} else {
				t.oracle_fail(prop, &format!("inversion preamble: valid commit refused: {:?}", r.err()));
				good = false;
			}
		}
		let r = sut.process();
		t.op("p1 process", &res(&r));
		ctr.inc("op.process");
		good
	};
	// X1
	if sut.logged == sut.flushed {
		ok &= log_one(sut, r3, vals, oracle, prefix_states, t, ctr);
	}
	let r = sut.flush();
	t.op("p1 flush", &res(&r));
	ctr.inc("op.flush");
	let older = sut.unread_files; // files up to and including X1
	// X2 (one or two records)
	for _ in 0..r3.range(1, 3) {
		ok &= log_one(sut, r3, vals, oracle, prefix_states, t, ctr);
	}
	let r = sut.flush();
	t.op("p1 flush", &res(&r));
	ctr.inc("op.flush");
	if sut.unread_files <= older {
		// nothing was logged into X2 (process refused?): no inversion possible
		ctr.inc("p1r.invert_preamble.abandoned");
		return ok
	}
	// enact everything up to X1, reclaim it
	for _ in 0..older {
		emit_enact_file(sut, t, ctr);
		ctr.inc("op.enactfile");
	}
	let r = sut.clean();
	t.op("p1 clean", &res(&r));
	ctr.inc("op.clean");
	// the youngest record goes into the lowest pooled number
	ok &= log_one(sut, r3, vals, oracle, prefix_states, t, ctr);
	if r3.chance(1, 3) {
		let r = sut.flush();
		t.op("p1 flush", &res(&r));
		ctr.inc("op.flush");
	}
	ok
}

/// Crash at the current step boundary: copy the directory image, optionally cut the
/// unsynced tail of log files, recover with the real code, identify the recovered prefix.
#[allow(clippy::too_many_arguments)]
fn crash_and_recover(
	sut: &mut Sut,
	rng: &mut Rng,
	root: &Path,
	seed: u64,
	prefix_states: &[Oracle],
	keys: &[Vec<Vec<u8>>],
	t: &mut Trace,
	vals: &Values,
	prop: &str,
	ctr: &mut Counters,
) -> Option<usize> {
	// p1r: sometimes the crash strikes INSIDE clean_logs (fault injector, own random stream so that
	// the history generator is not disturbed): some of the fully enacted files are reclaimed, the
	// others are still on disk and will be replayed again
	if sut.db.is_some() {
		let mut r2 = Rng::new(seed.wrapping_mul(0x9e37_79b9_7f4a_7c15) ^ ((sut.hist.len() as u64) << 20) ^ sut.n_enacted as u64);
		let inside_clean = r2.chance(1, 2);
		if inside_clean && r2.chance(3, 4) {
			// two fully read files in the cleanup queue, so that the instants between the reclaim of
			// one file and the next exist (ordinary stage steps, reported as such)
			for _ in 0..2 {
				if sut.dirty >= 2 {
					break
				}
				if sut.unread_files == 0 && sut.logged > sut.flushed {
					let r = sut.flush();
					t.op("p1 flush", &res(&r));
				}
				if sut.unread_files == 0 {
					break
				}
				match sut.enact_file() {
					Ok(k) => {
						for _ in 0..k {
							t.op("p1 enact", "ok");
						}
						t.comment(&format!("enactfile records={}", k));
					},
					Err(e) => t.op("p1 enact", &format!("err:{}", err_kind(&e))),
				}
			}
		}
		if inside_clean && sut.dirty >= 1 {
			let ntab = std::fs::read_dir(&sut.dir)
				.map(|d| {
					d.filter_map(|e| e.ok())
						.filter(|e| {
							let n = e.file_name().to_string_lossy().to_string();
							n.starts_with("table_") || n.starts_with("index_") || n.starts_with("refcount_")
						})
						.count()
				})
				.unwrap_or(0);
			let idx = if sut.dirty >= 2 && r2.chance(1, 2) {
				// between the reclaim of the first and of the second file (rewind + truncate each)
				ntab + 2 + r2.below(2 * (sut.dirty as u64 - 1)) as usize
			} else if r2.chance(2, 3) {
				ntab.saturating_sub(1) + r2.below(3 * sut.dirty as u64 + 3) as usize
			} else {
				r2.below((ntab + 3 * sut.dirty + 2) as u64) as usize
			};
			let nonempty_before = sut.log_files().iter().filter(|(_, l)| *l > 0).count();
			parity_db::set_number_of_allowed_io_operations(idx);
			let r = sut.db().clean_logs();
			parity_db::set_number_of_allowed_io_operations(usize::MAX);
			match r {
				Ok(()) => {
					sut.dirty = 0;
					sut.refresh_sizes();
					t.op("p1 clean", "ok");
					ctr.inc("p1r.midclean.completed");
				},
				Err(_) => {
					sut.refresh_sizes();
					let nonempty_after = sut.log_files().iter().filter(|(_, l)| *l > 0).count();
					t.comment(&format!(
						"p1r: crash inside clean_logs at file operation {}: {} of {} fully read files reclaimed",
						idx,
						nonempty_before - nonempty_after,
						sut.dirty
					));
					ctr.inc("p1r.midclean.interrupted");
					ctr.inc(&format!("p1r.midclean.reclaimed.{}.of.{}", nonempty_before - nonempty_after, sut.dirty));
				},
			}
		}
	}
	let img = fresh_dir(root, &format!("p1-{}-img{}", seed, rng.below(1 << 20)));
	copy_dir(&sut.dir, &img);
	let _ = std::fs::remove_file(img.join("lock"));
	// cut unsynced log tails; count how many unsynced transaction records stay complete
	let mut cut = false;
	let mut kept_len: BTreeMap<String, u64> = Default::default();
	if rng.chance(2, 3) {
		for e in std::fs::read_dir(&img).unwrap() {
			let e = e.unwrap();
			let n = e.file_name().to_string_lossy().to_string();
			if n.starts_with("log") {
				let len = e.metadata().unwrap().len();
				let synced = *sut.synced_len.get(&n).unwrap_or(&0);
				if len > synced {
					let keep = match rng.below(4) {
						0 => synced,
						1 => len,
						_ => rng.range(synced, len),
					};
					if keep < len {
						let f = std::fs::OpenOptions::new().write(true).open(e.path()).unwrap();
						f.set_len(keep).unwrap();
						cut = true;
						kept_len.insert(n, keep);
					}
				}
			}
		}
	}
	// records are replayed in order; the first incomplete one ends the replay
	let mut surviving_unsynced = 0usize;
	for (file, end, is_tx) in sut.appended.iter() {
		let keep = kept_len.get(file).copied().unwrap_or(u64::MAX);
		if *end <= keep {
			if *is_tx {
				surviving_unsynced += 1;
			}
		} else {
			break
		}
	}
	ctr.inc(if cut { "op.crash.cut_tail" } else { "op.crash.boundary" });
	// p1r: the log files of the crash image as `Log::open` will see them (>= 9 bytes), in file-number
	// order, each with the ids of its complete records READ from the image at the record offsets
	let files_line = {
		let mut fl: Vec<(u32, String)> = vec![];
		let mut first_ids: Vec<(u32, u64)> = vec![];
		let mut pool_reuse = false;
		for e in std::fs::read_dir(&img).unwrap() {
			let e = e.unwrap();
			let n = e.file_name().to_string_lossy().to_string();
			if !n.starts_with("log") {
				continue
			}
			let num: u32 = match n[3..].parse() {
				Ok(x) => x,
				Err(_) => continue,
			};
			let len = e.metadata().unwrap().len();
			if len < 9 {
				continue
			}
			let bytes = std::fs::read(e.path()).unwrap();
			let mut ids: Vec<String> = vec![];
			let mut start = 0u64;
			for end in sut.file_recs.get(&n).cloned().unwrap_or_default() {
				if end <= len && start + 9 <= len {
					let s0 = start as usize;
					ids.push(u64::from_le_bytes(bytes[s0 + 1..s0 + 9].try_into().unwrap()).to_string());
					start = end;
				} else {
					break
				}
			}
			if !ids.is_empty() {
				first_ids.push((num, ids[0].parse::<u64>().unwrap_or(0)));
				if sut.reused.contains(&n) {
					pool_reuse = true;
				}
			}
			fl.push((num, if ids.is_empty() { "-".to_string() } else { ids.join(",") }));
		}
		fl.sort();
		first_ids.sort();
		ctr.inc(&format!("p1r.files.count.{}", fl.len()));
		// p1r coverage: file-number order against age order
		ctr.inc(&format!("p1r.files.n{}", first_ids.len()));
		let inverted = first_ids.iter().enumerate().any(|(i, a)| first_ids[i + 1..].iter().any(|b| a.1 > b.1));
		if inverted {
			// some file with a lower number holds younger records than a file with a higher number:
			// the only images on which "replay in file-number order" differs from the real order
			ctr.inc("p1r.files.inverted");
		}
		if pool_reuse {
			ctr.inc("p1r.files.pool_reuse");
		}
		if first_ids.len() >= 2 {
			ctr.inc(if inverted { "p1r.files.multi.inverted" } else { "p1r.files.multi.in_number_order" });
		}
		let mut s = String::from("p1r files");
		for (num, ids) in fl {
			s.push_str(&format!(" {}:{}", num, ids));
		}
		s
	};
	let synced_txs = sut.n_enacted + sut.flushed;
	let sut_hi = sut.n_enacted + sut.logged;
	// abandon the old handle (its directory is discarded)
	let old_dir = sut.dir.clone();
	sut.close();
	let _ = std::fs::remove_dir_all(&old_dir);
	sut.dir = img.clone();
	let r = std::panic::catch_unwind(std::panic::AssertUnwindSafe(|| Db::open(&sut.cfg.options(&img))));
	let db = match r {
		Ok(Ok(db)) => db,
		Ok(Err(e)) => {
			t.oracle_fail(prop, &format!("recovery open failed: {:?}", e));
			return None
		},
		Err(_) => {
			t.oracle_fail(prop, "recovery open panicked");
			return None
		},
	};
	sut.db = Some(db);
	// the recovered prefix is determined by the records that are complete in the image
	let _ = sut_hi;
	let m = synced_txs + surviving_unsynced;
	if m >= prefix_states.len() {
		t.oracle_fail(prop, &format!("harness mirror inconsistent: m={} states={}", m, prefix_states.len()));
		return None
	}
	{
		// p1r: which prefix do the reads identify (the expected one if it fits, else any other)
		let fits = |o: &Oracle| -> bool {
			keys.iter().enumerate().all(|(c, ks)| {
				ks.iter().all(|k| sut.get(c as u8, k).ok().flatten() == o.cols[c].get(k).map(|x| x.0.clone()))
			})
		};
		let obs = if fits(&prefix_states[m]) {
			format!("ok prefix={}", m)
		} else {
			match (0..prefix_states.len()).find(|i| fits(&prefix_states[*i])) {
				Some(i) => format!("ok prefix={}", i),
				None => "prefix=none".to_string(),
			}
		};
		t.op(&files_line, &obs);
		ctr.inc("p1r.files_lines");
	}
	{
		let o = &prefix_states[m];
		for (c, ks) in keys.iter().enumerate() {
			for k in ks {
				let got = sut.get(c as u8, k).ok().flatten();
				let exp = o.cols[c].get(k).map(|x| x.0.clone());
				if got != exp {
					t.oracle_fail(
						prop,
						&format!(
							"after crash recovery (expected prefix {} of {}, synced {}): col={} key={} expected={:?} observed={:?}",
							m,
							prefix_states.len() - 1,
							synced_txs,
							c,
							hex(k),
							exp.map(|v| vals.render(&v)),
							got.map(|v| vals.render(&v))
						),
					);
					t.op(&format!("p1 crashto {}", m), "not-a-prefix");
					return None
				}
			}
		}
	}
	t.op(&format!("p1 crashto {}", m), "ok");
	sut.hist.truncate(m);
	sut.n_enacted = m;
	let _ = vals;
	Some(m)
}

pub fn params_for(prop: &str, thorough: bool) -> GenParams {
	match prop {
		"C07" => GenParams {
			max_actions: if thorough { 90 } else { 60 },
			allow_crash: true,
			allow_reopen: true,
			kinds: vec![Kind::Rc, Kind::Rc, Kind::Preimage],
			btree_ok: true,
			big_values: false,
		},
		"C02" | "C03" => GenParams {
			max_actions: if thorough { 80 } else { 50 },
			allow_crash: true,
			allow_reopen: true,
			kinds: vec![Kind::Plain, Kind::Plain, Kind::Rc, Kind::Preimage],
			btree_ok: true,
			big_values: true,
		},
		_ => GenParams {
			max_actions: if thorough { 90 } else { 60 },
			allow_crash: false,
			allow_reopen: true,
			kinds: vec![Kind::Plain, Kind::Plain, Kind::Plain, Kind::Preimage],
			btree_ok: true,
			big_values: true,
		},
	}
}

pub fn run(seeds: &[u64], thorough: bool, root: &Path, t: &mut Trace, ctr: &mut Counters, prop: &str) -> u64 {
	let p = params_for(prop, thorough);
	let mut fails = 0;
	for s in seeds.iter().copied() {
		if !run_case(s, &p, root, t, ctr, prop) {
			fails += 1;
			t.comment(&format!("FAILED-CASE seed={}", s));
		}
	}
	fails
}
