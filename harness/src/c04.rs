//! C04: btree columns are an ordered map with correct bidirectional iteration.
//!
//! Real `Db` with one btree-indexed column (plain or lz4-compressed values). Histories of
//! commits (sets / removals over a pool of keys of length 0..300, emphasis 253..257, keys
//! that are prefixes of each other, a few > 64 KiB in the thorough tier; pools of 5..400 keys;
//! batches of up to 200 changes; grow / churn / shrink phases) interleaved with stage steps
//! (process_commits / flush_logs / enact_logs / clean_logs) so that the data is spread over
//! commit overlay, log overlay and the tree files, with an iterator kept OPEN across commits
//! and driven by random seek / seek_to_first / seek_to_last / next / prev sequences.
//!
//! Oracle (independent of the Lean model): a `BTreeMap` of the committed state at the time
//! of each call and the logical position (Start / End / after `seek k` / after a step
//! returned K) as the property text defines it.  T2: after every processed commit the tree
//! (seen through the log overlay) is dumped by the `pdb_verif` hook and checked in Rust:
//! in-order keys strictly increasing and equal to the processed state, every leaf at the
//! header depth, node occupancy, no node reachable twice; its shape is compared with the
//! shape of the Lean model tree (`c04 tree`).
//!
//! Protocol lines (model command `c04`): `init`, `commit set:<hexkey>:<tok> del:<hexkey>..`,
//! `process`, `flush`, `enact`, `clean`, `get <hexkey>`, `iter new|seek <hexkey>|first|last|
//! next|prev`, `tree`, `xtree`, `reopen`, `sep <len> <fill> <addr>`; `ref:<hexkey>` in commits of rc columns.
//!
//! Node-stack cursor on the REAL tree (model command `c04b cursor`, Pdb/Model/BTreePipe.lean): after
//! every processed commit the dumped real tree (the `t2 tree` line) is loaded into the model
//! (`c04b cursor load` -> `ok` iff the Lean dump checker accepts it and it holds the keys of the model
//! tree) and every call on the real iterator is repeated as `c04b cursor new|seek|first|last|next|prev`
//! on the literal `BTreeIterState` stack cursor over that dump (same commit overlay and record id as
//! the pipeline model): the keys it yields must be the keys the real iterator returned.
//!
//! Reference-counted btree columns (one case in four: `ref_counted + preimage`, model `c04 init rc`):
//! transactions of Set (count + 1, first value kept) / Dereference (count - 1, removed at 0) /
//! Reference (count + 1 if present), repeated keys in one transaction (no de-duplication), value =
//! function of the key.  Oracle: an independent (value, count) map per key; with an empty queue
//! the iterator / `get` must show exactly the keys with positive count; while commits are queued
//! (the commit overlay does not mirror dereferences) every key with a positive committed count must
//! be shown, nothing outside {processed live keys, queued Sets} may be shown, no live key may be
//! skipped, and the value is the preimage.  The model predicts every answer exactly.  `c04 xtree`
//! compares the model tree node by node with the dump (the batched model `c04b apply` de-duplicates
//! and is not used for rc columns).
//!
//! Node bytes (model command `c04b node <hexbytes>`, Pdb/Model/BTreeNode.lean, harness/src/c04node.rs):
//! for every dumped node the raw entry bytes (hook field `NodeDump::encoded`) must equal an independent
//! re-encoding of the decoded node; a few nodes per dump (and one mutated byte string) are decoded by
//! the Lean model of `Node::from_encoded` and compared with the crate's decoding.
//!
//! Reopen in the middle of a case (1 % of the actions): drain, close, `Db::open`, new iterator
//! (`c04 reopen`).
//!
//! Batched tree update (model command `c04b`, Pdb/Model/BTreeBatch.lean: the literal
//! `Node::change` loop with several changes per descent): `c04b init`, `c04b apply <ops of
//! the processed commit>`, `c04b tree` -> `d=<depth> <nodes>` where every node is printed
//! with its separators (`<key length>.<fnv1a-64 of the key>`; leaf `[t t ..]`, internal
//! `(child t child .. child)`): compared EXACTLY, node by node, with the dumped tree of the
//! implementation after every processed commit; `c04b same` -> `yes` (the batched model tree
//! is identical to the tree of the one-change-per-descent model).
#[path = "c04node.rs"]
mod c04node;
#[path = "c04phys.rs"]
mod c04phys;

use crate::util::*;
use parity_db::{BTreeIterator, ColumnOptions, CompressionType, Db, Operation, Options};
use std::collections::{BTreeMap, BTreeSet, HashSet, VecDeque};
use std::ops::Bound;
use std::path::Path;

const ORDER: usize = 8;

#[derive(Clone, Debug)]
enum Op {
	Set(Vec<u8>, String),
	Del(Vec<u8>),
	Ref(Vec<u8>),
}

impl Op {
	fn key(&self) -> &Vec<u8> {
		match self {
			Op::Set(k, _) | Op::Del(k) | Op::Ref(k) => k,
		}
	}
}

/// Independent reference semantics of one operation on a column: plain = last write wins,
/// rc = (first value, count).
type Cells = BTreeMap<Vec<u8>, (Vec<u8>, u64)>;

fn apply_cell(cells: &mut Cells, rc: bool, op: &Op, vals: &mut Values) {
	match op {
		Op::Set(k, v) => {
			let b = vals.bytes(v);
			if rc {
				match cells.get_mut(k) {
					Some(c) => c.1 += 1,
					None => {
						cells.insert(k.clone(), (b, 1));
					},
				}
			} else {
				cells.insert(k.clone(), (b, 1));
			}
		},
		Op::Del(k) =>
			if rc {
				let gone = match cells.get_mut(k) {
					Some(c) => {
						c.1 -= 1;
						c.1 == 0
					},
					None => false,
				};
				if gone {
					cells.remove(k);
				}
			} else {
				cells.remove(k);
			},
		Op::Ref(k) =>
			if rc {
				if let Some(c) = cells.get_mut(k) {
					c.1 += 1;
				}
			},
	}
}

/// rc columns: the value is a function of the key (preimage)
fn rc_value(k: &[u8], vals: &mut Values) -> String {
	let h = fnv64(k);
	let len = match h % 7 {
		0 => 0,
		1..=4 => 1 + (h >> 8) % 40,
		5 => 40 + (h >> 8) % 300,
		_ => 30 + (h >> 8) % 4,
	};
	vals.canon(format!("v{}_{}", len, (h >> 20) & 0xfffffff))
}

fn key_only(r: &Result<Option<(Vec<u8>, Vec<u8>)>, parity_db::Error>) -> String {
	match r {
		Ok(None) => "none".into(),
		Ok(Some((k, _))) => hex(k),
		Err(e) => format!("err:{}", err_kind(e)),
	}
}

#[derive(Clone, Debug, PartialEq, Eq)]
enum Pos {
	Start,
	End,
	Seek(Vec<u8>),
	After(Vec<u8>),
}

impl Pos {
	fn name(&self) -> &'static str {
		match self {
			Pos::Start => "start",
			Pos::End => "end",
			Pos::Seek(_) => "seek",
			Pos::After(_) => "after",
		}
	}
	fn show(&self) -> String {
		match self {
			Pos::Start => "Start".into(),
			Pos::End => "End".into(),
			Pos::Seek(k) => format!("Seek({})", short(k)),
			Pos::After(k) => format!("After({})", short(k)),
		}
	}
}

fn short(k: &[u8]) -> String {
	if k.len() <= 12 {
		hex(k)
	} else {
		format!("{}..[{}]..{}", hex(&k[..4]), k.len(), hex(&k[k.len() - 4..]))
	}
}

/// What the property demands of `next` at logical position `pos` on the committed map.
fn expect_next(m: &BTreeMap<Vec<u8>, Vec<u8>>, pos: &Pos) -> Option<(Vec<u8>, Vec<u8>)> {
	let r = match pos {
		Pos::Start => m.iter().next(),
		Pos::End => None,
		Pos::Seek(k) => m.range::<Vec<u8>, _>((Bound::Included(k), Bound::Unbounded)).next(),
		Pos::After(k) => m.range::<Vec<u8>, _>((Bound::Excluded(k), Bound::Unbounded)).next(),
	};
	r.map(|(k, v)| (k.clone(), v.clone()))
}

fn expect_prev(m: &BTreeMap<Vec<u8>, Vec<u8>>, pos: &Pos) -> Option<(Vec<u8>, Vec<u8>)> {
	let r = match pos {
		Pos::Start => None,
		Pos::End => m.iter().next_back(),
		Pos::Seek(k) => m.range::<Vec<u8>, _>((Bound::Unbounded, Bound::Included(k))).next_back(),
		Pos::After(k) => m.range::<Vec<u8>, _>((Bound::Unbounded, Bound::Excluded(k))).next_back(),
	};
	r.map(|(k, v)| (k.clone(), v.clone()))
}

fn key_class(k: &[u8]) -> &'static str {
	match k.len() {
		0 => "len0",
		1..=8 => "len1_8",
		9..=252 => "len9_252",
		253..=257 => "len253_257",
		258..=300 => "len258_300",
		301..=65535 => "len301_65535",
		_ => "len_gt64k",
	}
}

fn gen_pool(rng: &mut Rng, n: usize, thorough: bool) -> Vec<Vec<u8>> {
	let alphabet: [u8; 8] = [0x00, 0x01, 0x61, 0x62, 0x7f, 0x80, 0xfe, 0xff];
	let mut seen: HashSet<Vec<u8>> = HashSet::new();
	let mut pool: Vec<Vec<u8>> = vec![];
	let mut huge = 0;
	// a long common stem so that several boundary-length keys differ only near the end
	let stem: Vec<u8> = (0..300).map(|i| alphabet[(i * 7 + 3) % 8]).collect();
	let mut guard = 0;
	while pool.len() < n && guard < n * 50 {
		guard += 1;
		let style = rng.below(100);
		let k: Vec<u8> = if style < 3 {
			vec![]
		} else if style < 30 {
			let len = rng.range(1, 8) as usize;
			(0..len).map(|_| *rng.pick(&alphabet)).collect()
		} else if style < 52 && !pool.is_empty() {
			// extension of an existing key: prefix relation
			let mut k = rng.pick(&pool).clone();
			if k.len() > 66000 {
				continue
			}
			let ext = rng.range(1, 3);
			for _ in 0..ext {
				k.push(*rng.pick(&alphabet));
			}
			k
		} else if style < 75 {
			// the 254 / 255 length-encoding boundary
			let len = rng.range(253, 257) as usize;
			let mut k = stem[..len].to_vec();
			if rng.chance(2, 3) {
				let cut = rng.range(1, 4) as usize;
				for i in 0..cut {
					k[len - 1 - i] = *rng.pick(&alphabet);
				}
			} else {
				for b in k.iter_mut() {
					if rng.chance(1, 16) {
						*b = *rng.pick(&alphabet);
					}
				}
			}
			k
		} else if style < 97 || !thorough || huge >= 2 {
			let len = rng.range(9, 300) as usize;
			if rng.chance(1, 2) {
				let mut k = stem[..len].to_vec();
				let p = rng.below(len as u64) as usize;
				k[p] = *rng.pick(&alphabet);
				k
			} else {
				(0..len).map(|_| (rng.next() & 0xff) as u8).collect()
			}
		} else {
			huge += 1;
			let len = rng.range(65530, 70000) as usize;
			let mut k: Vec<u8> = (0..len).map(|i| stem[i % 300]).collect();
			let p = rng.below(len as u64) as usize;
			k[p] = *rng.pick(&alphabet);
			k
		};
		if seen.insert(k.clone()) {
			pool.push(k);
		}
	}
	pool
}

fn gen_value(rng: &mut Rng, vals: &mut Values) -> String {
	let len = match rng.below(20) {
		0 => 0,
		1..=9 => rng.range(1, 24),
		10..=15 => rng.range(24, 120),
		16..=17 => rng.range(120, 600),
		18 => rng.range(600, 5000),
		_ => rng.range(30, 34),
	};
	vals.canon(format!("v{}_{}", len, rng.below(1 << 30)))
}

// ------------------------------------------------------------------ tree dump checks (T2)

struct DumpInfo {
	keys: Vec<Vec<u8>>,
	shape: String,
	nodes: usize,
	problems: Vec<String>,
	addresses: Vec<u64>,
}

fn fnv64(k: &[u8]) -> u64 {
	let mut h: u64 = 14695981039346656037;
	for b in k {
		h = (h ^ (*b as u64)).wrapping_mul(1099511628211);
	}
	h
}

fn key_tag(k: &[u8]) -> String {
	format!("{}.{:016x}", k.len(), fnv64(k))
}

/// Node-by-node rendering with the separators (the format of `c04b tree`).
fn exact_shape(n: &parity_db::verif::NodeDump, level: u32, depth: u32) -> String {
	let tags: Vec<String> = n.separators.iter().map(|(k, _)| key_tag(k)).collect();
	if level >= depth {
		format!("[{}]", tags.join(" "))
	} else {
		// c0 t0 c1 t1 .. : every separator is followed by the child to its right
		let mut parts: Vec<String> = vec![];
		let kids: Vec<String> = n
			.children
			.iter()
			.take_while(|(a, _)| *a != 0)
			.map(|(_, c)| match c {
				Some(c) => exact_shape(c, level + 1, depth),
				None => "?".into(),
			})
			.collect();
		if let Some(k0) = kids.first() {
			parts.push(k0.clone());
			for (t, k) in tags.iter().zip(kids.iter().skip(1)) {
				parts.push(t.clone());
				parts.push(k.clone());
			}
		}
		format!("({})", parts.join(" "))
	}
}

fn exact_line(d: &parity_db::verif::TreeDump) -> String {
	match &d.root_node {
		None => format!("d={} []", d.depth),
		Some(r) => format!("d={} {}", d.depth, exact_shape(r, 0, d.depth)),
	}
}

fn ops_line(prefix: &str, ops: &[Op]) -> String {
	let mut line = String::from(prefix);
	for op in ops {
		match op {
			Op::Set(k, v) => line.push_str(&format!(" set:{}:{}", hex(k), v)),
			Op::Del(k) => line.push_str(&format!(" del:{}", hex(k))),
			Op::Ref(k) => line.push_str(&format!(" ref:{}", hex(k))),
		}
	}
	line
}

fn walk(
	n: &parity_db::verif::NodeDump,
	level: u32,
	depth: u32,
	is_root: bool,
	out: &mut DumpInfo,
) -> String {
	out.nodes += 1;
	out.addresses.push(n.address);
	let ns = n.separators.len();
	if n.stray_separators != 0 {
		out.problems.push(format!("node {:#x}: separator after an empty slot", n.address));
	}
	if ns > ORDER {
		out.problems.push(format!("node {:#x}: {} separators > ORDER", n.address, ns));
	}
	let is_leaf = level == depth;
	if !is_root && ns < ORDER / 2 {
		out.problems.push(format!("non-root node {:#x} at level {} has {} < ORDER/2 separators", n.address, level, ns));
	}
	if is_root && !is_leaf && ns == 0 {
		out.problems.push("internal root without separator".into());
	}
	for (_, a) in &n.separators {
		if *a == 0 {
			out.problems.push(format!("node {:#x}: separator with null value address", n.address));
		}
	}
	if is_leaf {
		for (i, (addr, _)) in n.children.iter().enumerate() {
			if *addr != 0 {
				out.problems.push(format!("leaf {:#x} at header depth has child {} ({:#x})", n.address, i, addr));
			}
		}
		for (k, _) in &n.separators {
			out.keys.push(k.clone());
		}
		format!("L{}", ns)
	} else {
		let mut parts = vec![];
		for (i, (addr, child)) in n.children.iter().enumerate() {
			if i <= ns {
				match child {
					Some(c) => parts.push(walk(c, level + 1, depth, false, out)),
					None => {
						out.problems.push(format!(
							"internal node {:#x} at level {} misses child {} (leaf above header depth {})",
							n.address, level, i, depth
						));
						parts.push("?".into());
					},
				}
				if i < ns {
					out.keys.push(n.separators[i].0.clone());
				}
			} else if *addr != 0 {
				out.problems.push(format!("node {:#x}: child slot {} beyond separators+1 is set", n.address, i));
			}
		}
		format!("N({})", parts.join(","))
	}
}

/// T2 rendering of a btree dump (format: lean/Pdb/Model/DumpCheck.lean, command `t2 tree`):
/// `<root> <depth> { N <address> <nsep> { <keyhex> <value_address> }* { <child_address> }* }*`,
/// child slots without the trailing empty ones.  The Lean driver rebuilds the model tree and
/// evaluates `treeInvB` (TreeInv of the C04 theorems) on it.
fn t2_tree(d: &parity_db::verif::TreeDump) -> Option<String> {
	fn node(n: &parity_db::verif::NodeDump, out: &mut String) {
		out.push_str(&format!(" N {} {}", n.address, n.separators.len()));
		for (k, v) in &n.separators {
			out.push_str(&format!(" {} {}", hex(k), v));
		}
		let last = n.children.iter().rposition(|(a, _)| *a != 0).map_or(0, |i| i + 1);
		for (a, _) in &n.children[..last] {
			out.push_str(&format!(" {}", a));
		}
		for (_, c) in &n.children[..last] {
			if let Some(c) = c {
				node(c, out);
			}
		}
	}
	let mut s = format!("t2 tree {} {}", d.root, d.depth);
	if let Some(r) = &d.root_node {
		node(r, &mut s);
	}
	if s.len() > 200 * 1024 {
		return None
	}
	Some(s)
}

/// Emits the `t2 tree` line and loads the same dump into the cursor model (`c04b cursor load`
/// without arguments = the dump of the last `t2 tree` line). Returns whether the cursor model holds
/// the current real tree.
fn t2_tree_emit(d: &parity_db::verif::TreeDump, t: &mut Trace, ctr: &mut Counters) -> bool {
	match t2_tree(d) {
		Some(line) => {
			ctr.inc("t2.tree.lines");
			ctr.add("t2.bytes", line.len() as u64);
			t.op(&line, "ok");
			t.op("c04b cursor load", "ok");
			ctr.inc("cursor.load");
			true
		},
		None => {
			ctr.inc("t2.skipped.tree_too_big");
			false
		},
	}
}

/// Returns the canonical line compared with the model (`c04 tree`) and the oracle problems.
fn check_dump(d: &parity_db::verif::TreeDump, expected: &BTreeMap<Vec<u8>, Vec<u8>>) -> (String, Vec<String>, u32) {
	let mut info = DumpInfo { keys: vec![], shape: String::new(), nodes: 0, problems: vec![], addresses: vec![] };
	match &d.root_node {
		None => {
			info.shape = "L0".into();
			if d.depth != 0 {
				info.problems.push(format!("null root with depth {}", d.depth));
			}
		},
		Some(r) => {
			info.shape = walk(r, 0, d.depth, true, &mut info);
		},
	}
	for w in info.keys.windows(2) {
		if w[0] >= w[1] {
			info.problems.push(format!("in-order keys not strictly increasing: {} !< {}", short(&w[0]), short(&w[1])));
			break
		}
	}
	let mut a = info.addresses.clone();
	a.sort();
	a.dedup();
	if a.len() != info.addresses.len() {
		info.problems.push("a node address is reachable twice".into());
	}
	let exp: Vec<&Vec<u8>> = expected.keys().collect();
	if exp.len() != info.keys.len() || exp.iter().zip(info.keys.iter()).any(|(a, b)| *a != b) {
		info.problems.push(format!(
			"tree keys ({}) differ from the processed state ({})",
			info.keys.len(),
			exp.len()
		));
	}
	let line = format!(
		"d={} n={} {} inv={}",
		d.depth,
		info.keys.len(),
		info.shape,
		if info.problems.is_empty() { "ok" } else { "bad" }
	);
	(line, info.problems, d.depth)
}

// ------------------------------------------------------------------ the system under test

struct Stages {
	queued: usize,
	logged: usize,
	flushed: usize,
	unread_files: usize,
	dirty: usize,
	n_processed: usize,
	n_enacted: usize,
}

fn options(dir: &Path, compression: CompressionType, threshold: Option<u32>, rc: bool) -> Options {
	let mut o = Options::with_columns(dir, 1);
	o.columns[0] = ColumnOptions {
		preimage: rc,
		uniform: false,
		ref_counted: rc,
		compression,
		btree_index: true,
		multitree: false,
		append_only: false,
		allow_direct_node_access: false,
	};
	if let Some(t) = threshold {
		o.compression_threshold.insert(0, t);
	}
	o.with_background_thread = false;
	o.always_flush = true;
	o.stats = false;
	o.sync_wal = true;
	o.sync_data = true;
	o
}

fn res(r: &Result<(), parity_db::Error>) -> String {
	match r {
		Ok(()) => "ok".into(),
		Err(e) => format!("err:{}", err_kind(e)),
	}
}

fn show_item(r: &Result<Option<(Vec<u8>, Vec<u8>)>, parity_db::Error>, vals: &Values) -> String {
	match r {
		Ok(None) => "none".into(),
		Ok(Some((k, v))) => format!("{} {}", hex(k), vals.render(v)),
		Err(e) => format!("err:{}", err_kind(e)),
	}
}

struct Case<'a> {
	t: &'a mut Trace,
	ctr: &'a mut Counters,
	prop: &'a str,
	ok: bool,
	/// configuration of the physical-column check (`c04b phys`, after a reopen)
	phys: c04phys::PhysCfg,
}

impl<'a> Case<'a> {
	fn fail(&mut self, msg: &str) {
		self.t.oracle_fail(self.prop, msg);
		self.ok = false;
	}
}

pub fn run(
	seeds: &[u64],
	thorough: bool,
	root: &Path,
	t: &mut Trace,
	ctr: &mut Counters,
	prop: &str,
) -> u64 {
	let mut fails = 0;
	for s in seeds {
		if !run_case(*s, thorough, root, t, ctr, prop) {
			fails += 1;
			t.comment(&format!("FAILED-CASE seed={}", s));
		}
	}
	fails
}

/// Tree dump after a processed commit / drain / reopen: oracle checks on the dump, node-by-node
/// comparison with the model tree, `t2 tree`, cursor model load. Returns (depth, cursor model loaded).
fn dump_check(
	db: &Db,
	c: &mut Case,
	expected: &BTreeMap<Vec<u8>, Vec<u8>>,
	rc: bool,
	what: &str,
	same: bool,
) -> (u32, bool) {
	match parity_db::verif::btree_dump(db, 0) {
		Ok(d) => {
			let (line, problems, depth) = check_dump(&d, expected);
			if rc {
				// the rc pipeline model prints its own tree node by node
				c.t.op("c04 xtree", &exact_line(&d));
				c.ctr.inc("rc.tree_exact");
			} else {
				// the batched model must reproduce the implementation's tree node by node
				c.t.op("c04b tree", &exact_line(&d));
				if same {
					c.t.op("c04b same", "yes");
				}
				c.ctr.inc("c04b.tree_exact");
			}
			for p in problems {
				c.fail(&format!("TreeInv{}: {}", what, p));
			}
			c.t.op("c04 tree", &line);
			let loaded = t2_tree_emit(&d, c.t, c.ctr);
			// node byte layout: oracle on every node, `c04b node` lines for a few of them
			for p in c04node::node_lines(&d, c.t, c.ctr, 2) {
				c.fail(&format!("NodeBytes{}: {}", what, p));
			}
			// physical column (R8): only on a quiescent handle (files = state, no log overlay)
			if what == " after reopen" {
				let cfg = c.phys.clone();
				for p in c04phys::phys_lines(db, &d, expected, &cfg, c.t, c.ctr) {
					c.fail(&format!("PhysColumn{}: {}", what, p));
				}
			}
			(depth, loaded)
		},
		Err(e) => {
			c.fail(&format!("tree dump{} failed: {:?}", what, e));
			(0, false)
		},
	}
}

/// leave no more than the dirty-log limit behind (F7 guard), then close
fn close_db(db: Db, unread_files: usize) {
	let _ = db.flush_logs();
	let mut guard = 0;
	loop {
		let _ = db.clean_logs();
		if db.enact_logs().is_err() {
			break
		}
		guard += 1;
		if guard > (unread_files + 4) {
			break
		}
	}
	let _ = db.clean_logs();
	drop(db);
}

fn sync_live(live: &mut BTreeMap<Vec<u8>, Vec<u8>>, cells: &Cells, k: &Vec<u8>) {
	match cells.get(k) {
		Some((v, _)) => {
			live.insert(k.clone(), v.clone());
		},
		None => {
			live.remove(k);
		},
	}
}

fn run_case(seed: u64, thorough: bool, root: &Path, t: &mut Trace, ctr: &mut Counters, prop: &str) -> bool {
	let mut rng = Rng::new(seed);
	let compression = if rng.chance(1, 2) { CompressionType::Lz4 } else { CompressionType::NoCompression };
	let threshold = match rng.below(3) {
		0 => Some(16),
		_ => None,
	};
	// reference-counted (+ preimage) btree column: own random stream, so that the other cases
	// are the cases of the earlier runs
	let rc = Rng::new(seed ^ 0x5243_3034).chance(1, 4);
	// one case in eight starts with an ascending fill of a large pool: sorted insertion
	// leaves half-full nodes, so the tree reaches depth 3 with 400 keys
	let deep = rng.chance(1, 8);
	let pool_n = if deep {
		if thorough { rng.range(400, 1200) } else { 400 }
	} else {
		match rng.below(10) {
			0..=2 => rng.range(5, 20),
			3..=6 => rng.range(20, 100),
			_ => rng.range(100, if thorough { 1200 } else { 400 }),
		}
	} as usize;
	let pool = gen_pool(&mut rng, pool_n, thorough);
	let mut sorted_pool = pool.clone();
	sorted_pool.sort();
	let nact = if thorough { rng.range(80, 260) } else { rng.range(50, 150) } as usize;
	let mut vals = Values::default();
	let cname = match compression {
		CompressionType::Lz4 => "lz4",
		_ => "plain",
	};
	t.begin_case(&format!(
		"seed={} btree+{}{} pool={} actions={}",
		seed,
		cname,
		if rc { "+rc" } else { "" },
		pool.len(),
		nact
	));
	let model_variant = std::env::var("C04_MODEL_VARIANT").unwrap_or_default();
	let mut init = String::from("c04 init");
	if model_variant == "unpatched" {
		init.push_str(" unpatched");
	}
	if rc {
		init.push_str(" rc");
	}
	t.op(&init, "ok");
	if !rc {
		t.op("c04b init", "ok");
	}
	ctr.inc(&format!("cfg.{}", cname));
	ctr.inc(if rc { "cfg.rc" } else { "cfg.norc" });
	ctr.inc(match pool.len() {
		0..=19 => "pool.5_19",
		20..=99 => "pool.20_99",
		_ => "pool.100_400",
	});
	let mut c = Case {
		t,
		ctr,
		prop,
		ok: true,
		phys: c04phys::PhysCfg { compression, threshold, rc, pool: pool.clone() },
	};

	// separator codec (b): a few lengths per case against the real Entry::{write,read}_separator
	for _ in 0..3 {
		let len = match rng.below(10) {
			0..=4 => rng.range(250, 260),
			5..=7 => rng.range(0, 300),
			8 => *rng.pick(&[65535u64, 65536, 65537]),
			_ => rng.range(300, 70000),
		} as usize;
		let fill = rng.below(256) as u8;
		let addr = (rng.next() >> 8) | 1;
		let key = vec![fill; len];
		let (bytes, back) = parity_db::verif::separator_codec(&key, addr);
		let hl = if len >= 255 { 13 } else { 9 };
		let rt = matches!(&back, Ok(Some((k, a))) if *k == key && *a == addr);
		// independent reference of the layout
		let mut refb = addr.to_le_bytes().to_vec();
		if len >= 255 {
			refb.push(255);
			refb.extend_from_slice(&(len as u32).to_le_bytes());
		} else {
			refb.push(len as u8);
		}
		refb.extend_from_slice(&key);
		if refb != bytes || !rt {
			c.fail(&format!("separator codec len={} fill={} addr={}: layout-ok={} roundtrip={}", len, fill, addr, refb == bytes, rt));
		}
		c.t.op(
			&format!("c04 sep {} {} {}", len, fill, addr),
			&format!("{} {} {}", hex(&bytes[..hl]), bytes.len(), if rt { "roundtrip" } else { "no-roundtrip" }),
		);
		c.ctr.inc(if len >= 255 { "sep.escaped" } else { "sep.short" });
	}

	let dir = fresh_dir(root, &format!("c04-{}", seed));
	let opts = options(&dir, compression, threshold, rc);
	// the oracle's state: cells (value, count) and the live maps derived from them
	let mut cells_c: Cells = BTreeMap::new(); // all accepted commits
	let mut cells_p: Cells = BTreeMap::new(); // processed commits
	let mut committed: BTreeMap<Vec<u8>, Vec<u8>> = BTreeMap::new();
	let mut processed: BTreeMap<Vec<u8>, Vec<u8>> = BTreeMap::new();
	let mut last_writer: BTreeMap<Vec<u8>, usize> = BTreeMap::new();
	let mut n_commits = 0usize;
	let mut max_depth = 0u32;
	let mut layers_seen: BTreeSet<&'static str> = BTreeSet::new();
	let mut reopened_mid = false;
	{
		let mut db = Db::open_or_create(&opts).expect("create");
		let mut st = Stages { queued: 0, logged: 0, flushed: 0, unread_files: 0, dirty: 0, n_processed: 0, n_enacted: 0 };
		let mut pending: VecDeque<Vec<Op>> = VecDeque::new();
		let mut it: BTreeIterator = db.iter(0).expect("iter");
		c.t.op("c04 iter new", "ok");
		c.t.op("c04b cursor new", "ok");
		// does the cursor model hold the current real tree? (initially both are empty)
		let mut cursor_ok = true;
		// is the cursor model's iterator in the state of the real one? (lost when a call could not be
		// repeated on it because the dump was too big to be sent; regained at the next seek / new)
		let mut cursor_synced = true;
		let mut pos = Pos::Start;
		let mut last_call = "new";
		let mut last_since_reset = false;
		let mut last_dir: Option<bool> = None;
		let mut commits_since_call = 0usize;
		let mut processed_since_call = 0usize;
		let mut mode = 0u64; // 0 grow, 1 churn, 2 shrink
		let mut forced_ops: VecDeque<Vec<Op>> = VecDeque::new();
		let mut force_process = 0usize;
		if deep {
			for chunk in sorted_pool.chunks(200) {
				let ops: Vec<Op> = chunk
					.iter()
					.map(|k| {
						let v = if rc { rc_value(k, &mut vals) } else { gen_value(&mut rng, &mut vals) };
						Op::Set(k.clone(), v)
					})
					.collect();
				forced_ops.push_back(ops);
			}
			c.ctr.inc("cases.deep_fill");
		}

		// one processed commit: oracle state, batched model
		macro_rules! note_processed {
			($done:expr) => {{
				let done: Vec<Op> = $done;
				if !rc {
					c.t.op(&ops_line("c04b apply", &done), "ok");
					c.ctr.inc("c04b.apply");
				}
				for op in &done {
					apply_cell(&mut cells_p, rc, op, &mut vals);
					sync_live(&mut processed, &cells_p, op.key());
				}
			}};
		}

		for step in 0..nact {
			if step % 12 == 0 {
				mode = match rng.below(10) {
					0..=4 => 0,
					5..=7 => 1,
					_ => 2,
				};
			}
			let a = if !forced_ops.is_empty() {
				0
			} else if force_process > 0 {
				force_process -= 1;
				30
			} else {
				rng.below(100)
			};
			if a < 24 {
				// ---------------------------------------------------------------- commit
				let bulk = rng.chance(1, 4);
				let nops = if bulk {
					rng.range(20, std::cmp::min(200, std::cmp::max(20, pool.len() as u64)))
				} else {
					rng.range(1, 6)
				} as usize;
				let set_pct = match mode {
					0 => 88,
					1 => 55,
					_ => 15,
				};
				let mut ops: Vec<Op> = vec![];
				let forced = forced_ops.pop_front();
				let bulk = bulk || forced.is_some();
				let contiguous = forced.is_none() && bulk && rng.chance(1, 2);
				let nops = if forced.is_some() { 0 } else { nops };
				if let Some(f) = forced {
					ops = f;
					force_process += 1;
				}
				if contiguous {
					// a contiguous run of the sorted pool: ascending fills leave half-full nodes
					// (deep trees), range deletions cause cascades of merges and root removal
					let start = rng.below(sorted_pool.len() as u64) as usize;
					let end = std::cmp::min(sorted_pool.len(), start + nops);
					for k in &sorted_pool[start..end] {
						if mode == 2 {
							ops.push(Op::Del(k.clone()));
						} else {
							let v = if rc { rc_value(k, &mut vals) } else { gen_value(&mut rng, &mut vals) };
							ops.push(Op::Set(k.clone(), v));
						}
					}
					if rng.chance(1, 2) {
						// the transaction need not be sorted
						for i in (1..ops.len()).rev() {
							let j = rng.below(i as u64 + 1) as usize;
							ops.swap(i, j);
						}
					}
					c.ctr.inc("commit.contiguous");
				}
				for _ in 0..(if contiguous { 0 } else { nops }) {
					let dup_one_in = if rc { 5 } else { 12 };
					let k = if !ops.is_empty() && rng.chance(1, dup_one_in) {
						// the same key twice in one transaction (stable sort; without rc the last one
						// wins, with rc every operation counts)
						ops[rng.below(ops.len() as u64) as usize].key().clone()
					} else if mode == 2 && !committed.is_empty() && rng.chance(3, 4) {
						// delete-heavy: pick a live key
						let probe = rng.pick(&pool).clone();
						committed
							.range::<Vec<u8>, _>((Bound::Included(&probe), Bound::Unbounded))
							.next()
							.or_else(|| committed.iter().next())
							.map(|(k, _)| k.clone())
							.unwrap()
					} else {
						rng.pick(&pool).clone()
					};
					if rng.below(100) < set_pct {
						if rc && rng.chance(1, 5) {
							ops.push(Op::Ref(k));
						} else {
							let v = if rc { rc_value(&k, &mut vals) } else { gen_value(&mut rng, &mut vals) };
							ops.push(Op::Set(k, v));
						}
					} else {
						ops.push(Op::Del(k));
					}
				}
				let tx: Vec<(u8, Operation<Vec<u8>, Vec<u8>>)> = ops
					.iter()
					.map(|op| match op {
						Op::Set(k, v) => (0u8, Operation::Set(k.clone(), vals.bytes(v))),
						Op::Del(k) => (0u8, Operation::Dereference(k.clone())),
						Op::Ref(k) => (0u8, Operation::Reference(k.clone())),
					})
					.collect();
				let r = db.commit_changes(tx);
				c.t.op(&ops_line("c04 commit", &ops), &res(&r));
				if r.is_err() {
					c.fail(&format!("commit rejected: {:?}", r.err()));
					break
				}
				for op in &ops {
					let before = cells_c.get(op.key()).map(|c| c.1).unwrap_or(0);
					apply_cell(&mut cells_c, rc, op, &mut vals);
					sync_live(&mut committed, &cells_c, op.key());
					let after = cells_c.get(op.key()).map(|c| c.1).unwrap_or(0);
					match op {
						Op::Set(k, _) => {
							c.ctr.inc(&format!("key.{}", key_class(k)));
							c.ctr.inc("op.set");
						},
						Op::Del(_) => c.ctr.inc("op.del"),
						Op::Ref(_) => c.ctr.inc("op.ref"),
					}
					if rc {
						if after >= 2 && after > before {
							c.ctr.inc("rc.count_raised_to_2plus");
						}
						if before >= 2 && after < before {
							c.ctr.inc("rc.count_lowered_kept");
						}
						if before == 1 && after == 0 {
							c.ctr.inc("rc.removed_at_zero");
						}
						if before == 0 && after == 0 {
							c.ctr.inc("rc.op_on_absent");
						}
					}
					last_writer.insert(op.key().clone(), n_commits);
				}
				n_commits += 1;
				st.queued += 1;
				pending.push_back(ops);
				commits_since_call += 1;
				c.ctr.inc(if bulk { "commit.bulk" } else { "commit.small" });
			} else if a < 46 {
				// ---------------------------------------------------------------- process
				let r = db.process_commits();
				c.t.op("c04 process", &res(&r));
				c.ctr.inc("op.process");
				if r.is_err() {
					c.fail(&format!("process_commits failed: {:?}", r.err()));
					break
				}
				if st.queued > 0 {
					st.queued -= 1;
					st.logged += 1;
					st.n_processed += 1;
					processed_since_call += 1;
					note_processed!(pending.pop_front().unwrap());
					// T2: dump the tree as seen through the log overlay
					let (depth, loaded) = dump_check(&db, &mut c, &processed, rc, "", true);
					cursor_ok = loaded;
					c.ctr.inc(&format!("tree.depth.{}", depth));
					max_depth = std::cmp::max(max_depth, depth);
				}
			} else if a < 52 {
				let r = db.flush_logs();
				c.t.op("c04 flush", &res(&r));
				c.ctr.inc("op.flush");
				if st.logged > st.flushed {
					st.flushed = st.logged;
					st.unread_files += 1;
				}
			} else if a < 60 {
				// enact every flushed record (one log file per call), cleaning when needed
				let mut r = Ok(());
				let mut guard = 0;
				while st.unread_files > 0 || guard == 0 {
					if st.dirty >= 3 {
						r = db.clean_logs();
						st.dirty = 0;
					}
					if r.is_ok() {
						r = db.enact_logs();
					}
					if st.unread_files > 0 {
						st.unread_files -= 1;
						st.dirty += 1;
					}
					guard += 1;
					if guard > 64 || r.is_err() {
						break
					}
				}
				st.n_enacted += st.flushed;
				st.logged -= st.flushed;
				st.flushed = 0;
				c.t.op("c04 enact", &res(&r));
				c.ctr.inc("op.enact");
			} else if a < 63 {
				let r = db.clean_logs();
				st.dirty = 0;
				c.t.op("c04 clean", &res(&r));
				c.ctr.inc("op.clean");
			} else if a < 64 {
				// ---------------------------------------------------------------- reopen
				drop(it);
				let mut ok = true;
				while st.queued > 0 {
					let r = db.process_commits();
					if r.is_err() {
						c.fail(&format!("process_commits (drain before reopen) failed: {:?}", r.err()));
						ok = false;
						break
					}
					st.queued -= 1;
					st.n_processed += 1;
					note_processed!(pending.pop_front().unwrap());
				}
				close_db(db, st.unread_files + st.logged + 2);
				match Db::open(&opts) {
					Ok(d) => db = d,
					Err(e) => {
						c.fail(&format!("reopen in the middle of the case failed: {:?}", e));
						// keep the borrow checker happy: a fresh handle is needed to go on
						db = Db::open_or_create(&opts).expect("reopen after failure");
						ok = false;
					},
				}
				c.t.op("c04 reopen", "ok");
				c.ctr.inc("op.reopen");
				reopened_mid = true;
				st = Stages {
					queued: 0,
					logged: 0,
					flushed: 0,
					unread_files: 0,
					dirty: 0,
					n_processed: st.n_processed,
					n_enacted: st.n_processed,
				};
				let (depth, loaded) = dump_check(&db, &mut c, &processed, rc, " after reopen", true);
				cursor_ok = loaded;
				max_depth = std::cmp::max(max_depth, depth);
				it = db.iter(0).expect("iter");
				cursor_synced = true; // `c04 reopen` gave the cursor model a new iterator as well
				pos = Pos::Start;
				last_since_reset = false;
				last_call = "new";
				last_dir = None;
				if !ok {
					break
				}
			} else if a < 68 {
				// ---------------------------------------------------------------- point reads
				for _ in 0..3 {
					let k = rng.pick(&pool).clone();
					let got = db.get(0, &k);
					let obs = match &got {
						Ok(Some(v)) => format!("some {}", vals.render(v)),
						Ok(None) => "none".into(),
						Err(e) => format!("err:{}", err_kind(e)),
					};
					c.t.op(&format!("c04 get {}", hex(&k)), &obs);
					c.ctr.inc("op.get");
					let exact = !rc || pending.is_empty();
					let good = match &got {
						Err(_) => false,
						Ok(g) if exact => *g == committed.get(&k).cloned(),
						Ok(Some(v)) => {
							// rc column with queued commits: a queued dereference may not be visible yet
							let upper = committed.contains_key(&k) ||
								processed.contains_key(&k) ||
								pending.iter().any(|tx| tx.iter().any(|op| matches!(op, Op::Set(k2, _) if *k2 == k)));
							let pre = rc_value(&k, &mut vals);
							upper && *v == vals.bytes(&pre)
						},
						Ok(None) => !committed.contains_key(&k),
					};
					if !good {
						c.fail(&format!(
							"get key={} expected={:?} observed={} (rc={} queued={})",
							short(&k),
							committed.get(&k).map(|v| vals.render(v)),
							obs,
							rc,
							pending.len()
						));
					}
				}
			} else {
				// ---------------------------------------------------------------- iterator burst
				let ncalls = rng.range(1, 7);
				for _ in 0..ncalls {
					let kind = rng.below(100);
					// favour the patterns of the known defects: a step right after seek_to_last,
					// prev on a new iterator
					if kind < 3 {
						drop(it);
						it = db.iter(0).expect("iter");
						c.t.op("c04 iter new", "ok");
						c.t.op("c04b cursor new", "ok");
						cursor_synced = true;
						pos = Pos::Start;
						last_since_reset = false;
						last_call = "new";
						last_dir = None;
						c.ctr.inc("call.new");
					} else if kind < 15 {
						let k = if rng.chance(2, 3) {
							rng.pick(&pool).clone()
						} else {
							// a key that is in no pool: truncate or extend a pool key
							let mut k = rng.pick(&pool).clone();
							if rng.chance(1, 2) && !k.is_empty() {
								k.truncate(rng.below(k.len() as u64) as usize);
							} else {
								k.push((rng.next() & 0xff) as u8);
							}
							k
						};
						let r = it.seek(&k);
						c.t.op(&format!("c04 iter seek {}", hex(&k)), &res(&r));
						if cursor_ok {
							c.t.op(&format!("c04b cursor seek {}", hex(&k)), &res(&r));
						}
						cursor_synced = cursor_ok;
						pos = Pos::Seek(k);
						last_since_reset = false;
						last_call = "seek";
						last_dir = None;
						c.ctr.inc("call.seek");
					} else if kind < 19 {
						let r = it.seek_to_first();
						c.t.op("c04 iter first", &res(&r));
						if cursor_ok {
							c.t.op("c04b cursor first", &res(&r));
						}
						cursor_synced = cursor_ok;
						pos = Pos::Seek(vec![]);
						last_since_reset = false;
						last_call = "first";
						last_dir = None;
						c.ctr.inc("call.seek_to_first");
					} else if kind < 27 {
						let r = it.seek_to_last();
						c.t.op("c04 iter last", &res(&r));
						if cursor_ok {
							c.t.op("c04b cursor last", &res(&r));
						}
						cursor_synced = cursor_ok;
						pos = Pos::End;
						last_since_reset = true;
						last_call = "last";
						last_dir = None;
						c.ctr.inc("call.seek_to_last");
					} else {
						// keep direction with probability 2/3
						let fwd = match (&pos, last_dir) {
							// at the ends mostly turn around (a few calls still probe the end)
							(Pos::End, _) if rng.chance(5, 6) => false,
							(Pos::Start, _) if rng.chance(5, 6) => true,
							(_, Some(d)) if rng.chance(2, 3) => d,
							_ => rng.chance(1, 2),
						};
						if let Some(d) = last_dir {
							if d != fwd {
								c.ctr.inc("call.direction_change");
							}
						}
						let (got, exp, name) = if fwd {
							(it.next(), expect_next(&committed, &pos), "next")
						} else {
							(it.prev(), expect_prev(&committed, &pos), "prev")
						};
						let obs = show_item(&got, &vals);
						c.t.op(&format!("c04 iter {}", name), &obs);
						if cursor_ok && cursor_synced {
							// the literal stack cursor over the dumped real tree must yield the same key
							c.t.op(&format!("c04b cursor {}", name), &key_only(&got));
							c.ctr.inc("cursor.step");
						} else {
							cursor_synced = false;
							c.ctr.inc("cursor.step_skipped");
						}
						c.ctr.inc(&format!("call.{}", name));
						c.ctr.inc(&format!("pos.{}.{}", pos.name(), name));
						if commits_since_call > 0 {
							c.ctr.inc("call.after_commit");
						}
						if processed_since_call > 0 {
							c.ctr.inc("call.after_process");
						}
						if st.queued > 0 && st.logged > 0 {
							c.ctr.inc("call.overlay+log+tree");
						} else if st.queued > 0 {
							c.ctr.inc("call.overlay+tree");
						} else if st.logged > 0 {
							c.ctr.inc("call.log+tree");
						} else {
							c.ctr.inc("call.tree_only");
						}
						match &got {
							Ok(g) => {
								match g {
									None => c.ctr.inc("ans.none"),
									Some((k, _)) => {
										let w = last_writer.get(k).cloned().unwrap_or(0);
										let layer = if w >= st.n_processed {
											"overlay"
										} else if w >= st.n_enacted {
											"log"
										} else {
											"file"
										};
										layers_seen.insert(layer);
										c.ctr.inc(&format!("ans.layer.{}", layer));
									},
								}
								let exact = !rc || pending.is_empty();
								let good = if exact {
									*g == exp
								} else {
									// rc column with queued commits (the commit overlay does not mirror
									// dereferences): every live key must be shown, nothing that was never
									// visible may be shown, the value is the preimage
									c.ctr.inc("rc.call_with_queue");
									match g {
										None => exp.is_none(),
										Some((k, v)) => {
											let pos_ok = match (&pos, fwd) {
												(Pos::Start, true) | (Pos::End, false) => true,
												(Pos::Seek(s), true) => k >= s,
												(Pos::Seek(s), false) => k <= s,
												(Pos::After(s), true) => k > s,
												(Pos::After(s), false) => k < s,
												_ => false,
											};
											let upper = committed.contains_key(k) ||
												processed.contains_key(k) ||
												pending.iter().any(|tx| {
													tx.iter().any(|op| matches!(op, Op::Set(k2, _) if k2 == k))
												});
											let pre = rc_value(k, &mut vals);
											let value_ok = *v == vals.bytes(&pre);
											let no_skip = match &exp {
												None => true,
												Some((lk, _)) =>
													if fwd {
														lk >= k
													} else {
														lk <= k
													},
											};
											if !committed.contains_key(k) {
												c.ctr.inc("rc.lag_visible");
											}
											pos_ok && upper && value_ok && no_skip
										},
									}
								};
								if !good {
									let shape = if last_call == "last" {
										"F5a(step after seek_to_last, pending item kept)"
									} else if pos == Pos::Start && !fwd {
										"F5b(prev at Start)"
									} else if pos == Pos::End && fwd {
										"F5b(next at End)"
									} else if last_since_reset {
										"F5a?(seek_to_last earlier without seek since, pending item kept)"
									} else {
										"other"
									};
									c.fail(&format!(
										"iter {} at pos={} after {}: expected={} observed={} shape={} stages: queued={} logged={} enacted={} rc={}",
										name,
										pos.show(),
										last_call,
										match &exp {
											None => "none".to_string(),
											Some((k, v)) => format!("{}={}", short(k), vals.render(v)),
										},
										match g {
											None => "none".to_string(),
											Some((k, v)) => format!("{}={}", short(k), vals.render(v)),
										},
										shape,
										st.queued,
										st.logged,
										st.n_enacted,
										rc
									));
									c.ctr.inc("iter.mismatch");
								}
								// the logical position follows what the implementation returned
								pos = match g {
									Some((k, _)) => Pos::After(k.clone()),
									None =>
										if fwd {
											Pos::End
										} else {
											Pos::Start
										},
								};
							},
							Err(e) => {
								c.fail(&format!("iter {} failed: {:?}", name, e));
							},
						}
						last_call = name;
						last_dir = Some(fwd);
						commits_since_call = 0;
						processed_since_call = 0;
					}
				}
			}
		}

		// ------------------------------------------------------------ drain, full scans
		while st.queued > 0 {
			let r = db.process_commits();
			c.t.op("c04 process", &res(&r));
			st.queued -= 1;
			st.logged += 1;
			st.n_processed += 1;
			note_processed!(pending.pop_front().unwrap());
		}
		if processed != committed {
			c.fail("harness: processed state differs from committed state after draining the queue");
		}
		let (depth, loaded) = dump_check(&db, &mut c, &processed, rc, "", true);
		cursor_ok = loaded;
		max_depth = std::cmp::max(max_depth, depth);
		// full forward scan with the open iterator, full backward scan
		let r = it.seek_to_first();
		c.t.op("c04 iter first", &res(&r));
		if cursor_ok {
			c.t.op("c04b cursor first", &res(&r));
		}
		let mut n = 0;
		let mut expit = committed.iter();
		loop {
			let got = it.next();
			c.t.op("c04 iter next", &show_item(&got, &vals));
			if cursor_ok {
				c.t.op("c04b cursor next", &key_only(&got));
				c.ctr.inc("cursor.step");
			}
			let e = expit.next().map(|(k, v)| (k.clone(), v.clone()));
			match got {
				Ok(g) => {
					if g != e {
						c.fail(&format!("full forward scan: element {} differs", n));
						break
					}
					if g.is_none() {
						break
					}
				},
				Err(e) => {
					c.fail(&format!("full forward scan failed: {:?}", e));
					break
				},
			}
			n += 1;
		}
		let r = it.seek_to_last();
		c.t.op("c04 iter last", &res(&r));
		if cursor_ok {
			c.t.op("c04b cursor last", &res(&r));
		}
		let mut expit = committed.iter().rev();
		n = 0;
		loop {
			let got = it.prev();
			c.t.op("c04 iter prev", &show_item(&got, &vals));
			if cursor_ok {
				c.t.op("c04b cursor prev", &key_only(&got));
				c.ctr.inc("cursor.step");
			}
			let e = expit.next().map(|(k, v)| (k.clone(), v.clone()));
			match got {
				Ok(g) => {
					if g != e {
						c.fail(&format!("full backward scan: element {} differs", n));
						break
					}
					if g.is_none() {
						break
					}
				},
				Err(e) => {
					c.fail(&format!("full backward scan failed: {:?}", e));
					break
				},
			}
			n += 1;
		}
		c.ctr.add("scan.elements", committed.len() as u64);
		drop(it);
		close_db(db, st.unread_files);
	}
	// ---------------------------------------------------------------- reopen: from the files
	match Db::open(&opts) {
		Ok(db) => {
			c.t.op("c04 reopen", "ok");
			let (_, cursor_ok) = dump_check(&db, &mut c, &committed, rc, " after reopen", false);
			let mut it = db.iter(0).expect("iter");
			let mut expit = committed.iter();
			let mut n = 0;
			loop {
				let got = it.next();
				// the model answers from its reopened state; the cursor model from the dump
				c.t.op("c04 iter next", &show_item(&got, &vals));
				if cursor_ok {
					c.t.op("c04b cursor next", &key_only(&got));
					c.ctr.inc("cursor.step");
				}
				let e = expit.next().map(|(k, v)| (k.clone(), v.clone()));
				match got {
					Ok(g) => {
						if g != e {
							c.fail(&format!("scan after reopen: element {} differs", n));
							break
						}
						if g.is_none() {
							break
						}
					},
					Err(e) => {
						c.fail(&format!("scan after reopen failed: {:?}", e));
						break
					},
				}
				n += 1;
			}
			for _ in 0..4 {
				let k = rng.pick(&pool).clone();
				let got = db.get(0, &k);
				let obs = match &got {
					Ok(Some(v)) => format!("some {}", vals.render(v)),
					Ok(None) => "none".into(),
					Err(e) => format!("err:{}", err_kind(e)),
				};
				c.t.op(&format!("c04 get {}", hex(&k)), &obs);
				if got.as_ref().ok() != Some(&committed.get(&k).cloned()) {
					c.fail(&format!("get after reopen key={}", short(&k)));
				}
			}
			drop(it);
			// physical column (R8), write tie: one more real transaction, after every line of the
			// pipeline model of this case
			{
				let cfg = c.phys.clone();
				for p in c04phys::write_tie(&db, &committed, &cfg, seed, c.t, c.ctr) {
					c.fail(&format!("PhysColumn write tie: {}", p));
				}
			}
			close_db(db, 2);
		},
		Err(e) => c.fail(&format!("reopen failed: {:?}", e)),
	}
	let _ = std::fs::remove_dir_all(&dir);
	c.ctr.inc(&format!("case.maxdepth.{}", max_depth));
	c.ctr.inc("cases");
	if reopened_mid {
		c.ctr.inc("cases.reopened_mid");
	}
	let nontrivial = layers_seen.len() >= 2 || max_depth >= 1;
	if nontrivial {
		c.ctr.inc("cases.nontrivial");
	}
	let ok = c.ok;
	c.t.end_case(nontrivial);
	ok
}
