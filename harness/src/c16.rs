//! C16: an I/O error injected at every file-operation index of every pipeline step
//! (existing fault injector `set_number_of_allowed_io_operations`), routed through
//! `store_err` like the worker threads do (hook `verif_store_err`).
use crate::p1::*;
use crate::util::*;
use parity_db::{set_number_of_allowed_io_operations as arm, Db};
use std::path::Path;

fn disarm() {
	arm(usize::MAX);
}

pub fn run(seeds: &[u64], thorough: bool, root: &Path, t: &mut Trace, ctr: &mut Counters, prop: &str) -> u64 {
	let mut fails = 0;
	for cs in seeds.iter().copied() {
		if !run_case(cs, thorough, root, t, ctr, prop) {
			fails += 1;
			t.comment(&format!("FAILED-CASE seed={}", cs));
		}
		disarm();
	}
	fails
}

fn run_case(seed: u64, thorough: bool, root: &Path, t: &mut Trace, ctr: &mut Counters, prop: &str) -> bool {
	let mut rng = Rng::new(seed);
	let p = GenParams {
		max_actions: if thorough { 60 } else { 40 },
		allow_crash: false,
		allow_reopen: true,
		kinds: vec![Kind::Plain, Kind::Plain, Kind::Preimage, Kind::Rc],
		btree_ok: true,
		big_values: true,
	};
	let mut cfg = gen_cfg(&mut rng, &p);
	for c in cfg.cols.iter_mut() {
		if c.kind == Kind::Rc {
			c.btree = false; // counts are observed through value iteration (hash columns only)
		}
	}
	let mut vals = Values::default();
	t.begin_case(&format!("seed={} cfg={}", seed, cfg.describe()));
	t.op(&format!("p1 init {}", cfg.model_kinds()), "ok");
	let dir = fresh_dir(root, &format!("c16-{}", seed));
	let mut sut = Sut::create(cfg.clone(), dir.clone());
	let mut oracle = Oracle::new(cfg.cols.len());
	let mut prefix_states: Vec<Oracle> = vec![oracle.clone()];
	let nkeys = rng.range(3, 8);
	let keys: Vec<Vec<Vec<u8>>> =
		cfg.cols.iter().map(|c| (0..nkeys).map(|i| gen_key(&mut rng, c.uniform, i)).collect()).collect();
	let mut ok = true;
	let rounds = rng.range(1, 3);
	let mut nontrivial = false;
	for _round in 0..rounds {
		// a fault-free stretch of history
		let n = rng.range(4, p.max_actions as u64 / 2);
		for _ in 0..n {
			let a = rng.below(100);
			if a < 45 {
				let nops = rng.range(1, 5);
				let mut tx: Tx = vec![];
				for _ in 0..nops {
					let c = rng.below(cfg.cols.len() as u64) as u8;
					let kid = rng.below(nkeys);
					let k = keys[c as usize][kid as usize].clone();
					let kind = cfg.cols[c as usize].kind;
					let r = rng.below(100);
					tx.push((
						c,
						if r < 60 {
							Op::Set(k, vals.canon(gen_value_token(&mut rng, true, kid + 100 * c as u64, kind != Kind::Plain)))
						} else if r < 88 || kind != Kind::Rc {
							Op::Del(k)
						} else {
							Op::Ref(k)
						},
					));
				}
				let r = sut.commit(&tx, &mut vals);
				t.op(&tx_line(&tx), &res(&r));
				if r.is_ok() {
					oracle.apply(&cfg, &tx, &mut vals);
					prefix_states.push(oracle.clone());
				} else {
					t.oracle_fail(prop, &format!("fault-free commit failed: {:?}", r.err()));
					return false
				}
			} else if a < 65 {
				let r = sut.process();
				t.op("p1 process", &res(&r));
			} else if a < 78 {
				let r = sut.flush();
				t.op("p1 flush", &res(&r));
			} else if a < 92 {
				let r = sut.enact_all();
				t.op("p1 enactall", &res(&r));
			} else {
				let r = sut.clean();
				t.op("p1 clean", &res(&r));
			}
		}
		// make the faulty step meaningful
		let step = rng.below(6);
		if step == 0 && sut.queued == 0 {
			continue
		}
		// the step under fault
		let idx = match rng.below(4) {
			0 => 0,
			1 => 1,
			_ => rng.below(match step { 5 => 60, 0 => 8, 2 => 12, _ => 4 }),
		} as usize;
		let step_name = ["process", "flush", "enactall", "clean", "reindex", "open"][step as usize];
		ctr.inc(&format!("fault.step.{}", step_name));
		if step == 5 {
			// fault during open (recovery): crash image with whatever is pending, or clean close
			let hi = sut.n_enacted + sut.logged;
			let lo = sut.n_enacted + sut.flushed;
			let img = fresh_dir(root, &format!("c16-{}-img{}", seed, rng.below(1 << 20)));
			copy_dir(&sut.dir, &img);
			let _ = std::fs::remove_file(img.join("lock"));
			let old = sut.dir.clone();
			sut.close();
			let _ = std::fs::remove_dir_all(&old);
			sut.dir = img.clone();
			arm(idx);
			let r = std::panic::catch_unwind(std::panic::AssertUnwindSafe(|| Db::open(&sut.cfg.options(&img))));
			disarm();
			match r {
				Err(_) => {
					t.oracle_fail(prop, &format!("open panicked under an I/O fault at index {}", idx));
					return false
				},
				Ok(Ok(db)) => {
					ctr.inc("fault.open.survived");
					drop(db);
				},
				Ok(Err(e)) => {
					ctr.inc(&format!("fault.open.err.{}", err_kind(&e)));
					nontrivial = true;
				},
			}
			// the fault is gone: reopening must work and expose a prefix containing all synced
			let r = std::panic::catch_unwind(std::panic::AssertUnwindSafe(|| Db::open(&sut.cfg.options(&img))));
			let db = match r {
				Ok(Ok(db)) => db,
				Ok(Err(e)) => {
					t.oracle_fail(prop, &format!("reopen after a faulty open (index {}) failed: {:?}", idx, e));
					return false
				},
				Err(_) => {
					t.oracle_fail(prop, &format!("reopen after a faulty open (index {}) panicked", idx));
					return false
				},
			};
			sut.db = Some(db);
			match identify_prefix(&sut, &prefix_states, &keys, lo, hi) {
				Some(m) => {
					t.op(&format!("p1 crashto {}", m), "ok");
					oracle = prefix_states[m].clone();
					prefix_states.truncate(m + 1);
					sut.hist.truncate(m);
					sut.n_enacted = m;
				},
				None => {
					t.oracle_fail(prop, &format!("after a faulty open (index {}) the state is no prefix in [{}, {}]", idx, lo, hi));
					return false
				},
			}
			ok &= check_all(&sut, &oracle, &cfg, &keys, t, &vals, prop, ctr, true);
			continue
		}
		arm(idx);
		let r = std::panic::catch_unwind(std::panic::AssertUnwindSafe(|| match step {
			0 => sut.db().process_commits(),
			1 => sut.db().flush_logs(),
			2 => sut.db().enact_logs(),
			3 => sut.db().clean_logs(),
			_ => sut.db().process_reindex(),
		}));
		disarm();
		let r = match r {
			Ok(r) => r,
			Err(_) => {
				t.oracle_fail(prop, &format!("step {} panicked under an I/O fault at index {}", step_name, idx));
				return false
			},
		};
		match r {
			Ok(()) => {
				// fewer file operations than the index: the step completed; mirror it
				ctr.inc("fault.not_reached");
				match step {
					0 => {
						if sut.queued > 0 {
							sut.queued -= 1;
							sut.logged += 1;
						}
						t.op("p1 process", "ok");
					},
					1 => {
						// flush happened for real: mirror through the normal path (idempotent call)
						let r = sut.flush();
						t.op("p1 flush", &res(&r));
					},
					2 => {
						// one log file was enacted by the call above; finish the rest through the mirror
						if sut.unread_files > 0 {
							sut.unread_files -= 1;
							sut.dirty += 1;
						}
						let r = sut.enact_all();
						t.op("p1 enactall", &res(&r));
					},
					3 => {
						let r = sut.clean();
						t.op("p1 clean", &res(&r));
					},
					_ => t.op("p1 reindex", "ok"),
				}
				continue
			},
			Err(e) => {
				nontrivial = true;
				ctr.inc(&format!("fault.hit.{}", step_name));
				ctr.inc(&format!("fault.err.{}", err_kind(&e)));
				// reported: the failing call returned the error; the worker wrapper stores it
				sut.db().verif_store_err(Err(parity_db::Error::Io(std::io::Error::new(std::io::ErrorKind::Other, "stored by harness"))));
				t.op("p1 fail 0", "ok");
			},
		}
		// reads keep returning committed data
		for (c, ks) in keys.iter().enumerate() {
			for k in ks {
				let got = std::panic::catch_unwind(std::panic::AssertUnwindSafe(|| sut.get(c as u8, k)));
				let got = match got {
					Ok(g) => g,
					Err(_) => {
						t.oracle_fail(prop, "get panicked after a background error");
						return false
					},
				};
				let obs = match &got {
					Ok(Some(v)) => format!("some {}", vals.render(v)),
					Ok(None) => "none".to_string(),
					Err(e) => format!("err:{}", err_kind(e)),
				};
				let exp = oracle.cols[c].get(k);
				let kind = cfg.cols[c].kind;
				if kind != Kind::Rc {
					t.op(&format!("p1 get {} {}", c, hex(k)), &obs);
					if got.as_ref().ok() != Some(&exp.map(|x| x.0.clone())) {
						t.oracle_fail(prop, &format!("after the failure get col={} key={} expected={:?} observed={}", c, hex(k), exp.map(|x| vals.render(&x.0)), obs));
						ok = false;
					}
				} else if let Some((v, n)) = exp {
					if *n > 0 && got.as_ref().ok() != Some(&Some(v.clone())) {
						t.oracle_fail(prop, &format!("after the failure rc get col={} key={} count={} observed={}", c, hex(k), n, obs));
						ok = false;
					}
				}
			}
		}
		// later commits are refused with a background error
		let k = keys[0][0].clone();
		let tx: Tx = vec![(0, Op::Set(k, vals.canon("v3_777".to_string())))];
		let r = sut.db().commit_changes(to_db_tx(&tx, &mut vals));
		let obs = match &r {
			Ok(()) => "ok".to_string(),
			Err(e) => format!("err:{}", err_kind(e)),
		};
		t.op(&tx_line(&tx), &obs);
		if obs != "err:Background" {
			t.oracle_fail(prop, &format!("commit after a stored error returned {}", obs));
			ok = false;
		}
		// drop (with the fault gone or still present) must neither hang nor panic
		let lo = sut.n_enacted + sut.flushed;
		let hi = sut.n_enacted + sut.logged + if step == 0 { 1 } else { 0 };
		if rng.chance(1, 2) {
			arm(0);
		}
		let dropped = std::panic::catch_unwind(std::panic::AssertUnwindSafe(|| {
			sut.db = None;
		}));
		disarm();
		if dropped.is_err() {
			t.oracle_fail(prop, "drop panicked after a background error");
			return false
		}
		sut.close();
		let r = std::panic::catch_unwind(std::panic::AssertUnwindSafe(|| Db::open(&sut.cfg.options(&sut.dir))));
		let db = match r {
			Ok(Ok(db)) => db,
			Ok(Err(e)) => {
				t.oracle_fail(prop, &format!("reopen after the fault failed: {:?}", e));
				return false
			},
			Err(_) => {
				t.oracle_fail(prop, "reopen after the fault panicked");
				return false
			},
		};
		sut.db = Some(db);
		let hi = std::cmp::min(hi, prefix_states.len() - 1);
		match identify_prefix(&sut, &prefix_states, &keys, lo, hi) {
			Some(m) => {
				t.op(&format!("p1 failreopen {}", m), "ok");
				oracle = prefix_states[m].clone();
				prefix_states.truncate(m + 1);
				sut.hist.truncate(m);
				sut.n_enacted = m;
				ctr.inc(if m == hi { "reopen.prefix.all_logged" } else { "reopen.prefix.shorter" });
			},
			None => {
				t.oracle_fail(prop, &format!("after reopen the state is no prefix of the committed transactions within [{} (synced), {}]", lo, hi));
				return false
			},
		}
		ok &= check_all(&sut, &oracle, &cfg, &keys, t, &vals, prop, ctr, true);
	}
	sut.close();
	let _ = std::fs::remove_dir_all(&sut.dir);
	ctr.inc("cases");
	t.end_case(nontrivial);
	ok
}

/// Largest m in [lo, hi] whose oracle state equals the database content (values, and
/// counts on hash rc columns through value iteration).
fn identify_prefix(sut: &Sut, states: &[Oracle], keys: &[Vec<Vec<u8>>], lo: usize, hi: usize) -> Option<usize> {
	let hi = std::cmp::min(hi, states.len() - 1);
	if lo > hi {
		return None
	}
	let mut counts: Vec<Option<Vec<(Vec<u8>, u64)>>> = vec![];
	for (c, col) in sut.cfg.cols.iter().enumerate() {
		if col.kind == Kind::Rc && !col.btree {
			let mut seen = vec![];
			let _ = sut.db().iter_column_while(c as u8, |st| {
				seen.push((st.value, st.rc as u64));
				true
			});
			seen.sort();
			counts.push(Some(seen));
		} else {
			counts.push(None);
		}
	}
	for m in (lo..=hi).rev() {
		let o = &states[m];
		let mut all = true;
		'outer: for (c, ks) in keys.iter().enumerate() {
			for k in ks {
				let got = sut.get(c as u8, k).ok().flatten();
				if got != o.cols[c].get(k).map(|x| x.0.clone()) {
					all = false;
					break 'outer
				}
			}
			if let Some(seen) = &counts[c] {
				let mut exp: Vec<(Vec<u8>, u64)> = o.cols[c].values().cloned().collect();
				exp.sort();
				if *seen != exp {
					all = false;
					break
				}
			}
		}
		if all {
			return Some(m)
		}
	}
	None
}
