//! C15: the pipeline always drains.  Real `Db` WITH background workers, every scenario in a
//! child process (re-exec of this binary, hidden sub-command `c15-child`) under a watchdog,
//! so that a hang can be observed and killed.
//!
//! Oracle (plain Rust, independent of the Lean model): every `commit` call returns, `drop`
//! returns, and after reopening every Ok-committed key holds its last Ok-committed value
//! (BTreeMap).  A watchdog expiry counts only if it reproduces on an immediate re-run with
//! the same seed.  No model op lines beyond one summary line per case: the tie for C15 is
//! T0 (order obligations on the generated skeletons) + these oracle runs.
//!
//! Directed scenarios (each also forced by case index in `run`, the adjusted seed is printed):
//! * `exact`    the commit queue drains to exactly the 16 MiB limit under a throttled committer.
//! * `quiesce`  commit worker stalled by a parked `iter_column_while`, a backlog of flushed log
//!              files piles up, release, client QUIET without drop.  Expectation after the quiet
//!              period (bound 12 s, then stable for a further 300 ms): every accepted commit is
//!              enacted (`verif_last_enacted()` == number of Ok commits: one record per commit,
//!              ids from 1, no index growth) and the number of non-empty log files is 0 with
//!              sync_data=true and <= KEEP_LOGS (16) with sync_data=false (`clean_logs` keeps
//!              16 enacted files).  sync_data=false uses a backlog of 18..30 files (> KEEP_LOGS).
//! * `logqfull` > 128 MiB logged and unenacted: commit worker stalled as in `quiesce`, a committer
//!              commits 17 MiB values: 8 are logged (136 MiB > MAX_LOG_QUEUE_BYTES), the log worker
//!              parks in the log-queue-full throttle, the 9th stays queued (> 16 MiB).  Variant A
//!              (10..12 commits): the 10th call blocks; the state counts as reached if log files
//!              hold > 128 MiB and the call is pending for >= 300 ms (`logqfull.reached`); release:
//!              all calls must return, then quiet: everything enacted, logs reclaimed as in
//!              `quiesce`; then drop.  Variant B (9 commits, none blocks; reached = > 128 MiB of
//!              log files, not growing for 300 ms): release the iteration and drop IMMEDIATELY:
//!              shutdown while the log worker is parked in the throttle
//!              (`logqfull.drop_while_parked` = no big record enacted yet when drop started).
//! * `growth`   identity hashing (uniform + zero salt), 66..88 keys of one index chunk committed in
//!              several transactions interleaved with ordinary ones: the index grows (16 -> 17 bits)
//!              with later commits in flight; then QUIET without drop.  Oracle: every log file is
//!              reclaimed within the bound.  Recorded, not judged: whether the old index table was
//!              reindexed and deleted without client activity (`growth.reindex_done_without_client`)
//!              or is still queued (`growth.reindex_stalled`: `process_reindex` is only re-run when
//!              the log worker is woken by a commit); in the latter case ONE tiny commit must
//!              complete the reindex (single old table) and reclaim all logs within the bound.
//!
//! * `defercycle` multitree column: X = [DereferenceTree T, InsertTree A] and Y = [DereferenceTree T,
//!              InsertTree B] (variant `zxy`: Z = [Deref T2], X = [Deref T1, Insert A], Y = [Deref T2,
//!              Insert B]) are committed while readers of the trees are locked (each InsertTree records
//!              `used_trees`), then the readers are unlocked AND dropped and the client goes quiet.
//!              Expectation (C15): every accepted commit is logged and enacted without further client
//!              activity.  Observed on the current crate: `process_commits` defers X because of Y and Y
//!              because of X' for ever (no record is ever written, the log worker spins, `drop` never
//!              returns): reported as KNOWN finding `DEFER_LIVELOCK_ID` (the handle is abandoned, not
//!              dropped).  Variant `control` (Y does not dereference) must drain, drop and reopen.
//!              With workers (`threads=1`) or driven by the stepping API (`threads=0`).
//!
//! Hidden experiments on the real crate: `pdbverif c15-child <dir> probe-a1|a2|a3|a4 ...`
//! (module `probe` at the end of this file).
use crate::util::*;
use parity_db::{Db, Options};
use std::collections::BTreeMap;
use std::io::{BufRead, BufReader, Write};
use std::path::Path;
use std::process::{Command, Stdio};
use std::sync::{Arc, Mutex, RwLock};
use std::time::{Duration, Instant};

pub const SCENARIOS: [&str; 13] = [
	"small", "sizes", "logs", "logs-nothread", "shutdown", "bgerr", "keeplogs", "errfull", "exact", "quiesce", "logqfull", "growth",
	"defercycle",
];

/// id of the known finding reported by scenario `defercycle` (known_findings.json, property C15)
pub const DEFER_LIVELOCK_ID: &str = "F27";

const KEEP_LOGS: usize = 16;
const MAX_LOG_QUEUE_BYTES: u64 = 128 * 1024 * 1024;

#[derive(Clone, Debug)]
struct Cfg {
	scenario: &'static str,
	always_flush: bool,
	sync_wal: bool,
	sync_data: bool,
	threads: bool,
	/// logqfull: 0 = A (a call blocks; release, drain, quiet, drop), 1 = B (release + immediate drop)
	variant: u8,
}

fn gen_cfg(seed: u64, thorough: bool) -> Cfg {
	let mut rng = Rng::new(seed);
	let scenario = match rng.below(if thorough { 22 } else { 18 }) {
		0..=2 => "small",
		3 => "quiesce",
		4..=6 => "sizes",
		7..=8 => "logs",
		9 => "logs-nothread",
		10..=12 => "shutdown",
		13 => "bgerr",
		14 => "keeplogs",
		15 => "sizes",
		16 => "errfull",
		17 => "exact",
		18..=19 => "shutdown",
		_ => "small",
	};
	let mut c = Cfg {
		scenario,
		always_flush: rng.chance(1, 2),
		sync_wal: rng.chance(1, 2),
		sync_data: rng.chance(1, 2),
		threads: true,
		variant: 0,
	};
	// Scenarios added later are carved out of the frequent ones by draws made AFTER the old ones,
	// so that a seed either keeps its old case or moves to a new scenario.
	let e = rng.below(6);
	c.variant = rng.below(2) as u8;
	let mut derived_quiesce = false;
	c.scenario = match (scenario, e) {
		("sizes", 0) => "logqfull",
		("small", 0) | ("shutdown", 0) => "growth",
		("small", 1) => "defercycle",
		("keeplogs", 0..=1) | ("logs", 0) => {
			derived_quiesce = true;
			"quiesce"
		},
		_ => scenario,
	};
	match c.scenario {
		"logs" => c.always_flush = true,
		"quiesce" => {
			// sync_data: every log file is reclaimed; otherwise KEEP_LOGS enacted files stay.
			// Seeds that mapped to quiesce before keep sync_data = true.
			c.always_flush = true;
			c.sync_data = !derived_quiesce;
		},
		"logqfull" => c.always_flush = true,
		"growth" => {
			c.always_flush = true;
			c.sync_data = true;
		},
		"defercycle" => {
			c.always_flush = true;
			c.sync_data = true;
			// variant: 0 = single tree, 1 = two trees (zxy), 2 = control (no cycle)
			c.variant = (seed % 3) as u8;
			c.threads = (seed / 3) % 2 == 0;
		},
		"logs-nothread" => {
			c.threads = false;
			c.always_flush = true;
		},
		"keeplogs" => {
			c.always_flush = true;
			c.sync_data = false;
		},
		_ => {},
	}
	c
}

fn options(dir: &Path, c: &Cfg) -> Options {
	let mut o = Options::with_columns(dir, 1);
	o.salt = Some([7u8; 32]);
	if c.scenario == "growth" {
		// zero salt + uniform + instrumentation = identity hashing on 32-byte keys: the first 16
		// bits of a key select the index chunk, > 64 keys in one chunk force an index growth.
		o.columns[0] = parity_db::ColumnOptions { uniform: true, ..Default::default() };
		o.salt = Some([0u8; 32]);
	}
	o.stats = false;
	o.sync_wal = c.sync_wal;
	o.sync_data = c.sync_data;
	o.with_background_thread = c.threads;
	o.always_flush = c.always_flush;
	o
}

fn flag(b: bool) -> &'static str {
	if b {
		"1"
	} else {
		"0"
	}
}

// ------------------------------------------------------------------------------------ child

fn key_of(thread: u64, idx: u64, j: u64) -> Vec<u8> {
	let mut k = Vec::with_capacity(32);
	k.extend_from_slice(&thread.to_be_bytes());
	k.extend_from_slice(&idx.to_be_bytes());
	k.extend_from_slice(&j.to_be_bytes());
	k.extend_from_slice(&(thread ^ idx.rotate_left(17) ^ j.rotate_left(33) ^ 0x5bd1e995).to_be_bytes());
	k
}

fn value_of(len: usize, fill: u64) -> Vec<u8> {
	let mut v = vec![0u8; len];
	let mut x = fill | 1;
	for chunk in v.chunks_mut(8) {
		x = x.wrapping_mul(6364136223846793005).wrapping_add(1442695040888963407);
		let b = x.to_le_bytes();
		let n = chunk.len();
		chunk.copy_from_slice(&b[..n]);
	}
	v
}

/// What the child believes is committed: key -> Some((len, fill)) | None (removed).
type Expect = BTreeMap<Vec<u8>, Option<(usize, u64)>>;

struct Out(std::io::Stdout);
impl Out {
	fn line(&self, s: &str) {
		let mut l = self.0.lock();
		let _ = writeln!(l, "{}", s);
		let _ = l.flush();
	}
}

/// One transaction: list of (key, Some(len, fill) | None).
fn make_tx(rng: &mut Rng, thread: u64, idx: u64, class: &str, pool: &mut Vec<Vec<u8>>) -> Vec<(Vec<u8>, Option<(usize, u64)>)> {
	let mut tx = vec![];
	match class {
		"empty" => {},
		"zero" => tx.push((key_of(thread, idx, 0), Some((0usize, rng.next())))),
		"small" => {
			let n = rng.range(1, 8);
			for j in 0..n {
				if !pool.is_empty() && rng.chance(1, 5) {
					// overwrite or remove an earlier key of this thread
					let k = pool[rng.below(pool.len() as u64) as usize].clone();
					if rng.chance(1, 2) {
						tx.push((k, None));
					} else {
						tx.push((k, Some((rng.range(0, 3000) as usize, rng.next()))));
					}
				} else {
					let k = key_of(thread, idx, j);
					pool.push(k.clone());
					tx.push((k, Some((rng.range(0, 3000) as usize, rng.next()))));
				}
			}
		},
		"1m" => tx.push((key_of(thread, idx, 0), Some((1 << 20, rng.next())))),
		"17m" => tx.push((key_of(thread, idx, 0), Some((17 << 20, rng.next())))),
		"17x1m" => {
			for j in 0..17 {
				tx.push((key_of(thread, idx, j), Some(((1 << 20) + 11 * j as usize, rng.next()))));
			}
		},
		"24m" => tx.push((key_of(thread, idx, 0), Some((24 << 20, rng.next())))),
		_ => panic!("class"),
	}
	tx
}

fn do_commit(db: &Db, tx: &[(Vec<u8>, Option<(usize, u64)>)]) -> Result<(), parity_db::Error> {
	db.commit(tx.iter().map(|(k, v)| (0u8, k.clone(), v.map(|(len, fill)| value_of(len, fill)))))
}

fn record(expect: &Mutex<Expect>, tx: &[(Vec<u8>, Option<(usize, u64)>)]) {
	let mut e = expect.lock().unwrap();
	for (k, v) in tx {
		e.insert(k.clone(), *v);
	}
}


/// (number of non-empty log files, their total length)
fn log_files(dir: &Path) -> (usize, u64) {
	let mut n = 0;
	let mut b = 0;
	if let Ok(rd) = std::fs::read_dir(dir) {
		for e in rd.flatten() {
			if e.file_name().to_string_lossy().starts_with("log") {
				let l = e.metadata().map(|m| m.len()).unwrap_or(0);
				if l > 0 {
					n += 1;
					b += l;
				}
			}
		}
	}
	(n, b)
}

fn index_files(dir: &Path) -> usize {
	std::fs::read_dir(dir)
		.map(|d| d.flatten().filter(|e| e.file_name().to_string_lossy().starts_with("index_")).count())
		.unwrap_or(0)
}

/// The client is quiet: wait (at most `bound`) until every accepted commit is enacted and the log
/// files are reclaimed as far as the configuration allows (`max_left` non-empty files), then
/// require the state to be stable for a further 300 ms.  Returns (ms, files left, last_enacted, ok).
fn quiet_wait(db: &Db, dir: &Path, out: &Out, commits_ok: u64, max_left: usize, bound: Duration) -> (u128, usize, u64, bool) {
	let t0 = Instant::now();
	let good = |db: &Db| log_files(dir).0 <= max_left && db.verif_last_enacted() == commits_ok;
	let mut last_line = Instant::now();
	while !good(db) && t0.elapsed() < bound {
		std::thread::sleep(Duration::from_millis(10));
		if last_line.elapsed() > Duration::from_millis(1000) {
			out.line("quiet waiting");
			last_line = Instant::now();
		}
	}
	let ms = t0.elapsed().as_millis();
	let mut ok = good(db);
	if ok {
		std::thread::sleep(Duration::from_millis(300));
		ok = good(db);
	}
	(ms, log_files(dir).0, db.verif_last_enacted(), ok)
}

/// Stall the commit worker: a value iteration parked inside its callback holds the lock
/// `enact_logs` needs.  Needs one enacted value.  Returns (parked, release flag, thread).
fn park_iteration(
	db: &Arc<Db>,
) -> (bool, Arc<std::sync::atomic::AtomicBool>, std::thread::JoinHandle<()>) {
	use std::sync::atomic::{AtomicBool, Ordering};
	// wait until something is enacted (the iteration needs a stored value to call back on)
	let t0 = Instant::now();
	loop {
		let mut found = false;
		let _ = db.iter_column_while(0, |_| {
			found = true;
			false
		});
		if found || t0.elapsed() > Duration::from_secs(10) {
			break
		}
		std::thread::sleep(Duration::from_millis(5));
	}
	let parked = Arc::new(AtomicBool::new(false));
	let release = Arc::new(AtomicBool::new(false));
	let it = {
		let (db, parked, release) = (db.clone(), parked.clone(), release.clone());
		std::thread::spawn(move || {
			let _ = db.iter_column_while(0, |_| {
				parked.store(true, Ordering::SeqCst);
				while !release.load(Ordering::SeqCst) {
					std::thread::sleep(Duration::from_micros(200));
				}
				false
			});
			drop(db);
		})
	};
	let t0 = Instant::now();
	while !parked.load(Ordering::SeqCst) && t0.elapsed() < Duration::from_secs(5) {
		std::thread::sleep(Duration::from_millis(1));
	}
	(parked.load(Ordering::SeqCst), release, it)
}

const HOT_PREFIX: [u8; 2] = [0x5a, 0xc3];

/// 32-byte key in the hot index chunk (identity hashing); bytes 2.. pseudo-random, embed `id`.
fn hot_key(id: u64) -> Vec<u8> {
	let mut r = Rng::new(id.wrapping_mul(0x9e37_79b9).wrapping_add(0x2_0000_0002));
	let mut k = [0u8; 32];
	for i in 0..4 {
		k[i * 8..i * 8 + 8].copy_from_slice(&r.next().to_le_bytes());
	}
	k[0] = HOT_PREFIX[0];
	k[1] = HOT_PREFIX[1];
	k[24] = 2;
	k[25..32].copy_from_slice(&id.to_be_bytes()[1..8]);
	k.to_vec()
}

/// 32-byte key spread over the index (never in the hot chunk).
fn spread_key(rng: &mut Rng, id: u64) -> Vec<u8> {
	let mut k = [0u8; 32];
	for i in 0..4 {
		k[i * 8..i * 8 + 8].copy_from_slice(&rng.next().to_le_bytes());
	}
	if k[0] == HOT_PREFIX[0] {
		k[0] ^= 0x80;
	}
	k[24] = 9;
	k[25..32].copy_from_slice(&id.to_be_bytes()[1..8]);
	k.to_vec()
}

/// `pdbverif c15-child <dir> <scenario> <seed> <always_flush> <sync_wal> <sync_data> <threads> [<variant>]`
pub fn child_main(args: &[String]) -> i32 {
	let dir = std::path::PathBuf::from(&args[0]);
	if args[1].starts_with("probe-") {
		return probe::main(&dir, &args[1], &args[2..])
	}
	let scenario: &'static str = SCENARIOS.iter().copied().find(|s| *s == args[1]).expect("scenario");
	let seed: u64 = args[2].parse().unwrap();
	let cfg = Cfg {
		scenario,
		always_flush: args[3] == "1",
		sync_wal: args[4] == "1",
		sync_data: args[5] == "1",
		threads: args[6] == "1",
		variant: args.get(7).and_then(|v| v.parse().ok()).unwrap_or(0),
	};
	let out = Arc::new(Out(std::io::stdout()));
	if scenario == "defercycle" {
		return defercycle_child(&dir, &cfg, &out)
	}
	let mut rng = Rng::new(seed ^ 0xc15);
	let opts = options(&dir, &cfg);
	let db = match Db::open_or_create(&opts) {
		Ok(db) => db,
		Err(e) => {
			out.line(&format!("FAIL open {:?}", e));
			return 3
		},
	};
	let expect: Arc<Mutex<Expect>> = Arc::new(Mutex::new(BTreeMap::new()));
	let mut final_dir = dir.clone();
	let mut verify = true;

	match scenario {
		"small" | "sizes" | "shutdown" | "bgerr" => {
			let nthreads = if scenario == "sizes" { rng.range(1, 2) } else { rng.range(2, 4) };
			let shared: Arc<RwLock<Option<Db>>> = Arc::new(RwLock::new(Some(db)));
			let mut handles = vec![];
			for th in 0..nthreads {
				let shared = shared.clone();
				let expect = expect.clone();
				let out = out.clone();
				let mut r = rng.fork();
				let classes: Vec<&'static str> = match scenario {
					"small" => vec!["small", "small", "small", "small", "zero", "empty"],
					"sizes" => vec!["17m", "17m", "17x1m", "24m", "1m", "1m", "zero", "empty", "small"],
					"bgerr" => vec!["17m", "17m", "1m", "small"],
					_ => vec!["small", "small", "small", "1m", "17m", "zero", "empty"],
				};
				let n = match scenario {
					"small" => r.range(100, 400),
					"sizes" => r.range(6, 10),
					"bgerr" => r.range(5, 9),
					_ => r.range(20, 200),
				};
				handles.push(std::thread::spawn(move || {
					let mut pool = vec![];
					for idx in 0..n {
						let class = *r.pick(&classes);
						let tx = make_tx(&mut r, th, idx, class, &mut pool);
						let guard = shared.read().unwrap();
						let db = match guard.as_ref() {
							Some(db) => db,
							None => {
								out.line(&format!("gone {} {}", th, idx));
								break
							},
						};
						out.line(&format!("begin commit {} {} {}", th, idx, class));
						let t0 = Instant::now();
						let res = do_commit(db, &tx);
						let ms = t0.elapsed().as_millis();
						match &res {
							Ok(()) => {
								record(&expect, &tx);
								out.line(&format!("commit {} {} {} {} ok", th, idx, class, ms));
							},
							Err(e) => out.line(&format!("commit {} {} {} {} err:{}", th, idx, class, ms, err_kind(e))),
						}
						drop(guard);
						if res.is_err() {
							break
						}
					}
				}));
			}
			if scenario == "bgerr" {
				// Make the next creation of a log / table file fail in whichever worker needs it:
				// the directory is renamed under the running handle (open files stay valid).
				std::thread::sleep(Duration::from_millis(rng.range(0, 40)));
				let moved = dir.with_extension("moved");
				let _ = std::fs::rename(&dir, &moved);
				final_dir = moved;
				verify = false;
				out.line("renamed");
			}
			if scenario == "shutdown" {
				// Drop at a random moment.  Rust ownership excludes a drop *inside* a commit call:
				// the dropper takes the handle between two calls, with the workers in full flight.
				std::thread::sleep(Duration::from_millis(rng.range(0, 150)));
				out.line("begin drop");
				let t0 = Instant::now();
				let taken = shared.write().unwrap().take();
				drop(taken);
				out.line(&format!("drop {}", t0.elapsed().as_millis()));
			}
			for h in handles {
				let _ = h.join();
			}
			let taken = shared.write().unwrap().take();
			if let Some(db) = taken {
				out.line("begin drop");
				let t0 = Instant::now();
				drop(db);
				out.line(&format!("drop {}", t0.elapsed().as_millis()));
			}
		},
		"logs" | "keeplogs" => {
			// Phase 1: paced commits so that each one gets its own log file and is enacted;
			// with sync_data = false the cleanup worker keeps KEEP_LOGS dirty files for ever.
			let mut pool = vec![];
			let paced = if scenario == "keeplogs" { rng.range(20, 30) } else { rng.range(0, 8) };
			for idx in 0..paced {
				let tx = make_tx(&mut rng, 0, idx, "small", &mut pool);
				out.line(&format!("begin commit 0 {} small", idx));
				let t0 = Instant::now();
				match do_commit(&db, &tx) {
					Ok(()) => {
						record(&expect, &tx);
						out.line(&format!("commit 0 {} small {} ok", idx, t0.elapsed().as_millis()));
					},
					Err(e) => out.line(&format!("commit 0 {} small {} err:{}", idx, t0.elapsed().as_millis(), err_kind(&e))),
				}
				std::thread::sleep(Duration::from_millis(6));
			}
			// Phase 2: a burst (many log files in flight), then drop immediately.
			let burst = rng.range(20, 400);
			for idx in paced..paced + burst {
				let class = if rng.chance(1, 30) { "1m" } else { "small" };
				let tx = make_tx(&mut rng, 0, idx, class, &mut pool);
				out.line(&format!("begin commit 0 {} {}", idx, class));
				let t0 = Instant::now();
				match do_commit(&db, &tx) {
					Ok(()) => {
						record(&expect, &tx);
						out.line(&format!("commit 0 {} {} {} ok", idx, class, t0.elapsed().as_millis()));
					},
					Err(e) => out.line(&format!("commit 0 {} {} {} err:{}", idx, class, t0.elapsed().as_millis(), err_kind(&e))),
				}
				if rng.chance(1, 8) {
					std::thread::sleep(Duration::from_millis(1));
				}
			}
			out.line("begin drop");
			let t0 = Instant::now();
			drop(db);
			out.line(&format!("drop {}", t0.elapsed().as_millis()));
		},
		"errfull" => {
			// A background error while the commit queue is above its limit: the log worker fails
			// on commit A (its first log file cannot be created in the renamed directory) with
			// commit B (17 MiB) still queued.  A later commit call must return (Err), not block.
			let moved = dir.with_extension("moved");
			std::fs::rename(&dir, &moved).unwrap();
			final_dir = moved;
			verify = false;
			out.line("renamed");
			let db = Arc::new(db);
			let mut hs = vec![];
			for th in 0..2u64 {
				let db = db.clone();
				let out = out.clone();
				let mut r = rng.fork();
				hs.push(std::thread::spawn(move || {
					std::thread::sleep(Duration::from_millis(5 * th));
					let tx = make_tx(&mut r, th, 0, "17m", &mut vec![]);
					out.line(&format!("begin commit {} 0 17m", th));
					let t0 = Instant::now();
					let res = do_commit(&db, &tx);
					out.line(&format!(
						"commit {} 0 17m {} {}",
						th,
						t0.elapsed().as_millis(),
						match &res {
							Ok(()) => "ok".to_string(),
							Err(e) => format!("err:{}", err_kind(e)),
						}
					));
				}));
			}
			for h in hs {
				let _ = h.join();
			}
			std::thread::sleep(Duration::from_millis(rng.range(200, 400)));
			let tx = make_tx(&mut rng, 2, 0, "small", &mut vec![]);
			out.line("begin commit 2 0 small");
			let t0 = Instant::now();
			let res = do_commit(&db, &tx);
			out.line(&format!(
				"commit 2 0 small {} {}",
				t0.elapsed().as_millis(),
				match &res {
					Ok(()) => "ok".to_string(),
					Err(e) => format!("err:{}", err_kind(e)),
				}
			));
			out.line("begin drop");
			let t0 = Instant::now();
			drop(Arc::try_unwrap(db).ok().unwrap());
			out.line(&format!("drop {}", t0.elapsed().as_millis()));
		},
		"exact" => {
			// The queue drains to EXACTLY the 16 MiB limit while a committer is throttled: c0 keeps
			// the log worker busy, c1 + c2 = limit + 1032, popping c0 and c1 leaves exactly the
			// limit, popping c2 leaves 0 (limit + 0 is not above the limit): the only pop that
			// can wake the waiting c3 is the one that brings the queue to exactly the limit.
			let limit: usize = 16 * 1024 * 1024;
			let mut tx0 = vec![];
			for j in 0..(60_000 + rng.below(40_000)) {
				tx0.push((key_of(9, 0, j), Some((rng.range(8, 40) as usize, rng.next()))));
			}
			let tx1 = vec![(key_of(9, 1, 0), Some((1000usize, rng.next())))];
			let tx2 = vec![(key_of(9, 2, 0), Some((limit - 32, rng.next())))];
			let tx3 = vec![(key_of(9, 3, 0), Some((rng.range(1, 64) as usize, rng.next())))];
			for (i, tx) in [tx0, tx1, tx2, tx3].iter().enumerate() {
				out.line(&format!("begin commit 9 {} exact", i));
				let t0 = Instant::now();
				let res = do_commit(&db, tx);
				if res.is_ok() {
					record(&expect, tx);
				}
				out.line(&format!(
					"commit 9 {} exact {} {}",
					i,
					t0.elapsed().as_millis(),
					match &res {
						Ok(()) => "ok".to_string(),
						Err(e) => format!("err:{}", err_kind(e)),
					}
				));
			}
			out.line("begin drop");
			let t0 = Instant::now();
			drop(db);
			out.line(&format!("drop {}", t0.elapsed().as_millis()));
		},
		"quiesce" => {
			// The pipeline drains WITHOUT further client activity and without a drop: the commit
			// worker is stalled (a parked value iteration holds the lock enact_logs needs) while a
			// backlog of flushed log files builds up (one file per paced commit), then the iteration
			// is released and the client goes quiet.  Every accepted commit must be enacted and the
			// log files reclaimed (all with sync_data, all but KEEP_LOGS without) within the bound.
			let db = Arc::new(db);
			let mut pool = vec![];
			let mut ok_commits = 0u64;
			for idx in 0..3u64 {
				let tx = make_tx(&mut rng, 0, idx, "small", &mut pool);
				out.line(&format!("begin commit 0 {} small", idx));
				if do_commit(&db, &tx).is_ok() {
					record(&expect, &tx);
					ok_commits += 1;
				}
				out.line(&format!("commit 0 {} small 0 ok", idx));
			}
			let (parked, release, it) = park_iteration(&db);
			out.line(&format!("parked {}", parked));
			// more than the number of files the commit worker may leave dirty (MAX_LOG_FILES = 4 with
			// sync_data, KEEP_LOGS = 16 without)
			let backlog = if cfg.sync_data { rng.range(6, 26) } else { rng.range(18, 30) };
			for idx in 3..3 + backlog {
				let tx = make_tx(&mut rng, 0, idx, "small", &mut pool);
				out.line(&format!("begin commit 0 {} small", idx));
				let t0 = Instant::now();
				match do_commit(&db, &tx) {
					Ok(()) => {
						record(&expect, &tx);
						ok_commits += 1;
						out.line(&format!("commit 0 {} small {} ok", idx, t0.elapsed().as_millis()));
					},
					Err(e) => out.line(&format!("commit 0 {} small {} err:{}", idx, t0.elapsed().as_millis(), err_kind(&e))),
				}
				std::thread::sleep(Duration::from_millis(6));
			}
			let (files_before, _) = log_files(&dir);
			out.line(&format!("STAT quiesce.backlog_files_ge_{} 1", if files_before > KEEP_LOGS { 17 } else if files_before > 4 { 5 } else { 0 }));
			release.store(true, std::sync::atomic::Ordering::SeqCst);
			let _ = it.join();
			out.line("begin quiet");
			let max_left = if cfg.sync_data { 0 } else { KEEP_LOGS };
			let (ms, left, enacted, ok) = quiet_wait(&db, &dir, &out, ok_commits, max_left, Duration::from_secs(12));
			out.line(&format!("quiet {} {} enacted={}/{}", ms, left, enacted, ok_commits));
			if ok {
				out.line(&format!("STAT quiesce.{} 1", if cfg.sync_data { "sync_data.all_enacted_all_logs_reclaimed" } else { "no_sync_data.all_enacted_le_16_logs_left" }));
			}
			if !cfg.sync_data {
				out.line(&format!("STAT quiesce.no_sync_data.files_left_{} 1", left));
			}
			if !ok {
				out.line(&format!(
					"FAIL quiesce: {} ms after the client went quiet {} log file(s) still hold records (allowed {}), last enacted record {} of {} accepted commits (backlog of {} flushed log files behind a stalled commit worker, sync_data={})",
					ms, left, max_left, enacted, ok_commits, backlog, cfg.sync_data
				));
			}
			out.line("begin drop");
			let t0 = Instant::now();
			drop(Arc::try_unwrap(db).ok().unwrap());
			out.line(&format!("drop {}", t0.elapsed().as_millis()));
		},
		"logqfull" => {
			// More than MAX_LOG_QUEUE_BYTES logged and not enacted: the commit worker is stalled, the
			// log worker logs 8 x 17 MiB and parks in the log-queue-full throttle, the 9th commit
			// stays queued (> 16 MiB), a 10th call blocks.
			use std::sync::atomic::{AtomicU64, Ordering};
			let db = Arc::new(db);
			let mut pool = vec![];
			let mut ok_commits = 0u64;
			for idx in 0..3u64 {
				let tx = make_tx(&mut rng, 0, idx, "small", &mut pool);
				out.line(&format!("begin commit 0 {} small", idx));
				if do_commit(&db, &tx).is_ok() {
					record(&expect, &tx);
					ok_commits += 1;
				}
				out.line(&format!("commit 0 {} small 0 ok", idx));
			}
			let (parked, release, it) = park_iteration(&db);
			out.line(&format!("parked {}", parked));
			let enacted_before = db.verif_last_enacted();
			let n: u64 = if cfg.variant == 0 { rng.range(10, 12) } else { 9 };
			let in_flight = Arc::new(AtomicU64::new(0)); // index + 1 of the call in progress
			let returned = Arc::new(AtomicU64::new(0));
			let oks = Arc::new(AtomicU64::new(0));
			let committer = {
				let (db, out, expect, in_flight, returned, oks) = (db.clone(), out.clone(), expect.clone(), in_flight.clone(), returned.clone(), oks.clone());
				let mut r = rng.fork();
				std::thread::spawn(move || {
					for idx in 0..n {
						let tx = make_tx(&mut r, 1, idx, "17m", &mut vec![]);
						out.line(&format!("begin commit 1 {} 17m", idx));
						in_flight.store(idx + 1, Ordering::SeqCst);
						let t0 = Instant::now();
						let res = do_commit(&db, &tx);
						in_flight.store(0, Ordering::SeqCst);
						match &res {
							Ok(()) => {
								record(&expect, &tx);
								oks.fetch_add(1, Ordering::SeqCst);
								out.line(&format!("commit 1 {} 17m {} ok", idx, t0.elapsed().as_millis()));
							},
							Err(e) => out.line(&format!("commit 1 {} 17m {} err:{}", idx, t0.elapsed().as_millis(), err_kind(e))),
						}
						returned.store(idx + 1, Ordering::SeqCst);
						if res.is_err() {
							break
						}
					}
					drop(db);
				})
			};
			// Is the state really reached?  A: > 128 MiB of log files and one call pending for 300 ms.
			// B: all 9 calls returned, > 128 MiB of log files, not growing for 300 ms (the 9th commit
			// is queued but not logged: the log worker is parked).
			let t0 = Instant::now();
			let mut reached = false;
			let mut since: Option<(u64, u64, Instant)> = None; // (call in flight, log bytes, since)
			while t0.elapsed() < Duration::from_secs(20) {
				std::thread::sleep(Duration::from_millis(10));
				let fl = in_flight.load(Ordering::SeqCst);
				let (_, bytes) = log_files(&dir);
				let key = (fl, bytes);
				match since {
					Some((f, b, t)) if (f, b) == key => {
						let steady = t.elapsed() >= Duration::from_millis(300);
						let full = bytes > MAX_LOG_QUEUE_BYTES;
						let calls = if cfg.variant == 0 { fl != 0 } else { fl == 0 && returned.load(Ordering::SeqCst) == n };
						if steady && (full && calls || returned.load(Ordering::SeqCst) == n) {
							reached = full && calls;
							break
						}
					},
					_ => since = Some((fl, bytes, Instant::now())),
				}
			}
			let (files, bytes) = log_files(&dir);
			out.line(&format!(
				"logqfull variant={} reached={} log_files={} log_bytes={} call_in_flight={} returned={} last_enacted={}",
				cfg.variant,
				reached,
				files,
				bytes,
				in_flight.load(Ordering::SeqCst),
				returned.load(Ordering::SeqCst),
				db.verif_last_enacted()
			));
			out.line(&format!("STAT logqfull.{}.reached {}", if cfg.variant == 0 { "A" } else { "B" }, if reached { 1 } else { 0 }));
			if cfg.variant == 0 {
				release.store(true, Ordering::SeqCst);
				let _ = it.join();
				let _ = committer.join();
				ok_commits += oks.load(Ordering::SeqCst);
				out.line("begin quiet");
				let max_left = if cfg.sync_data { 0 } else { KEEP_LOGS };
				let (ms, left, enacted, ok) = quiet_wait(&db, &dir, &out, ok_commits, max_left, Duration::from_secs(12));
				out.line(&format!("quiet {} {} enacted={}/{}", ms, left, enacted, ok_commits));
				if ok {
					out.line("STAT logqfull.A.drained_quiet 1");
				} else {
					out.line(&format!(
						"FAIL logqfull: {} ms after the client went quiet {} log file(s) still hold records (allowed {}), last enacted record {} of {} accepted commits (sync_data={})",
						ms, left, max_left, enacted, ok_commits, cfg.sync_data
					));
				}
				out.line("begin drop");
				let t0 = Instant::now();
				drop(Arc::try_unwrap(db).ok().unwrap());
				out.line(&format!("drop {}", t0.elapsed().as_millis()));
			} else {
				let _ = committer.join();
				// release and drop at once: the iteration thread gives up its reference within
				// ~200 us, the first 17 MiB record takes the commit worker milliseconds to enact.
				out.line("begin drop");
				let t0 = Instant::now();
				release.store(true, Ordering::SeqCst);
				let mut db = db;
				let owned = loop {
					match Arc::try_unwrap(db) {
						Ok(d) => break d,
						Err(a) => db = a,
					}
					std::hint::spin_loop();
				};
				let enacted_at_drop = owned.verif_last_enacted();
				drop(owned);
				out.line(&format!("drop {}", t0.elapsed().as_millis()));
				let _ = it.join();
				out.line(&format!("logqfull drop: last_enacted before the stall={} at drop={}", enacted_before, enacted_at_drop));
				if reached && enacted_at_drop == enacted_before {
					out.line("STAT logqfull.B.drop_while_parked 1");
				}
			}
		},
		"growth" => {
			// Index growth with commits in flight, then the client goes quiet WITHOUT dropping.
			let nhot = rng.range(66, 88);
			let per_tx = rng.range(4, 16);
			let mut ok_commits = 0u64;
			let mut id = 0u64;
			let mut other = 0u64;
			let commit_tx = |tx: Vec<(Vec<u8>, Option<(usize, u64)>)>, class: &str, n: u64| -> bool {
				out.line(&format!("begin commit 0 {} {}", n, class));
				let t0 = Instant::now();
				match do_commit(&db, &tx) {
					Ok(()) => {
						record(&expect, &tx);
						out.line(&format!("commit 0 {} {} {} ok", n, class, t0.elapsed().as_millis()));
						true
					},
					Err(e) => {
						out.line(&format!("commit 0 {} {} {} err:{}", n, class, t0.elapsed().as_millis(), err_kind(&e)));
						false
					},
				}
			};
			while id < nhot {
				let n = per_tx.min(nhot - id);
				let tx: Vec<_> = (id..id + n).map(|i| (hot_key(i), Some((rng.range(1, 200) as usize, rng.next())))).collect();
				id += n;
				if commit_tx(tx, "hot", ok_commits) {
					ok_commits += 1;
				}
				if rng.chance(1, 2) {
					let k = rng.range(1, 4);
					let tx: Vec<_> = (0..k)
						.map(|_| {
							other += 1;
							(spread_key(&mut rng, other), Some((rng.range(0, 3000) as usize, rng.next())))
						})
						.collect();
					if commit_tx(tx, "small", ok_commits) {
						ok_commits += 1;
					}
				}
				if rng.chance(1, 3) {
					std::thread::sleep(Duration::from_millis(rng.range(0, 3)));
				}
			}
			out.line("begin quiet");
			// (1) every log file reclaimed (sync_data = true) -- MUST hold.  Records = commits +
			// reindex records, so the enacted id is only bounded from below here.
			let t0 = Instant::now();
			let mut last_line = Instant::now();
			while (log_files(&dir).0 > 0 || db.verif_last_enacted() < ok_commits) && t0.elapsed() < Duration::from_secs(12) {
				std::thread::sleep(Duration::from_millis(10));
				if last_line.elapsed() > Duration::from_millis(1000) {
					out.line("quiet waiting");
					last_line = Instant::now();
				}
			}
			let (left, _) = log_files(&dir);
			let tables = db.verif_index_tables(0).unwrap_or((0, vec![]));
			out.line(&format!("quiet {} {} enacted={}/{} index={:?}", t0.elapsed().as_millis(), left, db.verif_last_enacted(), ok_commits, tables));
			if left > 0 || db.verif_last_enacted() < ok_commits {
				out.line(&format!(
					"FAIL growth: {} ms after the client went quiet {} log file(s) still hold records, last enacted record {} of {} accepted commits (index {:?})",
					t0.elapsed().as_millis(), left, db.verif_last_enacted(), ok_commits, tables
				));
			}
			out.line(&format!("STAT growth.index_bits_{} 1", tables.0));
			// (2) recorded, not judged: does the reindex of the old table run without the client?
			std::thread::sleep(Duration::from_millis(600));
			let tables = db.verif_index_tables(0).unwrap_or((0, vec![]));
			let (nr, le) = db.verif_reindex_state();
			let stalled = !tables.1.is_empty() || index_files(&dir) > 1;
			if tables.0 <= 16 {
				out.line("STAT growth.no_growth 1");
			} else if !stalled {
				out.line("STAT growth.reindex_done_without_client 1");
			} else {
				out.line("STAT growth.reindex_stalled 1");
				out.line(&format!(
					"NOTE growth: {} ms after the last commit the old index table is still queued (index {:?}, {} index files, next_reindex={} last_enacted={}, all logs reclaimed): process_reindex is not re-run until a commit wakes the log worker",
					t0.elapsed().as_millis(), tables, index_files(&dir), nr, le
				));
				if tables.1.len() > 1 {
					out.line("STAT growth.two_old_tables_queued 1");
				}
				// ONE tiny commit must complete the reindex of a single old table
				let tx = vec![(spread_key(&mut rng, 1 << 40), Some((1usize, rng.next())))];
				if commit_tx(tx, "small", ok_commits) {
					ok_commits += 1;
				}
				let t1 = Instant::now();
				let done = |db: &Db| {
					db.verif_index_tables(0).map(|t| t.1.is_empty()).unwrap_or(true) &&
						index_files(&dir) == 1 && log_files(&dir).0 == 0 &&
						db.verif_last_enacted() >= ok_commits
				};
				while !done(&db) && t1.elapsed() < Duration::from_secs(12) {
					std::thread::sleep(Duration::from_millis(5));
					if last_line.elapsed() > Duration::from_millis(1000) {
						out.line("quiet waiting");
						last_line = Instant::now();
					}
				}
				let fin = done(&db);
				out.line(&format!("growth after one tiny commit: done={} after {} ms index={:?} index_files={} logs={}", fin, t1.elapsed().as_millis(), db.verif_index_tables(0), index_files(&dir), log_files(&dir).0));
				if fin {
					out.line("STAT growth.reindex_done_after_one_commit 1");
				} else if tables.1.len() == 1 {
					out.line(&format!(
						"FAIL growth: one commit after the stall the reindex of the single old index table did not complete within {} ms: index {:?}, {} index files, {} non-empty log files",
						t1.elapsed().as_millis(), db.verif_index_tables(0), index_files(&dir), log_files(&dir).0
					));
				} else {
					out.line("STAT growth.two_old_tables_need_more_commits 1");
				}
			}
			out.line("begin drop");
			let t0 = Instant::now();
			drop(db);
			out.line(&format!("drop {}", t0.elapsed().as_millis()));
		},
		"logs-nothread" => {
			// No workers: the client drives the stages and never calls clean_logs.  More than
			// MAX_LOG_FILES fully-read log files exist when the handle is dropped with one more
			// commit queued (which kill_logs has to log, flush and enact).
			let mut pool = vec![];
			let files = rng.range(5, 7);
			for idx in 0..files {
				let tx = make_tx(&mut rng, 0, idx, "small", &mut pool);
				out.line(&format!("begin commit 0 {} small", idx));
				do_commit(&db, &tx).unwrap();
				record(&expect, &tx);
				out.line(&format!("commit 0 {} small 0 ok", idx));
				db.process_commits().unwrap();
				db.flush_logs().unwrap();
				if idx < 5 {
					out.line(&format!("begin enact {}", idx));
					db.enact_logs().unwrap();
					out.line(&format!("enact {}", idx));
				}
			}
			let tx = make_tx(&mut rng, 0, files, "small", &mut pool);
			do_commit(&db, &tx).unwrap();
			record(&expect, &tx);
			out.line("begin drop");
			let t0 = Instant::now();
			drop(db);
			out.line(&format!("drop {}", t0.elapsed().as_millis()));
		},
		_ => unreachable!(),
	}

	// Reopen (no workers needed) and compare with what was acknowledged.
	out.line("begin reopen");
	let mut o2 = options(&final_dir, &cfg);
	o2.with_background_thread = false;
	let db = match Db::open(&o2) {
		Ok(db) => db,
		Err(e) => {
			out.line(&format!("FAIL reopen {:?}", e));
			return 4
		},
	};
	out.line("reopen ok");
	let e = expect.lock().unwrap();
	let mut bad = 0;
	if verify {
		for (k, v) in e.iter() {
			let got = db.get(0, k).unwrap();
			let want = v.map(|(len, fill)| value_of(len, fill));
			if got != want {
				bad += 1;
				if bad <= 3 {
					out.line(&format!(
						"FAIL verify key={} want_len={:?} got_len={:?}",
						hex(k),
						want.as_ref().map(|x| x.len()),
						got.as_ref().map(|x| x.len())
					));
				}
			}
		}
	}
	out.line(&format!("verify {} keys {} bad", e.len(), bad));
	out.line("begin drop2");
	drop(db);
	out.line("DONE");
	if bad > 0 {
		5
	} else {
		0
	}
}


/// Scenario `defercycle` (see the module comment).
fn defercycle_child(dir: &Path, cfg: &Cfg, out: &Out) -> i32 {
	use parity_db::{ColumnOptions, NewNode, NodeRef, Operation};
	let background = cfg.threads;
	let mut o = Options::with_columns(dir, 1);
	o.columns[0] = ColumnOptions { multitree: true, allow_direct_node_access: true, ref_counted: true, preimage: true, ..Default::default() };
	o.salt = Some([7u8; 32]);
	o.stats = false;
	o.always_flush = true;
	o.sync_wal = cfg.sync_wal;
	o.sync_data = true;
	o.with_background_thread = background;
	let db = match Db::open_or_create(&o) {
		Ok(db) => db,
		Err(e) => {
			out.line(&format!("FAIL open {:?}", e));
			return 3
		},
	};
	let tree = |tag: u8| {
		let leaf = |x: u8| NodeRef::New(NewNode { data: vec![tag, x, 0xaa, 0xbb], children: vec![] });
		NewNode { data: vec![tag; 12], children: vec![leaf(1), leaf(2)] }
	};
	let (k1, k2, ka, kb) = (key_of(77, 1, 0), key_of(77, 2, 0), key_of(77, 10, 0), key_of(77, 11, 0));
	let step = |db: &Db| {
		if !background {
			db.process_commits().unwrap();
			db.flush_logs().unwrap();
			db.enact_logs().unwrap();
			db.clean_logs().unwrap();
		}
	};
	let wait = |db: &Db, n: u64, ms: u64| {
		let t0 = Instant::now();
		while db.verif_last_enacted() < n && t0.elapsed() < Duration::from_millis(ms) {
			std::thread::sleep(Duration::from_millis(1));
		}
		db.verif_last_enacted() >= n
	};
	// T1, T2 with two extra references each, fully enacted
	let setup: Vec<Vec<(u8, Operation<Vec<u8>, Vec<u8>>)>> = vec![
		vec![(0, Operation::InsertTree(k1.clone(), tree(1)))],
		vec![(0, Operation::InsertTree(k2.clone(), tree(2)))],
		vec![(0, Operation::ReferenceTree(k1.clone())), (0, Operation::ReferenceTree(k2.clone()))],
		vec![(0, Operation::ReferenceTree(k1.clone())), (0, Operation::ReferenceTree(k2.clone()))],
	];
	for (i, tx) in setup.into_iter().enumerate() {
		out.line(&format!("begin commit 0 {} setup", i));
		db.commit_changes(tx).unwrap();
		out.line(&format!("commit 0 {} setup 0 ok", i));
		step(&db);
	}
	if !wait(&db, 4, 5000) {
		out.line("FAIL defercycle: the four set-up commits were not enacted within 5 s");
		return 6
	}
	let base = db.verif_last_enacted();
	let r1 = db.get_tree(0, &k1).unwrap().expect("T1");
	let r2 = db.get_tree(0, &k2).unwrap().expect("T2");
	let g1 = r1.read();
	let g2 = r2.read();
	let txs: Vec<Vec<(u8, Operation<Vec<u8>, Vec<u8>>)>> = match cfg.variant {
		0 => vec![
			vec![(0, Operation::DereferenceTree(k1.clone())), (0, Operation::InsertTree(ka.clone(), tree(3)))],
			vec![(0, Operation::DereferenceTree(k1.clone())), (0, Operation::InsertTree(kb.clone(), tree(4)))],
		],
		1 => vec![
			vec![(0, Operation::DereferenceTree(k2.clone()))],
			vec![(0, Operation::DereferenceTree(k1.clone())), (0, Operation::InsertTree(ka.clone(), tree(3)))],
			vec![(0, Operation::DereferenceTree(k2.clone())), (0, Operation::InsertTree(kb.clone(), tree(4)))],
		],
		_ => vec![
			vec![(0, Operation::DereferenceTree(k2.clone()))],
			vec![(0, Operation::DereferenceTree(k1.clone())), (0, Operation::InsertTree(ka.clone(), tree(3)))],
			vec![(0, Operation::InsertTree(kb.clone(), tree(4)))],
		],
	};
	let ncommits = txs.len() as u64;
	for (i, tx) in txs.into_iter().enumerate() {
		out.line(&format!("begin commit 1 {} deref", i));
		db.commit_changes(tx).unwrap();
		out.line(&format!("commit 1 {} deref 0 ok", i));
	}
	// unlock and DROP both readers: nothing is held by the client from here on
	drop(g1);
	drop(g2);
	drop(r1);
	drop(r2);
	out.line("begin quiet");
	// the diagnosis behind the known finding: count how often process_commits defers a commit
	// during the quiet period (yield point of the c11 hook)
	let deferrals = Arc::new(std::sync::atomic::AtomicU64::new(0));
	{
		let d = deferrals.clone();
		parity_db::verif::set_yield_hook(Some(Arc::new(move |name: &'static str| {
			if name == "process_commits.deferred" {
				d.fetch_add(1, std::sync::atomic::Ordering::SeqCst);
			}
		})));
	}
	let t0 = Instant::now();
	let mut rounds = 0;
	if background {
		wait(&db, base + ncommits, 1500);
	} else {
		while db.verif_last_enacted() < base + ncommits && rounds < 60 {
			step(&db);
			rounds += 1;
		}
	}
	let enacted = db.verif_last_enacted() - base;
	let n_deferred = deferrals.load(std::sync::atomic::Ordering::SeqCst);
	parity_db::verif::set_yield_hook(None);
	out.line(&format!("quiet {} {}", t0.elapsed().as_millis(), enacted));
	out.line(&format!("STAT defercycle.variant.{} 1", ["single", "zxy", "control"][cfg.variant as usize]));
	out.line(&format!("STAT defercycle.{} 1", if background { "workers" } else { "stepping" }));
	if enacted < ncommits {
		let a = db.get_root(0, &ka).map(|r| r.is_some()).unwrap_or(false);
		let b = db.get_root(0, &kb).map(|r| r.is_some()).unwrap_or(false);
		let msg = format!(
			"deferral livelock: {} of {} accepted commits written and enacted, {} deferrals, {} after the client released and dropped its tree readers and went quiet (variant {}, {}: {}); inserted trees visible A={} B={}; handle abandoned (drop would not return)",
			enacted,
			ncommits,
			n_deferred,
			if background { format!("{} ms", t0.elapsed().as_millis()) } else { format!("{} x (process_commits, flush_logs, enact_logs, clean_logs)", rounds) },
			["single: X=[DereferenceTree T, InsertTree A], Y=[DereferenceTree T, InsertTree B]", "zxy: Z=[Deref T2], X=[Deref T1, Insert A], Y=[Deref T2, Insert B]", "control"][cfg.variant as usize],
			if background { "background workers" } else { "stepping API" },
			"process_commits defers each commit because the other one, queued behind it, recorded the tree in used_trees",
			a,
			b
		);
		if n_deferred < 10 {
			// a stall that is NOT the deferral cycle: not the known finding
			out.line(&format!("FAIL defercycle: commits not applied although process_commits deferred only {} time(s): {}", n_deferred, msg.replace("deferral livelock", "stall")));
			out.line("DONE");
			std::process::exit(5);
		}
		if cfg.variant == 2 {
			out.line(&format!("FAIL defercycle control: {}", msg));
			out.line("DONE");
			std::process::exit(5);
		}
		out.line(&format!("KNOWN {} {}", DEFER_LIVELOCK_ID, msg));
		out.line("STAT defercycle.livelock 1");
		out.line("DONE");
		// the handle cannot be dropped (kill_logs / the log worker would spin for ever)
		std::process::exit(0);
	}
	out.line("STAT defercycle.drained 1");
	out.line("begin drop");
	let t0 = Instant::now();
	drop(db);
	out.line(&format!("drop {}", t0.elapsed().as_millis()));
	out.line("begin reopen");
	o.with_background_thread = false;
	let db = match Db::open(&o) {
		Ok(db) => db,
		Err(e) => {
			out.line(&format!("FAIL reopen {:?}", e));
			return 4
		},
	};
	out.line("reopen ok");
	let a = db.get_root(0, &ka).unwrap().is_some();
	let b = db.get_root(0, &kb).unwrap().is_some();
	if !a || !b {
		out.line(&format!("FAIL defercycle: after reopen inserted trees A={} B={}", a, b));
	}
	out.line("verify 2 keys 0 bad");
	drop(db);
	out.line("DONE");
	if a && b {
		0
	} else {
		5
	}
}

// ----------------------------------------------------------------------------------- parent

#[derive(Default, Debug)]
struct ChildReport {
	lines: u64,
	commits_ok: u64,
	commits_err: u64,
	err_kinds: BTreeMap<String, u64>,
	classes: BTreeMap<String, u64>,
	max_commit_ms: u64,
	throttled: u64,
	drop_ms: Option<u64>,
	gone: u64,
	fails: Vec<String>,
	last_begin: String,
	done: bool,
	verified_keys: u64,
	timed_out: bool,
	exit: Option<i32>,
	wall_ms: u64,
	/// `STAT <key> <n>` lines of the child: how often a directed state was really reached
	stats: BTreeMap<String, u64>,
	/// `NOTE ...` lines of the child: observations that are recorded, not judged
	notes: Vec<String>,
	known: Vec<(String, String)>,
}

fn run_child(dir: &Path, seed: u64, c: &Cfg, bound: Duration) -> ChildReport {
	let exe = std::env::current_exe().unwrap();
	let mut child = Command::new(exe)
		.arg("c15-child")
		.arg(dir)
		.arg(c.scenario)
		.arg(seed.to_string())
		.arg(flag(c.always_flush))
		.arg(flag(c.sync_wal))
		.arg(flag(c.sync_data))
		.arg(flag(c.threads))
		.arg(c.variant.to_string())
		.stdout(Stdio::piped())
		.stderr(Stdio::null())
		.spawn()
		.expect("spawn c15 child");
	let stdout = child.stdout.take().unwrap();
	let (txc, rxc) = std::sync::mpsc::channel::<String>();
	let reader = std::thread::spawn(move || {
		for l in BufReader::new(stdout).lines() {
			match l {
				Ok(l) => {
					if txc.send(l).is_err() {
						break
					}
				},
				Err(_) => break,
			}
		}
	});
	let mut rep = ChildReport::default();
	let t0 = Instant::now();
	// The bound applies to the silence between two progress lines (every potentially blocking
	// call is bracketed by lines), and a generous total.
	let total = bound * 4;
	let mut last_progress = Instant::now();
	loop {
		match rxc.recv_timeout(Duration::from_millis(200)) {
			Ok(l) => {
				last_progress = Instant::now();
				rep.lines += 1;
				let w: Vec<&str> = l.split(' ').collect();
				match w[0] {
					"begin" => rep.last_begin = l.clone(),
					"commit" if w.len() >= 6 => {
						let ms: u64 = w[4].parse().unwrap_or(0);
						rep.max_commit_ms = rep.max_commit_ms.max(ms);
						if ms >= 20 {
							rep.throttled += 1;
						}
						*rep.classes.entry(w[3].to_string()).or_insert(0) += 1;
						if w[5] == "ok" {
							rep.commits_ok += 1;
						} else {
							rep.commits_err += 1;
							*rep.err_kinds.entry(w[5].to_string()).or_insert(0) += 1;
						}
					},
					"drop" if w.len() >= 2 => rep.drop_ms = w[1].parse().ok(),
					"gone" => rep.gone += 1,
					"FAIL" => rep.fails.push(l.clone()),
					"STAT" if w.len() >= 3 => *rep.stats.entry(w[1].to_string()).or_insert(0) += w[2].parse().unwrap_or(0),
					"NOTE" => rep.notes.push(l[5..].to_string()),
					"KNOWN" if w.len() >= 3 => rep.known.push((w[1].to_string(), w[2..].join(" "))),
					"verify" if w.len() >= 2 => rep.verified_keys = w[1].parse().unwrap_or(0),
					"DONE" => rep.done = true,
					_ => {},
				}
			},
			Err(std::sync::mpsc::RecvTimeoutError::Timeout) => {
				if let Ok(Some(_)) = child.try_wait() {
					// drain what is left
					while let Ok(l) = rxc.recv_timeout(Duration::from_millis(50)) {
						if l == "DONE" {
							rep.done = true;
						}
						if l.starts_with("FAIL") {
							rep.fails.push(l);
						}
					}
					break
				}
				if last_progress.elapsed() > bound || t0.elapsed() > total {
					rep.timed_out = true;
					let _ = child.kill();
					break
				}
			},
			Err(_) => break,
		}
	}
	let status = child.wait().ok();
	rep.exit = status.and_then(|s| s.code());
	let _ = reader.join();
	rep.wall_ms = t0.elapsed().as_millis() as u64;
	rep
}

pub fn run(seeds: &[u64], thorough: bool, root: &Path, t: &mut Trace, ctr: &mut Counters, prop: &str) -> u64 {
	let mut fails = 0;
	// observed: whole scenarios take 0.1 .. 3 s on tmpfs; a single call far below 1 s.
	let bound = Duration::from_secs(if thorough { 120 } else { 60 });
	let mut confirmed_hangs: Vec<(&'static str, bool)> = vec![];
	for (i, seed) in seeds.iter().copied().enumerate() {
		// a run of many cases contains the rare directed scenarios for certain: fixed case indices
		// move to the next seed whose configuration is the wanted one (the adjusted seed is printed)
		let mut seed = seed;
		if seeds.len() >= 10 {
			let want: Option<Box<dyn Fn(&Cfg) -> bool>> = match (i % 10, (i / 10) % 2) {
				(1, 0) => Some(Box::new(|c: &Cfg| c.scenario == "logqfull" && c.variant == 0)),
				(1, _) => Some(Box::new(|c: &Cfg| c.scenario == "logqfull" && c.variant == 1)),
				(3, 0) => Some(Box::new(|c: &Cfg| c.scenario == "quiesce" && c.sync_data)),
				(3, _) => Some(Box::new(|c: &Cfg| c.scenario == "quiesce" && !c.sync_data)),
				(6, _) => Some(Box::new(|c: &Cfg| c.scenario == "growth")),
				(5, 0) => Some(Box::new(|c: &Cfg| c.scenario == "defercycle" && c.variant == 0 && !c.threads)),
				(5, _) => Some(Box::new(|c: &Cfg| c.scenario == "defercycle" && c.variant == 1 && c.threads)),
				(8, _) => Some(Box::new(|c: &Cfg| c.scenario == "exact")),
				_ => None,
			};
			if let Some(want) = want {
				for j in 0..2000 {
					if want(&gen_cfg(seed + j, thorough)) {
						seed += j;
						break
					}
				}
			}
		}
		let c = gen_cfg(seed, thorough);
		if confirmed_hangs.iter().any(|(sc, _)| *sc == c.scenario) || confirmed_hangs.len() >= 2 {
			// a hang costs two watchdog periods: one confirmed instance per scenario, two per run
			ctr.inc(&format!("skipped_after_confirmed_hang.{}", c.scenario));
			continue
		}
		let desc = format!(
			"seed={} scenario={} always_flush={} sync_wal={} sync_data={} threads={}{}",
			seed,
			c.scenario,
			c.always_flush,
			c.sync_wal,
			c.sync_data,
			c.threads,
			if c.scenario == "logqfull" {
				format!(" variant={}", if c.variant == 0 { "A" } else { "B" })
			} else if c.scenario == "defercycle" {
				format!(" variant={}", ["single", "zxy", "control"][c.variant as usize])
			} else {
				String::new()
			}
		);
		t.begin_case(&desc);
		let dir = fresh_dir(root, &format!("c15-{}", seed));
		let mut rep = run_child(&dir, seed, &c, bound);
		if rep.timed_out {
			// count only if it reproduces immediately with the same seed
			ctr.inc("watchdog.first_expiry");
			let _ = std::fs::remove_dir_all(&dir);
			let _ = std::fs::remove_dir_all(dir.with_extension("moved"));
			let rep2 = run_child(&dir, seed, &c, bound);
			if !rep2.timed_out {
				ctr.inc("watchdog.not_reproduced");
				t.comment(&format!("watchdog expiry at '{}' did not reproduce", rep.last_begin));
			}
			rep = rep2;
		}
		let mut failed = false;
		if rep.timed_out {
			t.oracle_fail(
				prop,
				&format!(
					"hang (reproduced twice, no progress for {} s) in scenario={} after '{}' ({} commits ok before)",
					bound.as_secs(),
					c.scenario,
					rep.last_begin,
					rep.commits_ok
				),
			);
			ctr.inc(&format!("hang.{}", c.scenario));
			confirmed_hangs.push((c.scenario, c.sync_data));
			failed = true;
		} else if !rep.done || !rep.fails.is_empty() || rep.exit != Some(0) {
			t.oracle_fail(
				prop,
				&format!(
					"scenario={} child exit={:?} done={} after '{}': {}",
					c.scenario,
					rep.exit,
					rep.done,
					rep.last_begin,
					rep.fails.join(" | ")
				),
			);
			failed = true;
		}
		t.op(
			&format!("c15 {} {} {} {} {}", c.scenario, flag(c.always_flush), flag(c.sync_wal), flag(c.sync_data), flag(c.threads)),
			if failed { "fail" } else { "ok" },
		);
		t.comment(&format!(
			"commits ok={} err={} gone={} max_commit_ms={} slow(>=20ms)={} drop_ms={:?} verified_keys={} wall_ms={}",
			rep.commits_ok, rep.commits_err, rep.gone, rep.max_commit_ms, rep.throttled, rep.drop_ms, rep.verified_keys, rep.wall_ms
		));
		for n in &rep.notes {
			t.comment(n);
		}
		for (id, msg) in &rep.known {
			t.known(prop, id, msg);
			ctr.inc(&format!("known.{}", id));
		}
		for (k, v) in &rep.stats {
			ctr.add(k, *v);
		}
		ctr.inc("cases");
		ctr.inc(&format!("scenario.{}", c.scenario));
		ctr.inc(if c.always_flush { "cfg.always_flush" } else { "cfg.min_log_size_64m" });
		ctr.inc(if c.sync_data { "cfg.sync_data" } else { "cfg.no_sync_data" });
		ctr.inc(if c.sync_wal { "cfg.sync_wal" } else { "cfg.no_sync_wal" });
		ctr.add("commits.ok", rep.commits_ok);
		ctr.add("commits.err", rep.commits_err);
		ctr.add("commits.slow_ge_20ms", rep.throttled);
		ctr.add("keys.verified_after_reopen", rep.verified_keys);
		for (k, v) in &rep.classes {
			ctr.add(&format!("tx.{}", k), *v);
		}
		for (k, v) in &rep.err_kinds {
			ctr.add(&format!("commit.{}", k), *v);
		}
		if let Some(d) = rep.drop_ms {
			ctr.add("drop.total_ms", d);
			let b = if d < 10 { "lt10ms" } else if d < 100 { "lt100ms" } else if d < 1000 { "lt1s" } else { "ge1s" };
			ctr.inc(&format!("drop.{}", b));
		}
		let prev = ctr.0.get("commit.max_ms").copied().unwrap_or(0);
		if rep.max_commit_ms > prev {
			ctr.0.insert("commit.max_ms".into(), rep.max_commit_ms);
		}
		if failed {
			fails += 1;
		}
		t.end_case(rep.commits_ok > 0);
		let _ = std::fs::remove_dir_all(&dir);
		let _ = std::fs::remove_dir_all(dir.with_extension("moved"));
	}
	fails
}

// ------------------------------------------------------------------------------------ probes
// Hidden experiments on the real crate (`pdbverif c15-child <dir> probe-<name> [args]`), run by
// hand under `timeout`; they print observations, they are not part of the oracle run.
mod probe {
	use super::*;
	use parity_db::{ColumnOptions, NewNode, NodeRef, Operation};
	use std::sync::atomic::{AtomicBool, AtomicU64, Ordering};

	fn say(t0: Instant, s: &str) {
		println!("[{:6} ms] {}", t0.elapsed().as_millis(), s);
		let _ = std::io::stdout().flush();
	}

	/// tid -> (utime + stime in clock ticks (10 ms), state)
	fn cpu_by_thread() -> BTreeMap<u64, (u64, char)> {
		let mut m = BTreeMap::new();
		if let Ok(rd) = std::fs::read_dir("/proc/self/task") {
			for e in rd.flatten() {
				let tid: u64 = match e.file_name().to_string_lossy().parse() {
					Ok(t) => t,
					Err(_) => continue,
				};
				if let Ok(st) = std::fs::read_to_string(e.path().join("stat")) {
					if let Some(p) = st.rfind(')') {
						let f: Vec<&str> = st[p + 1..].split_whitespace().collect();
						if f.len() > 12 {
							let ut: u64 = f[11].parse().unwrap_or(0);
							let stime: u64 = f[12].parse().unwrap_or(0);
							m.insert(tid, (ut + stime, f[0].chars().next().unwrap_or('?')));
						}
					}
				}
			}
		}
		m
	}

	fn cpu_delta(a: &BTreeMap<u64, (u64, char)>, b: &BTreeMap<u64, (u64, char)>) -> String {
		let me = unsafe { libc::syscall(libc::SYS_gettid) } as u64;
		let mut parts = vec![];
		let mut total = 0;
		for (tid, (t1, st)) in b {
			let t0 = a.get(tid).map(|x| x.0).unwrap_or(0);
			let d = t1 - t0;
			total += d;
			parts.push(format!("{}{}:{}ms({})", if *tid == me { "*" } else { "" }, tid, d * 10, st));
		}
		format!("total_cpu={}ms per-thread[{}]", total * 10, parts.join(" "))
	}

	fn mt_options(dir: &Path, background: bool) -> Options {
		let mut o = Options::with_columns(dir, 1);
		o.columns[0] = ColumnOptions { multitree: true, allow_direct_node_access: true, ref_counted: true, preimage: true, ..Default::default() };
		o.salt = Some([7u8; 32]);
		o.stats = false;
		o.always_flush = true;
		o.sync_wal = false;
		o.sync_data = true;
		o.with_background_thread = background;
		o
	}

	fn tkey(id: u64) -> Vec<u8> {
		key_of(77, id, 0)
	}

	fn small_tree(tag: u8) -> NewNode {
		let leaf = |x: u8| NodeRef::New(NewNode { data: vec![tag, x, 0xaa, 0xbb], children: vec![] });
		NewNode { data: vec![tag; 12], children: vec![leaf(1), leaf(2)] }
	}

	fn log_bytes(dir: &Path) -> (usize, u64) {
		let mut n = 0;
		let mut b = 0;
		if let Ok(rd) = std::fs::read_dir(dir) {
			for e in rd.flatten() {
				if e.file_name().to_string_lossy().starts_with("log") {
					let l = e.metadata().map(|m| m.len()).unwrap_or(0);
					if l > 0 {
						n += 1;
						b += l;
					}
				}
			}
		}
		(n, b)
	}

	fn index_files(dir: &Path) -> Vec<String> {
		let mut v = vec![];
		if let Ok(rd) = std::fs::read_dir(dir) {
			for e in rd.flatten() {
				let n = e.file_name().to_string_lossy().to_string();
				if n.starts_with("index_") {
					v.push(n);
				}
			}
		}
		v.sort();
		v
	}

	fn wait_enacted(db: &Db, at_least: u64, ms: u64) -> bool {
		let t0 = Instant::now();
		while db.verif_last_enacted() < at_least {
			if t0.elapsed() > Duration::from_millis(ms) {
				return false
			}
			std::thread::sleep(Duration::from_millis(2));
		}
		true
	}

	// ---------------------------------------------------------------------------------- A1
	fn a1(dir: &Path, variant: &str) -> i32 {
		let t0 = Instant::now();
		let db = Db::open_or_create(&mt_options(dir, true)).unwrap();
		let kt = tkey(1);
		db.commit_changes(vec![(0u8, Operation::InsertTree(kt.clone(), small_tree(1)))]).unwrap();
		let ok = wait_enacted(&db, 1, 3000);
		say(t0, &format!("InsertTree T committed, enacted={} last_enacted={}", ok, db.verif_last_enacted()));
		std::thread::sleep(Duration::from_millis(300));
		let c0 = cpu_by_thread();
		std::thread::sleep(Duration::from_millis(1000));
		let c1 = cpu_by_thread();
		say(t0, &format!("baseline idle 1000 ms: {}", cpu_delta(&c0, &c1)));
		let reader = db.get_tree(0, &kt).unwrap().expect("tree T");
		let guard = reader.read();
		say(t0, &format!("reader of T read-locked; root visible={}", guard.get_root().unwrap().is_some()));
		db.commit_changes(vec![(0u8, Operation::DereferenceTree(kt.clone()))]).unwrap();
		say(t0, "DereferenceTree T committed (commit call returned)");
		match variant {
			"c" | "d" => {
				let c0 = cpu_by_thread();
				let le0 = db.verif_last_enacted();
				std::thread::sleep(Duration::from_millis(1000));
				let c1 = cpu_by_thread();
				say(t0, &format!(
					"lock held, client idle 1000 ms: {} last_enacted {}->{} root visible={}",
					cpu_delta(&c0, &c1),
					le0,
					db.verif_last_enacted(),
					db.get_root(0, &kt).unwrap().is_some()
				));
				let tr = Instant::now();
				drop(guard);
				say(t0, "lock released");
				let mut gone_ms = None;
				let mut enacted_ms = None;
				while tr.elapsed() < Duration::from_secs(5) && (gone_ms.is_none() || enacted_ms.is_none()) {
					if gone_ms.is_none() && db.get_root(0, &kt).unwrap().is_none() {
						gone_ms = Some(tr.elapsed().as_micros());
					}
					if enacted_ms.is_none() && db.verif_last_enacted() > le0 {
						enacted_ms = Some(tr.elapsed().as_micros());
					}
					std::thread::yield_now();
				}
				say(t0, &format!("after release: root gone after {:?} us, record enacted after {:?} us, last_enacted={}", gone_ms, enacted_ms, db.verif_last_enacted()));
				std::thread::sleep(Duration::from_millis(200));
				let c0 = cpu_by_thread();
				std::thread::sleep(Duration::from_millis(1000));
				let c1 = cpu_by_thread();
				say(t0, &format!("drained, idle 1000 ms: {} log files non-empty={:?}", cpu_delta(&c0, &c1), log_bytes(dir)));
				let td = Instant::now();
				drop(reader);
				drop(db);
				say(t0, &format!("drop returned after {} ms", td.elapsed().as_millis()));
			},
			"a" => {
				let dropped = Arc::new(AtomicBool::new(false));
				let d2 = dropped.clone();
				let td = Instant::now();
				let h = std::thread::spawn(move || {
					drop(db);
					d2.store(true, Ordering::SeqCst);
					td.elapsed().as_millis()
				});
				let c0 = cpu_by_thread();
				std::thread::sleep(Duration::from_millis(1500));
				let c1 = cpu_by_thread();
				say(t0, &format!("lock held 1500 ms with drop() running on another thread: drop returned={} {}", dropped.load(Ordering::SeqCst), cpu_delta(&c0, &c1)));
				let tr = Instant::now();
				drop(guard);
				say(t0, "lock released");
				let ms = h.join().unwrap();
				say(t0, &format!("drop returned {} ms after it was called, {} us after the release", ms, tr.elapsed().as_micros()));
				drop(reader);
				let mut o = mt_options(dir, false);
				o.with_background_thread = false;
				let db2 = Db::open(&o).unwrap();
				say(t0, &format!("reopened: tree T present={}", db2.get_tree(0, &kt).unwrap().is_some()));
			},
			"b" => {
				std::thread::spawn(move || {
					let mut prev = cpu_by_thread();
					loop {
						std::thread::sleep(Duration::from_millis(1000));
						let cur = cpu_by_thread();
						say(t0, &format!("monitor: drop() still running on the lock-holding thread; last 1000 ms: {}", cpu_delta(&prev, &cur)));
						prev = cur;
					}
				});
				say(t0, "calling drop(db) on the thread that holds the read lock");
				drop(db);
				say(t0, "drop returned (NOT expected)");
				drop(guard);
			},
			_ => return 2,
		}
		say(t0, "DONE");
		0
	}

	// ---------------------------------------------------------------------------------- A2
	fn a2(dir: &Path, variant: &str, background: bool) -> i32 {
		let t0 = Instant::now();
		let db = Db::open_or_create(&mt_options(dir, background)).unwrap();
		let (k1, k2, ka, kb) = (tkey(1), tkey(2), tkey(10), tkey(11));
		let step = |db: &Db| {
			if !background {
				db.process_commits().unwrap();
				db.flush_logs().unwrap();
				db.enact_logs().unwrap();
				db.clean_logs().unwrap();
			}
		};
		db.commit_changes(vec![(0u8, Operation::InsertTree(k1.clone(), small_tree(1)))]).unwrap();
		step(&db);
		db.commit_changes(vec![(0u8, Operation::InsertTree(k2.clone(), small_tree(2)))]).unwrap();
		step(&db);
		db.commit_changes(vec![(0u8, Operation::ReferenceTree(k1.clone())), (0u8, Operation::ReferenceTree(k2.clone()))]).unwrap();
		step(&db);
		db.commit_changes(vec![(0u8, Operation::ReferenceTree(k1.clone())), (0u8, Operation::ReferenceTree(k2.clone()))]).unwrap();
		step(&db);
		if background {
			wait_enacted(&db, 4, 3000);
		}
		let base = db.verif_last_enacted();
		say(t0, &format!("T1, T2 inserted and referenced twice more (rc 3): last_enacted={}", base));
		let r1 = db.get_tree(0, &k1).unwrap().expect("T1");
		let r2 = db.get_tree(0, &k2).unwrap().expect("T2");
		let g1 = r1.read();
		let g2 = r2.read();
		say(t0, "readers of T1 and T2 read-locked");
		let ncommits;
		match variant {
			// the sequence of the task description
			"zxy" => {
				db.commit_changes(vec![(0u8, Operation::DereferenceTree(k2.clone()))]).unwrap();
				db.commit_changes(vec![(0u8, Operation::DereferenceTree(k1.clone())), (0u8, Operation::InsertTree(ka.clone(), small_tree(3)))]).unwrap();
				db.commit_changes(vec![(0u8, Operation::DereferenceTree(k2.clone())), (0u8, Operation::InsertTree(kb.clone(), small_tree(4)))]).unwrap();
				ncommits = 3;
				say(t0, "committed Z=[Deref T2], X=[Deref T1, Insert A], Y=[Deref T2, Insert B]");
			},
			// minimal: ONE tree, two commits that each dereference it and insert a tree
			"single" => {
				db.commit_changes(vec![(0u8, Operation::DereferenceTree(k1.clone())), (0u8, Operation::InsertTree(ka.clone(), small_tree(3)))]).unwrap();
				db.commit_changes(vec![(0u8, Operation::DereferenceTree(k1.clone())), (0u8, Operation::InsertTree(kb.clone(), small_tree(4)))]).unwrap();
				ncommits = 2;
				say(t0, "committed X=[Deref T1, Insert A], Y=[Deref T1, Insert B]");
			},
			// control: no cycle (Y does not dereference)
			"control" => {
				db.commit_changes(vec![(0u8, Operation::DereferenceTree(k2.clone()))]).unwrap();
				db.commit_changes(vec![(0u8, Operation::DereferenceTree(k1.clone())), (0u8, Operation::InsertTree(ka.clone(), small_tree(3)))]).unwrap();
				db.commit_changes(vec![(0u8, Operation::InsertTree(kb.clone(), small_tree(4)))]).unwrap();
				ncommits = 3;
				say(t0, "committed Z=[Deref T2], X=[Deref T1, Insert A], Y=[Insert B] (control, no cycle)");
			},
			_ => return 2,
		}
		if background {
			let c0 = cpu_by_thread();
			std::thread::sleep(Duration::from_millis(500));
			let c1 = cpu_by_thread();
			say(t0, &format!("locks still held 500 ms: last_enacted={} {}", db.verif_last_enacted(), cpu_delta(&c0, &c1)));
		}
		drop(g1);
		drop(g2);
		drop(r1);
		drop(r2);
		say(t0, "both readers unlocked and dropped; no lock is held from here on");
		if !background {
			let mut progress_calls = vec![];
			for i in 0..50 {
				let before = db.verif_last_enacted();
				let lb = log_bytes(dir);
				db.process_commits().unwrap();
				db.flush_logs().unwrap();
				db.enact_logs().unwrap();
				db.clean_logs().unwrap();
				let after = db.verif_last_enacted();
				if after != before {
					progress_calls.push(i);
				}
				if i < 8 || i == 49 || after != before {
					say(t0, &format!(
						"process_commits call {}: last_enacted {}->{} logs before={:?} A visible={} B visible={}",
						i,
						before,
						after,
						lb,
						db.get_root(0, &ka).unwrap().is_some(),
						db.get_root(0, &kb).unwrap().is_some()
					));
				}
			}
			say(t0, &format!(
				"50 process_commits calls: records enacted {} (expected {} if the queue drained), calls that logged a record: {:?}",
				db.verif_last_enacted() - base,
				ncommits,
				progress_calls
			));
		} else {
			for _ in 0..3 {
				let c0 = cpu_by_thread();
				let le0 = db.verif_last_enacted();
				std::thread::sleep(Duration::from_millis(1000));
				let c1 = cpu_by_thread();
				say(t0, &format!("client idle 1000 ms: last_enacted {}->{} (base {}) logs={:?} {}", le0, db.verif_last_enacted(), base, log_bytes(dir), cpu_delta(&c0, &c1)));
			}
		}
		let drained = db.verif_last_enacted() - base == ncommits;
		say(t0, &format!("drained={}", drained));
		// drop under a watchdog
		let done = Arc::new(AtomicBool::new(false));
		let d2 = done.clone();
		std::thread::spawn(move || {
			drop(db);
			d2.store(true, Ordering::SeqCst);
		});
		let td = Instant::now();
		let c0 = cpu_by_thread();
		while !done.load(Ordering::SeqCst) && td.elapsed() < Duration::from_secs(5) {
			std::thread::sleep(Duration::from_millis(10));
		}
		let c1 = cpu_by_thread();
		say(t0, &format!("drop(db): returned={} after {} ms; {}", done.load(Ordering::SeqCst), td.elapsed().as_millis(), cpu_delta(&c0, &c1)));
		say(t0, "DONE");
		std::process::exit(if drained { 0 } else { 7 });
	}

	// ---------------------------------------------------------------------------------- A3
	fn plain_options(dir: &Path) -> Options {
		let mut o = Options::with_columns(dir, 1);
		o.salt = Some([7u8; 32]);
		o.stats = false;
		o.always_flush = true;
		o.sync_wal = false;
		o.sync_data = true;
		o.with_background_thread = true;
		o
	}

	fn a3(dir: &Path, point: &'static str, variant: &str) -> i32 {
		let t0 = Instant::now();
		let db = Arc::new(Db::open_or_create(&plain_options(dir)).unwrap());
		// two ordinary commits, fully drained
		for i in 0..2u64 {
			db.commit(vec![(0u8, key_of(1, i, 0), Some(value_of(100, i)))]).unwrap();
		}
		wait_enacted(&db, 2, 3000);
		std::thread::sleep(Duration::from_millis(100));
		say(t0, &format!("2 commits drained, last_enacted={} threads={}", db.verif_last_enacted(), cpu_by_thread().len()));
		let fired = Arc::new(AtomicU64::new(0));
		let f2 = fired.clone();
		parity_db::verif::set_yield_hook(Some(Arc::new(move |name: &'static str| {
			if name == point {
				f2.fetch_add(1, Ordering::SeqCst);
				panic!("probe: injected panic at {}", name);
			}
		})));
		db.commit(vec![(0u8, key_of(1, 2, 0), Some(value_of(100, 2)))]).unwrap();
		let tw = Instant::now();
		while fired.load(Ordering::SeqCst) == 0 && tw.elapsed() < Duration::from_secs(3) {
			std::thread::sleep(Duration::from_millis(1));
		}
		std::thread::sleep(Duration::from_millis(100));
		parity_db::verif::set_yield_hook(None);
		say(t0, &format!("hook fired {} time(s) at {}; hook removed; threads now={} last_enacted={}", fired.load(Ordering::SeqCst), point, cpu_by_thread().len(), db.verif_last_enacted()));
		let n = if variant == "drop" { 1 } else { 12 };
		let progress = Arc::new(AtomicU64::new(0));
		let returned = Arc::new(AtomicU64::new(0));
		let committer = {
			let (db, progress, returned) = (db.clone(), progress.clone(), returned.clone());
			std::thread::spawn(move || {
				for i in 0..n {
					progress.store(i + 1, Ordering::SeqCst);
					println!("begin commit {} 17m", i);
					let t = Instant::now();
					let r = db.commit(vec![(0u8, key_of(2, i, 0), Some(value_of(17 << 20, i)))]);
					println!("commit {} 17m returned {:?} after {} ms", i, r.map_err(|e| err_kind(&e)), t.elapsed().as_millis());
					returned.store(i + 1, Ordering::SeqCst);
				}
			})
		};
		// watchdog: no progress for 3 s
		let mut last = (0, Instant::now());
		loop {
			std::thread::sleep(Duration::from_millis(50));
			let r = returned.load(Ordering::SeqCst);
			if r != last.0 {
				last = (r, Instant::now());
			}
			if r == n {
				break
			}
			if last.1.elapsed() > Duration::from_secs(3) {
				break
			}
		}
		let r = returned.load(Ordering::SeqCst);
		let c0 = cpu_by_thread();
		std::thread::sleep(Duration::from_millis(500));
		let c1 = cpu_by_thread();
		say(t0, &format!(
			"committer: {} of {} calls returned, call #{} pending for > 3 s = {}; last_enacted={} logs={:?}; next 500 ms: {}",
			r,
			n,
			progress.load(Ordering::SeqCst),
			r < n,
			db.verif_last_enacted(),
			log_bytes(dir),
			cpu_delta(&c0, &c1)
		));
		if r == n {
			let _ = committer.join();
			let db = Arc::try_unwrap(db).ok().unwrap();
			let done = Arc::new(AtomicBool::new(false));
			let d2 = done.clone();
			std::thread::spawn(move || {
				drop(db);
				d2.store(true, Ordering::SeqCst);
			});
			let td = Instant::now();
			while !done.load(Ordering::SeqCst) && td.elapsed() < Duration::from_secs(5) {
				std::thread::sleep(Duration::from_millis(10));
			}
			say(t0, &format!("drop(db): returned={} after {} ms", done.load(Ordering::SeqCst), td.elapsed().as_millis()));
			if done.load(Ordering::SeqCst) {
				let mut o = plain_options(dir);
				o.with_background_thread = false;
				match Db::open(&o) {
					Ok(db2) => {
						let mut present = vec![];
						for i in 0..3u64 {
							present.push(db2.get(0, &key_of(1, i, 0)).unwrap().is_some());
						}
						let big = db2.get(0, &key_of(2, 0, 0)).unwrap().map(|v| v.len());
						say(t0, &format!("reopened: small keys 0..3 present={:?} (key 2 = the commit whose processing panicked), 17m key len={:?}", present, big));
					},
					Err(e) => say(t0, &format!("reopen failed {:?}", e)),
				}
			}
		} else {
			say(t0, "the handle cannot be dropped: the blocked committer owns a reference; process must be killed");
		}
		say(t0, "DONE");
		std::process::exit(0);
	}

	// ---------------------------------------------------------------------------------- A4
	const PREFIX: [u8; 2] = [0x5a, 0xc3];
	fn hot_key(space: u8, id: u64) -> [u8; 32] {
		let mut r = Rng::new(id.wrapping_mul(0x9e37_79b9).wrapping_add(space as u64 * 0x1_0000_0001));
		let mut k = [0u8; 32];
		for i in 0..4 {
			k[i * 8..i * 8 + 8].copy_from_slice(&r.next().to_le_bytes());
		}
		k[0] = PREFIX[0];
		k[1] = PREFIX[1];
		k[24] = space;
		k[25..32].copy_from_slice(&id.to_be_bytes()[1..8]);
		k
	}

	fn a4_options(dir: &Path, sync_data: bool) -> Options {
		let mut o = Options::with_columns(dir, 1);
		o.columns[0] = ColumnOptions { uniform: true, ..Default::default() };
		o.salt = Some([0u8; 32]);
		o.with_background_thread = true;
		o.always_flush = true;
		o.stats = false;
		o.sync_wal = false;
		o.sync_data = sync_data;
		o
	}

	fn a4_state(db: &Db, dir: &Path) -> String {
		let (nr, le) = db.verif_reindex_state();
		format!("index_files={:?} tables={:?} next_reindex={} last_enacted={} nonempty_logs={:?}", index_files(dir), db.verif_index_tables(0), nr, le, log_bytes(dir))
	}

	/// sample every `step_ms` for `total_ms`, print every change; returns the final state string
	fn a4_watch(t0: Instant, db: &Db, dir: &Path, total_ms: u64, until_one_index: bool) -> (String, u64) {
		let ts = Instant::now();
		let mut prev = String::new();
		loop {
			let s = a4_state(db, dir);
			if s != prev {
				say(t0, &format!("  +{} ms: {}", ts.elapsed().as_millis(), s));
				prev = s;
			}
			if until_one_index && index_files(dir).len() == 1 && db.verif_index_tables(0).map(|x| x.1.is_empty()).unwrap_or(true) {
				break
			}
			if ts.elapsed() > Duration::from_millis(total_ms) {
				break
			}
			std::thread::sleep(Duration::from_millis(if until_one_index { 2 } else { 100 }));
		}
		(prev, ts.elapsed().as_millis() as u64)
	}

	fn a4(dir: &Path, variant: &str, sync_data: bool, nkeys: u64, per_tx: u64) -> i32 {
		let t0 = Instant::now();
		let db = Db::open_or_create(&a4_options(dir, sync_data)).unwrap();
		say(t0, &format!("opened: {}", a4_state(&db, dir)));
		let mut id = 0;
		while id < nkeys {
			let n = per_tx.min(nkeys - id);
			db.commit((id..id + n).map(|i| (0u8, hot_key(2, i).to_vec(), Some(i.to_le_bytes().to_vec())))).unwrap();
			id += n;
		}
		say(t0, &format!("{} hot keys committed in transactions of {}: {}", nkeys, per_tx, a4_state(&db, dir)));
		say(t0, "client quiet (5 s for 'tiny' / 'reopen', 2 s for 'two'):");
		let quiet = if variant == "two" { 2000 } else { 5000 };
		let (_s, _) = a4_watch(t0, &db, dir, quiet, false);
		let stalled = index_files(dir).len() > 1;
		say(t0, &format!("after the quiet period: old index file(s) still present={}", stalled));
		println!("RESULT quiet_stalled={}", stalled);
		match variant {
			"tiny" | "two" => {
				let mut tiny = 0u64;
				loop {
					let mut k = [0x11u8; 32];
					k[8..16].copy_from_slice(&tiny.to_be_bytes());
					db.commit(vec![(0u8, k.to_vec(), Some(vec![1u8]))]).unwrap();
					tiny += 1;
					say(t0, &format!("tiny commit #{} done; quiet again:", tiny));
					let (_s, ms) = a4_watch(t0, &db, dir, 2000, true);
					let left = index_files(dir).len();
					say(t0, &format!("after tiny commit #{}: index files={} (watched {} ms)", tiny, left, ms));
					println!("RESULT after_tiny{} index_files={} queued={:?}", tiny, left, db.verif_index_tables(0).map(|x| x.1.len()));
					if left == 1 || tiny >= 4 {
						break
					}
				}
				let td = Instant::now();
				drop(db);
				say(t0, &format!("drop {} ms", td.elapsed().as_millis()));
			},
			"reopen" | "crashopen" => {
				let dir2 = dir.with_extension("copy");
				let dir = if variant == "crashopen" {
					// crash image: copy of the live directory (tmpfs: the mapped index pages are in the files)
					copy_dir(dir, &dir2);
					let _ = std::fs::remove_file(dir2.join("lock"));
					say(t0, &format!("crash image taken; index files in the image={:?} logs={:?}", index_files(&dir2), log_bytes(&dir2)));
					&dir2
				} else {
					let td = Instant::now();
					drop(db);
					say(t0, &format!("drop {} ms; index files on disk={:?}", td.elapsed().as_millis(), index_files(dir)));
					dir
				};
				let db = Db::open(&a4_options(dir, sync_data)).unwrap();
				say(t0, &format!("reopened with workers: {}", a4_state(&db, dir)));
				let (_s, _) = a4_watch(t0, &db, dir, 3000, true);
				println!("RESULT after_reopen index_files={}", index_files(dir).len());
				let mut missing = 0;
				for i in 0..nkeys {
					if db.get(0, &hot_key(2, i)).unwrap() != Some(i.to_le_bytes().to_vec()) {
						missing += 1;
					}
				}
				say(t0, &format!("keys missing after reopen: {}", missing));
				drop(db);
			},
			_ => return 2,
		}
		say(t0, "DONE");
		0
	}

	pub fn main(dir: &Path, name: &str, args: &[String]) -> i32 {
		let a = |i: usize, d: &str| -> String { args.get(i).cloned().unwrap_or(d.to_string()) };
		match name {
			"probe-a1" => a1(dir, &a(0, "c")),
			"probe-a2" => a2(dir, &a(0, "zxy"), a(1, "0") == "1"),
			"probe-a3" => a3(
				dir,
				if a(0, "log") == "log" { "process_commits.before_end_record" } else { "enact_logs.before_end_read" },
				&a(1, "block"),
			),
			"probe-a4" => a4(dir, &a(0, "tiny"), a(1, "0") == "1", a(2, "80").parse().unwrap(), a(3, "20").parse().unwrap()),
			_ => {
				println!("unknown probe {} {:?} {:?}", name, dir, args);
				2
			},
		}
	}
}
