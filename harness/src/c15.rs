//! C15: the pipeline always drains.  Real `Db` WITH background workers, every scenario in a
//! child process (re-exec of this binary, hidden sub-command `c15-child`) under a watchdog,
//! so that a hang can be observed and killed.
//!
//! Oracle (plain Rust, independent of the Lean model): every `commit` call returns, `drop`
//! returns, and after reopening every Ok-committed key holds its last Ok-committed value
//! (BTreeMap).  A watchdog expiry counts only if it reproduces on an immediate re-run with
//! the same seed.  No model op lines beyond one summary line per case: the tie for C15 is
//! T0 (order obligations on the generated skeletons) + these oracle runs.
use crate::util::*;
use parity_db::{Db, Options};
use std::collections::BTreeMap;
use std::io::{BufRead, BufReader, Write};
use std::path::Path;
use std::process::{Command, Stdio};
use std::sync::{Arc, Mutex, RwLock};
use std::time::{Duration, Instant};

pub const SCENARIOS: [&str; 10] = ["small", "sizes", "logs", "logs-nothread", "shutdown", "bgerr", "keeplogs", "errfull", "exact", "quiesce"];

#[derive(Clone, Debug)]
struct Cfg {
	scenario: &'static str,
	always_flush: bool,
	sync_wal: bool,
	sync_data: bool,
	threads: bool,
}

fn gen_cfg(seed: u64, thorough: bool) -> Cfg {
	let mut rng = Rng::new(seed);
	let scenario = match rng.below(if thorough { 22 } else { 18 }) {
		0..=2 => "small",
		3 => "quiesce",
		4..=6 => "sizes",
		7..=8 => "logs",
		9 => "logs-nothread",
		10..=12 => "shutdown",
		13 => "bgerr",
		14 => "keeplogs",
		15 => "sizes",
		16 => "errfull",
		17 => "exact",
		18..=19 => "shutdown",
		_ => "small",
	};
	let mut c = Cfg {
		scenario,
		always_flush: rng.chance(1, 2),
		sync_wal: rng.chance(1, 2),
		sync_data: rng.chance(1, 2),
		threads: true,
	};
	match scenario {
		"logs" => c.always_flush = true,
		"quiesce" => {
			// every log file is reclaimed only with sync_data (otherwise KEEP_LOGS files stay dirty)
			c.always_flush = true;
			c.sync_data = true;
		},
		"logs-nothread" => {
			c.threads = false;
			c.always_flush = true;
		},
		"keeplogs" => {
			c.always_flush = true;
			c.sync_data = false;
		},
		_ => {},
	}
	c
}

fn options(dir: &Path, c: &Cfg) -> Options {
	let mut o = Options::with_columns(dir, 1);
	o.salt = Some([7u8; 32]);
	o.stats = false;
	o.sync_wal = c.sync_wal;
	o.sync_data = c.sync_data;
	o.with_background_thread = c.threads;
	o.always_flush = c.always_flush;
	o
}

fn flag(b: bool) -> &'static str {
	if b {
		"1"
	} else {
		"0"
	}
}

// ------------------------------------------------------------------------------------ child

fn key_of(thread: u64, idx: u64, j: u64) -> Vec<u8> {
	let mut k = Vec::with_capacity(32);
	k.extend_from_slice(&thread.to_be_bytes());
	k.extend_from_slice(&idx.to_be_bytes());
	k.extend_from_slice(&j.to_be_bytes());
	k.extend_from_slice(&(thread ^ idx.rotate_left(17) ^ j.rotate_left(33) ^ 0x5bd1e995).to_be_bytes());
	k
}

fn value_of(len: usize, fill: u64) -> Vec<u8> {
	let mut v = vec![0u8; len];
	let mut x = fill | 1;
	for chunk in v.chunks_mut(8) {
		x = x.wrapping_mul(6364136223846793005).wrapping_add(1442695040888963407);
		let b = x.to_le_bytes();
		let n = chunk.len();
		chunk.copy_from_slice(&b[..n]);
	}
	v
}

/// What the child believes is committed: key -> Some((len, fill)) | None (removed).
type Expect = BTreeMap<Vec<u8>, Option<(usize, u64)>>;

struct Out(std::io::Stdout);
impl Out {
	fn line(&self, s: &str) {
		let mut l = self.0.lock();
		let _ = writeln!(l, "{}", s);
		let _ = l.flush();
	}
}

/// One transaction: list of (key, Some(len, fill) | None).
fn make_tx(rng: &mut Rng, thread: u64, idx: u64, class: &str, pool: &mut Vec<Vec<u8>>) -> Vec<(Vec<u8>, Option<(usize, u64)>)> {
	let mut tx = vec![];
	match class {
		"empty" => {},
		"zero" => tx.push((key_of(thread, idx, 0), Some((0usize, rng.next())))),
		"small" => {
			let n = rng.range(1, 8);
			for j in 0..n {
				if !pool.is_empty() && rng.chance(1, 5) {
					// overwrite or remove an earlier key of this thread
					let k = pool[rng.below(pool.len() as u64) as usize].clone();
					if rng.chance(1, 2) {
						tx.push((k, None));
					} else {
						tx.push((k, Some((rng.range(0, 3000) as usize, rng.next()))));
					}
				} else {
					let k = key_of(thread, idx, j);
					pool.push(k.clone());
					tx.push((k, Some((rng.range(0, 3000) as usize, rng.next()))));
				}
			}
		},
		"1m" => tx.push((key_of(thread, idx, 0), Some((1 << 20, rng.next())))),
		"17m" => tx.push((key_of(thread, idx, 0), Some((17 << 20, rng.next())))),
		"17x1m" => {
			for j in 0..17 {
				tx.push((key_of(thread, idx, j), Some(((1 << 20) + 11 * j as usize, rng.next()))));
			}
		},
		"24m" => tx.push((key_of(thread, idx, 0), Some((24 << 20, rng.next())))),
		_ => panic!("class"),
	}
	tx
}

fn do_commit(db: &Db, tx: &[(Vec<u8>, Option<(usize, u64)>)]) -> Result<(), parity_db::Error> {
	db.commit(tx.iter().map(|(k, v)| (0u8, k.clone(), v.map(|(len, fill)| value_of(len, fill)))))
}

fn record(expect: &Mutex<Expect>, tx: &[(Vec<u8>, Option<(usize, u64)>)]) {
	let mut e = expect.lock().unwrap();
	for (k, v) in tx {
		e.insert(k.clone(), *v);
	}
}

/// `pdbverif c15-child <dir> <scenario> <seed> <always_flush> <sync_wal> <sync_data> <threads>`
pub fn child_main(args: &[String]) -> i32 {
	let dir = std::path::PathBuf::from(&args[0]);
	let scenario: &'static str = SCENARIOS.iter().copied().find(|s| *s == args[1]).expect("scenario");
	let seed: u64 = args[2].parse().unwrap();
	let cfg = Cfg {
		scenario,
		always_flush: args[3] == "1",
		sync_wal: args[4] == "1",
		sync_data: args[5] == "1",
		threads: args[6] == "1",
	};
	let out = Arc::new(Out(std::io::stdout()));
	let mut rng = Rng::new(seed ^ 0xc15);
	let opts = options(&dir, &cfg);
	let db = match Db::open_or_create(&opts) {
		Ok(db) => db,
		Err(e) => {
			out.line(&format!("FAIL open {:?}", e));
			return 3
		},
	};
	let expect: Arc<Mutex<Expect>> = Arc::new(Mutex::new(BTreeMap::new()));
	let mut final_dir = dir.clone();
	let mut verify = true;

	match scenario {
		"small" | "sizes" | "shutdown" | "bgerr" => {
			let nthreads = if scenario == "sizes" { rng.range(1, 2) } else { rng.range(2, 4) };
			let shared: Arc<RwLock<Option<Db>>> = Arc::new(RwLock::new(Some(db)));
			let mut handles = vec![];
			for th in 0..nthreads {
				let shared = shared.clone();
				let expect = expect.clone();
				let out = out.clone();
				let mut r = rng.fork();
				let classes: Vec<&'static str> = match scenario {
					"small" => vec!["small", "small", "small", "small", "zero", "empty"],
					"sizes" => vec!["17m", "17m", "17x1m", "24m", "1m", "1m", "zero", "empty", "small"],
					"bgerr" => vec!["17m", "17m", "1m", "small"],
					_ => vec!["small", "small", "small", "1m", "17m", "zero", "empty"],
				};
				let n = match scenario {
					"small" => r.range(100, 400),
					"sizes" => r.range(6, 10),
					"bgerr" => r.range(5, 9),
					_ => r.range(20, 200),
				};
				handles.push(std::thread::spawn(move || {
					let mut pool = vec![];
					for idx in 0..n {
						let class = *r.pick(&classes);
						let tx = make_tx(&mut r, th, idx, class, &mut pool);
						let guard = shared.read().unwrap();
						let db = match guard.as_ref() {
							Some(db) => db,
							None => {
								out.line(&format!("gone {} {}", th, idx));
								break
							},
						};
						out.line(&format!("begin commit {} {} {}", th, idx, class));
						let t0 = Instant::now();
						let res = do_commit(db, &tx);
						let ms = t0.elapsed().as_millis();
						match &res {
							Ok(()) => {
								record(&expect, &tx);
								out.line(&format!("commit {} {} {} {} ok", th, idx, class, ms));
							},
							Err(e) => out.line(&format!("commit {} {} {} {} err:{}", th, idx, class, ms, err_kind(e))),
						}
						drop(guard);
						if res.is_err() {
							break
						}
					}
				}));
			}
			if scenario == "bgerr" {
				// Make the next creation of a log / table file fail in whichever worker needs it:
				// the directory is renamed under the running handle (open files stay valid).
				std::thread::sleep(Duration::from_millis(rng.range(0, 40)));
				let moved = dir.with_extension("moved");
				let _ = std::fs::rename(&dir, &moved);
				final_dir = moved;
				verify = false;
				out.line("renamed");
			}
			if scenario == "shutdown" {
				// Drop at a random moment.  Rust ownership excludes a drop *inside* a commit call:
				// the dropper takes the handle between two calls, with the workers in full flight.
				std::thread::sleep(Duration::from_millis(rng.range(0, 150)));
				out.line("begin drop");
				let t0 = Instant::now();
				let taken = shared.write().unwrap().take();
				drop(taken);
				out.line(&format!("drop {}", t0.elapsed().as_millis()));
			}
			for h in handles {
				let _ = h.join();
			}
			let taken = shared.write().unwrap().take();
			if let Some(db) = taken {
				out.line("begin drop");
				let t0 = Instant::now();
				drop(db);
				out.line(&format!("drop {}", t0.elapsed().as_millis()));
			}
		},
		"logs" | "keeplogs" => {
			// Phase 1: paced commits so that each one gets its own log file and is enacted;
			// with sync_data = false the cleanup worker keeps KEEP_LOGS dirty files for ever.
			let mut pool = vec![];
			let paced = if scenario == "keeplogs" { rng.range(20, 30) } else { rng.range(0, 8) };
			for idx in 0..paced {
				let tx = make_tx(&mut rng, 0, idx, "small", &mut pool);
				out.line(&format!("begin commit 0 {} small", idx));
				let t0 = Instant::now();
				match do_commit(&db, &tx) {
					Ok(()) => {
						record(&expect, &tx);
						out.line(&format!("commit 0 {} small {} ok", idx, t0.elapsed().as_millis()));
					},
					Err(e) => out.line(&format!("commit 0 {} small {} err:{}", idx, t0.elapsed().as_millis(), err_kind(&e))),
				}
				std::thread::sleep(Duration::from_millis(6));
			}
			// Phase 2: a burst (many log files in flight), then drop immediately.
			let burst = rng.range(20, 400);
			for idx in paced..paced + burst {
				let class = if rng.chance(1, 30) { "1m" } else { "small" };
				let tx = make_tx(&mut rng, 0, idx, class, &mut pool);
				out.line(&format!("begin commit 0 {} {}", idx, class));
				let t0 = Instant::now();
				match do_commit(&db, &tx) {
					Ok(()) => {
						record(&expect, &tx);
						out.line(&format!("commit 0 {} {} {} ok", idx, class, t0.elapsed().as_millis()));
					},
					Err(e) => out.line(&format!("commit 0 {} {} {} err:{}", idx, class, t0.elapsed().as_millis(), err_kind(&e))),
				}
				if rng.chance(1, 8) {
					std::thread::sleep(Duration::from_millis(1));
				}
			}
			out.line("begin drop");
			let t0 = Instant::now();
			drop(db);
			out.line(&format!("drop {}", t0.elapsed().as_millis()));
		},
		"errfull" => {
			// A background error while the commit queue is above its limit: the log worker fails
			// on commit A (its first log file cannot be created in the renamed directory) with
			// commit B (17 MiB) still queued.  A later commit call must return (Err), not block.
			let moved = dir.with_extension("moved");
			std::fs::rename(&dir, &moved).unwrap();
			final_dir = moved;
			verify = false;
			out.line("renamed");
			let db = Arc::new(db);
			let mut hs = vec![];
			for th in 0..2u64 {
				let db = db.clone();
				let out = out.clone();
				let mut r = rng.fork();
				hs.push(std::thread::spawn(move || {
					std::thread::sleep(Duration::from_millis(5 * th));
					let tx = make_tx(&mut r, th, 0, "17m", &mut vec![]);
					out.line(&format!("begin commit {} 0 17m", th));
					let t0 = Instant::now();
					let res = do_commit(&db, &tx);
					out.line(&format!(
						"commit {} 0 17m {} {}",
						th,
						t0.elapsed().as_millis(),
						match &res {
							Ok(()) => "ok".to_string(),
							Err(e) => format!("err:{}", err_kind(e)),
						}
					));
				}));
			}
			for h in hs {
				let _ = h.join();
			}
			std::thread::sleep(Duration::from_millis(rng.range(200, 400)));
			let tx = make_tx(&mut rng, 2, 0, "small", &mut vec![]);
			out.line("begin commit 2 0 small");
			let t0 = Instant::now();
			let res = do_commit(&db, &tx);
			out.line(&format!(
				"commit 2 0 small {} {}",
				t0.elapsed().as_millis(),
				match &res {
					Ok(()) => "ok".to_string(),
					Err(e) => format!("err:{}", err_kind(e)),
				}
			));
			out.line("begin drop");
			let t0 = Instant::now();
			drop(Arc::try_unwrap(db).ok().unwrap());
			out.line(&format!("drop {}", t0.elapsed().as_millis()));
		},
		"exact" => {
			// The queue drains to EXACTLY the 16 MiB limit while a committer is throttled: c0 keeps
			// the log worker busy, c1 + c2 = limit + 1032, popping c0 and c1 leaves exactly the
			// limit, popping c2 leaves 0 (limit + 0 is not above the limit): the only pop that
			// can wake the waiting c3 is the one that brings the queue to exactly the limit.
			let limit: usize = 16 * 1024 * 1024;
			let mut tx0 = vec![];
			for j in 0..(60_000 + rng.below(40_000)) {
				tx0.push((key_of(9, 0, j), Some((rng.range(8, 40) as usize, rng.next()))));
			}
			let tx1 = vec![(key_of(9, 1, 0), Some((1000usize, rng.next())))];
			let tx2 = vec![(key_of(9, 2, 0), Some((limit - 32, rng.next())))];
			let tx3 = vec![(key_of(9, 3, 0), Some((rng.range(1, 64) as usize, rng.next())))];
			for (i, tx) in [tx0, tx1, tx2, tx3].iter().enumerate() {
				out.line(&format!("begin commit 9 {} exact", i));
				let t0 = Instant::now();
				let res = do_commit(&db, tx);
				if res.is_ok() {
					record(&expect, tx);
				}
				out.line(&format!(
					"commit 9 {} exact {} {}",
					i,
					t0.elapsed().as_millis(),
					match &res {
						Ok(()) => "ok".to_string(),
						Err(e) => format!("err:{}", err_kind(e)),
					}
				));
			}
			out.line("begin drop");
			let t0 = Instant::now();
			drop(db);
			out.line(&format!("drop {}", t0.elapsed().as_millis()));
		},
		"quiesce" => {
			// The pipeline drains WITHOUT further client activity and without a drop: the commit
			// worker is stalled (a parked value iteration holds the lock enact_logs needs) while a
			// backlog of flushed log files builds up (one file per paced commit), then the iteration
			// is released and the client goes quiet.  All log files must be reclaimed (length 0)
			// within the bound.
			let db = Arc::new(db);
			let mut pool = vec![];
			for idx in 0..3u64 {
				let tx = make_tx(&mut rng, 0, idx, "small", &mut pool);
				out.line(&format!("begin commit 0 {} small", idx));
				if do_commit(&db, &tx).is_ok() {
					record(&expect, &tx);
				}
				out.line(&format!("commit 0 {} small 0 ok", idx));
			}
			// wait until something is enacted (the iteration needs a stored value to call back on)
			let t0 = Instant::now();
			loop {
				let mut found = false;
				let _ = db.iter_column_while(0, |_| {
					found = true;
					false
				});
				if found || t0.elapsed() > Duration::from_secs(10) {
					break
				}
				std::thread::sleep(Duration::from_millis(5));
			}
			let parked = Arc::new(std::sync::atomic::AtomicBool::new(false));
			let release = Arc::new(std::sync::atomic::AtomicBool::new(false));
			let it = {
				let (db, parked, release) = (db.clone(), parked.clone(), release.clone());
				std::thread::spawn(move || {
					let _ = db.iter_column_while(0, |_| {
						parked.store(true, std::sync::atomic::Ordering::SeqCst);
						while !release.load(std::sync::atomic::Ordering::SeqCst) {
							std::thread::sleep(Duration::from_millis(1));
						}
						false
					});
				})
			};
			let t0 = Instant::now();
			while !parked.load(std::sync::atomic::Ordering::SeqCst) && t0.elapsed() < Duration::from_secs(5) {
				std::thread::sleep(Duration::from_millis(1));
			}
			out.line(&format!("parked {}", parked.load(std::sync::atomic::Ordering::SeqCst)));
			let backlog = rng.range(6, 26);
			for idx in 3..3 + backlog {
				let tx = make_tx(&mut rng, 0, idx, "small", &mut pool);
				out.line(&format!("begin commit 0 {} small", idx));
				let t0 = Instant::now();
				match do_commit(&db, &tx) {
					Ok(()) => {
						record(&expect, &tx);
						out.line(&format!("commit 0 {} small {} ok", idx, t0.elapsed().as_millis()));
					},
					Err(e) => out.line(&format!("commit 0 {} small {} err:{}", idx, t0.elapsed().as_millis(), err_kind(&e))),
				}
				std::thread::sleep(Duration::from_millis(6));
			}
			release.store(true, std::sync::atomic::Ordering::SeqCst);
			let _ = it.join();
			out.line("begin quiet");
			let pending = |dir: &Path| -> usize {
				std::fs::read_dir(dir)
					.map(|d| {
						d.filter_map(|e| e.ok())
							.filter(|e| e.file_name().to_string_lossy().starts_with("log") && e.metadata().map(|m| m.len() > 0).unwrap_or(false))
							.count()
					})
					.unwrap_or(0)
			};
			let t0 = Instant::now();
			let mut left = pending(&dir);
			while left > 0 && t0.elapsed() < Duration::from_secs(12) {
				std::thread::sleep(Duration::from_millis(20));
				left = pending(&dir);
				if t0.elapsed().as_millis() % 1000 < 25 {
					out.line("quiet waiting");
				}
			}
			out.line(&format!("quiet {} {}", t0.elapsed().as_millis(), left));
			if left > 0 {
				out.line(&format!(
					"FAIL quiesce: {} log file(s) still hold records {} ms after the client went quiet (backlog of {} flushed log files behind a stalled commit worker)",
					left,
					t0.elapsed().as_millis(),
					backlog
				));
			}
			out.line("begin drop");
			let t0 = Instant::now();
			drop(Arc::try_unwrap(db).ok().unwrap());
			out.line(&format!("drop {}", t0.elapsed().as_millis()));
		},
		"logs-nothread" => {
			// No workers: the client drives the stages and never calls clean_logs.  More than
			// MAX_LOG_FILES fully-read log files exist when the handle is dropped with one more
			// commit queued (which kill_logs has to log, flush and enact).
			let mut pool = vec![];
			let files = rng.range(5, 7);
			for idx in 0..files {
				let tx = make_tx(&mut rng, 0, idx, "small", &mut pool);
				out.line(&format!("begin commit 0 {} small", idx));
				do_commit(&db, &tx).unwrap();
				record(&expect, &tx);
				out.line(&format!("commit 0 {} small 0 ok", idx));
				db.process_commits().unwrap();
				db.flush_logs().unwrap();
				if idx < 5 {
					out.line(&format!("begin enact {}", idx));
					db.enact_logs().unwrap();
					out.line(&format!("enact {}", idx));
				}
			}
			let tx = make_tx(&mut rng, 0, files, "small", &mut pool);
			do_commit(&db, &tx).unwrap();
			record(&expect, &tx);
			out.line("begin drop");
			let t0 = Instant::now();
			drop(db);
			out.line(&format!("drop {}", t0.elapsed().as_millis()));
		},
		_ => unreachable!(),
	}

	// Reopen (no workers needed) and compare with what was acknowledged.
	out.line("begin reopen");
	let mut o2 = options(&final_dir, &cfg);
	o2.with_background_thread = false;
	let db = match Db::open(&o2) {
		Ok(db) => db,
		Err(e) => {
			out.line(&format!("FAIL reopen {:?}", e));
			return 4
		},
	};
	out.line("reopen ok");
	let e = expect.lock().unwrap();
	let mut bad = 0;
	if verify {
		for (k, v) in e.iter() {
			let got = db.get(0, k).unwrap();
			let want = v.map(|(len, fill)| value_of(len, fill));
			if got != want {
				bad += 1;
				if bad <= 3 {
					out.line(&format!(
						"FAIL verify key={} want_len={:?} got_len={:?}",
						hex(k),
						want.as_ref().map(|x| x.len()),
						got.as_ref().map(|x| x.len())
					));
				}
			}
		}
	}
	out.line(&format!("verify {} keys {} bad", e.len(), bad));
	out.line("begin drop2");
	drop(db);
	out.line("DONE");
	if bad > 0 {
		5
	} else {
		0
	}
}

// ----------------------------------------------------------------------------------- parent

#[derive(Default, Debug)]
struct ChildReport {
	lines: u64,
	commits_ok: u64,
	commits_err: u64,
	err_kinds: BTreeMap<String, u64>,
	classes: BTreeMap<String, u64>,
	max_commit_ms: u64,
	throttled: u64,
	drop_ms: Option<u64>,
	gone: u64,
	fails: Vec<String>,
	last_begin: String,
	done: bool,
	verified_keys: u64,
	timed_out: bool,
	exit: Option<i32>,
	wall_ms: u64,
}

fn run_child(dir: &Path, seed: u64, c: &Cfg, bound: Duration) -> ChildReport {
	let exe = std::env::current_exe().unwrap();
	let mut child = Command::new(exe)
		.arg("c15-child")
		.arg(dir)
		.arg(c.scenario)
		.arg(seed.to_string())
		.arg(flag(c.always_flush))
		.arg(flag(c.sync_wal))
		.arg(flag(c.sync_data))
		.arg(flag(c.threads))
		.stdout(Stdio::piped())
		.stderr(Stdio::null())
		.spawn()
		.expect("spawn c15 child");
	let stdout = child.stdout.take().unwrap();
	let (txc, rxc) = std::sync::mpsc::channel::<String>();
	let reader = std::thread::spawn(move || {
		for l in BufReader::new(stdout).lines() {
			match l {
				Ok(l) => {
					if txc.send(l).is_err() {
						break
					}
				},
				Err(_) => break,
			}
		}
	});
	let mut rep = ChildReport::default();
	let t0 = Instant::now();
	// The bound applies to the silence between two progress lines (every potentially blocking
	// call is bracketed by lines), and a generous total.
	let total = bound * 4;
	let mut last_progress = Instant::now();
	loop {
		match rxc.recv_timeout(Duration::from_millis(200)) {
			Ok(l) => {
				last_progress = Instant::now();
				rep.lines += 1;
				let w: Vec<&str> = l.split(' ').collect();
				match w[0] {
					"begin" => rep.last_begin = l.clone(),
					"commit" if w.len() >= 6 => {
						let ms: u64 = w[4].parse().unwrap_or(0);
						rep.max_commit_ms = rep.max_commit_ms.max(ms);
						if ms >= 20 {
							rep.throttled += 1;
						}
						*rep.classes.entry(w[3].to_string()).or_insert(0) += 1;
						if w[5] == "ok" {
							rep.commits_ok += 1;
						} else {
							rep.commits_err += 1;
							*rep.err_kinds.entry(w[5].to_string()).or_insert(0) += 1;
						}
					},
					"drop" if w.len() >= 2 => rep.drop_ms = w[1].parse().ok(),
					"gone" => rep.gone += 1,
					"FAIL" => rep.fails.push(l.clone()),
					"verify" if w.len() >= 2 => rep.verified_keys = w[1].parse().unwrap_or(0),
					"DONE" => rep.done = true,
					_ => {},
				}
			},
			Err(std::sync::mpsc::RecvTimeoutError::Timeout) => {
				if let Ok(Some(_)) = child.try_wait() {
					// drain what is left
					while let Ok(l) = rxc.recv_timeout(Duration::from_millis(50)) {
						if l == "DONE" {
							rep.done = true;
						}
						if l.starts_with("FAIL") {
							rep.fails.push(l);
						}
					}
					break
				}
				if last_progress.elapsed() > bound || t0.elapsed() > total {
					rep.timed_out = true;
					let _ = child.kill();
					break
				}
			},
			Err(_) => break,
		}
	}
	let status = child.wait().ok();
	rep.exit = status.and_then(|s| s.code());
	let _ = reader.join();
	rep.wall_ms = t0.elapsed().as_millis() as u64;
	rep
}

pub fn run(seeds: &[u64], thorough: bool, root: &Path, t: &mut Trace, ctr: &mut Counters, prop: &str) -> u64 {
	let mut fails = 0;
	// observed: whole scenarios take 0.1 .. 3 s on tmpfs; a single call far below 1 s.
	let bound = Duration::from_secs(if thorough { 120 } else { 60 });
	let mut confirmed_hangs: Vec<(&'static str, bool)> = vec![];
	for (i, seed) in seeds.iter().copied().enumerate() {
		// a run of many cases contains the rare directed scenarios for certain: every tenth case
		// moves to the next seed whose scenario is `quiesce` / `exact` (the adjusted seed is printed)
		let mut seed = seed;
		if seeds.len() >= 10 && (i % 10 == 3 || i % 10 == 8) {
			let want = if i % 10 == 3 { "quiesce" } else { "exact" };
			for j in 0..400 {
				if gen_cfg(seed + j, thorough).scenario == want {
					seed += j;
					break
				}
			}
		}
		let c = gen_cfg(seed, thorough);
		if confirmed_hangs.iter().any(|(sc, _)| *sc == c.scenario) || confirmed_hangs.len() >= 2 {
			// a hang costs two watchdog periods: one confirmed instance per scenario, two per run
			ctr.inc(&format!("skipped_after_confirmed_hang.{}", c.scenario));
			continue
		}
		let desc = format!(
			"seed={} scenario={} always_flush={} sync_wal={} sync_data={} threads={}",
			seed, c.scenario, c.always_flush, c.sync_wal, c.sync_data, c.threads
		);
		t.begin_case(&desc);
		let dir = fresh_dir(root, &format!("c15-{}", seed));
		let mut rep = run_child(&dir, seed, &c, bound);
		if rep.timed_out {
			// count only if it reproduces immediately with the same seed
			ctr.inc("watchdog.first_expiry");
			let _ = std::fs::remove_dir_all(&dir);
			let _ = std::fs::remove_dir_all(dir.with_extension("moved"));
			let rep2 = run_child(&dir, seed, &c, bound);
			if !rep2.timed_out {
				ctr.inc("watchdog.not_reproduced");
				t.comment(&format!("watchdog expiry at '{}' did not reproduce", rep.last_begin));
			}
			rep = rep2;
		}
		let mut failed = false;
		if rep.timed_out {
			t.oracle_fail(
				prop,
				&format!(
					"hang (reproduced twice, no progress for {} s) in scenario={} after '{}' ({} commits ok before)",
					bound.as_secs(),
					c.scenario,
					rep.last_begin,
					rep.commits_ok
				),
			);
			ctr.inc(&format!("hang.{}", c.scenario));
			confirmed_hangs.push((c.scenario, c.sync_data));
			failed = true;
		} else if !rep.done || !rep.fails.is_empty() || rep.exit != Some(0) {
			t.oracle_fail(
				prop,
				&format!(
					"scenario={} child exit={:?} done={} after '{}': {}",
					c.scenario,
					rep.exit,
					rep.done,
					rep.last_begin,
					rep.fails.join(" | ")
				),
			);
			failed = true;
		}
		t.op(
			&format!("c15 {} {} {} {} {}", c.scenario, flag(c.always_flush), flag(c.sync_wal), flag(c.sync_data), flag(c.threads)),
			if failed { "fail" } else { "ok" },
		);
		t.comment(&format!(
			"commits ok={} err={} gone={} max_commit_ms={} slow(>=20ms)={} drop_ms={:?} verified_keys={} wall_ms={}",
			rep.commits_ok, rep.commits_err, rep.gone, rep.max_commit_ms, rep.throttled, rep.drop_ms, rep.verified_keys, rep.wall_ms
		));
		ctr.inc("cases");
		ctr.inc(&format!("scenario.{}", c.scenario));
		ctr.inc(if c.always_flush { "cfg.always_flush" } else { "cfg.min_log_size_64m" });
		ctr.inc(if c.sync_data { "cfg.sync_data" } else { "cfg.no_sync_data" });
		ctr.inc(if c.sync_wal { "cfg.sync_wal" } else { "cfg.no_sync_wal" });
		ctr.add("commits.ok", rep.commits_ok);
		ctr.add("commits.err", rep.commits_err);
		ctr.add("commits.slow_ge_20ms", rep.throttled);
		ctr.add("keys.verified_after_reopen", rep.verified_keys);
		for (k, v) in &rep.classes {
			ctr.add(&format!("tx.{}", k), *v);
		}
		for (k, v) in &rep.err_kinds {
			ctr.add(&format!("commit.{}", k), *v);
		}
		if let Some(d) = rep.drop_ms {
			ctr.add("drop.total_ms", d);
			let b = if d < 10 { "lt10ms" } else if d < 100 { "lt100ms" } else if d < 1000 { "lt1s" } else { "ge1s" };
			ctr.inc(&format!("drop.{}", b));
		}
		let prev = ctr.0.get("commit.max_ms").copied().unwrap_or(0);
		if rep.max_commit_ms > prev {
			ctr.0.insert("commit.max_ms".into(), rep.max_commit_ms);
		}
		if failed {
			fails += 1;
		}
		t.end_case(rep.commits_ok > 0);
		let _ = std::fs::remove_dir_all(&dir);
		let _ = std::fs::remove_dir_all(dir.with_extension("moved"));
	}
	fails
}
