//! C05 / C04, btree columns: point reads, `get_size` and iterator seeks of keys that no concurrent transaction
//! writes, while another thread restructures the tree around them.
//!
//! A btree column holds a set of "stable" keys, written once and pushed through the whole pipeline.  A churn
//! thread inserts and removes variable-length keys that sort directly below each stable key, so that the nodes
//! on the path to every stable key are split, merged, moved between size tiers and their slots reused; after
//! every commit it writes the commit to the log (`process_commits`: the new nodes are published in the log
//! overlay in one step by `Log::end_record`) and every few commits flushes / enacts / cleans.  Reader threads
//! only read stable keys; since no transaction writes them, EVERY read must return the one committed value
//! (C05: "the latest for that key at some moment between the read's start and end"; C04: "answered against the
//! latest committed state"), `get_size` its length, and a forward iterator step after `seek(stable key)` the key
//! itself.  A reader that follows a stale child address because a record was published in the middle of its
//! tree walk sees `None` or `Corruption` (seeded change C05-c05e: the log-overlay read guard no longer spans
//! the walk).  Two modes: stepping API without workers (seed % 3 != 0) and real background workers (seed % 3 == 0).
//! Schedules are sampled (the OS decides); oracle only (comments, no model lines): the tie to the model is the
//! T0 obligation `Ord.btree_reads_hold_log_overlay_guard`.
use crate::util::*;
use parity_db::{Db, Options};
use std::path::Path;
use std::sync::atomic::{AtomicBool, AtomicU64, Ordering};
use std::sync::{Arc, Mutex};
use std::time::{Duration, Instant};

fn stable_key(g: usize) -> Vec<u8> {
	format!("g{:02}~stable", g).into_bytes()
}
fn stable_value(g: usize, salt: u64) -> Vec<u8> {
	format!("value-of-stable-key-{:02}-{:x}", g, salt).into_bytes()
}
fn churn_key(g: usize, i: usize, pad_unit: usize) -> Vec<u8> {
	let pad = "x".repeat((i % 7) * pad_unit);
	format!("g{:02}c{:04}{}", g, i, pad).into_bytes()
}

fn step(db: &Db, tx: Vec<(u8, Vec<u8>, Option<Vec<u8>>)>, n: &mut u64, stepping: bool, every: u64) -> Result<(), parity_db::Error> {
	db.commit(tx)?;
	*n += 1;
	if stepping {
		db.process_commits()?;
		if *n % every == 0 {
			db.flush_logs()?;
			db.enact_logs()?;
			db.clean_logs()?;
		}
	}
	Ok(())
}

fn case(seed: u64, thorough: bool, root: &Path, t: &mut Trace, ctr: &mut Counters, prop: &str) -> bool {
	let mut rng = Rng::new(seed);
	let stepping = seed % 3 != 0;
	let groups = rng.range(6, 14) as usize;
	let churn = rng.range(20, 48) as usize;
	let batch = rng.range(3, 8) as usize;
	let readers = rng.range(2, 5) as usize;
	let pad_unit = rng.range(5, 12) as usize;
	let every = rng.range(3, 12);
	let salt = rng.next();
	let rounds = if thorough { 60 } else { 6 };
	let budget = Duration::from_secs(if thorough { 40 } else { 6 });
	t.begin_case(&format!(
		"seed={} btree churn: {} stable keys, {} churn keys per group in batches of {}, {} readers, {} (enact every {})",
		seed, groups, churn, batch, readers, if stepping { "stepping API" } else { "background workers" }, every));
	ctr.inc(if stepping { "c05bt.mode.stepping" } else { "c05bt.mode.workers" });
	let dir = fresh_dir(root, &format!("c05bt-{}", seed));
	let mut options = Options::with_columns(&dir, 1);
	options.columns[0].btree_index = true;
	options.with_background_thread = !stepping;
	options.always_flush = true;
	let db = match Db::open_or_create(&options) {
		Ok(db) => Arc::new(db),
		Err(e) => {
			t.oracle_fail(prop, &format!("c05bt: open failed: {:?}", e));
			t.end_case(false);
			return false
		},
	};
	let mut n = 0u64;
	let tx: Vec<_> = (0..groups).map(|g| (0u8, stable_key(g), Some(stable_value(g, salt)))).collect();
	let mut ok = true;
	if let Err(e) = step(&db, tx, &mut n, stepping, 1) {
		t.oracle_fail(prop, &format!("c05bt: initial commit failed: {:?}", e));
		ok = false;
	}
	let stop = Arc::new(AtomicBool::new(false));
	let reads = Arc::new(AtomicU64::new(0));
	let failures: Arc<Mutex<Vec<String>>> = Arc::new(Mutex::new(Vec::new()));
	let mut handles = Vec::new();
	for r in 0..readers {
		let (db, stop, reads, failures) = (db.clone(), stop.clone(), reads.clone(), failures.clone());
		handles.push(std::thread::spawn(move || {
			let keys: Vec<(Vec<u8>, Vec<u8>)> = (0..groups).map(|g| (stable_key(g), stable_value(g, salt))).collect();
			let mut i = r;
			while !stop.load(Ordering::Relaxed) {
				let (key, value) = &keys[i % groups];
				i += 1;
				let bad = match i % 5 {
					0 => match db.get_size(0, key) {
						Ok(Some(l)) if l as usize == value.len() => None,
						other => Some(format!("get_size returned {:?}", other.map_err(|e| format!("{:?}", e)))),
					},
					1 => {
						// iterator: seek to the stable key, the next step must yield it
						match db.iter(0) {
							Ok(mut it) => match it.seek(key).and_then(|_| it.next()) {
								Ok(Some((k, v))) if &k == key && &v == value => None,
								other => Some(format!("iterator seek + next returned {:?}",
									other.map(|o| o.map(|(k, _)| String::from_utf8_lossy(&k).into_owned())).map_err(|e| format!("{:?}", e)))),
							},
							Err(e) => Some(format!("iter failed: {:?}", e)),
						}
					},
					_ => match db.get(0, key) {
						Ok(Some(v)) if &v == value => None,
						other => Some(format!("get returned {:?}",
							other.map(|v| v.map(|v| String::from_utf8_lossy(&v).into_owned())).map_err(|e| format!("{:?}", e)))),
					},
				};
				reads.fetch_add(1, Ordering::Relaxed);
				if let Some(msg) = bad {
					failures.lock().unwrap().push(format!(
						"reader {}: key {} (committed once, never written again): {}", r, String::from_utf8_lossy(key), msg));
					stop.store(true, Ordering::Relaxed);
					return
				}
			}
		}));
	}
	let start = Instant::now();
	let mut done_rounds = 0;
	// at least `rounds` complete rounds AND at least `min_time` of overlap with the readers (with real workers a
	// commit returns at once: six rounds are over before the reader threads have started), at most `budget`
	let min_time = Duration::from_millis(if thorough { 4000 } else { 1200 });
	'churn: loop {
		if start.elapsed() > budget || (done_rounds >= rounds && start.elapsed() >= min_time) { break }
		done_rounds += 1;
		for del in [false, true] {
			for first in (0..churn).step_by(batch) {
				let mut tx = Vec::new();
				for g in 0..groups {
					for i in first..(first + batch).min(churn) {
						let v = if del { None } else { Some(vec![(i % 251) as u8; 8 + (i % 5) * 40]) };
						tx.push((0u8, churn_key(g, i, pad_unit), v));
					}
				}
				if let Err(e) = step(&db, tx, &mut n, stepping, every) {
					failures.lock().unwrap().push(format!("commit / pipeline step failed: {:?}", e));
					break 'churn
				}
				if stop.load(Ordering::Relaxed) { break 'churn }
			}
		}
	}
	stop.store(true, Ordering::Relaxed);
	for h in handles {
		if h.join().is_err() {
			failures.lock().unwrap().push("a reader thread panicked".to_string());
		}
	}
	let nreads = reads.load(Ordering::Relaxed);
	ctr.add("c05bt.reads", nreads);
	ctr.add("c05bt.commits", n);
	ctr.add("c05bt.rounds", done_rounds);
	for f in failures.lock().unwrap().iter() {
		t.oracle_fail(prop, &format!("c05bt: {}", f));
		ok = false;
	}
	// after the churn every stable key is still there, and only they
	let mut live = 0;
	if let Ok(mut it) = db.iter(0) {
		let _ = it.seek_to_first();
		while let Ok(Some(_)) = it.next() { live += 1; if live > 100000 { break } }
	}
	if ok && live != groups {
		t.oracle_fail(prop, &format!("c05bt: {} live keys after complete churn rounds, expected the {} stable keys", live, groups));
		ok = false;
	}
	t.comment(&format!("c05bt: {} commits, {} reads, {} rounds, live={}", n, nreads, done_rounds, live));
	drop(db);
	let _ = std::fs::remove_dir_all(&dir);
	t.end_case(nreads > 100 && n > 10);
	ok
}

pub fn run(seeds: &[u64], thorough: bool, root: &Path, t: &mut Trace, ctr: &mut Counters, prop: &str) -> u64 {
	let mut fails = 0;
	for s in seeds.iter().copied() {
		ctr.inc("cases");
		if !case(s, thorough, root, t, ctr, prop) {
			fails += 1;
			t.comment(&format!("FAILED-CASE seed={}", s));
		}
	}
	fails
}
