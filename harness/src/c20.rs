//! C20: migration copies every key, value and reference count.
//!
//! One case = one real source database (1..3 hash columns, optionally a btree column) with
//! generated content, closed cleanly, then `parity_db::migrate` into destination options that
//! differ in compression / preimage / ref_counted (uniform kept), forced or automatic column
//! selection, in-place overwrite on or off.  The result is compared with an independent
//! oracle (plain `BTreeMap` reference semantics of Set / Reference / Dereference):
//!   * every key returns the same value (`Db::get`), same count on ref-counted destinations
//!     (`iter_column_while`, the index walk, Dereference until the key disappears),
//!   * no other key exists (value walk and index walk yield exactly the oracle's entries),
//!   * unselected columns are byte-identical copies, the source is unchanged unless overwrite.
//!   * a multitree column (2 cases in 5; always the last column, same options on both sides unless
//!     the case wants it selected): trees sharing nodes (`NodeRef::Existing`), an independent
//!     forest oracle; unselected => all its files incl. `refcount_CC_BB` are identical copies / stay
//!     in place, every tree reads back, entry count and stored node reference counts are the
//!     source's, and after `DereferenceTree` of a tree that shares nodes the other trees still read
//!     back (also after a reopen); selected (forced or options differ) => `migrate` must refuse.
//! Model ops (driver command `c20`):
//!   c20 plan <overwrite> <n> <src col>*n <m> <dst col>*m <force|->      -> ok | err:Migration
//!   c20 files <overwrite> <ncols> <selected|-> <source file names|->    -> files of unselected columns in the result
//!   c20 walk <srckind> <dstkind> <t> (<ib> <n> (<chunk> <entry> <tail|-> <val|-> <rc>)*n)*t
//!        -> destination content through the refined model of the index walk | err:Corruption
//!   c20 migrate <srckind> <dstkind> <n> (<hexkey> <valtoken> <rc>)*n     -> key=val*count ...
//!   c20 recover <ib> <chunk> <entry> <hex tail26>                        -> hex key (32 bytes)
//!   c20 prefix <ib> <chunk> <entry>                                      -> hex key prefix (32 bytes)
//! Hooks (fixes/hook-c20.diff, cfg pdb_verif, read-only): `Db::verif_iter_index` (the walk `migrate`
//! uses, `iter_column_index_while`), `Db::verif_hash_key`, `Db::verif_index_tables`,
//! `Db::verif_index_entries` (raw (chunk, entry, tail) triples), `verif::recover_key_prefix`.
//! Scenarios `grown` / `pending` use the identity hash (uniform column, zero salt) and keys
//! sharing their first 16 bits to overflow an index page: `grown` completes the reindex
//! before closing (index sizes 17, 18), `pending` closes with the older index file still
//! queued (pre-finding F10). `stale`: more than MAX_REINDEX_BATCH keys, the index grows at the very
//! end, ONE reindex batch copies a part of the old table, then keys whose entry sits in both
//! tables are removed (and in half of the cases new keys take the freed slots): the queued older
//! table keeps entries of removed keys (known finding STALE-ENTRY: the walk reports a key that was
//! never written, or fails with Corruption).
use crate::util::*;
use parity_db::{ColumnOptions, CompressionType, Db, NewNode, NodeRef, Operation, Options};
use std::collections::{BTreeMap, BTreeSet};
use std::path::{Path, PathBuf};

#[derive(Clone, Copy, PartialEq, Eq, Debug)]
pub enum Kind {
	Plain,
	Preimage,
	Rc,
}

impl Kind {
	fn name(self) -> &'static str {
		match self {
			Kind::Plain => "plain",
			Kind::Preimage => "preimage",
			Kind::Rc => "rc",
		}
	}
}

/// Multitree flavour of a column (`No`: an ordinary key-value column).
#[derive(Clone, Copy, PartialEq, Eq, Debug)]
pub enum Mt {
	No,
	/// multitree, node reference counts in `refcount_CC_BB`
	Plain,
	/// multitree + ref_counted roots (preimage), node reference counts in `refcount_CC_BB`
	Rc,
	/// multitree + append_only: no ref-count table, nothing is ever removed
	AppendOnly,
}

#[derive(Clone, Debug, PartialEq, Eq)]
pub struct ColCfg {
	pub kind: Kind,
	pub uniform: bool,
	pub btree: bool,
	pub compression: CompressionType,
	pub mt: Mt,
}

fn comp_id(c: CompressionType) -> u8 {
	match c {
		CompressionType::NoCompression => 0,
		CompressionType::Lz4 => 1,
		CompressionType::Snappy => 2,
	}
}

fn comp_name(c: CompressionType) -> &'static str {
	match c {
		CompressionType::NoCompression => "none",
		CompressionType::Lz4 => "lz4",
		CompressionType::Snappy => "snappy",
	}
}

impl ColCfg {
	fn options(&self) -> ColumnOptions {
		ColumnOptions {
			preimage: self.kind != Kind::Plain,
			uniform: self.uniform,
			ref_counted: self.kind == Kind::Rc,
			compression: self.compression,
			btree_index: self.btree,
			multitree: self.mt != Mt::No,
			append_only: self.mt == Mt::AppendOnly,
			allow_direct_node_access: self.mt == Mt::Plain || self.mt == Mt::Rc,
		}
	}
	/// model token `<kind>:u<0|1>:c<0..2>:b<0|1>[:m1:a<0|1>]`
	fn token(&self) -> String {
		let base = format!(
			"{}:u{}:c{}:b{}",
			self.kind.name(),
			self.uniform as u8,
			comp_id(self.compression),
			self.btree as u8
		);
		if self.mt == Mt::No {
			base
		} else {
			format!("{}:m1:a{}", base, (self.mt == Mt::AppendOnly) as u8)
		}
	}
	/// an ordinary hash-indexed key-value column (what `migrate` can re-populate)
	fn is_kv_hash(&self) -> bool {
		!self.btree && self.mt == Mt::No
	}
	fn mt_cfg(mt: Mt) -> ColCfg {
		ColCfg {
			kind: if mt == Mt::Rc { Kind::Rc } else { Kind::Plain },
			uniform: false,
			btree: false,
			compression: CompressionType::NoCompression,
			mt,
		}
	}
}

fn make_options(path: &Path, cols: &[ColCfg], salt: Option<[u8; 32]>, threads: bool, thr: Option<u32>) -> Options {
	let mut o = Options::with_columns(path, cols.len() as u8);
	for (i, c) in cols.iter().enumerate() {
		o.columns[i] = c.options();
		if let Some(t) = thr {
			o.compression_threshold.insert(i as u8, t);
		}
	}
	o.salt = salt;
	o.with_background_thread = threads;
	o.always_flush = !threads;
	o.stats = false;
	o
}

/// user key -> (value, count); count is 1 on columns without reference counting.
type Content = BTreeMap<Vec<u8>, (Vec<u8>, u64)>;

#[derive(Clone, Debug)]
enum Op {
	Set(Vec<u8>, Vec<u8>),
	Reference(Vec<u8>),
	Dereference(Vec<u8>),
}

impl Op {
	fn to_db(&self) -> Operation<Vec<u8>, Vec<u8>> {
		match self {
			Op::Set(k, v) => Operation::Set(k.clone(), v.clone()),
			Op::Reference(k) => Operation::Reference(k.clone()),
			Op::Dereference(k) => Operation::Dereference(k.clone()),
		}
	}
}

/// Independent reference semantics of one operation on one column.
fn apply(kind: Kind, m: &mut Content, op: &Op) {
	match (kind, op) {
		(Kind::Plain, Op::Set(k, v)) => {
			m.insert(k.clone(), (v.clone(), 1));
		},
		(Kind::Preimage, Op::Set(k, v)) => {
			m.entry(k.clone()).or_insert((v.clone(), 1));
		},
		(Kind::Rc, Op::Set(k, v)) => {
			m.entry(k.clone()).or_insert((v.clone(), 0)).1 += 1;
		},
		(Kind::Rc, Op::Reference(k)) =>
			if let Some(e) = m.get_mut(k) {
				e.1 += 1;
			},
		(Kind::Rc, Op::Dereference(k)) => {
			let gone = match m.get_mut(k) {
				Some(e) => {
					e.1 -= 1;
					e.1 == 0
				},
				None => false,
			};
			if gone {
				m.remove(k);
			}
		},
		(_, Op::Dereference(k)) => {
			m.remove(k);
		},
		_ => {},
	}
}

fn size_class(len: usize) -> &'static str {
	match len {
		0 => "0",
		1..=31 => "1-31",
		32..=255 => "32-255",
		256..=4095 => "256-4095",
		4096..=32000 => "4096-32000",
		32001..=32800 => "boundary-32001-32800",
		_ => "multipart>32800",
	}
}

struct Gen<'a> {
	rng: &'a mut Rng,
	vals: &'a mut Values,
	tok_seed: u64,
	big_left: u32,
	/// zero salt: the identity hash of the instrumentation feature needs exactly 32 bytes
	exact32: bool,
	/// bulk column: small values, counts 4..5
	bulk: bool,
	/// clustered keys share 18 bits instead of 16: the index grows several times in a row
	share18: bool,
	/// only keys with an id from here on are clustered (the others are spread over the index)
	cluster_from: u64,
	/// small values only
	small: bool,
}

impl<'a> Gen<'a> {
	fn value_token(&mut self) -> String {
		let r = if self.bulk || self.small { 1 + self.rng.below(12) } else { self.rng.below(40) };
		let len = match r {
			0 => 0,
			1..=5 => self.rng.range(1, 8),
			6..=12 => self.rng.range(20, 40),
			13..=20 => self.rng.range(40, 200),
			21..=27 => self.rng.range(200, 1000),
			28..=31 => self.rng.range(1000, 5000),
			32..=33 => self.rng.range(4000, 4200),
			34..=35 => self.rng.range(8000, 9000),
			36..=37 => self.rng.range(32700, 32800),
			38 => self.rng.range(33000, 40000),
			_ => self.rng.range(60000, 70000),
		};
		let len = if len > 30000 {
			if self.big_left == 0 {
				self.rng.range(100, 300)
			} else {
				self.big_left -= 1;
				len
			}
		} else {
			len
		};
		self.tok_seed += 1;
		// distinct seed per token: distinct values (needed to tell values apart in value walks)
		let tok = format!("v{}_{}", len, self.tok_seed * 8 + self.rng.below(8));
		self.vals.canon(tok)
	}

	fn key(&mut self, cfg: &ColCfg, id: u64, cluster: Option<u16>) -> Vec<u8> {
		let len = if cfg.uniform && self.exact32 {
			32
		} else if cfg.uniform {
			*self.rng.pick(&[32u64, 32, 32, 33, 40])
		} else {
			*self.rng.pick(&[1u64, 2, 5, 8, 31, 32, 33, 64, 120])
		} as usize;
		let len = std::cmp::max(len, if cfg.uniform { 32 } else { 1 });
		let mut k = Vec::with_capacity(len + 8);
		while k.len() < len {
			k.extend_from_slice(&self.rng.next().to_le_bytes());
		}
		k.truncate(len);
		if len >= 4 {
			// embed the id: pairwise distinct keys (bytes 8..12 when long enough, else the tail)
			let pos = if len >= 12 { 8 } else { len - 4 };
			k[pos..pos + 4].copy_from_slice(&(id as u32).to_be_bytes());
		} else {
			// short keys: extend so that they stay distinct
			k.extend_from_slice(&(id as u32).to_be_bytes());
		}
		if let Some(c) = cluster {
			k[0..2].copy_from_slice(&c.to_be_bytes());
			if self.share18 {
				k[2] &= 0x3f;
			}
		}
		k
	}
}

struct ColData {
	ops: Vec<Op>,
	content: Content,
	removed: Vec<Vec<u8>>,
}

fn gen_column(g: &mut Gen, cfg: &ColCfg, nkeys: u64, cluster: Option<u16>, ctr: &mut Counters) -> ColData {
	let mut ops = vec![];
	let mut removed = vec![];
	let cluster_all = cluster;
	for id in 0..nkeys {
		let cluster = if id >= g.cluster_from { cluster_all } else { None };
		let k = g.key(cfg, id, cluster);
		let tok = g.value_token();
		let v = g.vals.bytes(&tok);
		match cfg.kind {
			Kind::Rc => {
				let count = match if g.bulk { 7 + g.rng.below(3) } else { g.rng.below(10) } {
					0..=3 => 1,
					4..=5 => 2,
					6 => 3,
					7 => 4,
					_ => 5,
				};
				ops.push(Op::Set(k.clone(), v.clone()));
				for _ in 1..count {
					if g.rng.chance(1, 2) {
						ops.push(Op::Set(k.clone(), v.clone()));
					} else {
						ops.push(Op::Reference(k.clone()));
					}
				}
				if g.rng.chance(1, 10) {
					// one more reference taken and released again
					ops.push(Op::Reference(k.clone()));
					ops.push(Op::Dereference(k.clone()));
				}
				if cluster.is_none() && g.rng.chance(1, 12) {
					for _ in 0..count {
						ops.push(Op::Dereference(k.clone()));
					}
					removed.push(k.clone());
				}
			},
			Kind::Preimage => {
				ops.push(Op::Set(k.clone(), v.clone()));
				if g.rng.chance(1, 6) {
					ops.push(Op::Set(k.clone(), v.clone()));
				}
				if cluster.is_none() && g.rng.chance(1, 12) {
					ops.push(Op::Dereference(k.clone()));
					removed.push(k.clone());
				}
			},
			Kind::Plain => {
				if g.rng.chance(1, 5) {
					let t0 = g.value_token();
					let v0 = g.vals.bytes(&t0);
					ops.push(Op::Set(k.clone(), v0));
				}
				ops.push(Op::Set(k.clone(), v.clone()));
				if cluster.is_none() && g.rng.chance(1, 12) {
					ops.push(Op::Dereference(k.clone()));
					removed.push(k.clone());
				}
			},
		}
	}
	let mut content = Content::new();
	for op in &ops {
		apply(cfg.kind, &mut content, op);
	}
	if cluster_all.is_some() {
		// removals AFTER all inserts of a clustered (one index page) key set: the freed index
		// slots stay empty, so the page has holes in front of live entries when it is walked
		let nrem = g.rng.range(2, 6);
		for _ in 0..nrem {
			if content.is_empty() {
				break
			}
			let pick = g.rng.below(content.len() as u64) as usize;
			let k = content.keys().nth(pick).unwrap().clone();
			if let Some((_, n)) = content.get(&k).cloned() {
				let times = if cfg.kind == Kind::Rc { n } else { 1 };
				for _ in 0..times {
					let op = Op::Dereference(k.clone());
					apply(cfg.kind, &mut content, &op);
					ops.push(op);
				}
				if !content.contains_key(&k) {
					removed.push(k.clone());
					ctr.inc("clustered.removed_after_inserts");
				}
			}
		}
	}
	for (_, (v, n)) in content.iter() {
		ctr.inc(&format!("size.{}", size_class(v.len())));
		if cfg.kind == Kind::Rc {
			ctr.inc(&format!("rc.count.{}", n));
		}
	}
	ColData { ops, content, removed }
}

fn drain(db: &Db) -> Result<(), parity_db::Error> {
	for _ in 0..3 {
		db.process_commits()?;
	}
	db.flush_logs()?;
	db.enact_logs()?;
	db.clean_logs()?;
	Ok(())
}

/// Fast content hash of a file (holes skipped with SEEK_DATA / SEEK_HOLE; zero words do not
/// contribute, so a hole and explicit zeros hash alike); `skip` = byte range left out
/// (the statistics area of an index file header).
fn hash_file(p: &Path, skip: Option<(u64, u64)>) -> u64 {
	use std::io::{Read, Seek, SeekFrom};
	use std::os::unix::io::AsRawFd;
	let mut f = match std::fs::File::open(p) {
		Ok(f) => f,
		Err(_) => return 0,
	};
	let len = f.metadata().map(|m| m.len()).unwrap_or(0);
	let mut h: u64 = 0xcbf2_9ce4_8422_2325 ^ len;
	let fd = f.as_raw_fd();
	let mut off: u64 = 0;
	let mut buf = vec![0u8; 1 << 20];
	while off < len {
		let d = unsafe { libc::lseek(fd, off as i64, libc::SEEK_DATA) };
		if d < 0 {
			break
		}
		let e = unsafe { libc::lseek(fd, d, libc::SEEK_HOLE) };
		let (d, e) = (d as u64 & !7, if e < 0 { len } else { e as u64 });
		let mut pos = d;
		f.seek(SeekFrom::Start(pos)).unwrap();
		while pos < e {
			let want = std::cmp::min(buf.len() as u64, e - pos) as usize;
			let n = f.read(&mut buf[..want]).unwrap();
			if n == 0 {
				break
			}
			let mut i = 0;
			while i < n {
				let m = std::cmp::min(8, n - i);
				let mut w = [0u8; 8];
				w[..m].copy_from_slice(&buf[i..i + m]);
				let x = u64::from_le_bytes(w);
				let at = pos + i as u64;
				let skipped = match skip {
					Some((a, b)) => at >= a && at < b,
					None => false,
				};
				if x != 0 && !skipped {
					h = (h ^ x ^ at.wrapping_mul(0x9E37_79B9_7F4A_7C15)).wrapping_mul(0x0000_0100_0000_01B3);
					h = h.rotate_left(29);
				}
				i += 8;
			}
			pos += n as u64;
		}
		off = std::cmp::max(e, off + 1);
	}
	h
}

fn col_of_file(name: &str) -> Option<u8> {
	// index_CC_BB, table_CC_TT, refcount_CC_BB (the three kinds `Column::drop_files` deletes)
	let parts: Vec<&str> = name.split('_').collect();
	if parts.len() == 3 && (parts[0] == "index" || parts[0] == "table" || parts[0] == "refcount") {
		parts[1].parse::<u8>().ok()
	} else {
		None
	}
}

/// column files of a database directory -> content hash (index statistics area excluded
/// unless `full`)
fn dir_hashes_opt(dir: &Path, full: bool) -> BTreeMap<String, u64> {
	let mut m = BTreeMap::new();
	if let Ok(rd) = std::fs::read_dir(dir) {
		for e in rd {
			let e = e.unwrap();
			let n = e.file_name().to_string_lossy().to_string();
			if col_of_file(&n).is_some() {
				let skip = if n.starts_with("index") && !full { Some((512, 16384)) } else { None };
				m.insert(n, hash_file(&e.path(), skip));
			}
		}
	}
	m
}

fn dir_hashes(dir: &Path) -> BTreeMap<String, u64> {
	dir_hashes_opt(dir, false)
}

/// Model op `c20 walk`: the raw index tables of a source column, oldest first, every entry with
/// the key tail / value / count of the value slot it addresses (`- - 0`: no live value).
/// Returns the line and the number of entries without a live value.
#[allow(clippy::type_complexity)]
fn walk_op_line(
	s: &ColCfg,
	d: &ColCfg,
	raw: &[(u8, Vec<(u64, u64, Option<Vec<u8>>)>)],
	content: &Content,
	hashed: &BTreeMap<Vec<u8>, [u8; 32]>,
	vals: &Values,
) -> (String, usize) {
	let by_tail: BTreeMap<Vec<u8>, (&Vec<u8>, u64)> = content.iter().map(|(k, (v, n))| (hashed[k][6..].to_vec(), (v, *n))).collect();
	let mut wl = format!("c20 walk {} {} {}", s.kind.name(), d.kind.name(), raw.len());
	let mut stale = 0;
	for (bits, entries) in raw.iter() {
		wl.push_str(&format!(" {} {}", bits, entries.len()));
		for (chunk, entry, tail) in entries.iter() {
			match tail.as_ref().and_then(|tl| by_tail.get(tl).map(|x| (tl, x))) {
				Some((tl, (v, n))) => wl.push_str(&format!(" {} {} {} {} {}", chunk, entry, hex(tl), vals.render(v), n)),
				None => {
					stale += 1;
					wl.push_str(&format!(" {} {} - - 0", chunk, entry))
				},
			}
		}
	}
	(wl, stale)
}

fn res_str(r: &Result<(), parity_db::Error>) -> String {
	match r {
		Ok(()) => "ok".into(),
		Err(e) => format!("err:{}", err_kind(e)),
	}
}

struct Case {
	seed: u64,
	scenario: &'static str,
	src: Vec<ColCfg>,
	dst: Vec<ColCfg>,
	overwrite: bool,
	force: Vec<u8>,
	salt: [u8; 32],
	/// index of the additional multitree column (always the last one), if the case has one
	mt_col: Option<usize>,
}

fn describe(case: &Case) -> String {
	let cols: Vec<String> = case
		.src
		.iter()
		.zip(case.dst.iter())
		.map(|(s, d)| format!("{}->{}", s.token(), d.token()))
		.collect();
	format!(
		"seed={} scenario={} overwrite={} force={:?} cols=[{}]",
		case.seed,
		case.scenario,
		case.overwrite as u8,
		case.force,
		cols.join(" ")
	)
}

fn render_content(m: &BTreeMap<Vec<u8>, (Vec<u8>, u64)>, vals: &Values) -> String {
	if m.is_empty() {
		return "-".into()
	}
	m.iter().map(|(k, (v, n))| format!("{}={}*{}", hex(k), vals.render(v), n)).collect::<Vec<_>>().join(" ")
}

/// Synthetic round trips through the real `recover_key_prefix` for all index sizes.
fn synthetic_recover(rng: &mut Rng, t: &mut Trace, ctr: &mut Counters, prop: &str, n: usize) -> u64 {
	let mut fails = 0;
	for _ in 0..n {
		let ib = rng.range(16, 49) as u32;
		let mut k = [0u8; 32];
		for i in 0..4 {
			k[i * 8..i * 8 + 8].copy_from_slice(&rng.next().to_le_bytes());
		}
		match rng.below(6) {
			0 => k[0..8].copy_from_slice(&[0u8; 8]),
			1 => k[0..8].copy_from_slice(&[0xff; 8]),
			2 => {
				k[6] = 0xff;
				k[7] = 0xff
			},
			_ => {},
		}
		let prefix = u64::from_be_bytes(k[0..8].try_into().unwrap());
		let ab = ib + 14;
		let addr = rng.next() & ((1u64 << ab) - 1);
		let chunk = prefix >> (64 - ib);
		let partial = (prefix << ib) >> ab;
		let entry = (partial << ab) | addr;
		let got = parity_db::verif::recover_key_prefix(ib as u8, chunk, entry);
		t.op(&format!("c20 prefix {} {} {}", ib, chunk, entry), &hex(&got));
		let mut full = got;
		full[6..].copy_from_slice(&k[6..]);
		t.op(&format!("c20 recover {} {} {} {}", ib, chunk, entry, hex(&k[6..])), &hex(&full));
		ctr.inc("recover.synthetic");
		if full != k {
			t.oracle_fail(
				prop,
				&format!("recover_key_prefix round trip: ib={} key={} recovered={}", ib, hex(&k), hex(&full)),
			);
			fails += 1;
		}
	}
	fails
}

// ---------------------------------------------------------------------------------------------
// Multitree column: independent oracle of a node forest with sharing.
//
// Nodes live in an arena; a tree is a root key with root data and child ids. A node referenced
// through `NodeRef::Existing` is shared between trees (or between two parents). Reference
// semantics: a node exists as long as it is reachable from a live root; `DereferenceTree`
// removes the root. Number of value entries = live roots + distinct reachable nodes.

#[derive(Clone, Debug)]
struct FNode {
	data: Vec<u8>,
	children: Vec<usize>,
	/// address in the source column, learnt by reading the tree back after the insertion
	addr: Option<u64>,
}

#[derive(Clone, Debug, Default)]
struct Forest {
	nodes: Vec<FNode>,
	/// root key -> (root data, child ids)
	roots: BTreeMap<Vec<u8>, (Vec<u8>, Vec<usize>)>,
}

enum GRef {
	New(usize),
	Existing(usize),
}

impl Forest {
	fn reachable(&self) -> BTreeSet<usize> {
		let mut seen = BTreeSet::new();
		let mut stack: Vec<usize> = self.roots.values().flat_map(|r| r.1.iter().copied()).collect();
		while let Some(n) = stack.pop() {
			if seen.insert(n) {
				stack.extend(self.nodes[n].children.iter().copied());
			}
		}
		seen
	}
	fn entries(&self) -> u64 {
		(self.roots.len() + self.reachable().len()) as u64
	}
	fn nodes_of(&self, key: &[u8]) -> BTreeSet<usize> {
		let mut seen = BTreeSet::new();
		let mut stack: Vec<usize> = self.roots.get(key).map(|r| r.1.clone()).unwrap_or_default();
		while let Some(n) = stack.pop() {
			if seen.insert(n) {
				stack.extend(self.nodes[n].children.iter().copied());
			}
		}
		seen
	}
	/// number of nodes reachable from more than one parent edge (roots count as parents)
	fn shared_nodes(&self) -> usize {
		let live = self.reachable();
		let mut indeg: BTreeMap<usize, usize> = BTreeMap::new();
		for r in self.roots.values() {
			for c in r.1.iter() {
				*indeg.entry(*c).or_insert(0) += 1;
			}
		}
		for n in live.iter() {
			for c in self.nodes[*n].children.iter() {
				*indeg.entry(*c).or_insert(0) += 1;
			}
		}
		indeg.values().filter(|d| **d > 1).count()
	}
}

/// Generates one new tree: arena nodes are appended (without address), the children of every new
/// node are new nodes or already addressed live nodes.
fn gen_tree(rng: &mut Rng, forest: &mut Forest, tag: &mut u32, want_share: bool) -> (Vec<u8>, Vec<u8>, Vec<GRef>) {
	fn data(rng: &mut Rng, tag: &mut u32) -> Vec<u8> {
		*tag += 1;
		let len = match rng.below(8) {
			0 => 4,
			1..=5 => rng.range(5, 40) as usize,
			6 => rng.range(100, 400) as usize,
			_ => rng.range(1000, 5000) as usize,
		};
		let mut d = Vec::with_capacity(len + 8);
		d.extend_from_slice(&tag.to_be_bytes());
		while d.len() < len {
			d.extend_from_slice(&rng.next().to_le_bytes());
		}
		d.truncate(std::cmp::max(len, 4));
		d
	}
	fn children(rng: &mut Rng, forest: &mut Forest, tag: &mut u32, depth: u32, shareable: &[usize], want_share: bool) -> Vec<GRef> {
		let n = if depth >= 3 { 0 } else { rng.below(if depth == 0 { 4 } else { 3 }) + (depth == 0) as u64 };
		let mut out = vec![];
		for i in 0..n {
			let share = !shareable.is_empty() && (rng.chance(1, 3) || (want_share && depth == 0 && i == 0));
			if share {
				out.push(GRef::Existing(*rng.pick(shareable)));
			} else {
				let d = data(rng, tag);
				let ch = children(rng, forest, tag, depth + 1, shareable, want_share);
				let ids: Vec<usize> = ch.iter().map(|c| match c { GRef::New(i) | GRef::Existing(i) => *i }).collect();
				forest.nodes.push(FNode { data: d, children: ids, addr: None });
				out.push(GRef::New(forest.nodes.len() - 1));
			}
		}
		out
	}
	let live = forest.reachable();
	let shareable: Vec<usize> = live.iter().copied().filter(|n| forest.nodes[*n].addr.is_some()).collect();
	*tag += 1;
	let mut key = (*tag).to_be_bytes().to_vec();
	let klen = rng.range(4, 40) as usize;
	while key.len() < klen {
		key.push(rng.below(256) as u8);
	}
	let rdata = data(rng, tag);
	let ch = children(rng, forest, tag, 0, &shareable, want_share);
	(key, rdata, ch)
}

/// New nodes of a generated tree are exactly those that have no address yet.
fn to_new_node(forest: &Forest, data: &[u8], ch: &[GRef]) -> NewNode {
	NewNode {
		data: data.to_vec(),
		children: ch
			.iter()
			.map(|c| match c {
				GRef::New(i) => NodeRef::New(to_new_node(
					forest,
					&forest.nodes[*i].data,
					&forest.nodes[*i].children.iter().map(|c| if forest.nodes[*c].addr.is_some() { GRef::Existing(*c) } else { GRef::New(*c) }).collect::<Vec<_>>(),
				)),
				GRef::Existing(i) => NodeRef::Existing(forest.nodes[*i].addr.expect("address of a live node")),
			})
			.collect(),
	}
}

/// Reads every tree of the oracle from the database (`get_root`, then `get_node` along the
/// child addresses) and compares data and shape. With `learn` unknown addresses are recorded,
/// otherwise every address must be the recorded one (an unselected column is a file copy).
fn read_forest(db: &Db, col: u8, forest: &mut Forest, learn: bool) -> Result<u64, String> {
	let mut visited = 0u64;
	let keys: Vec<Vec<u8>> = forest.roots.keys().cloned().collect();
	for key in keys {
		let (rdata, rch) = forest.roots.get(&key).cloned().unwrap();
		let got = db.get_root(col, &key).map_err(|e| format!("get_root({}): {:?}", hex(&key), e))?;
		let (data, addrs) = match got {
			Some(x) => x,
			None => return Err(format!("tree {} has no root", hex(&key))),
		};
		if data != rdata {
			return Err(format!("root data of tree {} differs", hex(&key)))
		}
		if addrs.len() != rch.len() {
			return Err(format!("root of tree {} has {} children, expected {}", hex(&key), addrs.len(), rch.len()))
		}
		let mut stack: Vec<(usize, u64)> = rch.iter().copied().zip(addrs.iter().copied()).collect();
		let mut guard = 0;
		while let Some((id, addr)) = stack.pop() {
			guard += 1;
			if guard > 100_000 {
				return Err("forest walk does not terminate".into())
			}
			match forest.nodes[id].addr {
				Some(a) if a != addr => return Err(format!("tree {}: node #{} is at address {} but was at {}", hex(&key), id, addr, a)),
				Some(_) => {},
				None if learn => forest.nodes[id].addr = Some(addr),
				None => return Err(format!("node #{} has no recorded address", id)),
			}
			let got = db.get_node(col, addr).map_err(|e| format!("get_node({}): {:?}", addr, e))?;
			let (data, addrs) = match got {
				Some(x) => x,
				None => return Err(format!("tree {}: child node #{} at address {} is missing (dangling child)", hex(&key), id, addr)),
			};
			visited += 1;
			if data != forest.nodes[id].data {
				return Err(format!("tree {}: data of node #{} at address {} differs", hex(&key), id, addr))
			}
			if addrs.len() != forest.nodes[id].children.len() {
				return Err(format!("tree {}: node #{} has {} children, expected {}", hex(&key), id, addrs.len(), forest.nodes[id].children.len()))
			}
			stack.extend(forest.nodes[id].children.iter().copied().zip(addrs.iter().copied()));
		}
	}
	Ok(visited)
}

/// node address -> stored reference count, merged over the ref-count tables (search order) and
/// the in-memory cache
fn rc_dump(db: &Db, col: u8) -> Option<BTreeMap<u64, u64>> {
	let d = db.verif_multitree_dump(col).ok().flatten()?;
	let mut m = BTreeMap::new();
	for (_, entries) in d.ref_count_tables.iter().rev() {
		for (a, n) in entries {
			m.insert(*a, *n);
		}
	}
	if let Some(cache) = d.ref_count_cache {
		for (a, n) in cache {
			m.insert(a, n);
		}
	}
	Some(m)
}

/// Builds the content of the multitree column of the (closed) source through a handle without
/// background threads: trees sharing nodes, a tree inserted and dereferenced again.
fn build_forest(db: &Db, col: u8, mt: Mt, rng: &mut Rng, ctr: &mut Counters) -> Result<Forest, String> {
	let mut forest = Forest::default();
	let mut tag = 0u32;
	let ntrees = rng.range(2, 5);
	for i in 0..ntrees {
		let (key, rdata, ch) = gen_tree(rng, &mut forest, &mut tag, i > 0);
		let real = to_new_node(&forest, &rdata, &ch);
		let ids: Vec<usize> = ch.iter().map(|c| match c { GRef::New(i) | GRef::Existing(i) => *i }).collect();
		db.commit_changes(vec![(col, Operation::InsertTree(key.clone(), real))]).map_err(|e| format!("InsertTree: {:?}", e))?;
		drain(db).map_err(|e| format!("drain: {:?}", e))?;
		forest.roots.insert(key, (rdata, ids));
		read_forest(db, col, &mut forest, true)?;
		ctr.inc("mt.source.insert_tree");
	}
	if mt != Mt::AppendOnly && rng.chance(1, 2) && forest.roots.len() > 2 {
		// one tree goes away again: counts of shared nodes drop, unshared nodes are freed
		let k = forest.roots.keys().nth(rng.below(forest.roots.len() as u64) as usize).unwrap().clone();
		db.commit_changes(vec![(col, Operation::DereferenceTree(k.clone()))]).map_err(|e| format!("DereferenceTree: {:?}", e))?;
		drain(db).map_err(|e| format!("drain: {:?}", e))?;
		forest.roots.remove(&k);
		read_forest(db, col, &mut forest, false)?;
		ctr.inc("mt.source.dereference_tree");
	}
	Ok(forest)
}

/// Functional check of the multitree column of the result database: every tree reads back, the
/// entry count is the source's, the stored node reference counts are the source's; then one
/// tree (one that shares nodes, if any) is dereferenced and the remaining trees must still read
/// back completely, also after a reopen.
fn check_forest(
	dir: &Path,
	opts: &Options,
	col: u8,
	mt: Mt,
	forest: &Forest,
	src_entries: Option<u64>,
	src_rc: &Option<BTreeMap<u64, u64>>,
	rng: &mut Rng,
	ctr: &mut Counters,
) -> Vec<String> {
	let mut fails = vec![];
	let mut forest = forest.clone();
	let _ = dir;
	let db = match Db::open(opts) {
		Ok(db) => db,
		Err(e) => return vec![format!("result database does not open: {:?}", e)],
	};
	match read_forest(&db, col, &mut forest, false) {
		Ok(n) => ctr.add("mt.check.nodes_read", n),
		Err(e) => fails.push(format!("multitree column does not read back: {}", e)),
	}
	let entries = db.get_num_column_value_entries(col).ok();
	if entries != src_entries {
		fails.push(format!("multitree column holds {:?} value entries, the source {:?}", entries, src_entries));
	}
	if entries != Some(forest.entries()) {
		fails.push(format!("multitree column holds {:?} value entries, the oracle {}", entries, forest.entries()));
	}
	ctr.inc("mt.check.read_back");
	let readable = fails.is_empty();
	let rc = rc_dump(&db, col);
	if &rc != src_rc {
		fails.push(format!(
			"stored node reference counts differ: source {:?}, result {:?}",
			src_rc.as_ref().map(|m| m.len()),
			rc.as_ref().map(|m| m.len())
		));
	}
	if mt != Mt::AppendOnly && forest.roots.len() >= 2 && readable {
		// prefer a tree that shares a node with another tree
		let keys: Vec<Vec<u8>> = forest.roots.keys().cloned().collect();
		let mut pick = keys[rng.below(keys.len() as u64) as usize].clone();
		let mut sharing = false;
		'outer: for a in keys.iter() {
			for b in keys.iter() {
				if a != b && forest.nodes_of(a).intersection(&forest.nodes_of(b)).next().is_some() {
					pick = a.clone();
					sharing = true;
					break 'outer
				}
			}
		}
		ctr.inc(if sharing { "mt.check.deref_sharing_tree" } else { "mt.check.deref_tree" });
		match db.commit_changes(vec![(col, Operation::DereferenceTree(pick.clone()))]) {
			Ok(()) => {},
			Err(e) => fails.push(format!("DereferenceTree in the result rejected: {:?}", e)),
		}
		if let Err(e) = drain(&db).and_then(|_| drain(&db)) {
			fails.push(format!("drain after DereferenceTree: {:?}", e));
		}
		forest.roots.remove(&pick);
		if let Err(e) = read_forest(&db, col, &mut forest, false) {
			fails.push(format!("after DereferenceTree({}) the remaining trees do not read back: {}", hex(&pick), e));
		}
		drop(db);
		match Db::open(opts) {
			Ok(db) => {
				if let Err(e) = read_forest(&db, col, &mut forest, false) {
					fails.push(format!("after DereferenceTree({}) + reopen the remaining trees do not read back: {}", hex(&pick), e));
				}
				let entries = db.get_num_column_value_entries(col).ok();
				if entries != Some(forest.entries()) {
					fails.push(format!("after DereferenceTree({}) + reopen: {:?} value entries, the oracle {}", hex(&pick), entries, forest.entries()));
				}
			},
			Err(e) => fails.push(format!("result database does not reopen: {:?}", e)),
		}
	}
	fails
}

pub fn run(seeds: &[u64], thorough: bool, root: &Path, t: &mut Trace, ctr: &mut Counters, prop: &str) -> u64 {
	let mut fails = 0;
	// panics are outcomes here (catch_unwind): keep stderr quiet
	std::panic::set_hook(Box::new(|_| {}));
	for s in seeds.iter().copied() {
		let r = std::panic::catch_unwind(std::panic::AssertUnwindSafe(|| run_case(s, thorough, root, t, ctr, prop)));
		match r {
			Ok(f) => fails += f,
			Err(e) => {
				let msg = e
					.downcast_ref::<String>()
					.cloned()
					.or_else(|| e.downcast_ref::<&str>().map(|s| s.to_string()))
					.unwrap_or_default();
				t.oracle_fail(prop, &format!("panic in case seed={}: {}", s, msg));
				t.end_case(true);
				fails += 1;
			},
		}
	}
	let _ = std::panic::take_hook();
	fails
}

fn gen_case(seed: u64, rng: &mut Rng) -> Case {
	let scenario = match rng.below(24) {
		0..=3 => "grown",
		4..=5 => "pending",
		6..=7 => "partial", // several older index tables queued, the reindex started but not finished
		8..=9 => "badplan",
		10 => "bulk", // more than COMMIT_SIZE Sets: several raw commits
		// as `partial`, then keys whose entry the reindex already copied into the newest table are
		// removed: the queued older table keeps an entry that addresses a freed / reused slot
		11..=12 => "stale",
		_ => "plain",
	};
	let adversarial = is_adversarial(scenario);
	let nhash = rng.range(1, 3) as usize;
	let with_btree = rng.chance(1, 3);
	let mut src = vec![];
	let comps = [CompressionType::NoCompression, CompressionType::Lz4, CompressionType::Snappy];
	for i in 0..nhash {
		let kind = if scenario == "bulk" && i == 0 { Kind::Rc } else { *rng.pick(&[Kind::Plain, Kind::Preimage, Kind::Rc, Kind::Rc]) };
		let uniform = if adversarial && i == 0 { true } else { rng.chance(1, 3) };
		src.push(ColCfg { kind, uniform, btree: false, compression: *rng.pick(&comps), mt: Mt::No });
	}
	if with_btree {
		let pos = rng.below(src.len() as u64 + 1) as usize;
		let pos = if adversarial { std::cmp::max(pos, 1) } else { pos };
		src.insert(pos, ColCfg { kind: Kind::Plain, uniform: false, btree: true, compression: *rng.pick(&comps), mt: Mt::No });
	}
	let mut dst = vec![];
	for c in src.iter() {
		if c.btree {
			dst.push(c.clone());
			continue
		}
		let same = rng.chance(1, 4);
		if same {
			dst.push(c.clone());
		} else {
			dst.push(ColCfg {
				kind: *rng.pick(&[Kind::Plain, Kind::Preimage, Kind::Rc]),
				uniform: c.uniform,
				btree: false,
				compression: *rng.pick(&comps),
				mt: Mt::No,
			});
		}
	}
	let mut force = vec![];
	for (i, c) in src.iter().enumerate() {
		if !c.btree && rng.chance(1, 3) {
			force.push(i as u8);
		}
	}
	let overwrite = rng.chance(1, 3);
	if scenario == "badplan" {
		match rng.below(4) {
			3 => {
				force.push(src.len() as u8 + rng.below(3) as u8);
			},
			0 => {
				// column count mismatch
				dst.push(ColCfg { kind: Kind::Plain, uniform: false, btree: false, compression: CompressionType::NoCompression, mt: Mt::No });
			},
			1 => {
				// a btree column selected (forced, or its options changed)
				if let Some(i) = src.iter().position(|c| c.btree) {
					if rng.chance(1, 2) {
						force.push(i as u8);
					} else {
						dst[i].compression = match dst[i].compression {
							CompressionType::NoCompression => CompressionType::Lz4,
							_ => CompressionType::NoCompression,
						};
					}
				} else {
					// hash column to btree column
					dst[0].btree = true;
					dst[0].uniform = false;
				}
			},
			_ => {
				dst[0].btree = true;
			},
		}
	}
	let mut salt = [0u8; 32];
	if !adversarial {
		for i in 0..4 {
			salt[i * 8..i * 8 + 8].copy_from_slice(&rng.next().to_le_bytes());
		}
	}
	// ---- additional multitree column (always last). Its decisions come from a generator of their
	// own so that the key-value columns of a seed do not depend on it.
	let mut mrng = Rng::new(seed ^ 0x6d74_5f63_6f6c_756d);
	let mut mt_col = None;
	let count_mismatch = src.len() != dst.len();
	if !count_mismatch && mrng.chance(2, 5) {
		let mt = *mrng.pick(&[Mt::Plain, Mt::Plain, Mt::Rc, Mt::AppendOnly]);
		let i = src.len();
		src.push(ColCfg::mt_cfg(mt));
		dst.push(ColCfg::mt_cfg(mt));
		mt_col = Some(i);
		match mrng.below(12) {
			// selected: forced, or its options differ (`migrate` cannot re-populate a multitree column)
			0 => force.push(i as u8),
			1 => {
				let other: Vec<Mt> = [Mt::Plain, Mt::Rc, Mt::AppendOnly, Mt::No].iter().copied().filter(|m| *m != mt).collect();
				dst[i] = ColCfg::mt_cfg(*mrng.pick(&other));
			},
			_ => {},
		}
	}
	Case { seed, scenario, src, dst, overwrite, force, salt, mt_col }
}

fn is_adversarial(scenario: &str) -> bool {
	scenario == "grown" || scenario == "pending" || scenario == "partial" || scenario == "stale"
}

enum Expect {
	Ok(BTreeSet<u8>),
	Refused,
	Panic,
}

/// Expected outcome of column selection, stated independently of the model:
/// selected = forced or options differ; any selected column that is btree or multitree on either
/// side, or a different number of columns, is refused; a forced column id that does not exist
/// makes the current code index out of bounds (a panic, not an error).
fn expected_plan(case: &Case) -> Expect {
	if case.src.len() != case.dst.len() {
		return Expect::Refused
	}
	if case.force.iter().any(|c| *c as usize >= case.src.len()) {
		return Expect::Panic
	}
	let mut sel: BTreeSet<u8> = case.force.iter().copied().collect();
	for i in 0..case.src.len() {
		if case.src[i] != case.dst[i] {
			sel.insert(i as u8);
		}
	}
	for c in sel.iter() {
		if case.src[*c as usize].btree || case.dst[*c as usize].btree {
			return Expect::Refused
		}
		// `migrate` re-commits the indexed values only: the nodes of a multitree column and their
		// reference counts cannot be carried over, the only correct answer is a refusal
		if case.src[*c as usize].mt != Mt::No || case.dst[*c as usize].mt != Mt::No {
			return Expect::Refused
		}
	}
	Expect::Ok(sel)
}

fn run_case(seed: u64, thorough: bool, root: &Path, t: &mut Trace, ctr: &mut Counters, prop: &str) -> u64 {
	let mut rng = Rng::new(seed);
	let case = gen_case(seed, &mut rng);
	let mut vals = Values::default();
	let _ = vals.bytes("v0_0");
	let mut fails = 0u64;
	t.begin_case(&describe(&case));
	ctr.inc("cases");
	ctr.inc(&format!("scenario.{}", case.scenario));
	ctr.inc(&format!("overwrite.{}", case.overwrite as u8));
	ctr.inc(&format!("columns.{}", case.src.len()));
	let adversarial = is_adversarial(case.scenario);
	if let Some(i) = case.mt_col {
		ctr.inc(&format!("mt.column.{:?}", case.src[i].mt));
	}
	let src_dir: PathBuf = fresh_dir(root, &format!("c20-{}-src", seed));
	let dst_dir: PathBuf = fresh_dir(root, &format!("c20-{}-dst", seed));

	// ---- content
	let thr = match rng.below(3) {
		0 => Some(0),
		1 => Some(64),
		_ => None,
	};
	let mut data: Vec<ColData> = vec![];
	{
		let mut g = Gen { rng: &mut rng, vals: &mut vals, tok_seed: 0, big_left: if thorough { 4 } else { 2 }, exact32: adversarial, bulk: false, share18: case.scenario == "partial", cluster_from: 0, small: false };
		for (i, c) in case.src.iter().enumerate() {
			let (n, cluster) = if c.mt != Mt::No {
				// filled separately (build_forest)
				(0, None)
			} else if c.btree {
				(g.rng.range(5, 30), None)
			} else if case.scenario == "stale" && i == 0 {
				// more than MAX_REINDEX_BATCH (8192) keys spread over the index, then 65+ keys in one
				// page: the index grows at the very end and one reindex batch copies only a part of
				// the old table
				let n = g.rng.range(9400, 9800);
				g.cluster_from = n;
				g.small = true;
				(n + g.rng.range(66, 90), Some(g.rng.below(65536) as u16))
			} else if case.scenario == "partial" && i == 0 {
				// 129+ keys sharing 18 bits: the index grows (at least) twice in a row
				(g.rng.range(130, 200), Some(g.rng.below(65536) as u16))
			} else if adversarial && i == 0 {
				(g.rng.range(65, 140), Some(g.rng.below(65536) as u16))
			} else if case.scenario == "bulk" && i == 0 {
				(g.rng.range(2300, 2700), None)
			} else {
				let n = match g.rng.below(4) {
					0 => g.rng.range(10, 30),
					1 => g.rng.range(30, 100),
					2 => g.rng.range(100, if thorough { 600 } else { 300 }),
					_ => g.rng.range(10, 60),
				};
				(n, None)
			};
			g.bulk = case.scenario == "bulk" && i == 0;
			data.push(gen_column(&mut g, c, n, cluster, ctr));
			g.cluster_from = 0;
			g.small = false;
		}
	}
	// transactions: ops of all columns interleaved column by column in chunks
	let mut txs: Vec<Vec<(u8, Op)>> = vec![];
	for (c, d) in data.iter().enumerate() {
		for chunk in d.ops.chunks(40) {
			txs.push(chunk.iter().map(|op| (c as u8, op.clone())).collect());
		}
	}

	// ---- build the source
	{
		let opts = make_options(&src_dir, &case.src, Some(case.salt), !adversarial, thr);
		let db = Db::open_or_create(&opts).expect("create source");
		for tx in txs.iter() {
			db.commit_changes(tx.iter().map(|(c, op)| (*c, op.to_db())).collect::<Vec<_>>()).expect("source commit");
			if adversarial {
				drain(&db).expect("drain");
			}
		}
		if case.scenario == "partial" || case.scenario == "stale" {
			// one or two reindex batches: entries of the OLDEST queued table are moved into the
			// current one (and the table possibly dropped) while younger old tables are still queued
			let n = if case.scenario == "stale" { 1 } else { rng.range(1, 2) };
			for _ in 0..n {
				db.process_reindex().expect("reindex");
				drain(&db).expect("drain");
			}
			ctr.inc(&format!("partial.reindex_batches.{}", n));
		}
		if case.scenario == "stale" {
			// keys whose entry sits in a queued older table AND (copied by the reindex) in the newest one
			let mut top: BTreeSet<Vec<u8>> = BTreeSet::new();
			let mut older: BTreeSet<Vec<u8>> = BTreeSet::new();
			let nolder = db.verif_index_tables(0).map(|x| x.1.len()).unwrap_or(0);
			for which in 0..=nolder {
				if let Ok((_, entries)) = db.verif_index_entries(0, which) {
					for (_, _, tail) in entries {
						if let Some(tail) = tail {
							if which == 0 {
								top.insert(tail.to_vec());
							} else {
								older.insert(tail.to_vec());
							}
						}
					}
				}
			}
			// identity hash: the hashed key is the key
			let both: Vec<Vec<u8>> =
				data[0].content.keys().filter(|k| top.contains(&k[6..]) && older.contains(&k[6..])).cloned().collect();
			ctr.inc(if both.is_empty() { "stale.no_key_in_both_tables" } else { "stale.keys_in_both_tables" });
			t.comment(&format!("stale: tables {:?}, newest holds {} tails, older {} tails, in both {}, keys {}", db.verif_index_tables(0), top.len(), older.len(), both.len(), data[0].content.len()));
			let nrem = std::cmp::min(both.len() as u64, rng.range(1, 4)) as usize;
			let mut freed_sizes = vec![];
			for k in both.iter().take(nrem) {
				let (v, n) = data[0].content.get(k).cloned().unwrap();
				let times = if case.src[0].kind == Kind::Rc { n } else { 1 };
				for _ in 0..times {
					let op = Op::Dereference(k.clone());
					db.commit_changes(vec![(0u8, op.to_db())]).expect("source commit");
					drain(&db).expect("drain");
					apply(case.src[0].kind, &mut data[0].content, &op);
				}
				data[0].removed.push(k.clone());
				freed_sizes.push(v.len());
				ctr.inc("stale.removed_after_reindex_copy");
			}
			if rng.chance(1, 2) {
				// new keys with values of the freed sizes: the freed slots are taken again
				for (j, len) in freed_sizes.iter().enumerate() {
					let mut k = vec![0u8; 32];
					for i in 0..4 {
						k[i * 8..i * 8 + 8].copy_from_slice(&rng.next().to_le_bytes());
					}
					k[8..12].copy_from_slice(&(0xfff0_0000u32 + j as u32).to_be_bytes());
					let tok = vals.canon(format!("v{}_{}", len, 7_000_001 + 3 * j as u64));
					let v = vals.bytes(&tok);
					let op = Op::Set(k.clone(), v);
					db.commit_changes(vec![(0u8, op.to_db())]).expect("source commit");
					drain(&db).expect("drain");
					apply(case.src[0].kind, &mut data[0].content, &op);
					ctr.inc("stale.slot_reused");
				}
			}
		}
		if case.scenario == "grown" {
			for _ in 0..400 {
				db.process_reindex().expect("reindex");
				drain(&db).expect("drain");
				let pending = (0..case.src.len())
					.any(|c| db.verif_index_tables(c as u8).map(|x| !x.1.is_empty()).unwrap_or(false));
				if !pending {
					break
				}
			}
		}
		drop(db);
	}
	// ---- the multitree column (through a handle without workers; nothing else is touched)
	let mut forest: Option<Forest> = None;
	if let Some(mc) = case.mt_col {
		let opts = make_options(&src_dir, &case.src, None, false, thr);
		let db = Db::open(&opts).expect("open source");
		let mut mrng = Rng::new(seed ^ 0x6d74_5f66_6f72_6573);
		match build_forest(&db, mc as u8, case.src[mc].mt, &mut mrng, ctr) {
			Ok(f) => {
				ctr.add("mt.source.shared_nodes", f.shared_nodes() as u64);
				ctr.add("mt.source.entries", f.entries());
				forest = Some(f);
			},
			Err(e) => {
				t.oracle_fail(prop, &format!("multitree column of the source: {}", e));
				fails += 1;
			},
		}
		drop(db);
	}

	// ---- inspect the closed source (no workers: nothing is reindexed by this open)
	let mut hashed: Vec<BTreeMap<Vec<u8>, [u8; 32]>> = vec![]; // user key -> hashed key
	let mut queued_older: Vec<Vec<u8>> = vec![];
	// per column: key tails present in the newest index table / in queued older tables
	let mut top_tails: Vec<BTreeSet<Vec<u8>>> = vec![BTreeSet::new(); case.src.len()];
	let mut older_tails: Vec<BTreeSet<Vec<u8>>> = vec![BTreeSet::new(); case.src.len()];
	// per column: raw index tables, oldest first (queued older tables, then the newest one):
	// (index bits, [(chunk, entry, key tail stored in the addressed value slot)])
	#[allow(clippy::type_complexity)]
	let mut raw_tables: Vec<Vec<(u8, Vec<(u64, u64, Option<Vec<u8>>)>)>> = vec![vec![]; case.src.len()];
	// columns whose source index tables hold an entry of a removed key (known finding STALE-ENTRY)
	let mut stale_seen: Vec<bool> = vec![false; case.src.len()];
	// columns whose index walk fails on the healthy source (entry of a removed key, slot still free)
	let mut walk_fails: Vec<bool> = vec![false; case.src.len()];
	let mut src_mt_entries: Option<u64> = None;
	let mut src_mt_rc: Option<BTreeMap<u64, u64>> = None;
	{
		let opts = make_options(&src_dir, &case.src, None, false, thr);
		let db = Db::open(&opts).expect("open source");
		if let Some(mc) = case.mt_col {
			src_mt_entries = db.get_num_column_value_entries(mc as u8).ok();
			src_mt_rc = rc_dump(&db, mc as u8);
			if let (Some(f), Some(n)) = (forest.as_ref(), src_mt_entries) {
				if n != f.entries() {
					t.oracle_fail(prop, &format!("multitree column of the source holds {} value entries, the oracle {}", n, f.entries()));
					fails += 1;
				}
			}
			if let Some(m) = src_mt_rc.as_ref() {
				ctr.add("mt.source.stored_ref_counts", m.len() as u64);
			}
		}
		for (c, cfg) in case.src.iter().enumerate() {
			let mut hm = BTreeMap::new();
			if cfg.is_kv_hash() {
				for k in data[c].content.keys().chain(data[c].removed.iter()) {
					hm.insert(k.clone(), db.verif_hash_key(c as u8, k).unwrap());
				}
			}
			hashed.push(hm);
			let (bits, older) = db.verif_index_tables(c as u8).unwrap_or((0, vec![]));
			if cfg.is_kv_hash() {
				ctr.inc(&format!("index.bits.{}", bits));
				if !older.is_empty() {
					ctr.inc("index.older_queued_after_clean_close");
					t.comment(&format!("col {} top index {} bits, queued older index tables {:?}", c, bits, older));
				}
			}
			queued_older.push(older);
		}
		// source reads (sanity of the generator and of the crate before migrating)
		for (c, d) in data.iter().enumerate() {
			for (k, (v, _)) in d.content.iter() {
				let got = db.get(c as u8, k).expect("get");
				if got.as_ref() != Some(v) {
					t.oracle_fail(prop, &format!("source read before migration: col={} key={} differs from the oracle", c, hex(k)));
					fails += 1;
				}
			}
		}
		// the index walk `migrate` relies on + raw entries for the recover ops
		for (c, cfg) in case.src.iter().enumerate() {
			if !cfg.is_kv_hash() {
				continue
			}
			let mut walk: BTreeMap<[u8; 32], (u32, Vec<u8>)> = BTreeMap::new();
			let mut dup = 0;
			let wr = db.verif_iter_index(c as u8, |k, rc, v| {
				if walk.insert(*k, (rc, v.to_vec())).is_some() {
					dup += 1;
				}
				true
			});
			let mut walk_err: Option<String> = None;
			if let Err(e) = wr {
				// a walk that fails on a healthy source: reported below as a walk that differs
				ctr.inc(&format!("source.walk.err:{}", err_kind(&e)));
				walk_err = Some(format!("{:?}", e));
			}
			let expected: BTreeMap<[u8; 32], (u32, Vec<u8>)> =
				data[c].content.iter().map(|(k, (v, n))| (hashed[c][k], (*n as u32, v.clone()))).collect();
			if walk != expected || dup > 0 {
				let missing = expected.keys().filter(|k| !walk.contains_key(*k)).count();
				let extra = walk.keys().filter(|k| !expected.contains_key(*k)).count();
				let wrong = expected.iter().filter(|(k, v)| walk.get(*k).map(|w| w != *v).unwrap_or(false)).count();
				if case.scenario == "stale" && (walk_err.is_some() || extra > 0) {
					stale_seen[c] = true;
					walk_fails[c] = walk_err.is_some();
				}
				let sig = if let (Some(e), true) = (walk_err.as_ref(), case.scenario == "stale") {
					format!("STALE-ENTRY-signature: the index walk `migrate` relies on fails with {} on a source every key of which reads correctly", e)
				} else if let Some(e) = walk_err.as_ref() {
					format!("the index walk `migrate` relies on fails with {} (no stale entry was provoked in this scenario)", e)
				} else if case.scenario == "stale" && extra > 0 {
					"STALE-ENTRY-signature: the index walk reports a key that was never written (entry of a removed key in a queued older table, slot taken by another key)".to_string()
				} else if !queued_older[c].is_empty() && missing > 0 {
					"F10-signature: index walk skips keys still held by a queued older index table".to_string()
				} else {
					"index walk differs from the source content".to_string()
				};
				t.oracle_fail(
					prop,
					&format!(
						"{}: col={} live={} missing={} extra={} wrong={} duplicates={} older={:?}",
						sig,
						c,
						expected.len(),
						missing,
						extra,
						wrong,
						dup,
						queued_older[c]
					),
				);
				fails += 1;
			}
			// recover ops: real (chunk, entry, tail) triples against the key the walk reported
			let by_tail: BTreeMap<Vec<u8>, [u8; 32]> = walk.keys().map(|k| (k[6..].to_vec(), *k)).collect();
			let mut emitted = 0;
			for which in (1..=queued_older[c].len()).chain(std::iter::once(0)) {
				let (bits, entries) = db.verif_index_entries(c as u8, which).expect("entries");
				raw_tables[c].push((bits, entries.iter().map(|(ch, e, tl)| (*ch, *e, tl.map(|x| x.to_vec()))).collect()));
			}
			for which in 0..=queued_older[c].len() {
				let (bits, entries) = db.verif_index_entries(c as u8, which).expect("entries");
				for (_, _, tail) in entries.iter() {
					if let Some(tail) = tail {
						if which == 0 {
							top_tails[c].insert(tail.to_vec());
						} else {
							older_tails[c].insert(tail.to_vec());
						}
					}
				}
				let step = std::cmp::max(1, entries.len() / 4);
				for (chunk, entry, tail) in entries.iter().step_by(step) {
					if let Some(tail) = tail {
						if which == 0 {
							if let Some(k) = by_tail.get(&tail.to_vec()) {
								t.op(&format!("c20 recover {} {} {} {}", bits, chunk, entry, hex(tail)), &hex(k));
								ctr.inc("recover.real");
								emitted += 1;
							}
						} else {
							// older table: the walk does not report it today; emit as a model-only expectation
							let kh = hashed[c].values().find(|h| h[6..] == tail[..]);
							if let Some(k) = kh {
								let mut got = parity_db::verif::recover_key_prefix(bits, *chunk, *entry);
								got[6..].copy_from_slice(tail);
								t.op(&format!("c20 recover {} {} {} {}", bits, chunk, entry, hex(tail)), &hex(&got));
								ctr.inc("recover.real_older_table");
								if &got != k {
									let sig = if case.scenario == "stale" { "STALE-ENTRY-signature: " } else { "" };
									t.oracle_fail(prop, &format!("{}older index table entry does not recover its key: col={} key={}", sig, c, hex(k)));
									fails += 1;
								}
							}
						}
					}
				}
			}
			let _ = emitted;
		}
		drop(db);
	}
	let _ = std::fs::remove_file(src_dir.join("stats.txt"));
	let before = dir_hashes(&src_dir);
	let before_full = dir_hashes_opt(&src_dir, true);
	let src_files_before: BTreeSet<String> =
		std::fs::read_dir(&src_dir).unwrap().map(|e| e.unwrap().file_name().to_string_lossy().to_string()).collect();

	// ---- migrate
	let to = {
		let mut o = Options::with_columns(&dst_dir, case.dst.len() as u8);
		for (i, c) in case.dst.iter().enumerate() {
			o.columns[i] = c.options();
			if let Some(t) = thr {
				o.compression_threshold.insert(i as u8, t);
			}
		}
		o
	};
	let plan = expected_plan(&case);
	let mig = std::panic::catch_unwind(std::panic::AssertUnwindSafe(|| {
		parity_db::migrate(&src_dir, to, case.overwrite, &case.force)
	}));
	let mig_s = match &mig {
		Ok(r) => res_str(r),
		Err(_) => "panic".to_string(),
	};
	let force_s = if case.force.is_empty() {
		"-".to_string()
	} else {
		case.force.iter().map(|c| c.to_string()).collect::<Vec<_>>().join(",")
	};
	let walk_failure = match (&plan, &mig) {
		(Expect::Ok(sel), Ok(Err(parity_db::Error::Corruption(_)))) => sel.iter().copied().find(|c| walk_fails[*c as usize]),
		_ => None,
	};
	if let Some(c) = walk_failure {
		// known finding STALE-ENTRY: the plan is valid but the walk of column c fails; the model of
		// the walk predicts exactly that (`err:Corruption`)
		let c = c as usize;
		let (wl, _) = walk_op_line(&case.src[c], &case.dst[c], &raw_tables[c], &data[c].content, &hashed[c], &vals);
		t.op(&wl, &mig_s);
		t.oracle_fail(
			prop,
			&format!(
				"STALE-ENTRY-signature: migrate fails with {} on a source every key of which reads correctly (the walk of selected column {} meets the entry of a removed key whose slot is free)",
				mig_s, c
			),
		);
		ctr.inc("migrate.err:Corruption(stale entry)");
		t.end_case(true);
		let _ = std::fs::remove_dir_all(&src_dir);
		let _ = std::fs::remove_dir_all(&dst_dir);
		return fails + 1
	}
	t.op(
		&format!(
			"c20 plan {} {} {} {} {} {}",
			case.overwrite as u8,
			case.src.len(),
			case.src.iter().map(|c| c.token()).collect::<Vec<_>>().join(" "),
			case.dst.len(),
			case.dst.iter().map(|c| c.token()).collect::<Vec<_>>().join(" "),
			force_s
		),
		&mig_s,
	);
	ctr.inc(&format!("migrate.{}", mig_s));
	let selected = match (&plan, &mig) {
		(Expect::Ok(sel), Ok(Ok(()))) => sel.clone(),
		(Expect::Refused, Ok(Err(parity_db::Error::Migration(_)))) | (Expect::Panic, Err(_)) => {
			// refused: the source must be intact (a source handle was opened before the refusal: the
			// index files of a column with a pending reindex may have moved on)
			let after = dir_hashes(&src_dir);
			let pending = |n: &String| n.starts_with("index") && col_of_file(n).map(|c| (c as usize) < queued_older.len() && !queued_older[c as usize].is_empty()).unwrap_or(false);
			let a: BTreeMap<&String, &u64> = after.iter().filter(|(n, _)| !pending(n)).collect();
			let b: BTreeMap<&String, &u64> = before.iter().filter(|(n, _)| !pending(n)).collect();
			if a != b {
				t.oracle_fail(prop, "refused migration changed the source files");
				fails += 1;
			}
			if matches!(plan, Expect::Panic) {
				t.comment("forced column id out of range: migrate panics (index out of bounds) instead of returning Error::Migration");
			}
			t.end_case(true);
			let _ = std::fs::remove_dir_all(&src_dir);
			let _ = std::fs::remove_dir_all(&dst_dir);
			return fails
		},
		(p, _) => {
			// a selected multitree column that was not refused: what is left of its trees
			let mut damage = String::new();
			if let (Some(mc), Expect::Refused, Ok(Ok(()))) = (case.mt_col, p, &mig) {
				let result_dir = if case.overwrite { src_dir.clone() } else { dst_dir.clone() };
				let opts = make_options(&result_dir, &case.dst, None, false, thr);
				let verdict = std::panic::catch_unwind(std::panic::AssertUnwindSafe(|| match (Db::open(&opts), forest.as_ref()) {
					(Ok(db), Some(f)) => match read_forest(&db, mc as u8, &mut f.clone(), false) {
						Ok(_) => "its trees read back".to_string(),
						Err(e) => format!("its trees do not read back: {}", e),
					},
					(Err(e), _) => format!("the result does not open: {:?}", e),
					(_, None) => "no forest".to_string(),
				}));
				damage = format!(
					"; MT-SELECTED-signature: multitree column {} ({}->{}) was selected ({}) and migrate re-committed only its root values: {}",
					mc,
					case.src[mc].token(),
					case.dst[mc].token(),
					if case.force.contains(&(mc as u8)) { "forced" } else { "options differ" },
					verdict.unwrap_or_else(|_| "reading its trees panics".to_string())
				);
				ctr.inc("mt.selected_not_refused");
			}
			t.oracle_fail(
				prop,
				&format!(
					"migrate outcome {} but the plan is {}{}",
					mig_s,
					match p {
						Expect::Ok(_) => "valid",
						Expect::Refused => "to be refused",
						Expect::Panic => "a forced column out of range",
					},
					damage
				),
			);
			t.end_case(true);
			let _ = std::fs::remove_dir_all(&src_dir);
			let _ = std::fs::remove_dir_all(&dst_dir);
			return fails + 1
		},
	};
	for c in 0..case.src.len() {
		let s = &case.src[c];
		let d = &case.dst[c];
		if s.btree {
			ctr.inc("col.btree");
			continue
		}
		if s.mt != Mt::No {
			ctr.inc("col.multitree.copied");
			continue
		}
		let how = if selected.contains(&(c as u8)) {
			if s == d {
				"forced"
			} else {
				"auto"
			}
		} else {
			"copied"
		};
		ctr.inc(&format!("select.{}", how));
		if how != "copied" {
			ctr.inc(&format!("pair.{}->{}", s.kind.name(), d.kind.name()));
			ctr.inc(&format!("compression.{}->{}", comp_name(s.compression), comp_name(d.compression)));
		}
	}

	// ---- source unchanged / unselected copied (file level)
	let result_dir = if case.overwrite { src_dir.clone() } else { dst_dir.clone() };
	let after_src = dir_hashes(&src_dir);
	if !case.overwrite {
		if dir_hashes_opt(&src_dir, true) != before_full && after_src == before {
			ctr.inc("source.only_index_header_statistics_changed");
		}
		for (name, h) in before.iter() {
			let c = col_of_file(name).unwrap() as usize;
			let reindexable = !queued_older[c].is_empty() && name.starts_with("index");
			match after_src.get(name) {
				Some(h2) if h2 == h => {},
				_ if reindexable => {
					t.comment(&format!("source index file {} changed (pending reindex continued by the open inside migrate)", name));
					ctr.inc("source.index_changed_by_pending_reindex");
				},
				other => {
					t.oracle_fail(prop, &format!("source changed without overwrite: file {} {}", name, if other.is_some() { "differs" } else { "is gone" }));
					fails += 1;
				},
			}
		}
		for name in after_src.keys() {
			let c = col_of_file(name).unwrap() as usize;
			if !before.contains_key(name) && queued_older[c].is_empty() {
				t.oracle_fail(prop, &format!("source changed without overwrite: new file {}", name));
				fails += 1;
			}
		}
		let src_files_after: BTreeSet<String> =
			std::fs::read_dir(&src_dir).unwrap().map(|e| e.unwrap().file_name().to_string_lossy().to_string()).collect();
		for n in src_files_after.difference(&src_files_before) {
			if col_of_file(n).is_none() {
				ctr.inc(&format!("source.new_file.{}", n));
			}
		}
		// unselected columns: byte-identical copies
		let dst_h = dir_hashes(&dst_dir);
		for c in 0..case.src.len() {
			if selected.contains(&(c as u8)) {
				continue
			}
			let s: BTreeMap<&String, &u64> = after_src.iter().filter(|(n, _)| col_of_file(n) == Some(c as u8)).collect();
			let d: BTreeMap<&String, &u64> = dst_h.iter().filter(|(n, _)| col_of_file(n) == Some(c as u8)).collect();
			if s != d && queued_older[c].is_empty() {
				let missing: Vec<&&String> = s.keys().filter(|n| !d.contains_key(**n)).collect();
				let sig = if missing.iter().any(|n| n.starts_with("refcount_")) {
					"REFCOUNT-FILE-signature: the reference-count table file of an unselected multitree column is not copied; "
				} else {
					""
				};
				t.oracle_fail(prop, &format!("{}unselected column {} is not an identical copy: source files {:?}, destination files {:?}, missing {:?}", sig, c, s.keys().collect::<Vec<_>>(), d.keys().collect::<Vec<_>>(), missing));
				fails += 1;
			}
			for n in s.keys() {
				ctr.inc(&format!("unselected.file.{}", n.split('_').next().unwrap_or("?")));
			}
			ctr.inc("unselected.compared");
		}
	} else {
		// overwrite: unselected columns stay in place, untouched
		for (name, h) in before.iter() {
			let c = col_of_file(name).unwrap();
			if selected.contains(&c) {
				continue
			}
			if after_src.get(name) != Some(h) && queued_older[c as usize].is_empty() {
				t.oracle_fail(prop, &format!("overwrite: file {} of unselected column {} changed", name, c));
				fails += 1;
			}
		}
		if src_dir.join("to_revert_overwrite").exists() {
			t.oracle_fail(prop, "overwrite: temporary directory left behind");
			fails += 1;
		}
	}
	// model op: which files does the copy of the unselected columns produce (no overwrite) /
	// which files of unselected columns stay in place (overwrite)
	if (0..case.src.len()).all(|c| selected.contains(&(c as u8)) || queued_older[c].is_empty()) {
		let unsel = |n: &String| col_of_file(n).map(|c| (c as usize) < case.src.len() && !selected.contains(&c)).unwrap_or(false);
		let observed: Vec<String> = if case.overwrite {
			after_src.keys().filter(|n| unsel(n)).cloned().collect()
		} else {
			dir_hashes(&dst_dir).keys().filter(|n| unsel(n)).cloned().collect()
		};
		let join = |v: Vec<String>| if v.is_empty() { "-".to_string() } else { v.join(",") };
		t.op(
			&format!(
				"c20 files {} {} {} {}",
				case.overwrite as u8,
				case.src.len(),
				join(selected.iter().map(|c| c.to_string()).collect()),
				join(src_files_before.iter().filter(|n| n.as_str() != "stats.txt").cloned().collect())
			),
			&join(observed),
		);
		ctr.inc("op.files");
	}

	// ---- the source still reads as before (no overwrite)
	if !case.overwrite {
		let opts = make_options(&src_dir, &case.src, None, false, thr);
		match Db::open(&opts) {
			Ok(db) => {
				for (c, d) in data.iter().enumerate() {
					for (k, (v, _)) in d.content.iter() {
						if db.get(c as u8, k).ok().flatten().as_ref() != Some(v) {
							t.oracle_fail(prop, &format!("source read after migration differs: col={} key={}", c, hex(k)));
							fails += 1;
							break
						}
					}
				}
			},
			Err(e) => {
				t.oracle_fail(prop, &format!("source does not open after migration: {:?}", e));
				fails += 1;
			},
		}
	}

	// ---- the result database against the oracle
	let opts = make_options(&result_dir, &case.dst, None, false, thr);
	let db = match Db::open(&opts) {
		Ok(db) => db,
		Err(e) => {
			t.oracle_fail(prop, &format!("result database does not open with the destination options: {:?}", e));
			t.end_case(true);
			return fails + 1
		},
	};
	// A destination that grew its index while being filled may itself be closed with the
	// reindex pending; complete it so that the index walk below sees every entry.
	{
		let pending = |db: &Db| {
			(0..case.dst.len()).any(|c| db.verif_index_tables(c as u8).map(|x| !x.1.is_empty()).unwrap_or(false))
		};
		if pending(&db) {
			ctr.inc("dest.closed_with_pending_reindex");
			for _ in 0..400 {
				db.process_reindex().expect("reindex");
				drain(&db).expect("drain");
				if !pending(&db) {
					break
				}
			}
		}
		for c in 0..case.dst.len() {
			if case.dst[c].is_kv_hash() {
				if let Some((bits, _)) = db.verif_index_tables(c as u8) {
					ctr.inc(&format!("dest.index.bits.{}", bits));
				}
			}
		}
	}
	let mut nontrivial = false;
	for c in 0..case.dst.len() {
		let s = &case.src[c];
		let d = &case.dst[c];
		let content = &data[c].content;
		let is_sel = selected.contains(&(c as u8));
		let mut col_fail: Vec<String> = vec![];
		if s.mt != Mt::No {
			// checked below (check_forest), through handles of its own
			continue
		}
		// (1) every key returns the same value
		let mut bad_get = 0;
		let mut f6 = 0;
		let mut first_bad = String::new();
		for (k, (v, n)) in content.iter() {
			let got = db.get(c as u8, k);
			ctr.inc("check.get");
			if got.as_ref().ok().and_then(|x| x.as_ref()) != Some(v) {
				bad_get += 1;
				let empty = matches!(&got, Ok(Some(g)) if g.is_empty());
				if empty && *n > 1 && s.kind == Kind::Rc && d.kind == Kind::Plain && is_sel {
					f6 += 1;
				}
				if first_bad.is_empty() {
					first_bad = format!(
						"key={} count={} expected={} observed={}",
						hex(k),
						n,
						vals.render(v),
						match &got {
							Ok(Some(g)) => vals.render(g),
							Ok(None) => "none".into(),
							Err(e) => format!("err:{}", err_kind(e)),
						}
					);
				}
			}
		}
		if bad_get > 0 {
			let sig = if f6 == bad_get {
				"F6-signature: key with count > 1 migrated into a plain destination reads as the empty value"
			} else if !queued_older[c].is_empty() {
				"F10-signature: keys held by a queued older index table were not migrated"
			} else {
				"migrated value differs"
			};
			col_fail.push(format!("{}: {} of {} keys wrong, first {}", sig, bad_get, content.len(), first_bad));
		}
		// (2) removed / never written keys are absent
		for k in data[c].removed.iter() {
			if db.get(c as u8, k).ok().flatten().is_some() {
				col_fail.push(format!("removed key {} exists in the destination", hex(k)));
				break
			}
		}
		let expected_count = |n: u64| if d.kind == Kind::Rc { n } else { 1 };
		if !d.btree {
			// (3) value walk: exactly the oracle's (value, count) multiset
			let mut seen: BTreeMap<(Vec<u8>, u32), i64> = BTreeMap::new();
			let r = db.iter_column_while(c as u8, |st| {
				*seen.entry((st.value, st.rc)).or_insert(0) += 1;
				true
			});
			if let Err(e) = r {
				col_fail.push(format!("value walk failed: {:?}", e));
			}
			let mut exp: BTreeMap<(Vec<u8>, u32), i64> = BTreeMap::new();
			for (_, (v, n)) in content.iter() {
				*exp.entry((v.clone(), expected_count(*n) as u32)).or_insert(0) += 1;
			}
			if seen != exp && bad_get == 0 {
				let extra: i64 = seen.iter().map(|(k, n)| std::cmp::max(0, n - exp.get(k).copied().unwrap_or(0))).sum();
				let missing: i64 = exp.iter().map(|(k, n)| std::cmp::max(0, n - seen.get(k).copied().unwrap_or(0))).sum();
				col_fail.push(format!("value walk differs from the oracle: {} unexpected (value, count) entries, {} missing", extra, missing));
			}
			// (4) index walk: exactly the oracle's hashed keys with counts and values
			let mut walk: BTreeMap<Vec<u8>, (Vec<u8>, u64)> = BTreeMap::new();
			let mut dup = 0;
			let r = db.verif_iter_index(c as u8, |k, rc, v| {
				if walk.insert(k.to_vec(), (v.to_vec(), rc as u64)).is_some() {
					dup += 1;
				}
				true
			});
			if let Err(e) = r {
				col_fail.push(format!("index walk of the destination failed: {:?}", e));
			}
			let exp_walk: BTreeMap<Vec<u8>, (Vec<u8>, u64)> =
				content.iter().map(|(k, (v, n))| (hashed[c][k].to_vec(), (v.clone(), expected_count(*n)))).collect();
			if (walk != exp_walk || dup > 0) && bad_get == 0 {
				let extra = walk.keys().filter(|k| !exp_walk.contains_key(*k)).count();
				let missing = exp_walk.keys().filter(|k| !walk.contains_key(*k)).count();
				let wrong = exp_walk.iter().filter(|(k, v)| walk.get(*k).map(|w| w != *v).unwrap_or(false)).count();
				col_fail.push(format!("destination index differs from the oracle: extra={} missing={} wrong value/count={} duplicates={}", extra, missing, wrong, dup));
			}
			// (5) number of value entries
			match db.get_num_column_value_entries(c as u8) {
				Ok(n) => {
					ctr.inc("check.num_entries.ok");
					if n != content.len() as u64 && bad_get == 0 {
						col_fail.push(format!("get_num_column_value_entries = {} but the oracle holds {} keys", n, content.len()));
					}
				},
				Err(_) => ctr.inc("check.num_entries.unavailable"),
			}
			// model op: the whole content of a migrated column
			if is_sel {
				let sets: u64 = content.values().map(|x| x.1).sum();
				ctr.inc(if sets > 10240 { "commits.several(>COMMIT_SIZE sets)" } else { "commits.one" });
				// entries of the newest index table first, then (`older`) those of queued older tables
				let in_older = |k: &Vec<u8>| older_tails[c].contains(&hashed[c][k][6..].to_vec());
				let in_top = |k: &Vec<u8>| top_tails[c].contains(&hashed[c][k][6..].to_vec()) || !in_older(k);
				let tops: Vec<_> = content.iter().filter(|(k, _)| in_top(k)).collect();
				let olds: Vec<_> = content.iter().filter(|(k, _)| in_older(k)).collect();
				let mut line = format!("c20 migrate {} {} {}", s.kind.name(), d.kind.name(), tops.len());
				for (k, (v, n)) in tops.iter() {
					line.push_str(&format!(" {} {} {}", hex(&hashed[c][*k]), vals.render(v), n));
				}
				if !olds.is_empty() {
					line.push_str(&format!(" older {}", olds.len()));
					for (k, (v, n)) in olds.iter() {
						line.push_str(&format!(" {} {} {}", hex(&hashed[c][*k]), vals.render(v), n));
					}
				}
				// (the abstract walk assumes that every index entry belongs to a live key: not emitted
				// when the source tables hold an entry of a removed key, see `c20 walk` below)
				if !stale_seen[c] {
					t.op(&line, &render_content(&walk, &vals));
				}
				// the same through the refined model of the walk: raw index tables oldest first, every
				// entry with the key tail / value / count found in the value slot it addresses
				let (wl, stale) = walk_op_line(s, d, &raw_tables[c], content, &hashed[c], &vals);
				if stale > 0 {
					ctr.inc("walk.source_tables_with_stale_entries");
				}
				t.op(&wl, &render_content(&walk, &vals));
				ctr.inc(&format!("walk.tables.{}", raw_tables[c].len()));
				if content.values().any(|x| x.1 > 1) || content.len() > 64 {
					nontrivial = true;
				}
			}
		} else {
			// btree column (never selected): ordered content equals the oracle
			let mut got: Vec<(Vec<u8>, Vec<u8>)> = vec![];
			if let Ok(mut it) = db.iter(c as u8) {
				let _ = it.seek_to_first();
				while let Ok(Some(kv)) = it.next() {
					got.push(kv);
				}
			}
			let exp: Vec<(Vec<u8>, Vec<u8>)> = content.iter().map(|(k, (v, _))| (k.clone(), v.clone())).collect();
			if got != exp {
				col_fail.push(format!("btree column differs from the oracle: {} entries, expected {}", got.len(), exp.len()));
			}
		}
		for m in col_fail {
			t.oracle_fail(
				prop,
				&format!(
					"{}{} [col={} {}->{} {} overwrite={} older={:?}]",
					if stale_seen[c] { "STALE-ENTRY-signature (follow-up in the destination): " } else { "" },
					m,
					c,
					s.token(),
					d.token(),
					if is_sel { "migrated" } else { "copied" },
					case.overwrite as u8,
					queued_older[c]
				),
			);
			fails += 1;
		}
	}
	// (6) counts by dereferencing until the key disappears (ref-counted destinations)
	for c in 0..case.dst.len() {
		if case.dst[c].kind != Kind::Rc || !case.dst[c].is_kv_hash() {
			continue
		}
		let keys: Vec<&Vec<u8>> = data[c].content.keys().collect();
		if keys.is_empty() {
			continue
		}
		let first = rng.below(keys.len() as u64) as usize;
		let picks: Vec<usize> = if keys.len() > 1 { vec![first, (first + 1 + rng.below(keys.len() as u64 - 1) as usize) % keys.len()] } else { vec![first] };
		for i in picks {
			let k = keys[i];
			let (v, n) = data[c].content.get(k).unwrap();
			if db.get(c as u8, k).ok().flatten().as_ref() != Some(v) {
				continue
			}
			let mut taken = 0u64;
			while taken < 12 {
				db.commit_changes(vec![(c as u8, Operation::Dereference(k.clone()))]).expect("deref");
				drain(&db).expect("drain");
				taken += 1;
				if db.get(c as u8, k).ok().flatten().is_none() {
					break
				}
			}
			ctr.inc("check.deref_count");
			if taken != *n {
				t.oracle_fail(
					prop,
					&format!("reference count differs: col={} key={} took {} dereferences, the source count is {}", c, hex(k), taken, n),
				);
				fails += 1;
			}
		}
	}
	drop(db);
	if let (Some(mc), Some(f)) = (case.mt_col, forest.as_ref()) {
		let mut mrng = Rng::new(seed ^ 0x6d74_5f63_6865_636b);
		for m in check_forest(&result_dir, &opts, mc as u8, case.src[mc].mt, f, src_mt_entries, &src_mt_rc, &mut mrng, ctr) {
			t.oracle_fail(
				prop,
				&format!(
					"{} [col={} {} copied overwrite={} trees={} shared nodes={}]",
					m,
					mc,
					case.src[mc].token(),
					case.overwrite as u8,
					f.roots.len(),
					f.shared_nodes()
				),
			);
			fails += 1;
		}
		if f.shared_nodes() > 0 {
			nontrivial = true;
		}
	}
	fails += synthetic_recover(&mut rng, t, ctr, prop, if thorough { 32 } else { 8 });
	t.end_case(nontrivial || adversarial);
	let _ = std::fs::remove_dir_all(&src_dir);
	let _ = std::fs::remove_dir_all(&dst_dir);
	fails
}
