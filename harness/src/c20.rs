//! C20: migration copies every key, value and reference count.
//!
//! One case = one real source database (1..3 hash columns, optionally a btree column) with
//! generated content, closed cleanly, then `parity_db::migrate` into destination options that
//! differ in compression / preimage / ref_counted (uniform kept), forced or automatic column
//! selection, in-place overwrite on or off.  The result is compared with an independent
//! oracle (plain `BTreeMap` reference semantics of Set / Reference / Dereference):
//!   * every key returns the same value (`Db::get`), same count on ref-counted destinations
//!     (`iter_column_while`, the index walk, Dereference until the key disappears),
//!   * no other key exists (value walk and index walk yield exactly the oracle's entries),
//!   * unselected columns are byte-identical copies, the source is unchanged unless overwrite.
//! Model ops (driver command `c20`):
//!   c20 plan <overwrite> <n> <src col>*n <m> <dst col>*m <force|->      -> ok | err:Migration
//!   c20 migrate <srckind> <dstkind> <n> (<hexkey> <valtoken> <rc>)*n     -> key=val*count ...
//!   c20 recover <ib> <chunk> <entry> <hex tail26>                        -> hex key (32 bytes)
//!   c20 prefix <ib> <chunk> <entry>                                      -> hex key prefix (32 bytes)
//! Hooks (fixes/hook-c20.diff, cfg pdb_verif, read-only): `Db::verif_iter_index` (the walk `migrate`
//! uses, `iter_column_index_while`), `Db::verif_hash_key`, `Db::verif_index_tables`,
//! `Db::verif_index_entries` (raw (chunk, entry, tail) triples), `verif::recover_key_prefix`.
//! Scenarios `grown` / `pending` use the identity hash (uniform column, zero salt) and keys
//! sharing their first 16 bits to overflow an index page: `grown` completes the reindex
//! before closing (index sizes 17, 18), `pending` closes with the older index file still
//! queued (pre-finding F10).
use crate::util::*;
use parity_db::{ColumnOptions, CompressionType, Db, Operation, Options};
use std::collections::{BTreeMap, BTreeSet};
use std::path::{Path, PathBuf};

#[derive(Clone, Copy, PartialEq, Eq, Debug)]
pub enum Kind {
	Plain,
	Preimage,
	Rc,
}

impl Kind {
	fn name(self) -> &'static str {
		match self {
			Kind::Plain => "plain",
			Kind::Preimage => "preimage",
			Kind::Rc => "rc",
		}
	}
}

#[derive(Clone, Debug, PartialEq, Eq)]
pub struct ColCfg {
	pub kind: Kind,
	pub uniform: bool,
	pub btree: bool,
	pub compression: CompressionType,
}

fn comp_id(c: CompressionType) -> u8 {
	match c {
		CompressionType::NoCompression => 0,
		CompressionType::Lz4 => 1,
		CompressionType::Snappy => 2,
	}
}

fn comp_name(c: CompressionType) -> &'static str {
	match c {
		CompressionType::NoCompression => "none",
		CompressionType::Lz4 => "lz4",
		CompressionType::Snappy => "snappy",
	}
}

impl ColCfg {
	fn options(&self) -> ColumnOptions {
		ColumnOptions {
			preimage: self.kind != Kind::Plain,
			uniform: self.uniform,
			ref_counted: self.kind == Kind::Rc,
			compression: self.compression,
			btree_index: self.btree,
			multitree: false,
			append_only: false,
			allow_direct_node_access: false,
		}
	}
	/// model token `<kind>:u<0|1>:c<0..2>:b<0|1>`
	fn token(&self) -> String {
		format!(
			"{}:u{}:c{}:b{}",
			self.kind.name(),
			self.uniform as u8,
			comp_id(self.compression),
			self.btree as u8
		)
	}
}

fn make_options(path: &Path, cols: &[ColCfg], salt: Option<[u8; 32]>, threads: bool, thr: Option<u32>) -> Options {
	let mut o = Options::with_columns(path, cols.len() as u8);
	for (i, c) in cols.iter().enumerate() {
		o.columns[i] = c.options();
		if let Some(t) = thr {
			o.compression_threshold.insert(i as u8, t);
		}
	}
	o.salt = salt;
	o.with_background_thread = threads;
	o.always_flush = !threads;
	o.stats = false;
	o
}

/// user key -> (value, count); count is 1 on columns without reference counting.
type Content = BTreeMap<Vec<u8>, (Vec<u8>, u64)>;

#[derive(Clone, Debug)]
enum Op {
	Set(Vec<u8>, Vec<u8>),
	Reference(Vec<u8>),
	Dereference(Vec<u8>),
}

impl Op {
	fn to_db(&self) -> Operation<Vec<u8>, Vec<u8>> {
		match self {
			Op::Set(k, v) => Operation::Set(k.clone(), v.clone()),
			Op::Reference(k) => Operation::Reference(k.clone()),
			Op::Dereference(k) => Operation::Dereference(k.clone()),
		}
	}
}

/// Independent reference semantics of one operation on one column.
fn apply(kind: Kind, m: &mut Content, op: &Op) {
	match (kind, op) {
		(Kind::Plain, Op::Set(k, v)) => {
			m.insert(k.clone(), (v.clone(), 1));
		},
		(Kind::Preimage, Op::Set(k, v)) => {
			m.entry(k.clone()).or_insert((v.clone(), 1));
		},
		(Kind::Rc, Op::Set(k, v)) => {
			m.entry(k.clone()).or_insert((v.clone(), 0)).1 += 1;
		},
		(Kind::Rc, Op::Reference(k)) =>
			if let Some(e) = m.get_mut(k) {
				e.1 += 1;
			},
		(Kind::Rc, Op::Dereference(k)) => {
			let gone = match m.get_mut(k) {
				Some(e) => {
					e.1 -= 1;
					e.1 == 0
				},
				None => false,
			};
			if gone {
				m.remove(k);
			}
		},
		(_, Op::Dereference(k)) => {
			m.remove(k);
		},
		_ => {},
	}
}

fn size_class(len: usize) -> &'static str {
	match len {
		0 => "0",
		1..=31 => "1-31",
		32..=255 => "32-255",
		256..=4095 => "256-4095",
		4096..=32000 => "4096-32000",
		32001..=32800 => "boundary-32001-32800",
		_ => "multipart>32800",
	}
}

struct Gen<'a> {
	rng: &'a mut Rng,
	vals: &'a mut Values,
	tok_seed: u64,
	big_left: u32,
	/// zero salt: the identity hash of the instrumentation feature needs exactly 32 bytes
	exact32: bool,
	/// bulk column: small values, counts 4..5
	bulk: bool,
	/// clustered keys share 18 bits instead of 16: the index grows several times in a row
	share18: bool,
}

impl<'a> Gen<'a> {
	fn value_token(&mut self) -> String {
		let r = if self.bulk { 1 + self.rng.below(12) } else { self.rng.below(40) };
		let len = match r {
			0 => 0,
			1..=5 => self.rng.range(1, 8),
			6..=12 => self.rng.range(20, 40),
			13..=20 => self.rng.range(40, 200),
			21..=27 => self.rng.range(200, 1000),
			28..=31 => self.rng.range(1000, 5000),
			32..=33 => self.rng.range(4000, 4200),
			34..=35 => self.rng.range(8000, 9000),
			36..=37 => self.rng.range(32700, 32800),
			38 => self.rng.range(33000, 40000),
			_ => self.rng.range(60000, 70000),
		};
		let len = if len > 30000 {
			if self.big_left == 0 {
				self.rng.range(100, 300)
			} else {
				self.big_left -= 1;
				len
			}
		} else {
			len
		};
		self.tok_seed += 1;
		// distinct seed per token: distinct values (needed to tell values apart in value walks)
		let tok = format!("v{}_{}", len, self.tok_seed * 8 + self.rng.below(8));
		self.vals.canon(tok)
	}

	fn key(&mut self, cfg: &ColCfg, id: u64, cluster: Option<u16>) -> Vec<u8> {
		let len = if cfg.uniform && self.exact32 {
			32
		} else if cfg.uniform {
			*self.rng.pick(&[32u64, 32, 32, 33, 40])
		} else {
			*self.rng.pick(&[1u64, 2, 5, 8, 31, 32, 33, 64, 120])
		} as usize;
		let len = std::cmp::max(len, if cfg.uniform { 32 } else { 1 });
		let mut k = Vec::with_capacity(len + 8);
		while k.len() < len {
			k.extend_from_slice(&self.rng.next().to_le_bytes());
		}
		k.truncate(len);
		if len >= 4 {
			// embed the id: pairwise distinct keys (bytes 8..12 when long enough, else the tail)
			let pos = if len >= 12 { 8 } else { len - 4 };
			k[pos..pos + 4].copy_from_slice(&(id as u32).to_be_bytes());
		} else {
			// short keys: extend so that they stay distinct
			k.extend_from_slice(&(id as u32).to_be_bytes());
		}
		if let Some(c) = cluster {
			k[0..2].copy_from_slice(&c.to_be_bytes());
			if self.share18 {
				k[2] &= 0x3f;
			}
		}
		k
	}
}

struct ColData {
	ops: Vec<Op>,
	content: Content,
	removed: Vec<Vec<u8>>,
}

fn gen_column(g: &mut Gen, cfg: &ColCfg, nkeys: u64, cluster: Option<u16>, ctr: &mut Counters) -> ColData {
	let mut ops = vec![];
	let mut removed = vec![];
	for id in 0..nkeys {
		let k = g.key(cfg, id, cluster);
		let tok = g.value_token();
		let v = g.vals.bytes(&tok);
		match cfg.kind {
			Kind::Rc => {
				let count = match if g.bulk { 7 + g.rng.below(3) } else { g.rng.below(10) } {
					0..=3 => 1,
					4..=5 => 2,
					6 => 3,
					7 => 4,
					_ => 5,
				};
				ops.push(Op::Set(k.clone(), v.clone()));
				for _ in 1..count {
					if g.rng.chance(1, 2) {
						ops.push(Op::Set(k.clone(), v.clone()));
					} else {
						ops.push(Op::Reference(k.clone()));
					}
				}
				if g.rng.chance(1, 10) {
					// one more reference taken and released again
					ops.push(Op::Reference(k.clone()));
					ops.push(Op::Dereference(k.clone()));
				}
				if cluster.is_none() && g.rng.chance(1, 12) {
					for _ in 0..count {
						ops.push(Op::Dereference(k.clone()));
					}
					removed.push(k.clone());
				}
			},
			Kind::Preimage => {
				ops.push(Op::Set(k.clone(), v.clone()));
				if g.rng.chance(1, 6) {
					ops.push(Op::Set(k.clone(), v.clone()));
				}
				if cluster.is_none() && g.rng.chance(1, 12) {
					ops.push(Op::Dereference(k.clone()));
					removed.push(k.clone());
				}
			},
			Kind::Plain => {
				if g.rng.chance(1, 5) {
					let t0 = g.value_token();
					let v0 = g.vals.bytes(&t0);
					ops.push(Op::Set(k.clone(), v0));
				}
				ops.push(Op::Set(k.clone(), v.clone()));
				if cluster.is_none() && g.rng.chance(1, 12) {
					ops.push(Op::Dereference(k.clone()));
					removed.push(k.clone());
				}
			},
		}
	}
	let mut content = Content::new();
	for op in &ops {
		apply(cfg.kind, &mut content, op);
	}
	if cluster.is_some() {
		// removals AFTER all inserts of a clustered (one index page) key set: the freed index
		// slots stay empty, so the page has holes in front of live entries when it is walked
		let nrem = g.rng.range(2, 6);
		for _ in 0..nrem {
			if content.is_empty() {
				break
			}
			let pick = g.rng.below(content.len() as u64) as usize;
			let k = content.keys().nth(pick).unwrap().clone();
			if let Some((_, n)) = content.get(&k).cloned() {
				let times = if cfg.kind == Kind::Rc { n } else { 1 };
				for _ in 0..times {
					let op = Op::Dereference(k.clone());
					apply(cfg.kind, &mut content, &op);
					ops.push(op);
				}
				if !content.contains_key(&k) {
					removed.push(k.clone());
					ctr.inc("clustered.removed_after_inserts");
				}
			}
		}
	}
	for (_, (v, n)) in content.iter() {
		ctr.inc(&format!("size.{}", size_class(v.len())));
		if cfg.kind == Kind::Rc {
			ctr.inc(&format!("rc.count.{}", n));
		}
	}
	ColData { ops, content, removed }
}

fn drain(db: &Db) -> Result<(), parity_db::Error> {
	for _ in 0..3 {
		db.process_commits()?;
	}
	db.flush_logs()?;
	db.enact_logs()?;
	db.clean_logs()?;
	Ok(())
}

/// Fast content hash of a file (holes skipped with SEEK_DATA / SEEK_HOLE; zero words do not
/// contribute, so a hole and explicit zeros hash alike); `skip` = byte range left out
/// (the statistics area of an index file header).
fn hash_file(p: &Path, skip: Option<(u64, u64)>) -> u64 {
	use std::io::{Read, Seek, SeekFrom};
	use std::os::unix::io::AsRawFd;
	let mut f = match std::fs::File::open(p) {
		Ok(f) => f,
		Err(_) => return 0,
	};
	let len = f.metadata().map(|m| m.len()).unwrap_or(0);
	let mut h: u64 = 0xcbf2_9ce4_8422_2325 ^ len;
	let fd = f.as_raw_fd();
	let mut off: u64 = 0;
	let mut buf = vec![0u8; 1 << 20];
	while off < len {
		let d = unsafe { libc::lseek(fd, off as i64, libc::SEEK_DATA) };
		if d < 0 {
			break
		}
		let e = unsafe { libc::lseek(fd, d, libc::SEEK_HOLE) };
		let (d, e) = (d as u64 & !7, if e < 0 { len } else { e as u64 });
		let mut pos = d;
		f.seek(SeekFrom::Start(pos)).unwrap();
		while pos < e {
			let want = std::cmp::min(buf.len() as u64, e - pos) as usize;
			let n = f.read(&mut buf[..want]).unwrap();
			if n == 0 {
				break
			}
			let mut i = 0;
			while i < n {
				let m = std::cmp::min(8, n - i);
				let mut w = [0u8; 8];
				w[..m].copy_from_slice(&buf[i..i + m]);
				let x = u64::from_le_bytes(w);
				let at = pos + i as u64;
				let skipped = match skip {
					Some((a, b)) => at >= a && at < b,
					None => false,
				};
				if x != 0 && !skipped {
					h = (h ^ x ^ at.wrapping_mul(0x9E37_79B9_7F4A_7C15)).wrapping_mul(0x0000_0100_0000_01B3);
					h = h.rotate_left(29);
				}
				i += 8;
			}
			pos += n as u64;
		}
		off = std::cmp::max(e, off + 1);
	}
	h
}

fn col_of_file(name: &str) -> Option<u8> {
	// index_CC_BB, table_CC_TT
	let parts: Vec<&str> = name.split('_').collect();
	if parts.len() == 3 && (parts[0] == "index" || parts[0] == "table") {
		parts[1].parse::<u8>().ok()
	} else {
		None
	}
}

/// column files of a database directory -> content hash (index statistics area excluded
/// unless `full`)
fn dir_hashes_opt(dir: &Path, full: bool) -> BTreeMap<String, u64> {
	let mut m = BTreeMap::new();
	if let Ok(rd) = std::fs::read_dir(dir) {
		for e in rd {
			let e = e.unwrap();
			let n = e.file_name().to_string_lossy().to_string();
			if col_of_file(&n).is_some() {
				let skip = if n.starts_with("index") && !full { Some((512, 16384)) } else { None };
				m.insert(n, hash_file(&e.path(), skip));
			}
		}
	}
	m
}

fn dir_hashes(dir: &Path) -> BTreeMap<String, u64> {
	dir_hashes_opt(dir, false)
}

fn res_str(r: &Result<(), parity_db::Error>) -> String {
	match r {
		Ok(()) => "ok".into(),
		Err(e) => format!("err:{}", err_kind(e)),
	}
}

struct Case {
	seed: u64,
	scenario: &'static str,
	src: Vec<ColCfg>,
	dst: Vec<ColCfg>,
	overwrite: bool,
	force: Vec<u8>,
	salt: [u8; 32],
}

fn describe(case: &Case) -> String {
	let cols: Vec<String> = case
		.src
		.iter()
		.zip(case.dst.iter())
		.map(|(s, d)| format!("{}->{}", s.token(), d.token()))
		.collect();
	format!(
		"seed={} scenario={} overwrite={} force={:?} cols=[{}]",
		case.seed,
		case.scenario,
		case.overwrite as u8,
		case.force,
		cols.join(" ")
	)
}

fn render_content(m: &BTreeMap<Vec<u8>, (Vec<u8>, u64)>, vals: &Values) -> String {
	if m.is_empty() {
		return "-".into()
	}
	m.iter().map(|(k, (v, n))| format!("{}={}*{}", hex(k), vals.render(v), n)).collect::<Vec<_>>().join(" ")
}

/// Synthetic round trips through the real `recover_key_prefix` for all index sizes.
fn synthetic_recover(rng: &mut Rng, t: &mut Trace, ctr: &mut Counters, prop: &str, n: usize) -> u64 {
	let mut fails = 0;
	for _ in 0..n {
		let ib = rng.range(16, 49) as u32;
		let mut k = [0u8; 32];
		for i in 0..4 {
			k[i * 8..i * 8 + 8].copy_from_slice(&rng.next().to_le_bytes());
		}
		match rng.below(6) {
			0 => k[0..8].copy_from_slice(&[0u8; 8]),
			1 => k[0..8].copy_from_slice(&[0xff; 8]),
			2 => {
				k[6] = 0xff;
				k[7] = 0xff
			},
			_ => {},
		}
		let prefix = u64::from_be_bytes(k[0..8].try_into().unwrap());
		let ab = ib + 14;
		let addr = rng.next() & ((1u64 << ab) - 1);
		let chunk = prefix >> (64 - ib);
		let partial = (prefix << ib) >> ab;
		let entry = (partial << ab) | addr;
		let got = parity_db::verif::recover_key_prefix(ib as u8, chunk, entry);
		t.op(&format!("c20 prefix {} {} {}", ib, chunk, entry), &hex(&got));
		let mut full = got;
		full[6..].copy_from_slice(&k[6..]);
		t.op(&format!("c20 recover {} {} {} {}", ib, chunk, entry, hex(&k[6..])), &hex(&full));
		ctr.inc("recover.synthetic");
		if full != k {
			t.oracle_fail(
				prop,
				&format!("recover_key_prefix round trip: ib={} key={} recovered={}", ib, hex(&k), hex(&full)),
			);
			fails += 1;
		}
	}
	fails
}

pub fn run(seeds: &[u64], thorough: bool, root: &Path, t: &mut Trace, ctr: &mut Counters, prop: &str) -> u64 {
	let mut fails = 0;
	// panics are outcomes here (catch_unwind): keep stderr quiet
	std::panic::set_hook(Box::new(|_| {}));
	for s in seeds.iter().copied() {
		let r = std::panic::catch_unwind(std::panic::AssertUnwindSafe(|| run_case(s, thorough, root, t, ctr, prop)));
		match r {
			Ok(f) => fails += f,
			Err(e) => {
				let msg = e
					.downcast_ref::<String>()
					.cloned()
					.or_else(|| e.downcast_ref::<&str>().map(|s| s.to_string()))
					.unwrap_or_default();
				t.oracle_fail(prop, &format!("panic in case seed={}: {}", s, msg));
				t.end_case(true);
				fails += 1;
			},
		}
	}
	let _ = std::panic::take_hook();
	fails
}

fn gen_case(seed: u64, rng: &mut Rng) -> Case {
	let scenario = match rng.below(24) {
		0..=3 => "grown",
		4..=5 => "pending",
		6..=7 => "partial", // several older index tables queued, the reindex started but not finished
		8..=9 => "badplan",
		10 => "bulk", // more than COMMIT_SIZE Sets: several raw commits
		_ => "plain",
	};
	let adversarial = scenario == "grown" || scenario == "pending" || scenario == "partial";
	let nhash = rng.range(1, 3) as usize;
	let with_btree = rng.chance(1, 3);
	let mut src = vec![];
	let comps = [CompressionType::NoCompression, CompressionType::Lz4, CompressionType::Snappy];
	for i in 0..nhash {
		let kind = if scenario == "bulk" && i == 0 { Kind::Rc } else { *rng.pick(&[Kind::Plain, Kind::Preimage, Kind::Rc, Kind::Rc]) };
		let uniform = if adversarial && i == 0 { true } else { rng.chance(1, 3) };
		src.push(ColCfg { kind, uniform, btree: false, compression: *rng.pick(&comps) });
	}
	if with_btree {
		let pos = rng.below(src.len() as u64 + 1) as usize;
		let pos = if adversarial { std::cmp::max(pos, 1) } else { pos };
		src.insert(pos, ColCfg { kind: Kind::Plain, uniform: false, btree: true, compression: *rng.pick(&comps) });
	}
	let mut dst = vec![];
	for c in src.iter() {
		if c.btree {
			dst.push(c.clone());
			continue
		}
		let same = rng.chance(1, 4);
		if same {
			dst.push(c.clone());
		} else {
			dst.push(ColCfg {
				kind: *rng.pick(&[Kind::Plain, Kind::Preimage, Kind::Rc]),
				uniform: c.uniform,
				btree: false,
				compression: *rng.pick(&comps),
			});
		}
	}
	let mut force = vec![];
	for (i, c) in src.iter().enumerate() {
		if !c.btree && rng.chance(1, 3) {
			force.push(i as u8);
		}
	}
	let overwrite = rng.chance(1, 3);
	if scenario == "badplan" {
		match rng.below(4) {
			3 => {
				force.push(src.len() as u8 + rng.below(3) as u8);
			},
			0 => {
				// column count mismatch
				dst.push(ColCfg { kind: Kind::Plain, uniform: false, btree: false, compression: CompressionType::NoCompression });
			},
			1 => {
				// a btree column selected (forced, or its options changed)
				if let Some(i) = src.iter().position(|c| c.btree) {
					if rng.chance(1, 2) {
						force.push(i as u8);
					} else {
						dst[i].compression = match dst[i].compression {
							CompressionType::NoCompression => CompressionType::Lz4,
							_ => CompressionType::NoCompression,
						};
					}
				} else {
					// hash column to btree column
					dst[0].btree = true;
					dst[0].uniform = false;
				}
			},
			_ => {
				dst[0].btree = true;
			},
		}
	}
	let mut salt = [0u8; 32];
	if !adversarial {
		for i in 0..4 {
			salt[i * 8..i * 8 + 8].copy_from_slice(&rng.next().to_le_bytes());
		}
	}
	Case { seed, scenario, src, dst, overwrite, force, salt }
}

enum Expect {
	Ok(BTreeSet<u8>),
	Refused,
	Panic,
}

/// Expected outcome of column selection, stated independently of the model:
/// selected = forced or options differ; any selected column that is btree on either side,
/// or a different number of columns, is refused; a forced column id that does not exist
/// makes the current code index out of bounds (a panic, not an error).
fn expected_plan(case: &Case) -> Expect {
	if case.src.len() != case.dst.len() {
		return Expect::Refused
	}
	if case.force.iter().any(|c| *c as usize >= case.src.len()) {
		return Expect::Panic
	}
	let mut sel: BTreeSet<u8> = case.force.iter().copied().collect();
	for i in 0..case.src.len() {
		if case.src[i] != case.dst[i] {
			sel.insert(i as u8);
		}
	}
	for c in sel.iter() {
		if case.src[*c as usize].btree || case.dst[*c as usize].btree {
			return Expect::Refused
		}
	}
	Expect::Ok(sel)
}

fn run_case(seed: u64, thorough: bool, root: &Path, t: &mut Trace, ctr: &mut Counters, prop: &str) -> u64 {
	let mut rng = Rng::new(seed);
	let case = gen_case(seed, &mut rng);
	let mut vals = Values::default();
	let _ = vals.bytes("v0_0");
	let mut fails = 0u64;
	t.begin_case(&describe(&case));
	ctr.inc("cases");
	ctr.inc(&format!("scenario.{}", case.scenario));
	ctr.inc(&format!("overwrite.{}", case.overwrite as u8));
	ctr.inc(&format!("columns.{}", case.src.len()));
	let adversarial = case.scenario == "grown" || case.scenario == "pending" || case.scenario == "partial";
	let src_dir: PathBuf = fresh_dir(root, &format!("c20-{}-src", seed));
	let dst_dir: PathBuf = fresh_dir(root, &format!("c20-{}-dst", seed));

	// ---- content
	let thr = match rng.below(3) {
		0 => Some(0),
		1 => Some(64),
		_ => None,
	};
	let mut data: Vec<ColData> = vec![];
	{
		let mut g = Gen { rng: &mut rng, vals: &mut vals, tok_seed: 0, big_left: if thorough { 4 } else { 2 }, exact32: adversarial, bulk: false, share18: case.scenario == "partial" };
		for (i, c) in case.src.iter().enumerate() {
			let (n, cluster) = if c.btree {
				(g.rng.range(5, 30), None)
			} else if case.scenario == "partial" && i == 0 {
				// 129+ keys sharing 18 bits: the index grows (at least) twice in a row
				(g.rng.range(130, 200), Some(g.rng.below(65536) as u16))
			} else if adversarial && i == 0 {
				(g.rng.range(65, 140), Some(g.rng.below(65536) as u16))
			} else if case.scenario == "bulk" && i == 0 {
				(g.rng.range(2300, 2700), None)
			} else {
				let n = match g.rng.below(4) {
					0 => g.rng.range(10, 30),
					1 => g.rng.range(30, 100),
					2 => g.rng.range(100, if thorough { 600 } else { 300 }),
					_ => g.rng.range(10, 60),
				};
				(n, None)
			};
			g.bulk = case.scenario == "bulk" && i == 0;
			data.push(gen_column(&mut g, c, n, cluster, ctr));
		}
	}
	// transactions: ops of all columns interleaved column by column in chunks
	let mut txs: Vec<Vec<(u8, Op)>> = vec![];
	for (c, d) in data.iter().enumerate() {
		for chunk in d.ops.chunks(40) {
			txs.push(chunk.iter().map(|op| (c as u8, op.clone())).collect());
		}
	}

	// ---- build the source
	{
		let opts = make_options(&src_dir, &case.src, Some(case.salt), !adversarial, thr);
		let db = Db::open_or_create(&opts).expect("create source");
		for tx in txs.iter() {
			db.commit_changes(tx.iter().map(|(c, op)| (*c, op.to_db())).collect::<Vec<_>>()).expect("source commit");
			if adversarial {
				drain(&db).expect("drain");
			}
		}
		if case.scenario == "partial" {
			// one or two reindex batches: entries of the OLDEST queued table are moved into the
			// current one (and the table possibly dropped) while younger old tables are still queued
			let n = rng.range(1, 2);
			for _ in 0..n {
				db.process_reindex().expect("reindex");
				drain(&db).expect("drain");
			}
			ctr.inc(&format!("partial.reindex_batches.{}", n));
		}
		if case.scenario == "grown" {
			for _ in 0..400 {
				db.process_reindex().expect("reindex");
				drain(&db).expect("drain");
				let pending = (0..case.src.len())
					.any(|c| db.verif_index_tables(c as u8).map(|x| !x.1.is_empty()).unwrap_or(false));
				if !pending {
					break
				}
			}
		}
		drop(db);
	}

	// ---- inspect the closed source (no workers: nothing is reindexed by this open)
	let mut hashed: Vec<BTreeMap<Vec<u8>, [u8; 32]>> = vec![]; // user key -> hashed key
	let mut queued_older: Vec<Vec<u8>> = vec![];
	// per column: key tails present in the newest index table / in queued older tables
	let mut top_tails: Vec<BTreeSet<Vec<u8>>> = vec![BTreeSet::new(); case.src.len()];
	let mut older_tails: Vec<BTreeSet<Vec<u8>>> = vec![BTreeSet::new(); case.src.len()];
	{
		let opts = make_options(&src_dir, &case.src, None, false, thr);
		let db = Db::open(&opts).expect("open source");
		for (c, cfg) in case.src.iter().enumerate() {
			let mut hm = BTreeMap::new();
			if !cfg.btree {
				for k in data[c].content.keys().chain(data[c].removed.iter()) {
					hm.insert(k.clone(), db.verif_hash_key(c as u8, k).unwrap());
				}
			}
			hashed.push(hm);
			let (bits, older) = db.verif_index_tables(c as u8).unwrap_or((0, vec![]));
			if !cfg.btree {
				ctr.inc(&format!("index.bits.{}", bits));
				if !older.is_empty() {
					ctr.inc("index.older_queued_after_clean_close");
					t.comment(&format!("col {} top index {} bits, queued older index tables {:?}", c, bits, older));
				}
			}
			queued_older.push(older);
		}
		// source reads (sanity of the generator and of the crate before migrating)
		for (c, d) in data.iter().enumerate() {
			for (k, (v, _)) in d.content.iter() {
				let got = db.get(c as u8, k).expect("get");
				if got.as_ref() != Some(v) {
					t.oracle_fail(prop, &format!("source read before migration: col={} key={} differs from the oracle", c, hex(k)));
					fails += 1;
				}
			}
		}
		// the index walk `migrate` relies on + raw entries for the recover ops
		for (c, cfg) in case.src.iter().enumerate() {
			if cfg.btree {
				continue
			}
			let mut walk: BTreeMap<[u8; 32], (u32, Vec<u8>)> = BTreeMap::new();
			let mut dup = 0;
			db.verif_iter_index(c as u8, |k, rc, v| {
				if walk.insert(*k, (rc, v.to_vec())).is_some() {
					dup += 1;
				}
				true
			})
			.expect("iter index");
			let expected: BTreeMap<[u8; 32], (u32, Vec<u8>)> =
				data[c].content.iter().map(|(k, (v, n))| (hashed[c][k], (*n as u32, v.clone()))).collect();
			if walk != expected || dup > 0 {
				let missing = expected.keys().filter(|k| !walk.contains_key(*k)).count();
				let extra = walk.keys().filter(|k| !expected.contains_key(*k)).count();
				let wrong = expected.iter().filter(|(k, v)| walk.get(*k).map(|w| w != *v).unwrap_or(false)).count();
				let sig = if !queued_older[c].is_empty() && missing > 0 {
					"F10-signature: index walk skips keys still held by a queued older index table"
				} else {
					"index walk differs from the source content"
				};
				t.oracle_fail(
					prop,
					&format!(
						"{}: col={} live={} missing={} extra={} wrong={} duplicates={} older={:?}",
						sig,
						c,
						expected.len(),
						missing,
						extra,
						wrong,
						dup,
						queued_older[c]
					),
				);
				fails += 1;
			}
			// recover ops: real (chunk, entry, tail) triples against the key the walk reported
			let by_tail: BTreeMap<Vec<u8>, [u8; 32]> = walk.keys().map(|k| (k[6..].to_vec(), *k)).collect();
			let mut emitted = 0;
			for which in 0..=queued_older[c].len() {
				let (bits, entries) = db.verif_index_entries(c as u8, which).expect("entries");
				for (_, _, tail) in entries.iter() {
					if let Some(tail) = tail {
						if which == 0 {
							top_tails[c].insert(tail.to_vec());
						} else {
							older_tails[c].insert(tail.to_vec());
						}
					}
				}
				let step = std::cmp::max(1, entries.len() / 4);
				for (chunk, entry, tail) in entries.iter().step_by(step) {
					if let Some(tail) = tail {
						if which == 0 {
							if let Some(k) = by_tail.get(&tail.to_vec()) {
								t.op(&format!("c20 recover {} {} {} {}", bits, chunk, entry, hex(tail)), &hex(k));
								ctr.inc("recover.real");
								emitted += 1;
							}
						} else {
							// older table: the walk does not report it today; emit as a model-only expectation
							let kh = hashed[c].values().find(|h| h[6..] == tail[..]);
							if let Some(k) = kh {
								let mut got = parity_db::verif::recover_key_prefix(bits, *chunk, *entry);
								got[6..].copy_from_slice(tail);
								t.op(&format!("c20 recover {} {} {} {}", bits, chunk, entry, hex(tail)), &hex(&got));
								ctr.inc("recover.real_older_table");
								if &got != k {
									t.oracle_fail(prop, &format!("older index table entry does not recover its key: col={} key={}", c, hex(k)));
									fails += 1;
								}
							}
						}
					}
				}
			}
			let _ = emitted;
		}
		drop(db);
	}
	let _ = std::fs::remove_file(src_dir.join("stats.txt"));
	let before = dir_hashes(&src_dir);
	let before_full = dir_hashes_opt(&src_dir, true);
	let src_files_before: BTreeSet<String> =
		std::fs::read_dir(&src_dir).unwrap().map(|e| e.unwrap().file_name().to_string_lossy().to_string()).collect();

	// ---- migrate
	let to = {
		let mut o = Options::with_columns(&dst_dir, case.dst.len() as u8);
		for (i, c) in case.dst.iter().enumerate() {
			o.columns[i] = c.options();
			if let Some(t) = thr {
				o.compression_threshold.insert(i as u8, t);
			}
		}
		o
	};
	let plan = expected_plan(&case);
	let mig = std::panic::catch_unwind(std::panic::AssertUnwindSafe(|| {
		parity_db::migrate(&src_dir, to, case.overwrite, &case.force)
	}));
	let mig_s = match &mig {
		Ok(r) => res_str(r),
		Err(_) => "panic".to_string(),
	};
	let force_s = if case.force.is_empty() {
		"-".to_string()
	} else {
		case.force.iter().map(|c| c.to_string()).collect::<Vec<_>>().join(",")
	};
	t.op(
		&format!(
			"c20 plan {} {} {} {} {} {}",
			case.overwrite as u8,
			case.src.len(),
			case.src.iter().map(|c| c.token()).collect::<Vec<_>>().join(" "),
			case.dst.len(),
			case.dst.iter().map(|c| c.token()).collect::<Vec<_>>().join(" "),
			force_s
		),
		&mig_s,
	);
	ctr.inc(&format!("migrate.{}", mig_s));
	let selected = match (&plan, &mig) {
		(Expect::Ok(sel), Ok(Ok(()))) => sel.clone(),
		(Expect::Refused, Ok(Err(parity_db::Error::Migration(_)))) | (Expect::Panic, Err(_)) => {
			// refused: the source must be intact
			let after = dir_hashes(&src_dir);
			if after != before {
				t.oracle_fail(prop, "refused migration changed the source files");
				fails += 1;
			}
			if matches!(plan, Expect::Panic) {
				t.comment("forced column id out of range: migrate panics (index out of bounds) instead of returning Error::Migration");
			}
			t.end_case(true);
			let _ = std::fs::remove_dir_all(&src_dir);
			let _ = std::fs::remove_dir_all(&dst_dir);
			return fails
		},
		(p, _) => {
			t.oracle_fail(
				prop,
				&format!(
					"migrate outcome {} but the plan is {}",
					mig_s,
					match p {
						Expect::Ok(_) => "valid",
						Expect::Refused => "to be refused",
						Expect::Panic => "a forced column out of range",
					}
				),
			);
			t.end_case(true);
			return fails + 1
		},
	};
	for c in 0..case.src.len() {
		let s = &case.src[c];
		let d = &case.dst[c];
		if s.btree {
			ctr.inc("col.btree");
			continue
		}
		let how = if selected.contains(&(c as u8)) {
			if s == d {
				"forced"
			} else {
				"auto"
			}
		} else {
			"copied"
		};
		ctr.inc(&format!("select.{}", how));
		if how != "copied" {
			ctr.inc(&format!("pair.{}->{}", s.kind.name(), d.kind.name()));
			ctr.inc(&format!("compression.{}->{}", comp_name(s.compression), comp_name(d.compression)));
		}
	}

	// ---- source unchanged / unselected copied (file level)
	let result_dir = if case.overwrite { src_dir.clone() } else { dst_dir.clone() };
	let after_src = dir_hashes(&src_dir);
	if !case.overwrite {
		if dir_hashes_opt(&src_dir, true) != before_full && after_src == before {
			ctr.inc("source.only_index_header_statistics_changed");
		}
		for (name, h) in before.iter() {
			let c = col_of_file(name).unwrap() as usize;
			let reindexable = !queued_older[c].is_empty() && name.starts_with("index");
			match after_src.get(name) {
				Some(h2) if h2 == h => {},
				_ if reindexable => {
					t.comment(&format!("source index file {} changed (pending reindex continued by the open inside migrate)", name));
					ctr.inc("source.index_changed_by_pending_reindex");
				},
				other => {
					t.oracle_fail(prop, &format!("source changed without overwrite: file {} {}", name, if other.is_some() { "differs" } else { "is gone" }));
					fails += 1;
				},
			}
		}
		for name in after_src.keys() {
			let c = col_of_file(name).unwrap() as usize;
			if !before.contains_key(name) && queued_older[c].is_empty() {
				t.oracle_fail(prop, &format!("source changed without overwrite: new file {}", name));
				fails += 1;
			}
		}
		let src_files_after: BTreeSet<String> =
			std::fs::read_dir(&src_dir).unwrap().map(|e| e.unwrap().file_name().to_string_lossy().to_string()).collect();
		for n in src_files_after.difference(&src_files_before) {
			if col_of_file(n).is_none() {
				ctr.inc(&format!("source.new_file.{}", n));
			}
		}
		// unselected columns: byte-identical copies
		let dst_h = dir_hashes(&dst_dir);
		for c in 0..case.src.len() {
			if selected.contains(&(c as u8)) {
				continue
			}
			let s: BTreeMap<&String, &u64> = after_src.iter().filter(|(n, _)| col_of_file(n) == Some(c as u8)).collect();
			let d: BTreeMap<&String, &u64> = dst_h.iter().filter(|(n, _)| col_of_file(n) == Some(c as u8)).collect();
			if s != d && queued_older[c].is_empty() {
				t.oracle_fail(prop, &format!("unselected column {} is not an identical copy: source files {:?}, destination files {:?}", c, s.keys().collect::<Vec<_>>(), d.keys().collect::<Vec<_>>()));
				fails += 1;
			}
			ctr.inc("unselected.compared");
		}
	} else {
		// overwrite: unselected columns stay in place, untouched
		for (name, h) in before.iter() {
			let c = col_of_file(name).unwrap();
			if selected.contains(&c) {
				continue
			}
			if after_src.get(name) != Some(h) && queued_older[c as usize].is_empty() {
				t.oracle_fail(prop, &format!("overwrite: file {} of unselected column {} changed", name, c));
				fails += 1;
			}
		}
		if src_dir.join("to_revert_overwrite").exists() {
			t.oracle_fail(prop, "overwrite: temporary directory left behind");
			fails += 1;
		}
	}

	// ---- the source still reads as before (no overwrite)
	if !case.overwrite {
		let opts = make_options(&src_dir, &case.src, None, false, thr);
		match Db::open(&opts) {
			Ok(db) => {
				for (c, d) in data.iter().enumerate() {
					for (k, (v, _)) in d.content.iter() {
						if db.get(c as u8, k).ok().flatten().as_ref() != Some(v) {
							t.oracle_fail(prop, &format!("source read after migration differs: col={} key={}", c, hex(k)));
							fails += 1;
							break
						}
					}
				}
			},
			Err(e) => {
				t.oracle_fail(prop, &format!("source does not open after migration: {:?}", e));
				fails += 1;
			},
		}
	}

	// ---- the result database against the oracle
	let opts = make_options(&result_dir, &case.dst, None, false, thr);
	let db = match Db::open(&opts) {
		Ok(db) => db,
		Err(e) => {
			t.oracle_fail(prop, &format!("result database does not open with the destination options: {:?}", e));
			t.end_case(true);
			return fails + 1
		},
	};
	// A destination that grew its index while being filled may itself be closed with the
	// reindex pending; complete it so that the index walk below sees every entry.
	{
		let pending = |db: &Db| {
			(0..case.dst.len()).any(|c| db.verif_index_tables(c as u8).map(|x| !x.1.is_empty()).unwrap_or(false))
		};
		if pending(&db) {
			ctr.inc("dest.closed_with_pending_reindex");
			for _ in 0..400 {
				db.process_reindex().expect("reindex");
				drain(&db).expect("drain");
				if !pending(&db) {
					break
				}
			}
		}
		for c in 0..case.dst.len() {
			if !case.dst[c].btree {
				if let Some((bits, _)) = db.verif_index_tables(c as u8) {
					ctr.inc(&format!("dest.index.bits.{}", bits));
				}
			}
		}
	}
	let mut nontrivial = false;
	for c in 0..case.dst.len() {
		let s = &case.src[c];
		let d = &case.dst[c];
		let content = &data[c].content;
		let is_sel = selected.contains(&(c as u8));
		let mut col_fail: Vec<String> = vec![];
		// (1) every key returns the same value
		let mut bad_get = 0;
		let mut f6 = 0;
		let mut first_bad = String::new();
		for (k, (v, n)) in content.iter() {
			let got = db.get(c as u8, k);
			ctr.inc("check.get");
			if got.as_ref().ok().and_then(|x| x.as_ref()) != Some(v) {
				bad_get += 1;
				let empty = matches!(&got, Ok(Some(g)) if g.is_empty());
				if empty && *n > 1 && s.kind == Kind::Rc && d.kind == Kind::Plain && is_sel {
					f6 += 1;
				}
				if first_bad.is_empty() {
					first_bad = format!(
						"key={} count={} expected={} observed={}",
						hex(k),
						n,
						vals.render(v),
						match &got {
							Ok(Some(g)) => vals.render(g),
							Ok(None) => "none".into(),
							Err(e) => format!("err:{}", err_kind(e)),
						}
					);
				}
			}
		}
		if bad_get > 0 {
			let sig = if f6 == bad_get {
				"F6-signature: key with count > 1 migrated into a plain destination reads as the empty value"
			} else if !queued_older[c].is_empty() {
				"F10-signature: keys held by a queued older index table were not migrated"
			} else {
				"migrated value differs"
			};
			col_fail.push(format!("{}: {} of {} keys wrong, first {}", sig, bad_get, content.len(), first_bad));
		}
		// (2) removed / never written keys are absent
		for k in data[c].removed.iter() {
			if db.get(c as u8, k).ok().flatten().is_some() {
				col_fail.push(format!("removed key {} exists in the destination", hex(k)));
				break
			}
		}
		let expected_count = |n: u64| if d.kind == Kind::Rc { n } else { 1 };
		if !d.btree {
			// (3) value walk: exactly the oracle's (value, count) multiset
			let mut seen: BTreeMap<(Vec<u8>, u32), i64> = BTreeMap::new();
			let r = db.iter_column_while(c as u8, |st| {
				*seen.entry((st.value, st.rc)).or_insert(0) += 1;
				true
			});
			if let Err(e) = r {
				col_fail.push(format!("value walk failed: {:?}", e));
			}
			let mut exp: BTreeMap<(Vec<u8>, u32), i64> = BTreeMap::new();
			for (_, (v, n)) in content.iter() {
				*exp.entry((v.clone(), expected_count(*n) as u32)).or_insert(0) += 1;
			}
			if seen != exp && bad_get == 0 {
				let extra: i64 = seen.iter().map(|(k, n)| std::cmp::max(0, n - exp.get(k).copied().unwrap_or(0))).sum();
				let missing: i64 = exp.iter().map(|(k, n)| std::cmp::max(0, n - seen.get(k).copied().unwrap_or(0))).sum();
				col_fail.push(format!("value walk differs from the oracle: {} unexpected (value, count) entries, {} missing", extra, missing));
			}
			// (4) index walk: exactly the oracle's hashed keys with counts and values
			let mut walk: BTreeMap<Vec<u8>, (Vec<u8>, u64)> = BTreeMap::new();
			let mut dup = 0;
			let r = db.verif_iter_index(c as u8, |k, rc, v| {
				if walk.insert(k.to_vec(), (v.to_vec(), rc as u64)).is_some() {
					dup += 1;
				}
				true
			});
			if let Err(e) = r {
				col_fail.push(format!("index walk of the destination failed: {:?}", e));
			}
			let exp_walk: BTreeMap<Vec<u8>, (Vec<u8>, u64)> =
				content.iter().map(|(k, (v, n))| (hashed[c][k].to_vec(), (v.clone(), expected_count(*n)))).collect();
			if (walk != exp_walk || dup > 0) && bad_get == 0 {
				let extra = walk.keys().filter(|k| !exp_walk.contains_key(*k)).count();
				let missing = exp_walk.keys().filter(|k| !walk.contains_key(*k)).count();
				let wrong = exp_walk.iter().filter(|(k, v)| walk.get(*k).map(|w| w != *v).unwrap_or(false)).count();
				col_fail.push(format!("destination index differs from the oracle: extra={} missing={} wrong value/count={} duplicates={}", extra, missing, wrong, dup));
			}
			// (5) number of value entries
			match db.get_num_column_value_entries(c as u8) {
				Ok(n) => {
					ctr.inc("check.num_entries.ok");
					if n != content.len() as u64 && bad_get == 0 {
						col_fail.push(format!("get_num_column_value_entries = {} but the oracle holds {} keys", n, content.len()));
					}
				},
				Err(_) => ctr.inc("check.num_entries.unavailable"),
			}
			// model op: the whole content of a migrated column
			if is_sel {
				let sets: u64 = content.values().map(|x| x.1).sum();
				ctr.inc(if sets > 10240 { "commits.several(>COMMIT_SIZE sets)" } else { "commits.one" });
				// entries of the newest index table first, then (`older`) those of queued older tables
				let in_older = |k: &Vec<u8>| older_tails[c].contains(&hashed[c][k][6..].to_vec());
				let in_top = |k: &Vec<u8>| top_tails[c].contains(&hashed[c][k][6..].to_vec()) || !in_older(k);
				let tops: Vec<_> = content.iter().filter(|(k, _)| in_top(k)).collect();
				let olds: Vec<_> = content.iter().filter(|(k, _)| in_older(k)).collect();
				let mut line = format!("c20 migrate {} {} {}", s.kind.name(), d.kind.name(), tops.len());
				for (k, (v, n)) in tops.iter() {
					line.push_str(&format!(" {} {} {}", hex(&hashed[c][*k]), vals.render(v), n));
				}
				if !olds.is_empty() {
					line.push_str(&format!(" older {}", olds.len()));
					for (k, (v, n)) in olds.iter() {
						line.push_str(&format!(" {} {} {}", hex(&hashed[c][*k]), vals.render(v), n));
					}
				}
				t.op(&line, &render_content(&walk, &vals));
				if content.values().any(|x| x.1 > 1) || content.len() > 64 {
					nontrivial = true;
				}
			}
		} else {
			// btree column (never selected): ordered content equals the oracle
			let mut got: Vec<(Vec<u8>, Vec<u8>)> = vec![];
			if let Ok(mut it) = db.iter(c as u8) {
				let _ = it.seek_to_first();
				while let Ok(Some(kv)) = it.next() {
					got.push(kv);
				}
			}
			let exp: Vec<(Vec<u8>, Vec<u8>)> = content.iter().map(|(k, (v, _))| (k.clone(), v.clone())).collect();
			if got != exp {
				col_fail.push(format!("btree column differs from the oracle: {} entries, expected {}", got.len(), exp.len()));
			}
		}
		for m in col_fail {
			t.oracle_fail(
				prop,
				&format!(
					"{} [col={} {}->{} {} overwrite={} older={:?}]",
					m,
					c,
					s.token(),
					d.token(),
					if is_sel { "migrated" } else { "copied" },
					case.overwrite as u8,
					queued_older[c]
				),
			);
			fails += 1;
		}
	}
	// (6) counts by dereferencing until the key disappears (ref-counted destinations)
	for c in 0..case.dst.len() {
		if case.dst[c].kind != Kind::Rc || case.dst[c].btree {
			continue
		}
		let keys: Vec<&Vec<u8>> = data[c].content.keys().collect();
		if keys.is_empty() {
			continue
		}
		let first = rng.below(keys.len() as u64) as usize;
		let picks: Vec<usize> = if keys.len() > 1 { vec![first, (first + 1 + rng.below(keys.len() as u64 - 1) as usize) % keys.len()] } else { vec![first] };
		for i in picks {
			let k = keys[i];
			let (v, n) = data[c].content.get(k).unwrap();
			if db.get(c as u8, k).ok().flatten().as_ref() != Some(v) {
				continue
			}
			let mut taken = 0u64;
			while taken < 12 {
				db.commit_changes(vec![(c as u8, Operation::Dereference(k.clone()))]).expect("deref");
				drain(&db).expect("drain");
				taken += 1;
				if db.get(c as u8, k).ok().flatten().is_none() {
					break
				}
			}
			ctr.inc("check.deref_count");
			if taken != *n {
				t.oracle_fail(
					prop,
					&format!("reference count differs: col={} key={} took {} dereferences, the source count is {}", c, hex(k), taken, n),
				);
				fails += 1;
			}
		}
	}
	drop(db);
	fails += synthetic_recover(&mut rng, t, ctr, prop, if thorough { 32 } else { 8 });
	t.end_case(nontrivial || adversarial);
	let _ = std::fs::remove_dir_all(&src_dir);
	let _ = std::fs::remove_dir_all(&dst_dir);
	fails
}
