//! C06: values of every size and compressibility are returned bit-exact; overwriting / removing
//! releases the storage of the old value.
//!
//! One real `Db` with one column per case (hash plain / hash rc (preimage + ref_counted) / btree
//! plain / btree rc; uniform or hashed keys; compression none / lz4 / snappy; threshold 0 /
//! default / u32::MAX).  Every step is one single-operation commit driven through the pipeline
//! stages with reads at the stages, then (hash columns) the value tables are observed through the
//! hooks `Db::verif_table_state` / `verif_table_entry` and the model's layout predictions are
//! emitted as `c06 ...` protocol lines:
//!   c06 tier  - tier chosen and compressed flag          (observed: table that changed, head slot)
//!   c06 plan  - number of slots and payload per part     (observed: raw chain walk)
//!   c06 t ins/rep/del/ref - head address, filled, last_removed, free list length, FNV digest of
//!               the written slot prefixes of the chain   (observed: hook + raw slots)
//!   c06 t get - stored bytes, flag, rc                   (observed: raw chain reassembled here)
//! Independent oracle (plain Rust, not derived from the model): `get` bytes equal, `get_size`
//! equal to the length, btree iteration equal to the sorted map, stored bytes in the raw chain
//! equal to what was written (after the crate's own compressor), occupied slots = sum over live
//! values of the slots they need (no leak), remove-all / re-insert cycles do not grow `filled`
//! nor the table files.
use crate::p1::{Cfg, ColCfg, Kind, Op, Oracle, Sut, Tx};
use crate::util::*;
use parity_db::CompressionType;
use std::collections::BTreeMap;
use std::path::Path;

const TOMBSTONE: [u8; 2] = [0xff, 0xff];
const MULTIPART: [u8; 2] = [0xfe, 0xff];
const MULTIHEAD: [u8; 2] = [0xfd, 0xff];
const MULTIHEAD_COMPRESSED: [u8; 2] = [0xfd, 0x7f];
const MULTIPART_ENTRY: usize = 4096;
const DEFAULT_THRESHOLD: u32 = 4096;

type TState = (u16, u64, u64, u64); // entry_size, filled, last_removed, free list length

fn fnv(bytes: &[u8], mut h: u64) -> u64 {
	for b in bytes {
		h ^= *b as u64;
		h = h.wrapping_mul(0x100_0000_01b3);
	}
	h
}
const FNV_INIT: u64 = 0xcbf2_9ce4_8422_2325;

fn rle(xs: &[usize]) -> String {
	if xs.is_empty() {
		return "-".into()
	}
	let mut out: Vec<(usize, usize)> = vec![];
	for x in xs {
		match out.last_mut() {
			Some((y, n)) if *y == *x => *n += 1,
			_ => out.push((*x, 1)),
		}
	}
	out.iter().map(|(x, n)| format!("{}*{}", x, n)).collect::<Vec<_>>().join(",")
}

struct Ctx<'a> {
	sizes: &'a [u16],
	col: u8,
	rc: bool,
	keyed: bool,
}

impl<'a> Ctx<'a> {
	fn entry_size(&self, tier: u8) -> usize {
		if (tier as usize) < self.sizes.len() {
			self.sizes[tier as usize] as usize
		} else {
			MULTIPART_ENTRY
		}
	}
	fn hdr(&self) -> usize {
		(if self.rc { 4 } else { 0 }) + (if self.keyed { 26 } else { 0 })
	}
	fn states(&self, sut: &Sut) -> Result<BTreeMap<u8, TState>, String> {
		let v = sut.db().verif_table_state(self.col).map_err(|e| format!("verif_table_state: {:?}", e))?;
		Ok(v.into_iter().map(|(t, es, f, l, n)| (t, (es, f, l, n))).collect())
	}
	fn state(&self, m: &BTreeMap<u8, TState>, tier: u8) -> TState {
		*m.get(&tier).unwrap_or(&(self.entry_size(tier) as u16, 1, 0, 0))
	}
}

#[derive(Debug)]
struct ChainObs {
	nslots: usize,
	digest: u64,
	payload: Vec<u8>,
	flag: bool,
	rc: u32,
	part_sizes: Vec<usize>,
	tail: Vec<u8>,
}

/// Independent reader of the raw file: walks the chain starting at `addr`.
fn observe_chain(sut: &Sut, cx: &Ctx, tier: u8, addr: u64) -> Result<ChainObs, String> {
	let es = cx.entry_size(tier);
	let multipart = tier as usize >= cx.sizes.len();
	let mut o = ChainObs { nslots: 0, digest: FNV_INIT, payload: vec![], flag: false, rc: 1, part_sizes: vec![], tail: vec![] };
	let mut idx = addr;
	loop {
		let raw = sut.db().verif_table_entry(cx.col, tier, idx).map_err(|e| format!("verif_table_entry: {:?}", e))?;
		if raw.len() != es {
			return Err(format!("slot {} of tier {}: raw length {} != entry size {}", idx, tier, raw.len(), es))
		}
		let m = [raw[0], raw[1]];
		if m == TOMBSTONE {
			return Err(format!("slot {} of tier {} is a tombstone inside a live chain", idx, tier))
		}
		let multi = multipart && (m == MULTIPART || m == MULTIHEAD || m == MULTIHEAD_COMPRESSED);
		let (prefix, next, mut off) = if multi {
			(es, u64::from_le_bytes(raw[2..10].try_into().unwrap()), 10)
		} else {
			let s = u16::from_le_bytes(m);
			(2 + (s & 0x7fff) as usize, 0, 2)
		};
		if prefix > es {
			return Err(format!("slot {} of tier {}: size field {} exceeds the entry", idx, tier, prefix - 2))
		}
		if o.nslots == 0 {
			o.flag = if multi { m == MULTIHEAD_COMPRESSED } else { u16::from_le_bytes(m) & 0x8000 != 0 };
			if multi && m == MULTIPART {
				return Err(format!("head slot {} of tier {} carries the continuation marker", idx, tier))
			}
			if cx.rc {
				o.rc = u32::from_le_bytes(raw[off..off + 4].try_into().unwrap());
				off += 4;
			}
			if cx.keyed {
				o.tail = raw[off..off + 26].to_vec();
				off += 26;
			}
		} else if multi && m != MULTIPART {
			return Err(format!("continuation slot {} of tier {} carries a head marker", idx, tier))
		}
		if off > prefix {
			return Err(format!("slot {} of tier {}: header exceeds the stored size", idx, tier))
		}
		o.digest = fnv(&raw[..prefix], o.digest);
		o.payload.extend_from_slice(&raw[off..prefix]);
		o.part_sizes.push(prefix - off);
		o.nslots += 1;
		if next == 0 {
			break
		}
		idx = next;
		if o.nslots > 1_000_000 {
			return Err("chain does not terminate".into())
		}
	}
	Ok(o)
}

fn is_tombstone(sut: &Sut, cx: &Ctx, tier: u8, addr: u64) -> bool {
	match sut.db().verif_table_entry(cx.col, tier, addr) {
		Ok(raw) => raw.len() >= 2 && raw[0..2] == TOMBSTONE,
		Err(_) => false,
	}
}

/// slots a stored value of `stored_len` bytes needs (plain arithmetic, independent of the model)
fn slots_needed(cx: &Ctx, tier: u8, stored_len: usize) -> u64 {
	if (tier as usize) < cx.sizes.len() {
		return 1
	}
	let body = stored_len + cx.hdr();
	let fs = MULTIPART_ENTRY - 2;
	if body <= fs {
		1
	} else {
		let rest = body - fs; // bytes that do not fit the last part
		1 + ((rest + (fs - 8) - 1) / (fs - 8)) as u64
	}
}

fn gen_lens(rng: &mut Rng, cx: &Ctx, thorough: bool, ctr: &mut Counters) -> Vec<(usize, &'static str)> {
	let hdr = cx.hdr();
	let mut lens: Vec<(usize, &'static str)> = vec![(0, "zero"), (1, "one")];
	let ntiers = if thorough { 15 } else { 3 };
	let start = rng.below(255) as usize;
	let stride = 255 / ntiers;
	for k in 0..ntiers {
		let tier = (start + k * stride) % 255;
		ctr.inc(&format!("tier_boundary.{:03}", tier));
		let b = cx.sizes[tier] as usize - 2 - hdr;
		if b >= 1 {
			lens.push((b - 1, "boundary-1"));
		}
		lens.push((b, "boundary"));
		lens.push((b + 1, "boundary+1"));
	}
	// the single / multi-part boundary: largest fixed entry
	let b = *cx.sizes.last().unwrap() as usize - 2 - hdr;
	lens.push((b - 1, "mp-boundary-1"));
	lens.push((b, "mp-boundary"));
	lens.push((b + 1, "mp-boundary+1"));
	// part boundaries inside the multipart table: body = 4094 + k * 4086
	let k = rng.range(8, 12) as usize;
	let pb = (MULTIPART_ENTRY - 2) + k * (MULTIPART_ENTRY - 10) - hdr;
	lens.push((pb - 1, "part-boundary-1"));
	lens.push((pb, "part-boundary"));
	lens.push((pb + 1, "part-boundary+1"));
	// around the default compression threshold (`len > threshold` is strict); forced compressible
	lens.push((4095, "thr-1"));
	lens.push((4096, "thr"));
	lens.push((4097, "thr+1"));
	lens.push((33 * 1024, "33KiB"));
	let k2 = rng.range(9, 20) as usize;
	lens.push((k2 * 4096 + rng.below(3) as usize - 1, "4096-multiple"));
	if rng.chance(1, if thorough { 3 } else { 8 }) {
		lens.push(((1 << 20) + rng.below(3) as usize - 1, "1MiB"));
	}
	if thorough && rng.chance(1, 12) {
		lens.push((2_621_440 + rng.below(2) as usize, "2.5MiB"));
	}
	// shuffle
	for i in (1..lens.len()).rev() {
		let j = rng.below(i as u64 + 1) as usize;
		lens.swap(i, j);
	}
	lens
}

fn gen_key(rng: &mut Rng, uniform: bool, id: u64) -> Vec<u8> {
	let len = if uniform { 32 } else { *rng.pick(&[1usize, 8, 32, 33, 200]) };
	let mut k = Vec::with_capacity(len + 8);
	while k.len() < len {
		k.extend_from_slice(&rng.next().to_le_bytes());
	}
	k.truncate(len);
	// distinct per id (and distinct tail for uniform keys)
	let tag = (id as u32 + 1).to_be_bytes();
	if len >= 4 {
		let n = k.len();
		k[n - 4..].copy_from_slice(&tag);
	} else {
		k.extend_from_slice(&tag);
	}
	k
}

struct Mirror {
	tier: u8,
	addr: u64,
	stored_len: usize,
}

fn res(r: &Result<(), parity_db::Error>) -> String {
	match r {
		Ok(()) => "ok".into(),
		Err(e) => format!("err:{}", err_kind(e)),
	}
}

struct Case<'a> {
	cx: Ctx<'a>,
	cfg: Cfg,
	sut: Sut,
	oracle: Oracle,
	vals: Values,
	mirror: BTreeMap<Vec<u8>, Mirror>,
	hashed: BTreeMap<Vec<u8>, [u8; 32]>,
	prop: String,
	ok: bool,
	btree: bool,
	stages: std::collections::BTreeSet<&'static str>,
}

impl<'a> Case<'a> {
	fn fail(&mut self, t: &mut Trace, msg: String) {
		t.oracle_fail(&self.prop, &msg);
		self.ok = false;
	}

	/// independent oracle on one key: bytes equal, size equal
	fn check_key(&mut self, t: &mut Trace, ctr: &mut Counters, k: &[u8], stage: &'static str) {
		let got = self.sut.get(0, k);
		let size = self.sut.db().get_size(0, k);
		let exp = self.oracle.cols[0].get(k).cloned();
		ctr.inc(&format!("read.stage.{}", stage));
		self.stages.insert(stage);
		let rc_kind = self.cfg.cols[0].kind == Kind::Rc;
		let exact = !rc_kind || self.sut.queued == 0;
		match (&got, &size) {
			(Ok(g), Ok(s)) => {
				if g.as_ref().map(|v| v.len() as u32) != *s {
					self.fail(t, format!("get_size {:?} != length of get {:?} key={} stage={}", s, g.as_ref().map(|v| v.len()), hex(k), stage));
				}
				let expv = exp.as_ref().map(|x| x.0.clone());
				if exact {
					if *g != expv {
						let first_diff = match (g, &expv) {
							(Some(a), Some(b)) => a.iter().zip(b.iter()).position(|(x, y)| x != y).map(|p| p as i64).unwrap_or(-1),
							_ => -2,
						};
						self.fail(
							t,
							format!(
								"value not bit-exact: key={} stage={} expected_len={:?} got_len={:?} first_diff={}",
								hex(k),
								stage,
								expv.as_ref().map(|v| v.len()),
								g.as_ref().map(|v| v.len()),
								first_diff
							),
						);
					}
				} else if let Some((v, n)) = &exp {
					if *n > 0 && g.as_ref() != Some(v) {
						self.fail(t, format!("rc value unreadable with positive count: key={} stage={}", hex(k), stage));
					}
				}
			},
			(g, s) => {
				self.fail(t, format!("read error key={} stage={} get={:?} size={:?}", hex(k), stage, g.as_ref().err(), s.as_ref().err()));
			},
		}
	}

	fn check_iter(&mut self, t: &mut Trace, ctr: &mut Counters, stage: &'static str) {
		if !self.btree {
			return
		}
		if self.cfg.cols[0].kind == Kind::Rc && self.sut.queued > 0 {
			return
		}
		ctr.inc("read.btree_iter");
		let mut got: Vec<(Vec<u8>, Vec<u8>)> = vec![];
		let r = (|| -> Result<(), parity_db::Error> {
			let mut it = self.sut.db().iter(0)?;
			it.seek_to_first()?;
			while let Some((k, v)) = it.next()? {
				got.push((k, v));
				if got.len() > 10_000 {
					break
				}
			}
			Ok(())
		})();
		if let Err(e) = r {
			self.fail(t, format!("btree iteration failed at {}: {:?}", stage, e));
			return
		}
		let exp: Vec<(Vec<u8>, Vec<u8>)> = self.oracle.cols[0].iter().map(|(k, v)| (k.clone(), v.0.clone())).collect();
		if got != exp {
			let pos = got.iter().zip(exp.iter()).position(|(a, b)| a != b);
			self.fail(t, format!("btree iteration differs from the sorted map at {}: {} vs {} entries, first difference at {:?}", stage, got.len(), exp.len(), pos));
		}
	}

	/// C07 / C14 value iteration against the byte-level model (`ValueIter.c06Step` on the tables of
	/// the `c06 t` state): the callback sequence of the REAL `iter_column_while` in callback order,
	/// each value mapped to its STORED form (the model has the stored bytes; the stored form is
	/// recomputed here from the value the crate handed out, with the crate's compressor), and the
	/// skipped / reported slots read from the raw table files.
	fn iter_tie(&mut self, t: &mut Trace, ctr: &mut Counters, stage: &'static str) {
		if self.btree || !self.ok {
			return
		}
		ctr.inc("iter.cases");
		let mut vals: Vec<(u32, Vec<u8>)> = vec![];
		let r = self.sut.db().iter_column_while(0, |s| {
			vals.push((s.rc, s.value));
			true
		});
		let seq: Vec<String> = vals
			.iter()
			.map(|(rc, v)| {
				let (stored, flag, _, _) = stored_form(&self.cfg, v);
				format!("{}:{}:{}{}", rc, stored.len(), fnv(&stored, FNV_INIT), if flag { ":c" } else { "" })
			})
			.collect();
		let obs = match r {
			Ok(()) => format!("n={} {}", seq.len(), if seq.is_empty() { "-".to_string() } else { seq.join(",") }),
			Err(e) => format!("err:{}", err_kind(&e)),
		};
		ctr.add("iter.items", seq.len() as u64);
		ctr.add("iter.items_compressed", seq.iter().filter(|x| x.ends_with(":c")).count() as u64);
		t.op("c06 t iter", &obs);
		// skipped and reported slots from the raw files
		let st = match self.cx.states(&self.sut) {
			Ok(s) => s,
			Err(e) => {
				self.fail(t, format!("iter_tie at {}: {}", stage, e));
				return
			},
		};
		let (mut tomb, mut parts) = (0u64, 0u64);
		let mut heads: Vec<String> = vec![];
		let mut tiers = 0u64;
		for (tier, (es, filled, _, _)) in &st {
			let multipart = *es as usize == MULTIPART_ENTRY && (*tier as usize) >= self.cx.sizes.len();
			let mut hit = false;
			for i in 1..*filled {
				let raw = match self.sut.db().verif_table_entry(self.cx.col, *tier, i) {
					Ok(r) => r,
					Err(e) => {
						self.fail(t, format!("iter_tie at {}: verif_table_entry: {:?}", stage, e));
						return
					},
				};
				let m = [raw[0], raw[1]];
				if m == [0xff, 0xff] {
					tomb += 1;
				} else if multipart && !(m == [0xfd, 0xff] || m == [0xfd, 0x7f]) {
					parts += 1;
				} else {
					let off = (if multipart { 10 } else { 2 }) + if self.cx.rc { 4 } else { 0 };
					heads.push(format!("{}:{}:{}", tier, i, hex(&raw[off..off + 26])));
					hit = true;
				}
			}
			if hit {
				tiers += 1;
			}
		}
		ctr.add("iter.tombstones_skipped", tomb);
		ctr.add("iter.parts_skipped", parts);
		ctr.add("iter.tiers_hit", tiers);
		if tomb > 0 {
			ctr.inc("iter.cases_with_tombstone");
		}
		if parts > 0 {
			ctr.inc("iter.cases_with_multipart");
		}
		if heads.len() != seq.len() {
			self.fail(t, format!("iter_tie at {}: iter_column_while reports {} values, the table files hold {} live heads", stage, seq.len(), heads.len()));
		}
		t.op(
			"c06 t iterd",
			&format!("tomb={} parts={} tiers={} {}", tomb, parts, tiers, if heads.is_empty() { "-".to_string() } else { heads.join(",") }),
		);
	}

	fn drain(&mut self, t: &mut Trace) -> bool {
		let mut guard = 0;
		while self.sut.queued > 0 && guard < 64 {
			if let Err(e) = self.sut.process() {
				self.fail(t, format!("process_commits failed: {:?}", e));
				return false
			}
			guard += 1;
		}
		if let Err(e) = self.sut.flush() {
			self.fail(t, format!("flush_logs failed: {:?}", e));
			return false
		}
		if let Err(e) = self.sut.enact_all() {
			self.fail(t, format!("enact_logs failed: {:?}", e));
			return false
		}
		true
	}

	fn tail(&self, k: &[u8]) -> String {
		if self.cx.keyed {
			hex(&self.hashed[k][6..32])
		} else {
			"-".into()
		}
	}

	/// T2: send the raw state of the value tables `tiers` to the Lean driver (`t2 slots`, format in
	/// lean/Pdb/Model/DumpCheck.lean): the Lean definition `Pdb.ValueTable.SlotInv` is evaluated
	/// on the table as it is in the file (handle drained).
	fn t2_slots(&self, t: &mut Trace, ctr: &mut Counters, st: &BTreeMap<u8, TState>, tiers: &[u8]) {
		for tier in tiers {
			let (es, filled, lr, _) = match st.get(tier) {
				Some(x) => *x,
				None => continue,
			};
			if filled <= 1 {
				continue
			}
			let mp = (*tier as usize) >= self.cx.sizes.len();
			let mut s = format!("t2 slots {} {} {} {} {} {}", tier, es, mp as u8, self.cx.rc as u8, filled, lr);
			let mut complete = true;
			for i in 0..filled {
				match self.sut.db().verif_table_entry(self.cx.col, *tier, i) {
					Ok(raw) => {
						let n = if i == 0 { 16 } else { std::cmp::min(40, es as usize) };
						s.push(' ');
						s.push_str(&hex(&raw[..std::cmp::min(n, raw.len())]));
					},
					Err(_) => complete = false,
				}
				if s.len() > 200 * 1024 {
					complete = false;
				}
				if !complete {
					break
				}
			}
			if complete {
				ctr.inc("t2.slots.lines");
				ctr.add("t2.slots.slots", filled - 1);
				ctr.add("t2.bytes", s.len() as u64);
				t.op(&s, "ok");
			} else {
				ctr.inc("t2.skipped.slots_too_big");
			}
		}
	}

	/// no-leak oracle for hash columns: occupied slots = slots needed by the live values
	fn check_occupancy(&mut self, t: &mut Trace, st: &BTreeMap<u8, TState>) {
		let mut need: BTreeMap<u8, u64> = BTreeMap::new();
		for m in self.mirror.values() {
			*need.entry(m.tier).or_insert(0) += slots_needed(&self.cx, m.tier, m.stored_len);
		}
		let mut tiers: std::collections::BTreeSet<u8> = st.keys().copied().collect();
		tiers.extend(need.keys().copied());
		for tier in tiers {
			let (_, filled, _, free) = self.cx.state(st, tier);
			let live = filled - 1 - free;
			let n = *need.get(&tier).unwrap_or(&0);
			if live != n {
				self.fail(t, format!("storage not released / leaked: tier {} has {} occupied slots (filled {} free {}), live values need {}", tier, live, filled, free, n));
			}
		}
	}
}

fn stored_form(cfg: &Cfg, v: &[u8]) -> (Vec<u8>, bool, usize, u32) {
	let thr = cfg.threshold.unwrap_or(DEFAULT_THRESHOLD);
	let kind = cfg.cols[0].compression;
	let c = parity_db::verif::compress(kind, v);
	let clen = c.len();
	if v.len() > thr as usize && clen < v.len() {
		(c, true, clen, thr)
	} else {
		(v.to_vec(), false, clen, thr)
	}
}

fn value_arg(tok: &str, stored: &[u8], flag: bool) -> String {
	if flag {
		format!("x{}", hex(stored))
	} else {
		tok.to_string()
	}
}

pub fn run(seeds: &[u64], thorough: bool, root: &Path, t: &mut Trace, ctr: &mut Counters, prop: &str) -> u64 {
	let sizes = parity_db::verif::entry_sizes();
	let mut fails = 0;
	for s in seeds {
		let r = std::panic::catch_unwind(std::panic::AssertUnwindSafe(|| run_case(*s, thorough, root, t, ctr, prop, &sizes)));
		match r {
			Ok(true) => {},
			Ok(false) => {
				fails += 1;
				t.comment(&format!("FAILED-CASE seed={}", s));
			},
			Err(_) => {
				fails += 1;
				t.oracle_fail(prop, &format!("panic while running case seed={}", s));
				t.end_case(true);
			},
		}
	}
	fails
}

#[allow(clippy::too_many_arguments)]
fn run_case(seed: u64, thorough: bool, root: &Path, t: &mut Trace, ctr: &mut Counters, prop: &str, sizes: &[u16]) -> bool {
	let mut rng = Rng::new(seed);
	let variant = rng.below(8);
	let (kind, btree) = match variant {
		0 | 1 | 2 => (Kind::Plain, false),
		3 | 4 => (Kind::Rc, false),
		5 | 6 => (Kind::Plain, true),
		_ => (Kind::Rc, true),
	};
	let uniform = !btree && rng.chance(1, 3);
	let compression = *rng.pick(&[CompressionType::NoCompression, CompressionType::Lz4, CompressionType::Snappy]);
	let threshold = match rng.below(3) {
		0 => Some(0),
		1 => None,
		_ => Some(u32::MAX),
	};
	let mut salt = [0u8; 32];
	for i in 0..4 {
		salt[i * 8..i * 8 + 8].copy_from_slice(&rng.next().to_le_bytes());
	}
	salt[0] |= 1;
	let cfg = Cfg { cols: vec![ColCfg { kind, uniform, btree, compression }], salt, threshold, sync: true };
	let rc = kind == Kind::Rc;
	let cx = Ctx { sizes, col: 0, rc, keyed: !btree };
	let thr_name = match threshold {
		Some(0) => "0",
		None => "default",
		_ => "max",
	};
	let desc = format!("seed={} cfg={} threshold={}", seed, cfg.describe(), thr_name);
	t.begin_case(&desc);
	ctr.inc("cases");
	ctr.inc(&format!("cfg.kind.{}{}", if btree { "btree" } else { "hash" }, if rc { "_rc" } else { "_plain" }));
	ctr.inc(&format!("cfg.compression.{:?}", compression));
	ctr.inc(&format!("cfg.threshold.{}", thr_name));
	if uniform {
		ctr.inc("cfg.uniform_keys");
	}
	let dir = fresh_dir(root, &format!("c06-{}", seed));
	let sut = Sut::create(cfg.clone(), dir.clone());
	let mut c = Case {
		cx,
		cfg: cfg.clone(),
		sut,
		oracle: Oracle::new(1),
		vals: Values::default(),
		mirror: BTreeMap::new(),
		hashed: BTreeMap::new(),
		prop: prop.to_string(),
		ok: true,
		btree,
		stages: Default::default(),
	};
	let model = !btree;
	if model {
		t.op(&format!("c06 t reset {}", if rc { 1 } else { 0 }), "ok");
	}
	match c.sut.db().get_num_column_value_entries(0) {
		Ok(_) => ctr.inc("num_entries.ok"),
		Err(_) => ctr.inc("num_entries.unsupported_without_multitree"),
	}
	let lens = gen_lens(&mut rng, &c.cx, thorough, ctr);
	// keys: plain columns overwrite a small pool, rc columns have one key per value
	let nkeys = if rc { lens.len() } else { 5 };
	let keys: Vec<Vec<u8>> = (0..nkeys as u64).map(|i| gen_key(&mut rng, uniform, i)).collect();
	for k in &keys {
		c.hashed.insert(k.clone(), parity_db::verif::hash_key(k, &salt, uniform));
	}
	// value token per step (rc: per key)
	let mut tokens: Vec<(String, &'static str)> = vec![];
	for (len, kindname) in &lens {
		let mut sd = rng.below(1 << 30);
		let compressible = rng.chance(1, 3) || kindname.starts_with("thr");
		if compressible != (sd % 3 == 0) {
			sd += if compressible { 3 - sd % 3 } else { 1 };
			if !compressible && sd % 3 == 0 {
				sd += 1;
			}
		}
		tokens.push((c.vals.canon(format!("v{}_{}", len, sd)), kindname));
	}
	let nsteps = if rc { lens.len() * 2 + 6 } else { lens.len() * 4 / 3 + 10 };
	let mut next_len = 0usize;
	let mut boundary_hits = 0;
	let mut followup: Option<(Vec<u8>, String)> = None;
	for step in 0..nsteps {
		// choose the operation
		let (key, op, lenkind): (Vec<u8>, Op, &'static str) = if rc {
			let ki = if next_len < nkeys && rng.chance(2, 3) {
				next_len += 1;
				next_len - 1
			} else {
				rng.below(nkeys as u64) as usize
			};
			let k = keys[ki].clone();
			if rng.chance(3, 5) || !c.oracle.cols[0].contains_key(&k) {
				(k.clone(), Op::Set(k, tokens[ki].0.clone()), tokens[ki].1)
			} else {
				(k.clone(), Op::Del(k), "del")
			}
		} else if let Some((k, tok)) = followup.take() {
			// overwrite the value just written by one of nearly the same size: same tier, in place
			ctr.inc("op.followup_same_key");
			(k.clone(), Op::Set(k, tok), "followup")
		} else {
			let k = keys[rng.below(nkeys as u64) as usize].clone();
			if next_len < tokens.len() && (rng.chance(4, 5) || !c.oracle.cols[0].contains_key(&k)) {
				next_len += 1;
				(k.clone(), Op::Set(k, tokens[next_len - 1].0.clone()), tokens[next_len - 1].1)
			} else {
				(k.clone(), Op::Del(k), "del")
			}
		};
		if !rc && lenkind != "followup" {
			if let Op::Set(k, tok) = &op {
				if rng.chance(1, 3) {
					let len: i64 = tok[1..].split('_').next().unwrap().parse().unwrap();
					let delta: i64 = if len > 33_000 { rng.below(18_001) as i64 - 9_000 } else { rng.below(3) as i64 - 1 };
					let nl = std::cmp::max(0, len + delta);
					let sd = rng.below(1 << 30) * 3 + 1 + rng.below(2); // incompressible
					followup = Some((k.clone(), c.vals.canon(format!("v{}_{}", nl, sd))));
				}
			}
		}
		let before = if model {
			match c.cx.states(&c.sut) {
				Ok(s) => s,
				Err(e) => {
					c.fail(t, e);
					break
				},
			}
		} else {
			BTreeMap::new()
		};
		let was_present = c.oracle.cols[0].get(&key).cloned();
		let tx: Tx = vec![(0, op.clone())];
		let r = c.sut.commit(&tx, &mut c.vals);
		if let Err(e) = &r {
			c.fail(t, format!("commit rejected: {:?}", e));
			break
		}
		c.oracle.apply(&cfg, &tx, &mut c.vals);
		ctr.inc(match &op {
			Op::Set(..) => "op.set",
			Op::Del(..) => "op.del",
			Op::Ref(..) => "op.ref",
		});
		if lenkind != "del" {
			ctr.inc(&format!("len_kind.{}", lenkind));
			if lenkind.contains("boundary") {
				boundary_hits += 1;
			}
		}
		// reads at the pipeline stages
		if rng.chance(1, 2) {
			c.check_key(t, ctr, &key, "queued");
			if rng.chance(1, 4) {
				c.check_iter(t, ctr, "queued");
			}
		}
		let mut guard = 0;
		while c.sut.queued > 0 && guard < 8 {
			let r = c.sut.process();
			if r.is_err() {
				c.fail(t, format!("process failed: {}", res(&r)));
			}
			guard += 1;
		}
		if rng.chance(1, 2) {
			c.check_key(t, ctr, &key, "logged");
			if rng.chance(1, 4) {
				c.check_iter(t, ctr, "logged");
			}
		}
		let r = c.sut.flush();
		if r.is_err() {
			c.fail(t, format!("flush failed: {}", res(&r)));
		}
		if rng.chance(1, 2) {
			c.check_key(t, ctr, &key, "flushed");
		}
		let r = c.sut.enact_all();
		if r.is_err() {
			c.fail(t, format!("enact failed: {}", res(&r)));
		}
		c.check_key(t, ctr, &key, "enacted");
		if rng.chance(1, 3) {
			c.check_iter(t, ctr, "enacted");
		}
		if !c.ok {
			break
		}
		// --- model correspondence on the value tables (hash columns)
		if model {
			let after = match c.cx.states(&c.sut) {
				Ok(s) => s,
				Err(e) => {
					c.fail(t, e);
					break
				},
			};
			let changed: Vec<u8> = {
				let mut ts: std::collections::BTreeSet<u8> = before.keys().copied().collect();
				ts.extend(after.keys().copied());
				ts.into_iter().filter(|x| c.cx.state(&before, *x) != c.cx.state(&after, *x)).collect()
			};
			let tail = c.tail(&key);
			let hdr_state = |cx: &Ctx, tier: u8| {
				let (_, f, l, n) = cx.state(&after, tier);
				format!("{} {} {}", f, l, n)
			};
			match (&op, was_present.is_some()) {
				(Op::Set(_, tok), present) if !(rc && present) => {
					let v = c.vals.bytes(tok);
					let (stored, kept, clen, thr) = stored_form(&cfg, &v);
					ctr.inc(if kept {
						"compress.kept"
					} else if v.len() <= thr as usize {
						"compress.below_threshold"
					} else if compression == CompressionType::NoCompression {
						"compress.none"
					} else {
						"compress.not_smaller"
					});
					let old = c.mirror.get(&key).map(|m| (m.tier, m.addr));
					// locate the value: a changed tier other than the old one, at the slot `next_free` hands out
					let mut found: Option<(u8, u64)> = None;
					for tier in &changed {
						if Some(*tier) == old.map(|o| o.0) {
							continue
						}
						let (_, f, l, _) = c.cx.state(&before, *tier);
						let cand = if l != 0 { l } else { f };
						if let Ok(o) = observe_chain(&c.sut, &c.cx, *tier, cand) {
							if hex(&o.tail) == tail || !c.cx.keyed {
								found = Some((*tier, cand));
							}
						}
					}
					let (tier, addr) = match (found, old) {
						(Some(x), _) => x,
						(None, Some(o)) => o,
						(None, None) => {
							c.fail(t, format!("inserted value not found in any value table: key={} changed tiers {:?}", hex(&key), changed));
							break
						},
					};
					let obs = match observe_chain(&c.sut, &c.cx, tier, addr) {
						Ok(o) => o,
						Err(e) => {
							c.fail(t, format!("raw chain of key {} unreadable: {}", hex(&key), e));
							break
						},
					};
					// independent oracle on the raw storage
					if obs.payload != stored {
						c.fail(t, format!("stored bytes differ from the value written: key={} tier={} addr={} stored_len={} raw_len={}", hex(&key), tier, addr, stored.len(), obs.payload.len()));
					}
					if c.cx.keyed && hex(&obs.tail) != tail {
						c.fail(t, format!("key tail in slot differs: key={} tier={} addr={}", hex(&key), tier, addr));
					}
					if obs.flag != kept {
						c.fail(t, format!("compressed flag {} but compression kept={} (len {} clen {} threshold {})", obs.flag, kept, v.len(), clen, thr));
					}
					ctr.inc(&format!("tier_hit.{:03}", tier));
					ctr.inc(&format!("parts.{}", if obs.nslots == 1 { "1".to_string() } else if obs.nslots <= 9 { "2-9".to_string() } else if obs.nslots <= 99 { "10-99".to_string() } else { "100+".to_string() }));
					let b = |x: bool| if x { 1 } else { 0 };
					t.op(&format!("c06 tier {} {} {} {} {}", thr, clen, v.len(), b(c.cx.keyed), b(rc)), &format!("{} {}", tier, b(obs.flag)));
					let es = c.cx.entry_size(tier);
					let mp = tier as usize >= sizes.len();
					t.op(&format!("c06 plan {} {} {} {} {}", es, b(mp), b(rc), b(c.cx.keyed), stored.len()), &format!("{} {}", obs.nslots, rle(&obs.part_sizes)));
					let varg = value_arg(tok, &stored, kept);
					match old {
						Some((t0, a0)) if t0 == tier => {
							ctr.inc("replace.in_place");
							if mp {
								let old_parts = slots_needed(&c.cx, tier, c.mirror[&key].stored_len) as usize;
								ctr.inc(if obs.nslots > old_parts {
									"replace.chain_extended"
								} else if obs.nslots < old_parts {
									"replace.chain_trimmed"
								} else {
									"replace.chain_same_length"
								});
							}
							t.op(&format!("c06 t rep {} {} {} {} {}", tier, a0, tail, varg, b(kept)), &format!("{} {} {}", addr, hdr_state(&c.cx, tier), obs.digest));
						},
						Some((t0, a0)) => {
							ctr.inc("replace.tier_move");
							if (t0 as usize >= sizes.len()) != mp {
								ctr.inc("replace.single_multi_switch");
							}
							t.op(&format!("c06 t del {} {}", t0, a0), &hdr_state(&c.cx, t0));
							t.op(&format!("c06 t ins {} {} {} {}", tier, tail, varg, b(kept)), &format!("{} {} {}", addr, hdr_state(&c.cx, tier), obs.digest));
						},
						None => {
							ctr.inc("insert.new");
							t.op(&format!("c06 t ins {} {} {} {}", tier, tail, varg, b(kept)), &format!("{} {} {}", addr, hdr_state(&c.cx, tier), obs.digest));
						},
					}
					t.op(&format!("c06 t get {} {} {}", tier, addr, tail), &format!("some {} {} {} {}", obs.payload.len(), b(obs.flag), obs.rc, fnv(&obs.payload, FNV_INIT)));
					c.mirror.insert(key.clone(), Mirror { tier, addr, stored_len: stored.len() });
				},
				(Op::Set(..), _) => {
					// rc column, key present: reference count + 1
					let m = &c.mirror[&key];
					let (tier, addr) = (m.tier, m.addr);
					ctr.inc("rc.inc");
					t.op(&format!("c06 t ref {} {} +1", tier, addr), &format!("1 {}", hdr_state(&c.cx, tier)));
					if let Ok(obs) = observe_chain(&c.sut, &c.cx, tier, addr) {
						t.op(&format!("c06 t get {} {} {}", tier, addr, tail), &format!("some {} {} {} {}", obs.payload.len(), if obs.flag { 1 } else { 0 }, obs.rc, fnv(&obs.payload, FNV_INIT)));
						let expn = c.oracle.cols[0].get(&key).map(|x| x.1).unwrap_or(0);
						if obs.rc as u64 != expn {
							c.fail(t, format!("reference counter {} in slot, expected {}", obs.rc, expn));
						}
					}
				},
				(Op::Del(_), true) => {
					let m = &c.mirror[&key];
					let (tier, addr) = (m.tier, m.addr);
					if rc {
						let kept = !is_tombstone(&c.sut, &c.cx, tier, addr);
						ctr.inc(if kept { "rc.dec_kept" } else { "rc.dec_removed" });
						t.op(&format!("c06 t ref {} {} -1", tier, addr), &format!("{} {}", if kept { 1 } else { 0 }, hdr_state(&c.cx, tier)));
						if kept != c.oracle.cols[0].contains_key(&key) {
							c.fail(t, format!("dereference: slot kept={} but oracle presence={}", kept, !kept));
						}
						if !kept {
							c.mirror.remove(&key);
						}
					} else {
						ctr.inc("remove");
						t.op(&format!("c06 t del {} {}", tier, addr), &hdr_state(&c.cx, tier));
						c.mirror.remove(&key);
					}
				},
				_ => {
					if !changed.is_empty() {
						c.fail(t, format!("value tables {:?} changed by an operation on an absent key", changed));
					}
				},
			}
			c.check_occupancy(t, &after);
			c.t2_slots(t, ctr, &after, &changed);
		}
		if !c.ok {
			break
		}
		if step % 9 == 8 {
			let r = c.sut.reopen();
			ctr.inc("op.reopen");
			if r.is_err() {
				c.fail(t, format!("reopen failed: {:?}", r.err()));
				break
			}
			for k in keys.clone() {
				c.check_key(t, ctr, &k, "reopened");
			}
			c.check_iter(t, ctr, "reopened");
			c.iter_tie(t, ctr, "reopened");
			if let Ok(st) = c.cx.states(&c.sut) {
				let all: Vec<u8> = st.keys().copied().collect();
				c.t2_slots(t, ctr, &st, &all);
			}
		}
	}
	// --- final reads and storage release cycles
	if c.ok {
		for k in keys.clone() {
			c.check_key(t, ctr, &k, "enacted");
		}
		c.check_iter(t, ctr, "enacted");
		c.iter_tie(t, ctr, "enacted");
	}
	if c.ok {
		release_cycles(&mut c, t, ctr, &keys);
	}
	let ok = c.ok;
	let nontrivial = boundary_hits > 0 && c.stages.len() >= 2;
	if nontrivial {
		ctr.inc("cases.nontrivial");
	}
	c.sut.close();
	let _ = std::fs::remove_dir_all(&dir);
	t.end_case(nontrivial);
	ok
}

fn file_sizes(dir: &Path) -> BTreeMap<String, u64> {
	let mut m = BTreeMap::new();
	if let Ok(rd) = std::fs::read_dir(dir) {
		for e in rd.flatten() {
			let n = e.file_name().to_string_lossy().to_string();
			if n.starts_with("table_") {
				m.insert(n, e.metadata().map(|x| x.len()).unwrap_or(0));
			}
		}
	}
	m
}

/// remove everything, re-insert the same values, several times: neither `filled` nor the table
/// files may grow (the freed slots are reused before the tables are extended).
fn release_cycles(c: &mut Case, t: &mut Trace, ctr: &mut Counters, _keys: &[Vec<u8>]) {
	let live: Vec<(Vec<u8>, Vec<u8>, u64)> = c.oracle.cols[0].iter().map(|(k, v)| (k.clone(), v.0.clone(), v.1)).collect();
	if live.is_empty() {
		return
	}
	let rc = c.cfg.cols[0].kind == Kind::Rc;
	let states0 = match c.cx.states(&c.sut) {
		Ok(s) => s,
		Err(e) => {
			c.fail(t, e);
			return
		},
	};
	let files0 = file_sizes(&c.sut.dir);
	let mut prev: Option<(BTreeMap<u8, TState>, BTreeMap<String, u64>)> = None;
	for cycle in 0..3 {
		// remove everything (rc: as many dereferences as references)
		let mut dels: Vec<(u8, parity_db::Operation<Vec<u8>, Vec<u8>>)> = vec![];
		for (k, _, n) in &live {
			for _ in 0..(if rc { *n } else { 1 }) {
				dels.push((0, parity_db::Operation::Dereference(k.clone())));
			}
		}
		if let Err(e) = c.sut.db().commit_changes(dels) {
			c.fail(t, format!("cycle remove commit failed: {:?}", e));
			return
		}
		c.sut.queued += 1;
		if !c.drain(t) {
			return
		}
		for (k, _, _) in &live {
			match c.sut.get(0, k) {
				Ok(None) => {},
				other => {
					c.fail(t, format!("removed key {} still readable: {:?}", hex(k), other.map(|v| v.map(|x| x.len()))));
					return
				},
			}
		}
		if !c.btree {
			// every slot is free now
			match c.cx.states(&c.sut) {
				Ok(st) =>
					for (tier, (_, filled, _, free)) in &st {
						if filled - 1 != *free {
							c.fail(t, format!("after removing every value tier {} has filled {} but only {} free slots", tier, filled, free));
						}
					},
				Err(e) => c.fail(t, e),
			}
		}
		// re-insert
		let mut sets: Vec<(u8, parity_db::Operation<Vec<u8>, Vec<u8>>)> = vec![];
		for (k, v, n) in &live {
			for _ in 0..(if rc { *n } else { 1 }) {
				sets.push((0, parity_db::Operation::Set(k.clone(), v.clone())));
			}
		}
		if let Err(e) = c.sut.db().commit_changes(sets) {
			c.fail(t, format!("cycle insert commit failed: {:?}", e));
			return
		}
		c.sut.queued += 1;
		if !c.drain(t) {
			return
		}
		for (k, v, _) in &live {
			match c.sut.get(0, k) {
				Ok(Some(g)) if g == *v => {},
				other => {
					c.fail(t, format!("re-inserted key {} not bit-exact: {:?}", hex(k), other.map(|v| v.map(|x| x.len()))));
					return
				},
			}
		}
		let st = match c.cx.states(&c.sut) {
			Ok(s) => s,
			Err(e) => {
				c.fail(t, e);
				return
			},
		};
		let files = file_sizes(&c.sut.dir);
		ctr.inc("release.cycles");
		// hash columns: strict, against the state before the cycles; btree: cycle to cycle
		let (base_st, base_files) = if c.btree {
			match &prev {
				Some(p) if cycle >= 2 => (p.0.clone(), p.1.clone()),
				_ => {
					prev = Some((st, files));
					continue
				},
			}
		} else {
			(states0.clone(), files0.clone())
		};
		for (tier, (_, filled, _, _)) in &st {
			let (_, f0, _, _) = c.cx.state(&base_st, *tier);
			if *filled > f0 {
				c.fail(t, format!("steady remove/re-insert workload grew tier {}: filled {} -> {} (cycle {})", tier, f0, filled, cycle));
			}
		}
		for (n, len) in &files {
			let l0 = *base_files.get(n).unwrap_or(&0);
			if *len > l0 {
				c.fail(t, format!("steady remove/re-insert workload grew file {}: {} -> {} bytes (cycle {})", n, l0, len, cycle));
			}
		}
		prev = Some((st, files));
	}
	// the mirror is stale after the cycles (slots were re-assigned); the case ends here
	c.mirror.clear();
}
