//! C19: both index page searches on adversarial synthetic pages (hook `verif::find_entries`).
use crate::util::*;

fn address_bits(ib: u32) -> u32 {
	ib + 6 + 8
}

/// Independent statement of the property (not derived from the Lean model).
fn oracle(ib: u32, kp: u64, p: usize, page: &[u64; 64], base: Option<usize>, fast: Option<usize>) -> Option<String> {
	let shift = std::cmp::max(32, address_bits(ib));
	let pk = (kp << ib) >> shift;
	let cmp_fast = |e: u64| ((e >> shift) & 0xffff_ffff) == pk && e != 0;
	let exact = |e: u64| (e >> address_bits(ib)) == ((kp << ib) >> address_bits(ib)) && e != 0;
	let first = |f: &dyn Fn(u64) -> bool| (p..64).find(|i| f(page[*i]));
	let exp_base = first(&exact);
	if base != exp_base {
		return Some(format!("scalar search returned {:?}, first exact match is {:?}", base, exp_base))
	}
	if let Some(i) = fast {
		if i < p {
			return Some(format!("fast search returned slot {} before start {}", i, p))
		}
		if i >= 64 || page[i] == 0 {
			return Some(format!("fast search returned empty/out-of-range slot {}", i))
		}
	}
	if pk != 0 {
		let exp_fast = first(&cmp_fast);
		if fast != exp_fast {
			return Some(format!("fast search returned {:?}, first slot agreeing on the compared bits is {:?}", fast, exp_fast))
		}
	} else if fast != exp_base {
		return Some(format!("zero pattern: fast {:?} != scalar {:?}", fast, exp_base))
	}
	if base.is_some() && fast.is_none() {
		return Some("fast search reports absent although the scalar search finds a match".into())
	}
	if let (Some(b), Some(f)) = (base, fast) {
		if f > b {
			return Some(format!("fast search {} skipped the exact match at {}", f, b))
		}
	}
	if ib >= 18 && base != fast {
		return Some(format!("index bits {}: fast {:?} != scalar {:?}", ib, fast, base))
	}
	None
}

pub fn run(seeds: &[u64], _thorough: bool, _root: &std::path::Path, t: &mut Trace, ctr: &mut Counters, prop: &str) -> u64 {
	let mut fails = 0;
	for cs in seeds.iter().copied() {
		let mut rng = Rng::new(cs);
		let ib = rng.range(16, 49) as u32;
		let ab = address_bits(ib);
		// key prefix: sometimes zero partial key, sometimes only low (dropped) bits set
		let kp: u64 = match rng.below(8) {
			0 => rng.next() & !(((1u64 << (64 - ib - 0)) - 1) >> 0) , // only the page bits: partial key zero
			1 => (rng.next() << (64 - ib)) | (rng.below(4) << (ab - ib).min(63)),
			_ => rng.next(),
		};
		let want = (kp << ib) >> ab; // exact partial key
		let mut page = [0u64; 64];
		let style = rng.below(6);
		for i in 0..64 {
			let addr = rng.next() & ((1u64 << ab) - 1);
			let r = rng.below(100);
			page[i] = match style {
				0 => 0, // empty page
				1 => if r < 6 { (want << ab) | addr | 1 } else if r < 50 { 0 } else { rng.next() },
				2 => {
					// near misses in the bits the fast path drops (ib < 18) or the lowest partial key bit
					if r < 10 { (want << ab) | addr | 1 } else if r < 45 { ((want ^ (1 + rng.below(3))) << ab) | addr | 1 } else if r < 70 { 0 } else { rng.next() }
				},
				3 => if r < 50 { addr } else { 0 }, // zero partial keys, non-empty entries
				4 => if r < 3 { (want << ab) | addr | 1 } else { rng.next() | 1 },
				_ => if r < 30 { (want << ab) | addr | 1 } else { 0 }, // duplicates on a sparse page
			};
		}
		let p = match rng.below(10) {
			0 => 64,
			1 => 63,
			_ => rng.below(64),
		} as usize;
		let mut bytes = [0u8; 512];
		for i in 0..64 {
			bytes[i * 8..i * 8 + 8].copy_from_slice(&page[i].to_le_bytes());
		}
		let ((be, bp), (fe, fp)) = parity_db::verif::find_entries(ib as u8, kp, p, &bytes);
		let base = if be == 0 { None } else { Some(bp) };
		let fast = if fe == 0 { None } else { Some(fp) };
		let show = |x: Option<usize>| x.map(|v| v.to_string()).unwrap_or_else(|| "none".into());
		t.begin_case(&format!("seed={} ib={} p={} style={}", cs, ib, p, style));
		let mut line = format!("c19 {} {} {}", ib, kp, p);
		for e in page.iter() {
			line.push_str(&format!(" {}", e));
		}
		t.op(&line, &format!("{} {}", show(base), show(fast)));
		// returned entries must be the page contents at the returned positions
		if let Some(i) = base {
			if i >= 64 || page[i] != be {
				t.oracle_fail(prop, "scalar search returned an entry that is not the slot content");
				fails += 1;
			}
		}
		if let Some(i) = fast {
			if i >= 64 || page[i] != fe {
				t.oracle_fail(prop, "fast search returned an entry that is not the slot content");
				fails += 1;
			}
		}
		if let Some(msg) = oracle(ib, kp, p, &page, base, fast) {
			t.oracle_fail(prop, &msg);
			fails += 1;
		}
		let nontrivial = base.is_some() || fast.is_some() || style >= 2;
		ctr.inc("cases");
		ctr.inc(&format!("style.{}", style));
		ctr.inc(if base.is_some() { "base.found" } else { "base.absent" });
		ctr.inc(if fast.is_some() { "fast.found" } else { "fast.absent" });
		if base != fast {
			ctr.inc("fast_differs_from_base");
		}
		if ib < 18 {
			ctr.inc("ib_below_18");
		}
		t.end_case(nontrivial);
	}
	fails
}
