//! C02 (extension): crash tests on MIXED databases.
//!
//! 2..4 columns drawn from {plain hash, rc hash, btree, multitree append_only, multitree
//! rc + direct access, multitree plain + direct access}; multi-column transactions (tree
//! operations and key-value writes in ONE transaction); histories of commits interleaved with
//! the stage steps of the stepping API (process / flush / enact one file / enact all / clean /
//! reindex) and CRASHES
//!   (a) at a stepping-API boundary, the unsynced log tail cut at a seeded length: the record
//!       end offsets are tracked per process call (as in p1.rs), so the recovered prefix is
//!       known EXACTLY: n_enacted + flushed + complete unsynced transaction records;
//!   (b) INSIDE a step: the crate's fault injector stops the step at its i-th file operation,
//!       the directory image is copied at that instant (before the handle is dropped: bytes in
//!       the log's BufWriter are lost as in a real crash), the handle is abandoned through
//!       `verif_store_err`; the recovered prefix is constrained to [lo, hi] (hi = lo + 1 only
//!       when the interrupted step was publishing a record) and identified with the oracle;
//! then crashes DURING recovery (fault injector inside `Db::open` of the image, 0..2 times),
//! a clean open, FULL verification against the oracle state of the prefix (key-value reads,
//! value iteration with counts on hash columns, btree forward and backward iteration, every
//! tree through get_tree().read() + TreeReader and node by node through the direct API, entry
//! counts) and the history continues on the recovered handle (the forest oracle continues from
//! the snapshot of the prefix: addresses of surviving nodes stay valid).
//!
//! Finding F19 (emitted as `!KNOWN C02 F19 CLAIMED-SLOTS-LEAKED ...`): node slots are claimed when a
//! commit returns, and every published record carries the table headers as they are at that
//! moment; if the claiming transaction is lost by the crash but a record published after the
//! claim survives, the slots stay counted (`get_num_column_value_entries`) and are never handed
//! out again.  The harness predicts the leak EXACTLY (transactions committed before the last
//! surviving record was published) and keeps the entry-count check strict on top of it; a
//! deterministic minimal history runs for 1 seed in 16 (`scenario_claim_leak`).
//!
//! Two judges.  (1) The independent oracle (p1::Oracle for key-value columns, c10::Forest for
//! trees, one snapshot per accepted transaction).  (2) The Lean crash model: every action is
//! emitted as a `c02x ...` op line with the observed answer and replayed by the compiled driver
//! (lean/Pdb/Model/C02xDriver.lean: P1 pipeline state for the key-value columns, one
//! `MultiTreeCrash.CState` per tree column, driven by `cstep` / `crashRecover`):
//!   init <kinds> | commit <ops> (trees in the c10 encoding: new nodes in pre-order, existing
//!   nodes by path) | process | flush | enactfile | enactall | clean | reindex | reopen | stages
//!   (the harness mirror of the stage positions) | crash <m> kept=<complete unsynced records in
//!   the image> [inprocess] (the prefix the implementation recovered to; the model answers
//!   whether that prefix is allowed and recovers to it) | get / size <col> <key> | tree <col>
//!   <key> (whole tree, structurally) | count <col> <slots known to be leaked, F19>.
//! After every recovery and clean reopen the complete observable state (every key, every tree,
//! every entry count) is emitted as op lines, so the model checks the recovered state on its
//! own.  What the model cannot predict stays a comment: the fault positions, the errors of
//! faulted opens, reads of ref-counted hash keys while commits are queued, the entry count of a
//! column that leaked a multipart slot.
use crate::c10::{to_real, Forest, GNode, GRef};
use crate::p1::{self, Kind, Op};
use crate::util::*;
use parity_db::{
	set_number_of_allowed_io_operations as arm, ColumnOptions, CompressionType, Db, Operation, Options,
};
use std::collections::{BTreeMap, VecDeque};
use std::path::{Path, PathBuf};

fn disarm() {
	arm(usize::MAX);
}

#[derive(Clone, Copy, PartialEq, Eq, Debug)]
enum CK {
	Hash,
	RcHash,
	Btree,
	MtAppend,
	MtRc,
	MtPlain,
}

const ALL_KINDS: [CK; 6] = [CK::Hash, CK::RcHash, CK::Btree, CK::MtAppend, CK::MtRc, CK::MtPlain];

impl CK {
	fn name(self) -> &'static str {
		match self {
			CK::Hash => "hash",
			CK::RcHash => "rchash",
			CK::Btree => "btree",
			CK::MtAppend => "mt_append",
			CK::MtRc => "mt_rc",
			CK::MtPlain => "mt_plain",
		}
	}
	fn is_tree(self) -> bool {
		matches!(self, CK::MtAppend | CK::MtRc | CK::MtPlain)
	}
	/// nodes are reference counted (everything but append_only)
	fn counting(self) -> bool {
		matches!(self, CK::MtRc | CK::MtPlain)
	}
	fn kv_kind(self) -> Kind {
		match self {
			CK::RcHash => Kind::Rc,
			_ => Kind::Plain,
		}
	}
}

#[derive(Clone, Debug)]
struct Cfg {
	cols: Vec<CK>,
	comp: Vec<CompressionType>,
	salt: [u8; 32],
}

impl Cfg {
	fn options(&self, path: &Path) -> Options {
		let mut o = Options::with_columns(path, self.cols.len() as u8);
		for (i, c) in self.cols.iter().enumerate() {
			o.columns[i] = ColumnOptions {
				preimage: matches!(c, CK::RcHash | CK::MtRc),
				uniform: false,
				ref_counted: matches!(c, CK::RcHash | CK::MtRc),
				compression: self.comp[i],
				btree_index: *c == CK::Btree,
				multitree: c.is_tree(),
				append_only: *c == CK::MtAppend,
				allow_direct_node_access: c.counting(),
			};
		}
		o.salt = Some(self.salt);
		o.with_background_thread = false;
		o.always_flush = true;
		o.stats = false;
		o.sync_wal = true;
		o.sync_data = true;
		o
	}
	/// the view of the key-value oracle of p1.rs (tree columns are never touched through it)
	fn shadow(&self) -> p1::Cfg {
		p1::Cfg {
			cols: self
				.cols
				.iter()
				.enumerate()
				.map(|(i, c)| p1::ColCfg { kind: c.kv_kind(), uniform: false, btree: *c == CK::Btree, compression: self.comp[i] })
				.collect(),
			salt: self.salt,
			threshold: None,
			sync: true,
		}
	}
	fn describe(&self) -> String {
		self.cols.iter().map(|c| c.name()).collect::<Vec<_>>().join(",")
	}
}

/// One operation of a transaction.
#[derive(Clone, Debug)]
enum TOp {
	Kv(Op),
	Insert(Vec<u8>, GNode),
	RefTree(Vec<u8>),
	DerefTree(Vec<u8>),
}

type Tx = Vec<(u8, TOp)>;

fn clone_forest(f: &Forest) -> Forest {
	Forest { nodes: f.nodes.clone(), roots: f.roots.clone(), next_id: f.next_id }
}

/// The oracle state: key-value maps with counts (p1) + one logical forest per tree column.
struct World {
	kv: p1::Oracle,
	forests: Vec<Option<Forest>>,
}

impl World {
	fn new(cfg: &Cfg) -> World {
		World {
			kv: p1::Oracle::new(cfg.cols.len()),
			forests: cfg.cols.iter().map(|c| if c.is_tree() { Some(Forest::default()) } else { None }).collect(),
		}
	}
	fn snapshot(&self) -> World {
		World { kv: self.kv.clone(), forests: self.forests.iter().map(|f| f.as_ref().map(clone_forest)).collect() }
	}
}

// ------------------------------------------------------------------------------------------
// The real database + the stage mirror (same discipline and record-boundary tracking as
// p1::Sut; the step bodies are split so that a step run under the fault injector can be
// mirrored when the fault index was not reached).

struct Sut {
	dir: PathBuf,
	db: Option<Db>,
	queued: usize,
	logged: usize,
	flushed: usize,
	unread_files: usize,
	dirty: usize,
	synced_len: BTreeMap<String, u64>,
	log_sizes: BTreeMap<String, u64>,
	/// records appended since the last flush: (log file, end offset, is a transaction record)
	appended: Vec<(String, u64, bool)>,
	/// transaction records per flushed, not yet fully read log file (oldest first)
	file_records: VecDeque<usize>,
	n_enacted: usize,
}

impl Sut {
	fn create(cfg: Cfg, dir: PathBuf) -> Sut {
		let db = Db::open_or_create(&cfg.options(&dir)).expect("create");
		Sut {
			dir,
			db: Some(db),
			queued: 0,
			logged: 0,
			flushed: 0,
			unread_files: 0,
			dirty: 0,
			synced_len: Default::default(),
			log_sizes: Default::default(),
			appended: vec![],
			file_records: Default::default(),
			n_enacted: 0,
		}
	}
	fn db(&self) -> &Db {
		self.db.as_ref().unwrap()
	}
	fn log_files(&self) -> Vec<(String, u64)> {
		let mut v = vec![];
		for e in std::fs::read_dir(&self.dir).unwrap() {
			let e = e.unwrap();
			let n = e.file_name().to_string_lossy().to_string();
			if n.starts_with("log") {
				v.push((n, e.metadata().unwrap().len()));
			}
		}
		v
	}
	fn refresh_sizes(&mut self) {
		self.log_sizes.clear();
		for (n, l) in self.log_files() {
			self.log_sizes.insert(n, l);
		}
	}
	fn note_appended(&mut self, is_tx: bool) {
		for (n, l) in self.log_files() {
			let old = self.log_sizes.get(&n).copied().unwrap_or(0);
			if l > old {
				self.appended.push((n.clone(), l, is_tx));
			}
			self.log_sizes.insert(n, l);
		}
	}
	fn after_process(&mut self) {
		if self.queued > 0 {
			self.queued -= 1;
			self.logged += 1;
		}
		self.note_appended(true);
	}
	fn process(&mut self) -> Result<(), parity_db::Error> {
		self.db().process_commits()?;
		self.after_process();
		Ok(())
	}
	fn after_flush(&mut self) {
		if self.logged > self.flushed {
			self.file_records.push_back(self.logged - self.flushed);
			self.flushed = self.logged;
			self.unread_files += 1;
		}
		for (n, l) in self.log_files() {
			self.synced_len.insert(n, l);
		}
		self.appended.clear();
		self.refresh_sizes();
	}
	fn flush(&mut self) -> Result<(), parity_db::Error> {
		self.db().flush_logs()?;
		self.after_flush();
		Ok(())
	}
	fn after_enact_file(&mut self) -> usize {
		let k = if self.unread_files > 0 {
			self.unread_files -= 1;
			self.dirty += 1;
			self.file_records.pop_front().unwrap_or(0)
		} else {
			0
		};
		self.n_enacted += k;
		self.logged -= k;
		self.flushed -= k;
		self.refresh_sizes();
		k
	}
	/// one call of the stepping API = one log FILE
	fn enact_file(&mut self) -> Result<usize, parity_db::Error> {
		if self.dirty >= 3 {
			self.clean()?;
		}
		self.db().enact_logs()?;
		Ok(self.after_enact_file())
	}
	fn enact_all(&mut self) -> Result<(), parity_db::Error> {
		let mut guard = 0;
		while self.unread_files > 0 || guard == 0 {
			self.enact_file()?;
			guard += 1;
			if guard > 64 {
				break
			}
		}
		Ok(())
	}
	fn after_clean(&mut self) {
		self.dirty = 0;
		self.refresh_sizes();
	}
	fn clean(&mut self) -> Result<(), parity_db::Error> {
		self.db().clean_logs()?;
		self.after_clean();
		Ok(())
	}
	fn reindex(&mut self) -> Result<(), parity_db::Error> {
		let r = self.db().process_reindex();
		self.note_appended(false);
		r
	}
	fn reset_mirror(&mut self, n_enacted: usize) {
		self.queued = 0;
		self.logged = 0;
		self.flushed = 0;
		self.unread_files = 0;
		self.dirty = 0;
		self.synced_len.clear();
		self.appended.clear();
		self.file_records.clear();
		self.n_enacted = n_enacted;
		if self.db.is_some() {
			self.refresh_sizes();
		} else {
			self.log_sizes.clear();
		}
	}
	/// clean close: drop drains the pipeline
	fn close(&mut self, total: usize) {
		if self.dirty >= 3 {
			let _ = self.clean();
		}
		self.db = None;
		self.reset_mirror(total);
	}
	/// abandon the handle without draining (its directory is discarded or already imaged):
	/// a stored background error makes drop skip the enactment, exactly the path a worker
	/// error takes.
	fn abandon(&mut self) -> bool {
		if let Some(db) = self.db.take() {
			db.verif_store_err(Err(parity_db::Error::Io(std::io::Error::new(std::io::ErrorKind::Other, "abandoned by harness"))));
			let r = std::panic::catch_unwind(std::panic::AssertUnwindSafe(move || drop(db)));
			return r.is_ok()
		}
		true
	}
}

// ------------------------------------------------------------------------------------------
// Reading trees (column-parametric; TreeReader under a read lock that is held only while the
// closure runs, plus the direct API: both must agree).

type NodeVal = (Vec<u8>, Vec<u64>);
type Tr<'a> = &'a (dyn parity_db::TreeReader + Send + Sync);

struct Reader<'a> {
	db: &'a Db,
	col: u8,
	tr: Option<Tr<'a>>,
}

fn with_reader<R>(db: &Db, col: u8, key: &[u8], f: impl FnOnce(&Reader) -> R) -> Result<R, String> {
	match db.get_tree(col, key) {
		Err(e) => Err(format!("get_tree: {:?}", e)),
		Ok(None) => Ok(f(&Reader { db, col, tr: None })),
		Ok(Some(tree)) => {
			let g = tree.read();
			let r = f(&Reader { db, col, tr: Some(&**g) });
			drop(g);
			Ok(r)
		},
	}
}

impl<'a> Reader<'a> {
	fn root(&self, key: &[u8]) -> Result<Option<NodeVal>, String> {
		let via_reader = match self.tr {
			None => None,
			Some(g) => g.get_root().map_err(|e| format!("TreeReader::get_root: {:?}", e))?,
		};
		match self.db.get_root(self.col, key) {
			Ok(r) =>
				if r != via_reader {
					return Err(format!("get_root differs from TreeReader::get_root for key {}", hex(key)))
				},
			Err(e) => return Err(format!("get_root: {:?}", e)),
		}
		Ok(via_reader)
	}
	fn node(&self, addr: u64) -> Result<Option<NodeVal>, String> {
		let g = match self.tr {
			None => return Err("tree vanished while reading".into()),
			Some(g) => g,
		};
		let via_reader = g.get_node(addr).map_err(|e| format!("TreeReader::get_node({}): {:?}", addr, e))?;
		let c = g.get_node_children(addr).map_err(|e| format!("TreeReader::get_node_children({}): {:?}", addr, e))?;
		if via_reader.as_ref().map(|x| &x.1) != c.as_ref() {
			return Err(format!("get_node_children differs from get_node at {}", addr))
		}
		match self.db.get_node(self.col, addr) {
			Ok(r) =>
				if r != via_reader {
					return Err(format!("direct get_node differs from TreeReader::get_node at {}", addr))
				},
			Err(e) => return Err(format!("get_node({}): {:?}", addr, e)),
		}
		Ok(via_reader)
	}
	fn render_node(&self, addr: u64, vals: &Values, out: &mut String, budget: &mut usize) -> Result<(), String> {
		if *budget == 0 {
			out.push('!');
			return Ok(())
		}
		*budget -= 1;
		match self.node(addr)? {
			None => out.push('?'),
			Some((d, cs)) => {
				out.push('(');
				out.push_str(&vals.render(&d));
				for c in cs {
					out.push(' ');
					self.render_node(c, vals, out, budget)?;
				}
				out.push(')');
			},
		}
		Ok(())
	}
	fn render(&self, key: &[u8], vals: &Values) -> Result<String, String> {
		match self.root(key)? {
			None => Ok("none".into()),
			Some((d, cs)) => {
				let mut s = String::from("some (");
				s.push_str(&vals.render(&d));
				let mut budget = 20_000;
				for c in cs {
					s.push(' ');
					self.render_node(c, vals, &mut s, &mut budget)?;
				}
				s.push(')');
				Ok(s)
			},
		}
	}
}

/// After an accepted insertion: walk the generated and the stored tree in parallel, learn the
/// addresses of the new nodes, check data / child order / the addresses of `Existing` children.
fn learn_addresses(rd: &Reader, g: &GNode, got: &NodeVal, ids: &[usize], forest: &mut Forest, vals: &mut Values) -> Result<(), String> {
	if got.0 != vals.bytes(&g.data) {
		return Err(format!("node data differs: expected {} got {}", g.data, vals.render(&got.0)))
	}
	if got.1.len() != g.children.len() {
		return Err(format!("child count differs: supplied {} stored {}", g.children.len(), got.1.len()))
	}
	for (i, c) in g.children.iter().enumerate() {
		let addr = got.1[i];
		match c {
			GRef::Existing(id) =>
				if forest.nodes[id].addr != Some(addr) {
					return Err(format!("existing child {} stored as address {} but {:?} was supplied", i, addr, forest.nodes[id].addr))
				},
			GRef::New(n) => {
				let id = ids[i];
				forest.nodes.get_mut(&id).unwrap().addr = Some(addr);
				let sub = rd.node(addr)?.ok_or_else(|| format!("new node at {} not readable", addr))?;
				let sub_ids = forest.nodes[&id].children.clone();
				learn_addresses(rd, n, &sub, &sub_ids, forest, vals)?;
			},
		}
	}
	Ok(())
}

fn tok_len(tok: &str) -> usize {
	tok[1..].split('_').next().unwrap().parse().unwrap()
}

/// packed node larger than the largest single-slot entry (then the entry count is unavailable)
fn is_multipart(kind: CK, root: bool, data_tok: &str, nchildren: usize) -> bool {
	let cap = 32760 - 2 - if kind == CK::MtRc { 4 } else { 0 } - if root { 26 } else { 0 };
	tok_len(data_tok) + 8 * nchildren + 1 > cap
}

fn forest_has_multipart(kind: CK, f: &Forest) -> bool {
	f.nodes.values().any(|n| is_multipart(kind, false, &n.data, n.children.len())) ||
		f.roots.values().any(|r| is_multipart(kind, true, &r.data, r.children.len()))
}

// ------------------------------------------------------------------------------------------
// Generation

fn tree_data(rng: &mut Rng, vals: &mut Values) -> String {
	let len = match rng.below(100) {
		0..=4 => 0,
		5..=59 => rng.range(1, 40),
		60..=84 => rng.range(40, 400),
		85..=93 => rng.range(400, 4000),
		94..=96 => rng.range(4000, 9000),
		97 => rng.range(32600, 32760), // around the single-part limit
		98 => rng.range(33000, 36000), // multipart
		_ => rng.range(9000, 20000),
	};
	vals.canon(format!("v{}_{}", len, rng.below(1 << 30)))
}

fn gen_tree(rng: &mut Rng, vals: &mut Values, live: &[usize], depth_left: usize, budget: &mut i32, shared: &mut usize, new_nodes: &mut usize) -> GNode {
	let data = tree_data(rng, vals);
	let fan = if depth_left == 0 || *budget <= 0 { 0 } else { rng.below(4) as usize };
	let mut children = vec![];
	for _ in 0..fan {
		if !live.is_empty() && rng.chance(3, 10) {
			*shared += 1;
			children.push(GRef::Existing(*rng.pick(live)));
		} else {
			*budget -= 1;
			children.push(GRef::New(gen_tree(rng, vals, live, depth_left - 1, budget, shared, new_nodes)));
		}
	}
	*new_nodes += 1;
	GNode { data, children }
}

fn gtree_text(g: &GNode, forest: &Forest, out: &mut String) {
	out.push('(');
	out.push_str(&g.data);
	for c in &g.children {
		out.push(' ');
		match c {
			GRef::New(n) => gtree_text(n, forest, out),
			GRef::Existing(id) => out.push_str(&format!("@{}", forest.nodes[id].addr.map(|a| a.to_string()).unwrap_or("?".into()))),
		}
	}
	out.push(')');
}

/// keys in the history lines: short ones in full, long ones by their first bytes and length
fn kx(k: &[u8]) -> String {
	if k.len() <= 12 {
		hex(k)
	} else {
		format!("{}..{}b", hex(&k[..8]), k.len())
	}
}

fn clip(s: &str) -> String {
	if s.len() > 240 {
		format!("{}...[{} bytes]", &s[..240], s.len())
	} else {
		s.to_string()
	}
}

fn tx_line(tx: &Tx, w: &World) -> String {
	let mut s = String::from("c02x commit");
	for (c, op) in tx {
		match op {
			TOp::Kv(Op::Set(k, v)) => s.push_str(&format!(" {}:set:{}:{}", c, kx(k), v)),
			TOp::Kv(Op::Del(k)) => s.push_str(&format!(" {}:del:{}", c, kx(k))),
			TOp::Kv(Op::Ref(k)) => s.push_str(&format!(" {}:ref:{}", c, kx(k))),
			TOp::Insert(k, g) => {
				let mut t = String::new();
				gtree_text(g, w.forests[*c as usize].as_ref().unwrap(), &mut t);
				s.push_str(&format!(" {}:insert:{}:{}", c, kx(k), clip(&t).replace(' ', ",")));
			},
			TOp::RefTree(k) => s.push_str(&format!(" {}:reftree:{}", c, kx(k))),
			TOp::DerefTree(k) => s.push_str(&format!(" {}:dereftree:{}", c, kx(k))),
		}
	}
	s
}

type Paths = std::collections::HashMap<usize, (Vec<u8>, Vec<usize>)>;

/// c10 encoding of a generated tree: `n<k>:<data>` new node with k children (pre-order),
/// `@<key>/<i>/<j>..` existing node by a path from a live root
fn model_tokens(g: &GNode, paths: &Paths, out: &mut Vec<String>) {
	out.push(format!("n{}:{}", g.children.len(), g.data));
	for c in &g.children {
		match c {
			GRef::New(n) => model_tokens(n, paths, out),
			GRef::Existing(id) => {
				let (k, p) = &paths[id];
				let mut s = format!("@{}", hex(k));
				for i in p {
					s.push_str(&format!("/{}", i));
				}
				out.push(s);
			},
		}
	}
}

/// the model op line of a transaction (the forests are those BEFORE the transaction)
fn model_tx_line(tx: &Tx, w: &World) -> String {
	let mut s = String::from("c02x commit");
	let mut paths: BTreeMap<u8, Paths> = Default::default();
	for (c, op) in tx {
		match op {
			TOp::Kv(Op::Set(k, v)) => s.push_str(&format!(" {}:set:{}:{}", c, hex(k), v)),
			TOp::Kv(Op::Del(k)) => s.push_str(&format!(" {}:del:{}", c, hex(k))),
			TOp::Kv(Op::Ref(k)) => s.push_str(&format!(" {}:ref:{}", c, hex(k))),
			TOp::Insert(k, g) => {
				let p = paths.entry(*c).or_insert_with(|| w.forests[*c as usize].as_ref().unwrap().paths());
				let mut toks = vec![];
				model_tokens(g, p, &mut toks);
				s.push_str(&format!(" {}:insert:{}:{} {}", c, hex(k), toks.len(), toks.join(" ")));
			},
			TOp::RefTree(k) => s.push_str(&format!(" {}:reftree:{}", c, hex(k))),
			TOp::DerefTree(k) => s.push_str(&format!(" {}:dereftree:{}", c, hex(k))),
		}
	}
	s
}

fn enact_res(r: &Result<usize, parity_db::Error>) -> String {
	match r {
		Ok(k) => format!("ok records={}", k),
		Err(e) => format!("err:{}", err_kind(e)),
	}
}

fn res(r: &Result<(), parity_db::Error>) -> String {
	match r {
		Ok(()) => "ok".into(),
		Err(e) => format!("err:{}", err_kind(e)),
	}
}

// ------------------------------------------------------------------------------------------
// Verification of a drained handle against one oracle state (no trace side effects: it is
// also used to identify the recovered prefix).

struct Keys {
	kv: Vec<Vec<Vec<u8>>>,   // per column (empty for tree columns)
	tree: Vec<Vec<Vec<u8>>>, // per column (empty for key-value columns)
}

/// `bias[c]`: node slots of column c known to be leaked by earlier recoveries (finding F19),
/// `skip[c]`: a multipart slot was leaked, the entry count of column c is unavailable for good.
#[allow(clippy::too_many_arguments)]
fn verify_full(
	db: &Db,
	cfg: &Cfg,
	keys: &Keys,
	w: &World,
	vals: &Values,
	ctr: &mut Counters,
	count_it: bool,
	bias: &[u64],
	skip: &[bool],
) -> Result<(), String> {
	for (c, kind) in cfg.cols.iter().enumerate() {
		let col = c as u8;
		if !kind.is_tree() {
			let o = &w.kv.cols[c];
			for k in &keys.kv[c] {
				let got = db.get(col, k).map_err(|e| format!("get col={} key={}: {:?}", c, hex(k), e))?;
				let exp = o.get(k).map(|x| x.0.clone());
				if got != exp {
					return Err(format!(
						"col={} ({}) key={} expected={:?} observed={:?}",
						c,
						kind.name(),
						hex(k),
						exp.map(|v| vals.render(&v)),
						got.map(|v| vals.render(&v))
					))
				}
				let size = db.get_size(col, k).map_err(|e| format!("get_size col={}: {:?}", c, e))?;
				if size != got.as_ref().map(|v| v.len() as u32) {
					return Err(format!("col={} key={} get_size={:?} but get has {:?} bytes", c, hex(k), size, got.map(|v| v.len())))
				}
			}
			if count_it {
				ctr.add("verify.kv_reads", keys.kv[c].len() as u64);
			}
			if *kind == CK::Btree {
				// full forward and backward iteration
				let exp: Vec<(Vec<u8>, Vec<u8>)> = o.iter().map(|(k, v)| (k.clone(), v.0.clone())).collect();
				let mut it = db.iter(col).map_err(|e| format!("iter col={}: {:?}", c, e))?;
				it.seek_to_first().map_err(|e| format!("seek_to_first col={}: {:?}", c, e))?;
				let mut fwd = vec![];
				loop {
					match it.next().map_err(|e| format!("btree next col={}: {:?}", c, e))? {
						Some(kv) => fwd.push(kv),
						None => break,
					}
					if fwd.len() > exp.len() + 8 {
						break
					}
				}
				if fwd != exp {
					return Err(format!(
						"col={} btree forward iteration: expected {:?} observed {:?}",
						c,
						exp.iter().map(|(k, v)| format!("{}={}", hex(k), vals.render(v))).collect::<Vec<_>>(),
						fwd.iter().map(|(k, v)| format!("{}={}", hex(k), vals.render(v))).collect::<Vec<_>>()
					))
				}
				let mut it = db.iter(col).map_err(|e| format!("iter col={}: {:?}", c, e))?;
				it.seek_to_last().map_err(|e| format!("seek_to_last col={}: {:?}", c, e))?;
				let mut bwd = vec![];
				loop {
					match it.prev().map_err(|e| format!("btree prev col={}: {:?}", c, e))? {
						Some(kv) => bwd.push(kv),
						None => break,
					}
					if bwd.len() > exp.len() + 8 {
						break
					}
				}
				bwd.reverse();
				if bwd != exp {
					return Err(format!(
						"col={} btree backward iteration: expected {:?} observed (reversed) {:?}",
						c,
						exp.iter().map(|(k, v)| format!("{}={}", hex(k), vals.render(v))).collect::<Vec<_>>(),
						bwd.iter().map(|(k, v)| format!("{}={}", hex(k), vals.render(v))).collect::<Vec<_>>()
					))
				}
				if count_it {
					ctr.inc("verify.btree_iterations");
					ctr.add("verify.btree_items", 2 * exp.len() as u64);
				}
			} else {
				// value iteration: exactly the live values, with their counts on rc columns
				let mut seen: Vec<(Vec<u8>, u64)> = vec![];
				db.iter_column_while(col, |st| {
					seen.push((st.value, st.rc as u64));
					true
				})
				.map_err(|e| format!("iter_column_while col={}: {:?}", c, e))?;
				let mut exp: Vec<(Vec<u8>, u64)> = o.values().map(|(v, n)| (v.clone(), *n)).collect();
				if *kind != CK::RcHash {
					for s in seen.iter_mut() {
						s.1 = 1;
					}
				}
				seen.sort();
				exp.sort();
				if seen != exp {
					return Err(format!(
						"col={} ({}) value iteration: expected {:?} observed {:?}",
						c,
						kind.name(),
						exp.iter().map(|(v, n)| format!("{}*{}", vals.render(v), n)).collect::<Vec<_>>(),
						seen.iter().map(|(v, n)| format!("{}*{}", vals.render(v), n)).collect::<Vec<_>>()
					))
				}
				if count_it {
					ctr.inc("verify.value_iterations");
				}
			}
		} else {
			let f = w.forests[c].as_ref().unwrap();
			// every tree key: live trees read back exactly, dead ones are gone
			for k in &keys.tree[c] {
				let obs = with_reader(db, col, k, |rd| rd.render(k, vals)).and_then(|x| x).map_err(|e| format!("col={} tree {}: {}", c, hex(k), e))?;
				let exp = f.render(k);
				if obs != exp {
					return Err(format!("col={} ({}) tree {}: expected {} observed {}", c, kind.name(), hex(k), clip(&exp), clip(&obs)))
				}
			}
			// node by node: through the reader of a tree that reaches the node, and directly
			let paths = f.paths();
			if paths.len() != f.nodes.len() {
				return Err("oracle inconsistency: a counted node is unreachable".into())
			}
			let mut ids: Vec<usize> = f.nodes.keys().cloned().collect();
			ids.sort();
			for id in ids {
				let n = &f.nodes[&id];
				let addr = match n.addr {
					Some(a) => a,
					None => return Err(format!("oracle node {} has no address", id)),
				};
				let (rk, _) = &paths[&id];
				let got = with_reader(db, col, rk, |rd| rd.node(addr)).and_then(|x| x).map_err(|e| format!("col={} node {}: {}", c, addr, e))?;
				let exp_children: Vec<u64> = n.children.iter().map(|c| f.nodes[c].addr.unwrap_or(u64::MAX)).collect();
				match got {
					None => return Err(format!("col={} ({}) node at address {} of tree {} is missing", c, kind.name(), addr, hex(rk))),
					Some((d, cs)) =>
						if vals.render(&d) != n.data || cs != exp_children {
							return Err(format!(
								"col={} node at {}: expected {} {:?} observed {} {:?}",
								c,
								addr,
								n.data,
								exp_children,
								vals.render(&d),
								cs
							))
						},
				}
			}
			if count_it {
				ctr.add("verify.trees", keys.tree[c].len() as u64);
				ctr.add("verify.nodes", f.nodes.len() as u64);
			}
			// (value iteration is not usable on multitree columns: iter_column_while strips a
			// partial key from every entry, node entries have none - Corruption / mangled bytes
			// even on a cleanly reopened database; not a crash matter, reported separately)
			// addresses of live nodes are pairwise distinct
			{
				let mut addrs: Vec<u64> = f.nodes.values().filter_map(|n| n.addr).collect();
				addrs.sort();
				if addrs.windows(2).any(|w| w[0] == w[1]) {
					return Err(format!("col={} ({}) two live nodes share an address", c, kind.name()))
				}
			}
			// entry count = distinct live nodes + live roots (+ slots leaked by earlier crashes)
			let exp = (f.nodes.len() + f.roots.len()) as u64 + bias[c];
			if skip[c] {
				if count_it {
					ctr.inc("verify.entry_count_unavailable_leaked_multipart");
				}
				continue
			}
			match db.get_num_column_value_entries(col) {
				Ok(n) =>
					if n != exp {
						return Err(format!(
							"ENTRY-COUNT col={} ({}): {} entries but the forest of the prefix has {} live nodes + {} live roots (+ {} slots known to be leaked)",
							c,
							kind.name(),
							n,
							f.nodes.len(),
							f.roots.len(),
							bias[c]
						))
					} else if count_it {
						ctr.inc("verify.entry_counts");
					},
				Err(e) =>
					if !forest_has_multipart(*kind, f) {
						return Err(format!("col={} entry count failed ({:?}) although no multipart entry is live", c, e))
					} else if count_it {
						ctr.inc("verify.entry_count_unavailable_multipart");
					},
			}
		}
	}
	Ok(())
}

/// hidden state that reads cannot see: root counts of ref-counted multitree columns
fn hidden_equal(cfg: &Cfg, a: &World, b: &World) -> bool {
	for (c, kind) in cfg.cols.iter().enumerate() {
		if *kind == CK::MtRc {
			let (fa, fb) = (a.forests[c].as_ref().unwrap(), b.forests[c].as_ref().unwrap());
			let ca: Vec<(&Vec<u8>, u64)> = fa.roots.iter().map(|(k, r)| (k, r.count)).collect();
			let cb: Vec<(&Vec<u8>, u64)> = fb.roots.iter().map(|(k, r)| (k, r.count)).collect();
			if ca != cb {
				return false
			}
		}
	}
	true
}

// ------------------------------------------------------------------------------------------
// Model lines of observations (no oracle involved: the Lean model is the judge of these).

/// `c02x get` + `c02x size` of one key-value key; `exact` = the model predicts the read (not a
/// ref-counted key while commits are queued)
fn emit_get(db: &Db, c: usize, k: &[u8], exact: bool, vals: &Values, t: &mut Trace) {
	let obs = match db.get(c as u8, k) {
		Ok(Some(v)) => format!("some {}", vals.render(&v)),
		Ok(None) => "none".to_string(),
		Err(e) => format!("err:{}", err_kind(&e)),
	};
	let sobs = match db.get_size(c as u8, k) {
		Ok(Some(n)) => format!("some {}", n),
		Ok(None) => "none".to_string(),
		Err(e) => format!("err:{}", err_kind(&e)),
	};
	if exact {
		t.op(&format!("c02x get {} {}", c, hex(k)), &obs);
		t.op(&format!("c02x size {} {}", c, hex(k)), &sobs);
	} else {
		t.comment(&format!("rc-read col={} key={} -> {} (size {})", c, hex(k), obs, sobs));
	}
}

/// `c02x tree`: the whole tree as readable now, rendered structurally
fn emit_tree(db: &Db, c: usize, k: &[u8], vals: &Values, t: &mut Trace) {
	let obs = match with_reader(db, c as u8, k, |rd| rd.render(k, vals)).and_then(|x| x) {
		Ok(o) => o,
		Err(e) => format!("read-error {}", e),
	};
	t.op(&format!("c02x tree {} {}", c, hex(k)), &obs);
}

/// `c02x count <col> <leaked>`: `leaked` = slots known to be leaked by earlier recoveries (F19);
/// a column that leaked a multipart slot has no predictable count (comment)
fn emit_count(db: &Db, c: usize, bias: u64, skip: bool, t: &mut Trace) {
	let obs = match db.get_num_column_value_entries(c as u8) {
		Ok(n) => n.to_string(),
		Err(e) => format!("err:{}", err_kind(&e)),
	};
	if skip {
		t.comment(&format!("count col={} -> {} (a multipart slot was leaked, F19: unpredictable)", c, obs));
	} else {
		t.op(&format!("c02x count {} {}", c, bias), &obs);
	}
}

/// the complete observable state of a handle with an empty queue
fn emit_state(db: &Db, cfg: &Cfg, keys: &Keys, vals: &Values, bias: &[u64], skip: &[bool], t: &mut Trace, ctr: &mut Counters) {
	for (c, kind) in cfg.cols.iter().enumerate() {
		if kind.is_tree() {
			for k in &keys.tree[c] {
				emit_tree(db, c, k, vals, t);
			}
			emit_count(db, c, bias[c], skip[c], t);
			ctr.add("model.state.trees", keys.tree[c].len() as u64);
			ctr.inc("model.state.counts");
		} else {
			for k in &keys.kv[c] {
				emit_get(db, c, k, true, vals, t);
			}
			ctr.add("model.state.kv_reads", keys.kv[c].len() as u64);
		}
	}
}

// ------------------------------------------------------------------------------------------

struct Case<'a> {
	seed: u64,
	root: &'a Path,
	cfg: Cfg,
	shadow: p1::Cfg,
	sut: Sut,
	keys: Keys,
	world: World,
	/// oracle state after each accepted transaction (index = length of the prefix)
	states: Vec<World>,
	vals: Values,
	marker: Option<(u8, Vec<u8>)>,
	marker_seq: u64,
	t: &'a mut Trace,
	ctr: &'a mut Counters,
	prop: &'a str,
	ok: bool,
	crashes: usize,
	img_no: usize,
	lost_total: usize,
	ended_ambiguous: bool,
	/// F19 bookkeeping: number of committed transactions at the time the record of transaction
	/// j was published (the table headers logged in that record include every slot claimed by
	/// then), leaked slots per column, columns whose count is unavailable for good
	cap_at: BTreeMap<usize, usize>,
	bias: Vec<u64>,
	mp_leak: Vec<bool>,
	/// F19: addresses of the node slots predicted to be leaked, per column (the allowed
	/// orphans of the Lean forest checker `t2rc`)
	leaked: Vec<Vec<u64>>,
	findings: usize,
}

fn cut_tails(img: &Path, synced_len: &BTreeMap<String, u64>, rng: &mut Rng) -> BTreeMap<String, u64> {
	let mut kept: BTreeMap<String, u64> = Default::default();
	for e in std::fs::read_dir(img).unwrap() {
		let e = e.unwrap();
		let n = e.file_name().to_string_lossy().to_string();
		if n.starts_with("log") {
			let len = e.metadata().unwrap().len();
			let synced = *synced_len.get(&n).unwrap_or(&0);
			if len > synced {
				let keep = match rng.below(5) {
					0 => synced,
					1 => len,
					2 => len - 1,
					_ => rng.range(synced, len),
				};
				if keep < len {
					let f = std::fs::OpenOptions::new().write(true).open(e.path()).unwrap();
					f.set_len(keep).unwrap();
					kept.insert(n, keep);
				}
			}
		}
	}
	kept
}

impl<'a> Case<'a> {
	fn fail(&mut self, msg: &str) {
		self.t.oracle_fail(self.prop, msg);
		self.ok = false;
	}

	fn live_nodes(&self, c: usize) -> Vec<usize> {
		let f = self.world.forests[c].as_ref().unwrap();
		let mut v: Vec<usize> = f.nodes.iter().filter(|(_, n)| n.addr.is_some()).map(|(id, _)| *id).collect();
		v.sort();
		v
	}

	fn gen_tx(&mut self, rng: &mut Rng) -> Tx {
		let ncols = self.cfg.cols.len();
		let kv_cols: Vec<usize> = (0..ncols).filter(|c| !self.cfg.cols[*c].is_tree()).collect();
		let tree_cols: Vec<usize> = (0..ncols).filter(|c| self.cfg.cols[*c].is_tree()).collect();
		let mut tx: Tx = vec![];
		let mut real_ops = 0;
		// tree operations: at most one per tree column
		for &c in &tree_cols {
			if !rng.chance(if tree_cols.len() > 1 { 45 } else { 70 }, 100) {
				continue
			}
			let kind = self.cfg.cols[c];
			let f = self.world.forests[c].as_ref().unwrap();
			let free: Vec<Vec<u8>> = self.keys.tree[c].iter().filter(|k| !f.roots.contains_key(*k)).cloned().collect();
			let live: Vec<Vec<u8>> = f.roots.keys().cloned().collect();
			let r = rng.below(100);
			if (r < 55 || live.is_empty()) && !free.is_empty() {
				let key = rng.pick(&free).clone();
				let live_nodes = self.live_nodes(c);
				let depth = *rng.pick(&[0usize, 1, 1, 2, 2, 3]);
				let mut budget = 12;
				let (mut shared, mut new_nodes) = (0, 0);
				let g = gen_tree(rng, &mut self.vals, &live_nodes, depth, &mut budget, &mut shared, &mut new_nodes);
				self.ctr.add("tree.insert.new_nodes", new_nodes as u64);
				self.ctr.add("tree.insert.existing_refs", shared as u64);
				tx.push((c as u8, TOp::Insert(key, g)));
				real_ops += 1;
			} else if r < 85 && !live.is_empty() && kind != CK::MtAppend {
				tx.push((c as u8, TOp::DerefTree(rng.pick(&live).clone())));
				real_ops += 1;
			} else if !live.is_empty() && kind == CK::MtRc {
				tx.push((c as u8, TOp::RefTree(rng.pick(&live).clone())));
				real_ops += 1;
			} else if !live.is_empty() && kind == CK::MtAppend && rng.chance(1, 3) {
				// a no-op on append_only columns; never the only operation of a transaction
				tx.push((c as u8, TOp::RefTree(rng.pick(&live).clone())));
			}
		}
		// key-value operations
		if !kv_cols.is_empty() {
			let n = if real_ops == 0 { rng.range(1, 4) } else { rng.below(4) };
			for _ in 0..n {
				let c = *rng.pick(&kv_cols);
				let kind = self.cfg.cols[c].kv_kind();
				let pool = &self.keys.kv[c];
				// the marker key (index 0 of the marker column) is written by the marker only
				let lo = if self.marker.as_ref().map(|m| m.0 as usize) == Some(c) { 1 } else { 0 };
				let kid = rng.range(lo, pool.len() as u64 - 1);
				let k = pool[kid as usize].clone();
				let r = rng.below(100);
				let op = if r < 55 {
					Op::Set(k, self.vals.canon(p1::gen_value_token(rng, false, kid + 100 * c as u64, kind != Kind::Plain)))
				} else if r < 85 || kind != Kind::Rc {
					Op::Del(k)
				} else {
					Op::Ref(k)
				};
				tx.push((c as u8, TOp::Kv(op)));
				real_ops += 1;
			}
		}
		if real_ops == 0 {
			return vec![]
		}
		if let Some((mc, mk)) = self.marker.clone() {
			self.marker_seq += 1;
			let tok = self.vals.canon(format!("v8_{}", 3 * self.marker_seq + 1));
			tx.push((mc, TOp::Kv(Op::Set(mk, tok))));
		}
		tx
	}

	fn commit(&mut self, tx: &Tx) {
		self.t.comment(&tx_line(tx, &self.world)[5..]);
		let line = model_tx_line(tx, &self.world);
		let mut real: Vec<(u8, Operation<Vec<u8>, Vec<u8>>)> = vec![];
		for (c, op) in tx {
			let o = match op {
				TOp::Kv(Op::Set(k, v)) => Operation::Set(k.clone(), self.vals.bytes(v)),
				TOp::Kv(Op::Del(k)) => Operation::Dereference(k.clone()),
				TOp::Kv(Op::Ref(k)) => Operation::Reference(k.clone()),
				TOp::Insert(k, g) => {
					let f = self.world.forests[*c as usize].as_ref().unwrap();
					Operation::InsertTree(k.clone(), to_real(g, f, &mut self.vals))
				},
				TOp::RefTree(k) => Operation::ReferenceTree(k.clone()),
				TOp::DerefTree(k) => Operation::DereferenceTree(k.clone()),
			};
			real.push((*c, o));
		}
		let r = self.sut.db().commit_changes(real);
		self.t.op(&line, &res(&r));
		if let Err(e) = &r {
			self.fail(&format!("valid transaction rejected: {:?}", e));
			return
		}
		self.sut.queued += 1;
		self.ctr.inc("op.commit");
		self.ctr.add("commit.ops", tx.len() as u64);
		let cols_touched: std::collections::BTreeSet<u8> = tx.iter().map(|x| x.0).collect();
		self.ctr.inc(&format!("commit.columns.{}", cols_touched.len()));
		let has_tree = tx.iter().any(|x| !matches!(x.1, TOp::Kv(_)));
		let has_kv = tx.iter().any(|x| matches!(x.1, TOp::Kv(_)));
		if has_tree && has_kv {
			self.ctr.inc("commit.tree_and_kv");
		}
		// oracle
		let kvtx: p1::Tx = tx.iter().filter_map(|(c, op)| if let TOp::Kv(o) = op { Some((*c, o.clone())) } else { None }).collect();
		self.world.kv.apply(&self.shadow, &kvtx, &mut self.vals);
		for (c, op) in tx {
			let kind = self.cfg.cols[*c as usize];
			match op {
				TOp::Kv(_) => {},
				TOp::Insert(k, g) => {
					self.ctr.inc("op.insert_tree");
					let f = self.world.forests[*c as usize].as_mut().unwrap();
					f.insert(k, g, kind.counting());
					let ids = f.roots[k].children.clone();
					let vals = &mut self.vals;
					let got = with_reader(self.sut.db.as_ref().unwrap(), *c, k, |rd| match rd.root(k) {
						Ok(Some(rootval)) => learn_addresses(rd, g, &rootval, &ids, f, vals),
						Ok(None) => Err("root not readable after accepted InsertTree".to_string()),
						Err(e) => Err(e),
					})
					.and_then(|x| x);
					if let Err(e) = got {
						self.fail(&format!("read back after InsertTree col={} key={}: {}", c, hex(k), e));
					}
				},
				TOp::RefTree(k) => {
					self.ctr.inc("op.ref_tree");
					if kind == CK::MtRc {
						let f = self.world.forests[*c as usize].as_mut().unwrap();
						if let Some(r) = f.roots.get_mut(k) {
							r.count += 1;
						}
					}
				},
				TOp::DerefTree(k) => {
					self.ctr.inc("op.deref_tree");
					let f = self.world.forests[*c as usize].as_mut().unwrap();
					let before = f.nodes.len();
					if f.deref(k) {
						self.ctr.add("tree.deref.nodes_freed", (before - f.nodes.len()) as u64);
					}
				},
			}
		}
		self.states.push(self.world.snapshot());
		// model lines: read back what the transaction touched, at the commit-overlay stage
		let mut seen: std::collections::BTreeSet<(u8, Vec<u8>)> = Default::default();
		for (c, op) in tx {
			let key = match op {
				TOp::Kv(o) => o.key().clone(),
				TOp::Insert(k, _) | TOp::RefTree(k) | TOp::DerefTree(k) => k.clone(),
			};
			if !seen.insert((*c, key.clone())) {
				continue
			}
			let kind = self.cfg.cols[*c as usize];
			if kind.is_tree() {
				emit_tree(self.sut.db(), *c as usize, &key, &self.vals, self.t);
				self.ctr.inc("model.readback.tree");
			} else {
				// queued > 0 here: reads of ref-counted keys are not predicted (as in p1)
				emit_get(self.sut.db(), *c as usize, &key, kind != CK::RcHash, &self.vals, self.t);
				self.ctr.inc("model.readback.kv");
			}
		}
	}

	/// reads at whatever stage the pipeline is in
	fn spot_reads(&mut self, rng: &mut Rng) {
		for _ in 0..3 {
			let c = rng.below(self.cfg.cols.len() as u64) as usize;
			let kind = self.cfg.cols[c];
			if kind.is_tree() {
				let k = rng.pick(&self.keys.tree[c]).clone();
				emit_tree(self.sut.db(), c, &k, &self.vals, self.t);
				let obs = with_reader(self.sut.db(), c as u8, &k, |rd| rd.render(&k, &self.vals)).and_then(|x| x);
				self.ctr.inc("op.read_tree");
				let f = self.world.forests[c].as_ref().unwrap();
				match obs {
					Err(e) => self.fail(&format!("reading tree col={} {} failed: {}", c, hex(&k), e)),
					Ok(o) => {
						let exp = f.render(&k);
						if f.roots.contains_key(&k) {
							if o != exp {
								self.fail(&format!("live tree col={} {} reads back differently: expected {} observed {}", c, hex(&k), clip(&exp), clip(&o)));
							}
						} else if self.sut.queued == 0 && o != "none" {
							self.fail(&format!("tree col={} {} has no reference left, nothing queued, still readable: {}", c, hex(&k), clip(&o)));
						}
					},
				}
			} else {
				let k = rng.pick(&self.keys.kv[c]).clone();
				let got = self.sut.db().get(c as u8, &k);
				self.ctr.inc("op.read_kv");
				let exp = self.world.kv.cols[c].get(&k);
				let exact = kind != CK::RcHash || self.sut.queued == 0;
				emit_get(self.sut.db(), c, &k, exact, &self.vals, self.t);
				match got {
					Err(e) => self.fail(&format!("get col={} failed: {:?}", c, e)),
					Ok(g) =>
						if exact {
							if g != exp.map(|x| x.0.clone()) {
								self.fail(&format!(
									"get col={} key={} expected={:?} observed={:?}",
									c,
									hex(&k),
									exp.map(|x| self.vals.render(&x.0)),
									g.map(|v| self.vals.render(&v))
								));
							}
						} else if let Some((v, n)) = exp {
							if *n > 0 && g.as_ref() != Some(v) {
								self.fail(&format!("rc get col={} key={} count={} not readable with its value", c, hex(&k), n));
							}
						},
				}
			}
		}
	}

	/// call before every process step: which transaction gets its record, how many are committed
	fn note_process(&mut self) {
		if self.sut.queued > 0 {
			let j = self.sut.n_enacted + self.sut.logged + 1;
			self.cap_at.insert(j, self.states.len() - 1);
		}
	}

	fn new_img(&mut self) -> PathBuf {
		self.img_no += 1;
		fresh_dir(self.root, &format!("c02x-{}-img{}", self.seed, self.img_no))
	}

	/// complete unsynced transaction records under the cut, and whether all of them survive
	fn surviving(&self, kept: &BTreeMap<String, u64>) -> (usize, bool) {
		let mut n = 0;
		let mut all = true;
		for (file, end, is_tx) in self.sut.appended.iter() {
			let keep = kept.get(file).copied().unwrap_or(u64::MAX);
			if *end <= keep {
				if *is_tx {
					n += 1;
				}
			} else {
				all = false;
				break
			}
		}
		(n, all)
	}

	/// (a) crash at the current stepping-API boundary
	fn crash_boundary(&mut self, rng: &mut Rng) -> bool {
		let img = self.new_img();
		copy_dir(&self.sut.dir, &img);
		let _ = std::fs::remove_file(img.join("lock"));
		let kept = if rng.chance(3, 4) { cut_tails(&img, &self.sut.synced_len, rng) } else { Default::default() };
		let (surv, _) = self.surviving(&kept);
		let synced = self.sut.n_enacted + self.sut.flushed;
		let m = synced + surv;
		let committed = self.states.len() - 1;
		let stage = format!("queued={} logged={} flushed={} enacted={}", self.sut.queued, self.sut.logged, self.sut.flushed, self.sut.n_enacted);
		self.t.comment(&format!("crash boundary cut={:?} {} expect prefix {} of {}", kept, stage, m, committed));
		self.t.op("c02x stages", &stage);
		self.ctr.inc("crash.a.boundary");
		self.ctr.inc(if kept.is_empty() { "crash.a.no_cut" } else { "crash.a.cut_tail" });
		self.ctr.add("crash.a.unsynced_records_kept", surv as u64);
		self.ctr.add("crash.a.unsynced_records_cut", (self.sut.logged - self.sut.flushed - surv.min(self.sut.logged - self.sut.flushed)) as u64);
		let old = self.sut.dir.clone();
		if !self.sut.abandon() {
			self.fail("drop panicked after a stored error");
			return false
		}
		let _ = std::fs::remove_dir_all(&old);
		self.sut.dir = img;
		self.recover(rng, m, m, synced, surv)
	}

	/// (b) crash inside a step: the fault injector stops it at its i-th file operation
	fn crash_inside(&mut self, rng: &mut Rng) -> bool {
		// choose the step to interrupt, then bring the pipeline to a stage where it has work
		let want = match rng.below(100) {
			0..=34 => "process",
			35..=69 => "enact",
			70..=84 => "flush",
			_ => "clean",
		};
		// (clean: two enacted log files in the cleanup queue when possible, so that the instants
		// between the reclaim of one file and the next exist)
		let want_dirty = if want == "clean" && rng.chance(2, 3) { 2 } else { 1 };
		for _ in 0..want_dirty {
			if !(want == "clean" && self.sut.dirty < want_dirty) {
				break
			}
			if self.sut.unread_files == 0 {
				if self.sut.logged == self.sut.flushed && self.sut.queued > 0 {
					self.note_process();
					let r = self.sut.process();
					self.t.op("c02x process", &res(&r));
				}
				let r = self.sut.flush();
				self.t.op("c02x flush", &res(&r));
			}
			if self.sut.unread_files > 0 {
				let r = self.sut.enact_file();
				self.t.op("c02x enactfile", &enact_res(&r));
			}
		}
		if want == "enact" && self.sut.unread_files == 0 {
			if self.sut.logged == self.sut.flushed && self.sut.queued > 0 {
				for _ in 0..rng.range(1, 3) {
					if self.sut.queued > 0 {
						self.note_process();
						let r = self.sut.process();
						self.t.op("c02x process", &res(&r));
					}
				}
			}
			if self.sut.logged > self.sut.flushed {
				let r = self.sut.flush();
				self.t.op("c02x flush", &res(&r));
			}
		}
		if want == "flush" && self.sut.logged == self.sut.flushed && self.sut.queued > 0 {
			self.note_process();
			let r = self.sut.process();
			self.t.op("c02x process", &res(&r));
		}
		let ready = |s: &Sut, step: &str| match step {
			"process" => s.queued > 0,
			"flush" => s.logged > s.flushed,
			"enact" => s.unread_files > 0,
			_ => s.dirty > 0,
		};
		let step = if ready(&self.sut, want) {
			want
		} else {
			match ["process", "enact", "flush", "clean"].iter().find(|x| ready(&self.sut, x)) {
				Some(x) => *x,
				None => return self.crash_boundary(rng), // nothing in flight at all
			}
		};
		if step == "enact" && self.sut.dirty >= 3 {
			let r = self.sut.clean();
			self.t.op("c02x clean", &res(&r));
		}
		let idx = match step {
			"process" => *rng.pick(&[0usize, 1, 2, 3, 4, 5, 6, 8, 10, 12, 16, 20, 25, 30, 40, 60]),
			"enact" => *rng.pick(&[0usize, 1, 2, 3, 4, 5, 6, 8, 10, 12, 16, 20, 25, 30, 40, 60, 90, 140]),
			"flush" => *rng.pick(&[0usize, 0, 1, 1, 1, 2]),
			_ => {
				// clean_logs flushes every table-ish file (one file operation each), then reclaims the
				// dirty log files one after the other (rewind, truncate): spread the fault over all of them
				let nfiles = std::fs::read_dir(&self.sut.dir)
					.map(|d| {
						d.filter_map(|e| e.ok())
							.filter(|e| {
								let n = e.file_name().to_string_lossy().to_string();
								n.starts_with("table_") || n.starts_with("index_") || n.starts_with("refcount_")
							})
							.count()
					})
					.unwrap_or(0);
				if rng.chance(1, 3) {
					*rng.pick(&[0usize, 0, 1, 1, 2, 3, 4, 6, 9, 14])
				} else if rng.chance(1, 2) {
					// around the reclaim phase
					nfiles.saturating_sub(1) + rng.below(3 * self.sut.dirty as u64 + 3) as usize
				} else {
					rng.below((nfiles + 3 * self.sut.dirty + 2) as u64) as usize
				}
			},
		};
		if step == "process" {
			self.note_process();
		}
		arm(idx);
		let sut = &self.sut;
		let r = std::panic::catch_unwind(std::panic::AssertUnwindSafe(|| match step {
			"process" => sut.db().process_commits(),
			"flush" => sut.db().flush_logs(),
			"enact" => sut.db().enact_logs(),
			"clean" => sut.db().clean_logs(),
			_ => sut.db().process_reindex(),
		}));
		disarm();
		let r = match r {
			Ok(r) => r,
			Err(_) => {
				self.fail(&format!("step {} panicked under an I/O fault at file operation {}", step, idx));
				return false
			},
		};
		match r {
			Ok(()) => {
				// fewer file operations than the index: the step completed; mirror it
				self.ctr.inc(&format!("fault.not_reached.{}", step));
				self.ctr.inc(&format!("fault.not_reached_at.{}.{:03}", step, idx));
				self.t.comment(&format!("{} under the fault injector: fault index {} not reached, the step completed", step, idx));
				match step {
					"process" => {
						self.sut.after_process();
						self.t.op("c02x process", "ok");
					},
					"flush" => {
						self.sut.after_flush();
						self.t.op("c02x flush", "ok");
					},
					"enact" => {
						let k = self.sut.after_enact_file();
						self.t.op("c02x enactfile", &format!("ok records={}", k));
					},
					"clean" => {
						self.sut.after_clean();
						self.t.op("c02x clean", "ok");
					},
					_ => {
						self.sut.note_appended(false);
						self.t.op("c02x reindex", "ok");
					},
				}
				true
			},
			Err(e) => {
				// the process stops HERE: image first, the handle is dropped afterwards
				let img = self.new_img();
				copy_dir(&self.sut.dir, &img);
				let _ = std::fs::remove_file(img.join("lock"));
				self.ctr.inc("crash.b.inside");
				self.ctr.inc(&format!("crash.b.step.{}", step));
				self.ctr.inc(&format!("crash.b.fault_index.{:03}", idx));
				self.ctr.inc(&format!("crash.b.hit_at.{}.{:03}", step, idx));
				self.ctr.inc(&format!("crash.b.err.{}", err_kind(&e)));
				let kept = if rng.chance(1, 3) { cut_tails(&img, &self.sut.synced_len, rng) } else { Default::default() };
				if !kept.is_empty() {
					self.ctr.inc("crash.b.cut_tail");
				}
				let (surv, all) = self.surviving(&kept);
				let synced = self.sut.n_enacted + self.sut.flushed;
				let lo = synced + surv;
				// the record being published may or may not be complete in the file
				let hi = lo + if step == "process" && self.sut.queued > 0 && all { 1 } else { 0 };
				let committed = self.states.len() - 1;
				let stage = format!("queued={} logged={} flushed={} enacted={}", self.sut.queued, self.sut.logged, self.sut.flushed, self.sut.n_enacted);
				self.t.comment(&format!(
					"crash inside {} at file operation {} cut={:?} {} expect prefix in [{}, {}] of {}",
					step, idx, kept, stage, lo, hi, committed
				));
				self.t.op("c02x stages", &stage);
				let old = self.sut.dir.clone();
				if let Some(db) = self.sut.db.take() {
					db.verif_store_err(Err(e));
					let dropped = std::panic::catch_unwind(std::panic::AssertUnwindSafe(move || drop(db)));
					if dropped.is_err() {
						self.fail("drop panicked after a stored error");
						return false
					}
				}
				let _ = std::fs::remove_dir_all(&old);
				self.sut.dir = img;
				self.recover(rng, lo, hi, synced, surv)
			},
		}
	}

	fn has_pending_logs(&self) -> bool {
		std::fs::read_dir(&self.sut.dir)
			.map(|d| d.filter_map(|e| e.ok()).any(|e| e.file_name().to_string_lossy().starts_with("log") && e.metadata().map(|m| m.len() > 0).unwrap_or(false)))
			.unwrap_or(false)
	}

	/// Recovery of the image in `sut.dir`: crashes during recovery, clean open, identification
	/// of the prefix in [lo, hi], full verification, continuation.
	fn recover(&mut self, rng: &mut Rng, lo: usize, hi: usize, synced: usize, surv: usize) -> bool {
		self.crashes += 1;
		let opts = self.cfg.options(&self.sut.dir);
		let pending = self.has_pending_logs();
		self.ctr.inc(if pending { "recover.image_with_pending_logs" } else { "recover.image_without_logs" });
		let rounds = if pending { rng.below(3) } else { rng.below(2) };
		for _ in 0..rounds {
			let j = *rng.pick(&[0usize, 1, 2, 3, 4, 6, 8, 12, 16, 24, 32, 48, 64, 100, 160]);
			arm(j);
			let r = std::panic::catch_unwind(std::panic::AssertUnwindSafe(|| Db::open(&opts)));
			disarm();
			let _ = std::fs::remove_file(self.sut.dir.join("lock"));
			match r {
				Ok(Ok(db)) => {
					self.ctr.inc("recover.fault_not_reached");
					self.t.comment(&format!("open with fault at file operation {}: ok (not reached)", j));
					// a clean open and close: everything is replayed and enacted
					let r = std::panic::catch_unwind(std::panic::AssertUnwindSafe(move || drop(db)));
					if r.is_err() {
						self.fail("drop of a freshly recovered handle panicked");
						return false
					}
				},
				Ok(Err(e)) => {
					self.ctr.inc("recover.crash_during_recovery");
					self.ctr.inc(&format!("recover.fault_index.{:03}", j));
					self.ctr.inc(&format!("recover.fault_err.{}", err_kind(&e)));
					self.t.comment(&format!("open with fault at file operation {}: err:{}", j, err_kind(&e)));
				},
				Err(_) => {
					// a panic is a process stop as well; what counts is the next open
					self.ctr.inc("recover.crash_during_recovery");
					self.ctr.inc("recover.fault_panic");
					self.t.comment(&format!("open with fault at file operation {}: panic", j));
				},
			}
		}
		let r = std::panic::catch_unwind(std::panic::AssertUnwindSafe(|| Db::open(&opts)));
		let db = match r {
			Ok(Ok(db)) => db,
			Ok(Err(e)) => {
				self.fail(&format!("recovery open failed: {:?}", e));
				return false
			},
			Err(_) => {
				self.fail("recovery open panicked");
				return false
			},
		};
		self.sut.db = Some(db);
		// the interrupted step was publishing a record that may be complete in the image
		let inproc = if hi > lo { " inprocess" } else { "" };
		let hi = std::cmp::min(hi, self.states.len() - 1);
		if lo > hi {
			self.fail(&format!("harness mirror inconsistent: lo={} hi={} states={}", lo, hi, self.states.len()));
			return false
		}
		// identify: largest prefix in [lo, hi] whose oracle state is exactly what is exposed
		let mut found: Vec<usize> = vec![];
		let mut why: Vec<String> = vec![];
		for m in (lo..=hi).rev() {
			let mut scratch = Counters::new();
			let (bias, skip, _) = self.predict_leak(m);
			match verify_full(self.sut.db(), &self.cfg, &self.keys, &self.states[m], &self.vals, &mut scratch, false, &bias, &skip) {
				Ok(()) => found.push(m),
				Err(e) => why.push(format!("prefix {}: {}", m, e)),
			}
		}
		let committed = self.states.len() - 1;
		if found.is_empty() {
			// the model judges on its own: it recovers to the prefix the record boundaries imply
			// and is compared with every read of the recovered handle
			self.t.comment("recovered: not-a-prefix (oracle)");
			self.t.op(&format!("c02x crash {} kept={}{}", lo, surv, inproc), "ok");
			self.fail(&format!(
				"after crash recovery the database is no prefix in [{}, {}] of the {} committed transactions (synced {}): {}",
				lo,
				hi,
				committed,
				synced,
				why.join(" || ")
			));
			{
				let (bias, skip) = (self.bias.clone(), self.mp_leak.clone());
				emit_state(self.sut.db.as_ref().unwrap(), &self.cfg, &self.keys, &self.vals, &bias, &skip, self.t, self.ctr);
			}
			return false
		}
		let m = found[0];
		if found.len() > 1 && !hidden_equal(&self.cfg, &self.states[found[0]], &self.states[found[1]]) {
			// both prefixes look the same through every read but differ in a root count:
			// the oracle cannot continue (only without a marker column)
			self.ctr.inc("recover.ambiguous_end_of_case");
			self.ended_ambiguous = true;
		}
		// counted verification pass
		let (bias, skip, leak_msg) = self.predict_leak(m);
		let mut ctr = std::mem::replace(self.ctr, Counters::new());
		let r = verify_full(self.sut.db(), &self.cfg, &self.keys, &self.states[m], &self.vals, &mut ctr, true, &bias, &skip);
		*self.ctr = ctr;
		if let Err(e) = r {
			self.fail(&format!("verification after recovery not repeatable: {}", e));
			return false
		}
		if let Some(msg) = leak_msg {
			// the deviation is confirmed by the exact entry count: report it, keep going
			self.findings += 1;
			self.ctr.inc("finding.F19.claimed_slots_leaked");
			self.t.known(self.prop, "F19", &msg);
		}
		self.bias = bias;
		self.mp_leak = skip;
		self.leaked = self.predict_leak_addrs(m);
		self.cap_at.clear();
		self.t.comment(&format!("recovered: prefix {} of {} (synced {})", m, committed, synced));
		self.t.op(&format!("c02x crash {} kept={}{}", m, surv, inproc), "ok");
		self.ctr.inc("model.crash");
		if !inproc.is_empty() {
			self.ctr.inc(if m > lo { "model.crash.inprocess_record_complete" } else { "model.crash.inprocess_record_lost" });
		}
		{
			let (bias, skip) = (self.bias.clone(), self.mp_leak.clone());
			emit_state(self.sut.db.as_ref().unwrap(), &self.cfg, &self.keys, &self.vals, &bias, &skip, self.t, self.ctr);
		}
		self.ctr.inc("recover.ok");
		let lost = committed - m;
		self.lost_total += lost;
		self.ctr.inc(&format!("recover.lost_transactions.{}", match lost { 0 => "0", 1 => "1", 2 => "2", 3..=4 => "3-4", _ => "5+" }));
		self.ctr.inc(&format!(
			"recover.prefix_position.{}",
			if m == committed { "all_committed" } else if m == synced { "exactly_synced" } else { "between" }
		));
		if hi > lo {
			self.ctr.inc(if m == hi { "recover.interval.upper" } else { "recover.interval.lower" });
		}
		let lost_tree_claims = (m + 1..=committed).any(|i| {
			self.states[i].forests.iter().zip(self.states[i - 1].forests.iter()).any(|(a, b)| match (a, b) {
				(Some(a), Some(b)) => a.next_id != b.next_id,
				_ => false,
			})
		});
		if lost_tree_claims {
			self.ctr.inc("recover.lost_tree_insertions");
		}
		self.world = self.states[m].snapshot();
		self.states.truncate(m + 1);
		self.sut.reset_mirror(m);
		self.t2rc_all("recovery");
		self.ok
	}

	/// F19, by address: the node slots claimed by the transactions in (m, cap] (see
	/// `predict_leak`), added to those leaked by earlier recoveries.
	fn predict_leak_addrs(&self, m: usize) -> Vec<Vec<u64>> {
		let mut leaked = self.leaked.clone();
		let cap = match self.cap_at.get(&m) {
			Some(c) => std::cmp::min(*c, self.states.len() - 1),
			None => return leaked,
		};
		for (c, kind) in self.cfg.cols.iter().enumerate() {
			if !kind.is_tree() {
				continue
			}
			for q in m + 1..=cap {
				let (prev, cur) = (self.states[q - 1].forests[c].as_ref().unwrap(), self.states[q].forests[c].as_ref().unwrap());
				for id in prev.next_id..cur.next_id {
					if let Some(a) = cur.nodes.get(&id).and_then(|n| n.addr) {
						if !leaked[c].contains(&a) {
							leaked[c].push(a);
						}
					}
				}
			}
		}
		leaked
	}

	/// T2 for the node forests (Lean checker `t2rc`, Pdb/Model/DumpCheckRc.lean): after a recovery
	/// or a reopen every log is enacted; dump every tree column, one op line per column with the
	/// expected answer `ok` (the predicted leaked slots of finding F19 are passed as allowed
	/// orphans: any OTHER unreachable or undecodable slot makes the checker answer `bad:`), and
	/// compare the same dump with the forest oracle of the recovered prefix.
	fn t2rc_all(&mut self, at: &str) {
		let cols = self.cfg.cols.clone();
		for (c, kind) in cols.iter().enumerate() {
			if !kind.is_tree() {
				continue
			}
			let d = match self.sut.db().verif_multitree_dump(c as u8) {
				Ok(Some(d)) => d,
				Ok(None) => continue,
				Err(e) => {
					self.fail(&format!("verif_multitree_dump col={} failed: {:?}", c, e));
					continue
				},
			};
			let (line, st) = crate::c10::t2rc_line(&d, &self.leaked[c]);
			self.t.op(&line, "ok");
			crate::c10::t2rc_count(self.ctr, at, &d, &st, self.leaked[c].len());
			if self.ended_ambiguous {
				// the oracle may differ from the database in a root count (see above)
				continue
			}
			let r = match self.world.forests[c].as_ref() {
				Some(f) => crate::c10::dump_matches_forest(self.sut.db(), c as u8, &d, f, kind.counting(), *kind == CK::MtRc, &self.leaked[c]),
				None => Ok(()),
			};
			match r {
				Ok(()) => self.ctr.inc("t2rc.oracle_forest_equal"),
				Err(e) => self.fail(&format!("structural dump ({}) of col={} ({}) differs from the oracle forest: {}", at, c, kind.name(), e)),
			}
		}
	}

	/// F19: the table header logged with the record of transaction m carries every slot claimed
	/// until that record was published, also those of transactions > m.  If m is the recovered
	/// prefix those slots are counted as entries and never handed out again.  Returns the
	/// bias / unavailable flags after such a recovery and a description when something leaks.
	fn predict_leak(&self, m: usize) -> (Vec<u64>, Vec<bool>, Option<String>) {
		let mut bias = self.bias.clone();
		let mut skip = self.mp_leak.clone();
		let cap = match self.cap_at.get(&m) {
			Some(c) => std::cmp::min(*c, self.states.len() - 1),
			None => return (bias, skip, None),
		};
		let mut msg: Vec<String> = vec![];
		for (c, kind) in self.cfg.cols.iter().enumerate() {
			if !kind.is_tree() {
				continue
			}
			let mut single = 0u64;
			let mut multi = 0u64;
			for q in m + 1..=cap {
				let (prev, cur) = (self.states[q - 1].forests[c].as_ref().unwrap(), self.states[q].forests[c].as_ref().unwrap());
				for id in prev.next_id..cur.next_id {
					let n = &cur.nodes[&id];
					if is_multipart(*kind, false, &n.data, n.children.len()) {
						multi += 1;
					} else {
						single += 1;
					}
				}
			}
			if single + multi > 0 {
				msg.push(format!("col={} ({}): {} node slots{}", c, kind.name(), single + multi, if multi > 0 { " incl. multipart (entry count unavailable from now on)" } else { "" }));
			}
			bias[c] += single;
			if multi > 0 {
				skip[c] = true;
			}
		}
		if msg.is_empty() {
			return (bias, skip, None)
		}
		(
			bias,
			skip,
			Some(format!(
				"CLAIMED-SLOTS-LEAKED recovered prefix {}: transactions {}..{} were committed (node slots claimed) before the record of transaction {} was published and are lost: their slots stay counted as entries and are never reused: {}",
				m,
				m + 1,
				cap,
				m,
				msg.join("; ")
			)),
		)
	}

	fn clean_reopen(&mut self) -> bool {
		let total = self.states.len() - 1;
		self.sut.close(total);
		let r = std::panic::catch_unwind(std::panic::AssertUnwindSafe(|| Db::open(&self.cfg.options(&self.sut.dir))));
		match r {
			Ok(Ok(db)) => self.sut.db = Some(db),
			Ok(Err(e)) => {
				self.t.op("c02x reopen", &format!("err:{}", err_kind(&e)));
				self.fail(&format!("reopen failed: {:?}", e));
				return false
			},
			Err(_) => {
				self.fail("reopen panicked");
				return false
			},
		}
		self.sut.reset_mirror(total);
		self.t.op("c02x reopen", "ok");
		let mut ctr = std::mem::replace(self.ctr, Counters::new());
		let r = verify_full(self.sut.db(), &self.cfg, &self.keys, &self.world, &self.vals, &mut ctr, true, &self.bias, &self.mp_leak);
		*self.ctr = ctr;
		if let Err(e) = &r {
			self.fail(&format!("after a clean reopen: {}", e));
		}
		// the model judges the reopened state on its own (after the oracle has reported)
		{
			let (bias, skip) = (self.bias.clone(), self.mp_leak.clone());
			emit_state(self.sut.db.as_ref().unwrap(), &self.cfg, &self.keys, &self.vals, &bias, &skip, self.t, self.ctr);
		}
		if r.is_ok() {
			self.t2rc_all("reopen");
		}
		r.is_ok() && self.ok
	}
}

fn gen_tree_key(rng: &mut Rng, i: u64) -> Vec<u8> {
	let len = *rng.pick(&[1u64, 4, 8, 32, 32, 33, 64]) as usize;
	let mut k = vec![];
	while k.len() < len {
		k.extend_from_slice(&rng.next().to_le_bytes());
	}
	k.truncate(len);
	k[0] = i as u8;
	k
}

fn gen_cfg(rng: &mut Rng) -> Cfg {
	let ncols = rng.range(2, 4) as usize;
	let mut cols: Vec<CK> = (0..ncols).map(|_| *rng.pick(&ALL_KINDS)).collect();
	// most mixes get a column that can carry the transaction marker (identifies the prefix
	// exactly also where reads cannot see a root count) and a tree column
	if rng.chance(17, 20) && !cols.iter().any(|c| matches!(c, CK::Hash | CK::Btree)) {
		let i = rng.below(ncols as u64) as usize;
		cols[i] = *rng.pick(&[CK::Hash, CK::Btree]);
	}
	if rng.chance(17, 20) && !cols.iter().any(|c| c.is_tree()) {
		let cand: Vec<usize> = (0..ncols).collect();
		// keep a marker column if there is exactly one
		let markers: Vec<usize> = (0..ncols).filter(|i| matches!(cols[*i], CK::Hash | CK::Btree)).collect();
		let free: Vec<usize> = cand.into_iter().filter(|i| markers.len() != 1 || *i != markers[0]).collect();
		let i = *rng.pick(&free);
		cols[i] = *rng.pick(&[CK::MtAppend, CK::MtRc, CK::MtPlain]);
	}
	let comp = cols
		.iter()
		.map(|c| {
			if c.is_tree() {
				CompressionType::NoCompression
			} else {
				*rng.pick(&[CompressionType::NoCompression, CompressionType::NoCompression, CompressionType::Lz4, CompressionType::Snappy])
			}
		})
		.collect();
	let mut salt = [0u8; 32];
	for i in 0..4 {
		salt[i * 8..i * 8 + 8].copy_from_slice(&rng.next().to_le_bytes());
	}
	Cfg { cols, comp, salt }
}

fn run_case(seed: u64, thorough: bool, root: &Path, t: &mut Trace, ctr: &mut Counters, prop: &str) -> bool {
	let mut rng = Rng::new(seed);
	let cfg = gen_cfg(&mut rng);
	t.begin_case(&format!("seed={} cfg={}", seed, cfg.describe()));
	t.op(&format!("c02x init {}", cfg.describe().replace(',', " ")), "ok");
	let mut mix: Vec<&str> = cfg.cols.iter().map(|c| c.name()).collect();
	mix.sort();
	ctr.inc(&format!("mix.{}", mix.join("+")));
	ctr.inc(&format!("columns.{}", cfg.cols.len()));
	for c in &cfg.cols {
		ctr.inc(&format!("column_kind.{}", c.name()));
	}
	let dir = fresh_dir(root, &format!("c02x-{}", seed));
	let sut = Sut::create(cfg.clone(), dir);
	let nkeys = rng.range(3, 7);
	let keys = Keys {
		kv: cfg.cols.iter().map(|c| if c.is_tree() { vec![] } else { (0..nkeys).map(|i| p1::gen_key(&mut rng, false, i + 1)).collect() }).collect(),
		tree: cfg.cols.iter().map(|c| if c.is_tree() { (0..rng.range(2, 4)).map(|i| gen_tree_key(&mut rng, i)).collect() } else { vec![] }).collect(),
	};
	let marker = cfg.cols.iter().position(|c| matches!(c, CK::Hash | CK::Btree)).map(|c| (c as u8, keys.kv[c][0].clone()));
	ctr.inc(if marker.is_some() { "cases.with_marker_column" } else { "cases.without_marker_column" });
	let world = World::new(&cfg);
	let states = vec![world.snapshot()];
	let ncols_total = cfg.cols.len();
	let mut c = Case {
		seed,
		root,
		shadow: cfg.shadow(),
		cfg,
		sut,
		keys,
		world,
		states,
		vals: Values::default(),
		marker,
		marker_seq: 0,
		t,
		ctr,
		prop,
		ok: true,
		crashes: 0,
		img_no: 0,
		lost_total: 0,
		ended_ambiguous: false,
		cap_at: Default::default(),
		bias: vec![0; ncols_total],
		mp_leak: vec![false; ncols_total],
		leaked: vec![vec![]; ncols_total],
		findings: 0,
	};
	let nact = rng.range(14, if thorough { 70 } else { 42 }) as usize;
	let max_crashes = if thorough { 6 } else { 4 };
	let mut step_no = 0;
	while step_no < nact && c.ok && !c.ended_ambiguous {
		step_no += 1;
		let a = rng.below(100);
		if a < 36 {
			let tx = c.gen_tx(&mut rng);
			if !tx.is_empty() {
				c.commit(&tx);
			}
		} else if a < 50 {
			c.note_process();
			let r = c.sut.process();
			c.t.op("c02x process", &res(&r));
			c.ctr.inc("op.process");
			if let Err(e) = r {
				c.fail(&format!("process_commits failed: {:?}", e));
			}
		} else if a < 58 {
			let r = c.sut.flush();
			c.t.op("c02x flush", &res(&r));
			c.ctr.inc("op.flush");
			if let Err(e) = r {
				c.fail(&format!("flush_logs failed: {:?}", e));
			}
		} else if a < 64 {
			let r = c.sut.enact_file();
			c.t.op("c02x enactfile", &enact_res(&r));
			c.ctr.inc("op.enactfile");
			if let Err(e) = r {
				c.fail(&format!("enact_logs failed: {:?}", e));
			}
		} else if a < 69 {
			let r = c.sut.enact_all();
			c.t.op("c02x enactall", &res(&r));
			c.ctr.inc("op.enactall");
			if let Err(e) = r {
				c.fail(&format!("enact_logs failed: {:?}", e));
			}
		} else if a < 72 {
			let r = c.sut.clean();
			c.t.op("c02x clean", &res(&r));
			c.ctr.inc("op.clean");
		} else if a < 73 {
			let r = c.sut.reindex();
			c.t.op("c02x reindex", &res(&r));
			c.ctr.inc("op.reindex");
		} else if a < 76 && rng.chance(1, 2) {
			// log churn: several log files, the oldest enacted and reclaimed (its file is
			// recycled for newer records), younger ones still pending
			c.ctr.inc("op.churn");
			for round in 0..rng.range(2, 4) {
				let tx = c.gen_tx(&mut rng);
				if !tx.is_empty() && c.ok {
					c.commit(&tx);
				}
				while c.sut.queued > 0 && c.ok {
					c.note_process();
					let r = c.sut.process();
					c.t.op("c02x process", &res(&r));
					if let Err(e) = r {
						c.fail(&format!("process_commits failed: {:?}", e));
					}
				}
				let r = c.sut.flush();
				c.t.op("c02x flush", &res(&r));
				if round == 1 && c.ok {
					let r = c.sut.enact_file();
					c.t.op("c02x enactfile", &enact_res(&r));
					let r = c.sut.clean();
					c.t.op("c02x clean", &res(&r));
				}
			}
		} else if a < 76 {
			c.ctr.inc("op.reopen");
			if !c.clean_reopen() {
				break
			}
		} else if a < 92 && c.crashes < max_crashes {
			// make sure there mostly is something in flight at the crash
			if c.sut.queued + c.sut.logged == 0 && rng.chance(4, 5) {
				for _ in 0..rng.range(1, 3) {
					let tx = c.gen_tx(&mut rng);
					if !tx.is_empty() && c.ok {
						c.commit(&tx);
					}
				}
				if !c.ok {
					break
				}
			}
			// make sure there often is something unsynced / queued at the crash
			if rng.chance(1, 2) {
				for _ in 0..rng.range(1, 2) {
					if c.sut.queued > 0 {
						c.note_process();
						let r = c.sut.process();
						c.t.op("c02x process", &res(&r));
					}
				}
			}
			let ok = if rng.chance(2, 5) { c.crash_boundary(&mut rng) } else { c.crash_inside(&mut rng) };
			if !ok {
				break
			}
		} else {
			c.spot_reads(&mut rng);
		}
		if c.sut.queued > 0 && c.sut.logged > 0 {
			c.ctr.inc("obs.multi_stage_states");
		}
	}
	if c.ok && !c.ended_ambiguous {
		// a last crash when the history had none, then the final clean reopen
		if c.crashes == 0 {
			let ok = if rng.chance(1, 2) { c.crash_boundary(&mut rng) } else { c.crash_inside(&mut rng) };
			if ok && c.ok && c.crashes == 0 {
				c.crash_boundary(&mut rng);
			}
		}
	}
	if c.ok && !c.ended_ambiguous {
		c.clean_reopen();
	}
	let nontrivial = c.crashes > 0 && c.states.len() > 1;
	c.ctr.inc(&format!("case.crashes.{}", c.crashes));
	if c.lost_total > 0 {
		c.ctr.inc("cases.lost_some_transaction");
	}
	let total = c.states.len() - 1;
	if c.sut.db.is_some() {
		c.sut.close(total);
	}
	let _ = std::fs::remove_dir_all(&c.sut.dir);
	c.ctr.inc("cases");
	if nontrivial {
		c.ctr.inc("cases.nontrivial");
	}
	let ok = c.ok;
	c.t.end_case(nontrivial);
	ok
}

/// scenario data is literal text: the token of `root-1` is `v6_root-1`
fn raw_tok(d: &[u8]) -> String {
	format!("v{}_{}", d.len(), String::from_utf8_lossy(d))
}

fn render_raw_node(rd: &Reader, addr: u64, out: &mut String, depth: usize) -> Result<(), String> {
	if depth > 16 {
		out.push('!');
		return Ok(())
	}
	match rd.node(addr)? {
		None => out.push('?'),
		Some((d, cs)) => {
			out.push('(');
			out.push_str(&raw_tok(&d));
			for c in cs {
				out.push(' ');
				render_raw_node(rd, c, out, depth + 1)?;
			}
			out.push(')');
		},
	}
	Ok(())
}

fn render_raw(rd: &Reader, key: &[u8]) -> Result<String, String> {
	match rd.root(key)? {
		None => Ok("none".into()),
		Some((d, cs)) => {
			let mut s = format!("some ({}", raw_tok(&d));
			for c in cs {
				s.push(' ');
				render_raw_node(rd, c, &mut s, 0)?;
			}
			s.push(')');
			Ok(s)
		},
	}
}

/// Deterministic minimal history of finding F19 (1 seed in 16, after the generated case):
/// one multitree column; tx1 = InsertTree(k1, root -> leaf) and tx2 = InsertTree(k2, root ->
/// leaf, leaf) are committed, ONE process step publishes the record of tx1 (its table header
/// already counts the two slots tx2 claimed when its commit returned), crash.  Recovery must
/// expose exactly tx1; the property's reading of "exactly the state of the prefix" includes the
/// entry count: 2 (leaf + root of k1).
fn scenario_claim_leak(seed: u64, root: &Path, t: &mut Trace, ctr: &mut Counters, prop: &str) -> bool {
	use parity_db::{NewNode, NodeRef};
	let kind = [CK::MtAppend, CK::MtRc, CK::MtPlain][((seed / 16) % 3) as usize];
	let cfg = Cfg { cols: vec![kind], comp: vec![CompressionType::NoCompression], salt: [7u8; 32] };
	t.begin_case(&format!("seed={} scenario=claim-leak cfg={}", seed, cfg.describe()));
	t.op(&format!("c02x init {}", cfg.describe()), "ok");
	ctr.inc("scenario.claim_leak");
	let dir = fresh_dir(root, &format!("c02x-{}-scn", seed));
	let db = Db::open_or_create(&cfg.options(&dir)).expect("create");
	let leaf = |b: &[u8]| NodeRef::New(NewNode { data: b.to_vec(), children: vec![] });
	let t1 = NewNode { data: b"root-1".to_vec(), children: vec![leaf(b"leaf-1a")] };
	let t2 = NewNode { data: b"root-2".to_vec(), children: vec![leaf(b"leaf-2a"), leaf(b"leaf-2b")] };
	let mut ok = true;
	let r1 = db.commit_changes(vec![(0u8, Operation::InsertTree(b"k1".to_vec(), t1))]);
	t.op("c02x commit 0:insert:6b31:2 n1:v6_root-1 n0:v7_leaf-1a", &res(&r1));
	let r2 = db.commit_changes(vec![(0u8, Operation::InsertTree(b"k2".to_vec(), t2))]);
	t.op("c02x commit 0:insert:6b32:3 n2:v6_root-2 n0:v7_leaf-2a n0:v7_leaf-2b", &res(&r2));
	let r3 = db.process_commits();
	t.op("c02x process", &res(&r3));
	if r1.is_err() || r2.is_err() || r3.is_err() {
		t.oracle_fail(prop, "scenario claim-leak: a fault-free step failed");
		ok = false;
	}
	let img = fresh_dir(root, &format!("c02x-{}-scn-img", seed));
	copy_dir(&dir, &img);
	let _ = std::fs::remove_file(img.join("lock"));
	t.comment("crash boundary cut={} queued=1 logged=1 flushed=0 enacted=0 expect prefix 1 of 2");
	t.op("c02x stages", "queued=1 logged=1 flushed=0 enacted=0");
	db.verif_store_err(Err(parity_db::Error::Io(std::io::Error::new(std::io::ErrorKind::Other, "abandoned by harness"))));
	let _ = std::panic::catch_unwind(std::panic::AssertUnwindSafe(move || drop(db)));
	let _ = std::fs::remove_dir_all(&dir);
	match std::panic::catch_unwind(std::panic::AssertUnwindSafe(|| Db::open(&cfg.options(&img)))) {
		Ok(Ok(db)) => {
			let tree1 = db.get_root(0, b"k1").ok().flatten().map(|r| (r.0, r.1.len()));
			let tree2 = db.get_root(0, b"k2").ok().flatten().map(|r| r.0);
			let n = db.get_num_column_value_entries(0);
			t.comment(&format!("recovered: k1={:?} k2={:?} entries={:?}", tree1.as_ref().map(|x| x.1), tree2.is_some(), n.as_ref().ok()));
			// model lines: the one unsynced record is complete in the image; both trees as they
			// read now; the entry count (+ the two slots of finding F19 when it shows)
			t.op("c02x crash 1 kept=1", "ok");
			for k in [&b"k1"[..], &b"k2"[..]] {
				let obs = with_reader(&db, 0, k, |rd| render_raw(rd, k)).and_then(|x| x).unwrap_or_else(|e| format!("read-error {}", e));
				t.op(&format!("c02x tree 0 {}", hex(k)), &obs);
			}
			t.op(
				&format!("c02x count 0 {}", if matches!(n, Ok(4)) { 2 } else { 0 }),
				&match &n {
					Ok(n) => n.to_string(),
					Err(e) => format!("err:{}", err_kind(e)),
				},
			);
			if tree1 != Some((b"root-1".to_vec(), 1)) || tree2.is_some() {
				t.oracle_fail(prop, &format!("scenario claim-leak: recovered state is not the prefix of one transaction: k1={:?} k2 present={}", tree1, tree2.is_some()));
				ok = false;
			}
			match n {
				Ok(2) => ctr.inc("scenario.claim_leak.count_exact"),
				Ok(4) => {
					ctr.inc("finding.F19.claimed_slots_leaked");
					t.known(
						prop,
						"F19",
						"CLAIMED-SLOTS-LEAKED scenario [commit InsertTree k1 (root, 1 leaf); commit InsertTree k2 (root, 2 leaves); process; crash]: recovered prefix 1, get_num_column_value_entries = 4 instead of 2: the two slots claimed by the lost transaction stay counted and are never reused",
					);
				},
				other => {
					t.oracle_fail(prop, &format!("scenario claim-leak: entry count {:?}, expected 2", other));
					ok = false;
				},
			}
			drop(db);
		},
		_ => {
			t.oracle_fail(prop, "scenario claim-leak: recovery open failed");
			ok = false;
		},
	}
	let _ = std::fs::remove_dir_all(&img);
	ctr.inc("cases");
	ctr.inc("cases.nontrivial");
	t.end_case(true);
	ok
}


// ---------------------------------------------------------------------------------------------
// tx cases: ONE multitree column, MULTI-OPERATION tree transactions with address REUSE, crash,
// recovery from the log FILES computed by the model (driver command `c02xt`,
// lean/Pdb/Model/C02xTxDriver.lean; theorems lean/Pdb/Props/C02xTx.lean).  The recovered prefix is
// not supplied to the model: the `c02xt files` line carries the log files of the crash image (file
// number -> ids of the complete records, read from the image), the model runs the real recovery
// algorithm on them and must answer the prefix length and the number of LEAKED slots (finding
// F19) that this harness OBSERVES with its own oracle (logical forest snapshots; entry count of the
// real column minus the live nodes and roots of the matching snapshot).
// ---------------------------------------------------------------------------------------------

#[derive(Clone, Default)]
struct TxWorld {
	/// arena of logical nodes: (data, children as arena ids)
	arena: Vec<(Vec<u8>, Vec<usize>)>,
	/// live roots: key -> (data, children, reference count)
	roots: BTreeMap<Vec<u8>, (Vec<u8>, Vec<usize>, u32)>,
}

impl TxWorld {
	fn render_node(&self, id: usize, out: &mut String) {
		let (d, cs) = &self.arena[id];
		out.push('(');
		out.push_str(&raw_tok(d));
		for c in cs {
			out.push(' ');
			self.render_node(*c, out);
		}
		out.push(')');
	}
	fn render(&self, key: &[u8]) -> String {
		match self.roots.get(key) {
			None => "none".into(),
			Some((d, cs, _)) => {
				let mut s = format!("some ({}", raw_tok(d));
				for c in cs {
					s.push(' ');
					self.render_node(*c, &mut s);
				}
				s.push(')');
				s
			},
		}
	}
	/// live node slots (reachable from a live root, shared nodes once) + root entries
	fn entries(&self) -> u64 {
		let mut seen = std::collections::BTreeSet::new();
		let mut stack: Vec<usize> = self.roots.values().flat_map(|r| r.1.iter().copied()).collect();
		while let Some(x) = stack.pop() {
			if seen.insert(x) {
				stack.extend(self.arena[x].1.iter().copied());
			}
		}
		seen.len() as u64 + self.roots.len() as u64
	}
}

/// a generated tree: New(data, children) | Existing(arena id, path from a live root)
#[derive(Clone)]
enum TxRef {
	New(Vec<u8>, Vec<TxRef>),
	Existing(usize, Vec<u8>, Vec<usize>),
}

#[derive(Clone)]
enum TxOp {
	Insert(Vec<u8>, Vec<u8>, Vec<TxRef>),
	Ref(Vec<u8>),
	Deref(Vec<u8>),
}

fn tx_gen_children(rng: &mut Rng, depth: u32, ctrn: &mut u64, shareable: &[(usize, Vec<u8>, Vec<usize>)], budget: &mut i32) -> Vec<TxRef> {
	let n = if depth == 0 { 0 } else { rng.below(4) };
	let mut v = vec![];
	for _ in 0..n {
		if *budget <= 0 {
			break
		}
		*budget -= 1;
		if !shareable.is_empty() && rng.chance(1, 5) {
			let (id, k, p) = rng.pick(shareable).clone();
			v.push(TxRef::Existing(id, k, p));
		} else {
			*ctrn += 1;
			let len = 1 + rng.below(30) as usize;
			let mut d = format!("d{}", *ctrn).into_bytes();
			while d.len() < len {
				d.push(b'x');
			}
			let cs = tx_gen_children(rng, depth - 1, ctrn, shareable, budget);
			v.push(TxRef::New(d, cs));
		}
	}
	v
}

fn tx_tokens(data: &[u8], cs: &[TxRef], out: &mut Vec<String>) {
	out.push(format!("n{}:{}", cs.len(), raw_tok(data)));
	for c in cs {
		match c {
			TxRef::New(d, cs2) => tx_tokens(d, cs2, out),
			TxRef::Existing(_, k, p) => {
				let mut s = format!("@{}", hex(k));
				for i in p {
					s.push_str(&format!("/{}", i));
				}
				out.push(s);
			},
		}
	}
}

fn tx_to_real(db: &Db, c: &TxRef) -> Result<parity_db::NodeRef, String> {
	use parity_db::{NewNode, NodeRef};
	match c {
		TxRef::New(d, cs) => {
			let mut children = vec![];
			for x in cs {
				children.push(tx_to_real(db, x)?);
			}
			Ok(NodeRef::New(NewNode { data: d.clone(), children }))
		},
		TxRef::Existing(_, k, p) => {
			// the real address of the node at path `p` below root `k`, as readable now
			let addr = with_reader(db, 0, k, |rd| -> Result<u64, String> {
				let (_, cs) = rd.root(k)?.ok_or_else(|| "existing: no root".to_string())?;
				let mut a = *cs.get(p[0]).ok_or_else(|| "existing: bad path".to_string())?;
				for i in &p[1..] {
					let (_, cs2) = rd.node(a)?.ok_or_else(|| "existing: no node".to_string())?;
					a = *cs2.get(*i).ok_or_else(|| "existing: bad path".to_string())?;
				}
				Ok(a)
			})??;
			Ok(NodeRef::Existing(addr))
		},
	}
}

fn tx_add(w: &mut TxWorld, c: &TxRef) -> usize {
	match c {
		TxRef::New(d, cs) => {
			let kids: Vec<usize> = cs.iter().map(|x| tx_add(w, x)).collect();
			w.arena.push((d.clone(), kids));
			w.arena.len() - 1
		},
		TxRef::Existing(id, _, _) => *id,
	}
}

struct TxSut {
	db: Option<Db>,
	dir: PathBuf,
	queued: usize,
	logged: usize,
	files: Vec<usize>,
	enacted: usize,
	log_sizes: BTreeMap<String, u64>,
	file_recs: BTreeMap<String, Vec<u64>>,
	synced_len: BTreeMap<String, u64>,
}

impl TxSut {
	fn db(&self) -> &Db {
		self.db.as_ref().unwrap()
	}
	fn log_files(&self) -> Vec<(String, u64)> {
		let mut v = vec![];
		for e in std::fs::read_dir(&self.dir).unwrap() {
			let e = e.unwrap();
			let n = e.file_name().to_string_lossy().to_string();
			if n.starts_with("log") && n != "lock" {
				v.push((n, e.metadata().unwrap().len()));
			}
		}
		v
	}
	/// which log file grew (a record was appended), which were reclaimed
	fn scan(&mut self, appended: bool) {
		let files = self.log_files();
		let names: std::collections::BTreeSet<String> = files.iter().map(|x| x.0.clone()).collect();
		self.file_recs.retain(|n, _| names.contains(n));
		for (n, l) in files {
			let old = self.log_sizes.get(&n).copied().unwrap_or(0);
			if l < old || l == 0 {
				self.file_recs.remove(&n);
			}
			if appended && l > old {
				if old == 0 {
					self.file_recs.remove(&n);
				}
				self.file_recs.entry(n.clone()).or_default().push(l);
			}
			self.log_sizes.insert(n, l);
		}
	}
	fn abandon(&mut self) {
		if let Some(db) = self.db.take() {
			db.verif_store_err(Err(parity_db::Error::Io(std::io::Error::new(std::io::ErrorKind::Other, "abandoned by harness"))));
			let _ = std::panic::catch_unwind(std::panic::AssertUnwindSafe(move || drop(db)));
		}
	}
}

fn tx_case(seed: u64, root: &Path, t: &mut Trace, ctr: &mut Counters, prop: &str) -> bool {
	use parity_db::NewNode;
	let mut rng = Rng::new(seed ^ 0x7478_6361_7365);
	let kind = if rng.chance(1, 2) { CK::MtRc } else { CK::MtPlain };
	let cfg = Cfg { cols: vec![kind], comp: vec![CompressionType::NoCompression], salt: [9u8; 32] };
	t.begin_case(&format!("seed={} tx-case cfg={}", seed, cfg.describe()));
	t.op(&format!("c02xt init {}", cfg.describe()), "ok");
	ctr.inc("tx.cases");
	let dir = fresh_dir(root, &format!("c02xt-{}", seed));
	let db = Db::open_or_create(&cfg.options(&dir)).expect("create");
	let mut sut = TxSut {
		db: Some(db),
		dir: dir.clone(),
		queued: 0,
		logged: 0,
		files: vec![],
		enacted: 0,
		log_sizes: Default::default(),
		file_recs: Default::default(),
		synced_len: Default::default(),
	};
	let mut ok = true;
	let mut nontrivial = false;
	let mut w = TxWorld::default();
	let mut snaps: Vec<TxWorld> = vec![w.clone()];
	let mut keys: Vec<Vec<u8>> = vec![];
	let mut nodectr = 0u64;
	let mut keyctr = 0u64;
	let mut seen_addr: BTreeMap<u64, Vec<u8>> = Default::default();
	let crashes = 1 + rng.below(2);
	let mut to_clean: Vec<PathBuf> = vec![dir.clone()];
	for epoch in 0..=crashes {
		let ntx = if epoch == 0 { 4 + rng.below(7) } else { 2 + rng.below(4) };
		for _ in 0..ntx {
			// ---- generate one transaction (legal: DerefApart, DerefLive, LegalInOrder) ----
			let mut ops: Vec<TxOp> = vec![];
			let mut touched: std::collections::BTreeSet<Vec<u8>> = Default::default();
			let extra = if rng.chance(3, 5) { 1 + rng.below(3) } else { 0 };
			let live: Vec<Vec<u8>> = w.roots.keys().cloned().collect();
			// dereferences / references first in the choice, positions shuffled below
			for _ in 0..extra {
				match rng.below(4) {
					0 | 1 if !live.is_empty() => {
						let k = rng.pick(&live).clone();
						if touched.insert(k.clone()) {
							ops.push(TxOp::Deref(k));
						}
					},
					2 if !live.is_empty() && kind == CK::MtRc => {
						let k = rng.pick(&live).clone();
						if touched.insert(k.clone()) {
							ops.push(TxOp::Ref(k));
						}
					},
					_ => {},
				}
			}
			// nodes that may be shared: children (depth 1, 2) of live trees not touched by this tx
			let mut shareable: Vec<(usize, Vec<u8>, Vec<usize>)> = vec![];
			for (k, (_, cs, _)) in &w.roots {
				if touched.contains(k) {
					continue
				}
				for (i, c) in cs.iter().enumerate() {
					shareable.push((*c, k.clone(), vec![i]));
					for (j, c2) in w.arena[*c].1.iter().enumerate() {
						shareable.push((*c2, k.clone(), vec![i, j]));
					}
				}
			}
			let ninserts = 1 + if rng.chance(1, 4) { 1 } else { 0 };
			for _ in 0..ninserts {
				keyctr += 1;
				let k = format!("key{}", keyctr).into_bytes();
				keys.push(k.clone());
				nodectr += 1;
				let d = format!("r{}", nodectr).into_bytes();
				let mut budget = 6;
				let depth = 1 + rng.below(2) as u32;
				let cs = tx_gen_children(&mut rng, depth, &mut nodectr, &shareable, &mut budget);
				let pos = rng.below(ops.len() as u64 + 1) as usize;
				ops.insert(pos, TxOp::Insert(k, d, cs));
			}
			if ops.len() > 1 {
				ctr.inc("tx.ops.multi");
			}
			ctr.inc(&format!("tx.ops.per_tx.{}", ops.len()));
			// ---- model line + real commit ----
			let mut line = String::from("c02xt commit");
			let mut real: Vec<(u8, Operation<Vec<u8>, Vec<u8>>)> = vec![];
			let mut gen_err = None;
			for op in &ops {
				match op {
					TxOp::Insert(k, d, cs) => {
						let mut toks = vec![];
						tx_tokens(d, cs, &mut toks);
						line.push_str(&format!(" 0:insert:{}:{} {}", hex(k), toks.len(), toks.join(" ")));
						let mut children = vec![];
						for c in cs {
							match tx_to_real(sut.db(), c) {
								Ok(x) => children.push(x),
								Err(e) => gen_err = Some(e),
							}
						}
						real.push((0u8, Operation::InsertTree(k.clone(), NewNode { data: d.clone(), children })));
						ctr.inc("tx.op.insert");
					},
					TxOp::Ref(k) => {
						line.push_str(&format!(" 0:reftree:{}", hex(k)));
						real.push((0u8, Operation::ReferenceTree(k.clone())));
						ctr.inc("tx.op.reftree");
					},
					TxOp::Deref(k) => {
						line.push_str(&format!(" 0:dereftree:{}", hex(k)));
						real.push((0u8, Operation::DereferenceTree(k.clone())));
						ctr.inc("tx.op.dereftree");
					},
				}
			}
			if let Some(e) = gen_err {
				t.oracle_fail(prop, &format!("tx-case: cannot resolve an Existing child on the real Db: {}", e));
				ok = false;
				break
			}
			let r = sut.db().commit_changes(real);
			t.op(&line, &res(&r));
			if r.is_err() {
				t.oracle_fail(prop, "tx-case: a legal transaction was rejected");
				ok = false;
				break
			}
			sut.queued += 1;
			// address reuse, observed on the real Db: a node address that held another node before
			for op in &ops {
				if let TxOp::Insert(k, _, _) = op {
					let mut reused = 0u64;
					let _ = with_reader(sut.db(), 0, k, |rd| {
						if let Ok(Some((_, cs))) = rd.root(k) {
							let mut stack = cs;
							while let Some(a) = stack.pop() {
								if let Ok(Some((d, cs2))) = rd.node(a) {
									match seen_addr.get(&a) {
										Some(old) if *old != d => reused += 1,
										_ => {},
									}
									seen_addr.insert(a, d);
									stack.extend(cs2);
								}
							}
						}
					});
					if reused > 0 {
						ctr.inc("tx.reuse.inserts_with_reused_address");
						for _ in 0..reused {
							ctr.inc("tx.reuse.addresses");
						}
					}
				}
			}
			// oracle: the transaction applied atomically, in the order given (legal transactions
			// are inside DerefApart: planning order = order given)
			for op in &ops {
				match op {
					TxOp::Insert(k, d, cs) => {
						let kids: Vec<usize> = cs.iter().map(|c| tx_add(&mut w, c)).collect();
						w.roots.insert(k.clone(), (d.clone(), kids, 1));
					},
					TxOp::Ref(k) =>
						if let Some(e) = w.roots.get_mut(k) {
							e.2 += 1;
						},
					TxOp::Deref(k) => {
						let gone = match w.roots.get_mut(k) {
							Some(e) if e.2 > 1 => {
								e.2 -= 1;
								false
							},
							Some(_) => true,
							None => false,
						};
						if gone {
							w.roots.remove(k);
						}
					},
				}
			}
			snaps.push(w.clone());
			// ---- pipeline steps ----
			let choice = rng.below(8);
			let steps: &[&str] = match choice {
				0 | 1 => &[],
				2 | 3 => &["process"],
				4 => &["process", "flush"],
				5 => &["process", "flush", "enact"],
				6 => &["process", "process", "flush"],
				_ => &["flush", "enact"],
			};
			for st in steps {
				match *st {
					"process" => {
						if sut.queued == 0 {
							continue
						}
						let r = sut.db().process_commits();
						sut.scan(true);
						sut.queued -= 1;
						sut.logged += 1;
						t.op("c02xt process", &res(&r));
						ctr.inc("tx.step.process");
						if r.is_err() {
							ok = false;
						}
					},
					"flush" => {
						let r = sut.db().flush_logs();
						sut.scan(false);
						if sut.logged > 0 {
							sut.files.push(sut.logged);
							sut.logged = 0;
						}
						sut.synced_len = sut.log_sizes.clone();
						t.op("c02xt flush", &res(&r));
						ctr.inc("tx.step.flush");
						if r.is_err() {
							ok = false;
						}
					},
					_ => {
						if sut.files.is_empty() {
							continue
						}
						let r = sut.db().enact_logs();
						let k = sut.files.remove(0);
						sut.enacted += k;
						let r2 = sut.db().clean_logs();
						sut.scan(false);
						t.op("c02xt enact", &match &r {
							Ok(_) => format!("ok records={}", k),
							Err(e) => format!("err:{}", err_kind(e)),
						});
						ctr.inc("tx.step.enact");
						if r.is_err() || r2.is_err() {
							ok = false;
						}
					},
				}
			}
			if !ok {
				t.oracle_fail(prop, "tx-case: a fault-free step failed");
				break
			}
		}
		if !ok || epoch == crashes {
			break
		}
		// ---- crash point ----
		// in 2 of 5 crash points the crash strikes INSIDE enact_logs / flush_logs (fault injector):
		// the image then holds a partially enacted record (crash (j, n) with j > 0), the log
		// files are intact; the model state is the one BEFORE the step
		let mut img_taken: Option<PathBuf> = None;
		if rng.chance(2, 5) {
			let step = if !sut.files.is_empty() && rng.chance(2, 3) { "enact" } else { "flush" };
			let idx = rng.below(10) as usize;
			arm(idx);
			let r = {
				let db = sut.db();
				std::panic::catch_unwind(std::panic::AssertUnwindSafe(|| if step == "enact" { db.enact_logs() } else { db.flush_logs() }))
			};
			disarm();
			match r {
				Err(_) => {
					t.oracle_fail(prop, &format!("tx-case: {} panicked under an I/O fault at file operation {}", step, idx));
					ok = false;
					break
				},
				Ok(Ok(())) => {
					ctr.inc(&format!("tx.fault.not_reached.{}", step));
					if step == "enact" {
						let k = sut.files.remove(0);
						sut.enacted += k;
						let _ = sut.db().clean_logs();
						sut.scan(false);
						t.op("c02xt enact", &format!("ok records={}", k));
					} else {
						sut.scan(false);
						if sut.logged > 0 {
							sut.files.push(sut.logged);
							sut.logged = 0;
						}
						sut.synced_len = sut.log_sizes.clone();
						t.op("c02xt flush", "ok");
					}
				},
				Ok(Err(e)) => {
					ctr.inc(&format!("tx.crash.inside.{}", step));
					ctr.inc(&format!("tx.crash.inside.{}.at.{:02}", step, idx));
					t.comment(&format!("crash inside {} at file operation {}: {}", step, idx, err_kind(&e)));
					let img = fresh_dir(root, &format!("c02xt-{}-img{}", seed, epoch));
					copy_dir(&sut.dir, &img);
					img_taken = Some(img);
				},
			}
		}
		t.op(
			"c02xt stages",
			&format!("queued={} logged={} flushed={} enacted={}", sut.queued, sut.logged + sut.files.iter().sum::<usize>(), sut.files.iter().sum::<usize>(), sut.enacted),
		);
		ctr.inc("tx.crash_points");
		if sut.queued > 0 || sut.logged > 0 {
			nontrivial = true;
		}
		let inside = img_taken.is_some();
		let img = match img_taken {
			Some(i) => i,
			None => {
				let i = fresh_dir(root, &format!("c02xt-{}-img{}", seed, epoch));
				copy_dir(&sut.dir, &i);
				i
			},
		};
		let _ = std::fs::remove_file(img.join("lock"));
		let cut = rng.chance(1, 2);
		if cut {
			let kept = cut_tails(&img, &sut.synced_len, &mut rng);
			ctr.inc(if !kept.is_empty() { "tx.crash.cut_tail" } else if inside { "tx.crash.inside_step" } else { "tx.crash.boundary" });
		} else {
			ctr.inc(if inside { "tx.crash.inside_step" } else { "tx.crash.boundary" });
		}
		// the log files of the image with the ids of their complete records
		let mut fl: Vec<(u32, String)> = vec![];
		for e in std::fs::read_dir(&img).unwrap() {
			let e = e.unwrap();
			let n = e.file_name().to_string_lossy().to_string();
			if !n.starts_with("log") {
				continue
			}
			let num: u32 = match n[3..].parse() {
				Ok(x) => x,
				Err(_) => continue,
			};
			let len = e.metadata().unwrap().len();
			if len < 9 {
				continue
			}
			let bytes = std::fs::read(e.path()).unwrap();
			let mut ids: Vec<String> = vec![];
			let mut start = 0u64;
			for end in sut.file_recs.get(&n).cloned().unwrap_or_default() {
				if end <= len && start + 9 <= len {
					let s0 = start as usize;
					ids.push(u64::from_le_bytes(bytes[s0 + 1..s0 + 9].try_into().unwrap()).to_string());
					start = end;
				} else {
					break
				}
			}
			fl.push((num, if ids.is_empty() { "-".to_string() } else { ids.join(",") }));
		}
		fl.sort();
		let files_line = format!("c02xt files{}", fl.iter().map(|(n, i)| format!(" {}:{}", n, i)).collect::<String>());
		let accepted = snaps.len() - 1;
		sut.abandon();
		match std::panic::catch_unwind(std::panic::AssertUnwindSafe(|| Db::open(&cfg.options(&img)))) {
			Ok(Ok(db)) => {
				sut.db = Some(db);
				sut.dir = img.clone();
				to_clean.push(img.clone());
				sut.log_sizes.clear();
				sut.file_recs.clear();
				sut.synced_len.clear();
				sut.scan(false);
				// observed forest
				let mut obs: Vec<String> = vec![];
				for k in &keys {
					obs.push(with_reader(sut.db(), 0, k, |rd| render_raw(rd, k)).and_then(|x| x).unwrap_or_else(|e| format!("read-error {}", e)));
				}
				let lo = sut.enacted + sut.files.iter().sum::<usize>();
				let matches: Vec<usize> = (0..snaps.len()).filter(|j| keys.iter().zip(obs.iter()).all(|(k, o)| snaps[*j].render(k) == *o)).collect();
				let n = sut.db().get_num_column_value_entries(0);
				if matches.len() != 1 {
					t.oracle_fail(prop, &format!("tx-case: the recovered forest is the forest of {} prefixes of the {} accepted transactions (expected exactly one)", matches.len(), accepted));
					t.op(&files_line, "prefix=? leaked=?");
					ok = false;
					break
				}
				let m = matches[0];
				if m < lo {
					t.oracle_fail(prop, &format!("tx-case: recovered prefix {} loses a synced transaction (synced {})", m, lo));
					ok = false;
				}
				w = snaps[m].clone();
				snaps.truncate(m + 1);
				let live = w.entries();
				let leaked = match &n {
					Ok(x) if *x >= live => (*x - live).to_string(),
					Ok(x) => {
						t.oracle_fail(prop, &format!("tx-case: entry count {} below the live entries {}", x, live));
						ok = false;
						"neg".to_string()
					},
					Err(_) => "err".to_string(),
				};
				t.comment(&format!("crash epoch={} cut={} accepted={} synced={} recovered prefix={} entries={:?} live={}", epoch, cut, accepted, lo, m, n.as_ref().ok(), live));
				t.op(&files_line, &format!("prefix={} leaked={}", m, leaked));
				ctr.inc(&format!("tx.prefix.lost.{}", std::cmp::min(accepted - m, 9)));
				ctr.inc(&format!("tx.leak.observed.{}", leaked));
				if leaked != "0" && leaked != "err" && leaked != "neg" {
					ctr.inc("finding.F19.claimed_slots_leaked");
					t.known(prop, "F19", &format!("CLAIMED-SLOTS-LEAKED tx-case seed={} epoch={}: recovered prefix {} of {} accepted transactions, get_num_column_value_entries = {:?}, live nodes + roots = {}: {} slots claimed by lost transactions stay allocated (predicted exactly by the model: C02xTx_leak_exactly_F19)", seed, epoch, m, accepted, n.as_ref().ok(), live, leaked));
				}
				for (k, o) in keys.iter().zip(obs.iter()) {
					t.op(&format!("c02xt tree 0 {}", hex(k)), o);
				}
				t.op("c02xt count 0", &match &n {
					Ok(n) => n.to_string(),
					Err(e) => format!("err:{}", err_kind(e)),
				});
				sut.queued = 0;
				sut.logged = 0;
				sut.files.clear();
				sut.enacted = m;
			},
			_ => {
				t.op(&files_line, "open-failed");
				t.oracle_fail(prop, "tx-case: recovery open failed");
				ok = false;
				break
			},
		}
	}
	// final observation of the continued database
	if ok && sut.db.is_some() {
		// drain the queue first: a queued DereferenceTree is not visible to readers
		while sut.queued > 0 {
			let r = sut.db().process_commits();
			sut.scan(true);
			sut.queued -= 1;
			sut.logged += 1;
			t.op("c02xt process", &res(&r));
		}
		for k in &keys {
			let o = with_reader(sut.db(), 0, k, |rd| render_raw(rd, k)).and_then(|x| x).unwrap_or_else(|e| format!("read-error {}", e));
			if o != w.render(k) {
				t.oracle_fail(prop, &format!("tx-case: tree {} reads {} but the oracle forest has {}", hex(k), o, w.render(k)));
				ok = false;
			}
			t.op(&format!("c02xt tree 0 {}", hex(k)), &o);
		}
		let n = sut.db().get_num_column_value_entries(0);
		t.op("c02xt count 0", &match &n {
			Ok(n) => n.to_string(),
			Err(e) => format!("err:{}", err_kind(e)),
		});
	}
	sut.abandon();
	for d in to_clean {
		let _ = std::fs::remove_dir_all(&d);
	}
	ctr.inc("cases");
	if nontrivial {
		ctr.inc("cases.nontrivial");
		ctr.inc("tx.cases.nontrivial");
	}
	t.end_case(nontrivial);
	ok
}

pub fn run(seeds: &[u64], thorough: bool, root: &Path, t: &mut Trace, ctr: &mut Counters, prop: &str) -> u64 {
	let mut fails = 0;
	for s in seeds {
		let r = std::panic::catch_unwind(std::panic::AssertUnwindSafe(|| run_case(*s, thorough, root, t, ctr, prop)));
		disarm();
		match r {
			Ok(true) => {},
			Ok(false) => {
				fails += 1;
				t.comment(&format!("FAILED-CASE seed={}", s));
			},
			Err(_) => {
				fails += 1;
				t.oracle_fail(prop, &format!("panic while running case seed={}", s));
				t.end_case(true);
			},
		}
		let r = std::panic::catch_unwind(std::panic::AssertUnwindSafe(|| tx_case(*s, root, t, ctr, prop)));
		match r {
			Ok(true) => {},
			Ok(false) => {
				fails += 1;
				t.comment(&format!("FAILED-CASE seed={} (tx-case)", s));
			},
			Err(_) => {
				fails += 1;
				t.oracle_fail(prop, &format!("panic while running tx-case seed={}", s));
				t.end_case(true);
			},
		}
		if *s % 16 == 0 && !scenario_claim_leak(*s, root, t, ctr, prop) {
			fails += 1;
			t.comment(&format!("FAILED-CASE seed={} (scenario claim-leak)", s));
		}
	}
	fails
}

